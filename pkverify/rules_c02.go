package main

import (
	"fmt"
	"go/constant"
	"go/token"
	"go/types"
	"strings"
	"time"

	"golang.org/x/tools/go/ssa"
)

const (
	c02BSPath   = "perkeep.org/pkg/blobserver"
	c02BlobPath = "perkeep.org/pkg/blob"
)

func init() {
	register(&PropSpec{
		ID:    "C02",
		Title: "Only bytes matching their blobref, within the size cap, are ever accepted",
		Explanation: "Decided (structural necessary conditions): " +
			"R-entry — every non-test call of BlobReceiver.ReceiveBlob (any implementer, static or through an interface) and of blobserver.ReceiveNoHash is classified by computed acceptance idioms: inside blobserver.receive; delegation by a ReceiveBlob method of its own (ref, source) — the stream itself or a buffer filled by one checked, complete read of it and not touched since; the ref is blob.RefFromBytes/RefFromString of the very bytes/string/buffer/field that feed the reader; bytes hashed while read with HashMatches(ref)==true dominating; re-population from a checked Fetch of the same ref; a (ref,string) forwarding helper whose callers satisfy the ref-of-same-bytes idiom; or the destination's static type is a store whose own ReceiveBlob re-verifies the digest. Anything else is a violation; ReceiveNoHash/ReceiveBlob taken as a function value is undecided. Callers of blobserver.receive with checkHash != true are restricted to ReceiveNoHash. " +
			"R-core — in blobserver.receive the reader handed to dst.ReceiveBlob is, unless checkHash is known false, a checkHashReader over io.LimitReader(src, MaxBlobSize) for the same ref with a non-nil br.Hash(); hub notification and every nil-error return are dominated by success of dst.ReceiveBlob; in checkHashReader.Read the bytes read are hashed before the comparison and the underlying error is returned unchanged only where it is known not to be EOF or HashMatches is known true. " +
			"R-http — the PUT handler calls Receive on its own storage with the parsed ref only under ContentLength<=MaxBlobSize, Parse ok and IsSupported; every path on which Receive's error may be non-nil writes an error status, a success status only under err==nil; the multipart handler lists in UploadResponse.Received only results of Receive under err==nil of the (oversize-overridden) error. " +
			"R-commit — for every ReceiveBlob implementation, every commit point (delegated receive, sorted.KeyValue Set/Delete/CommitBatch, VFS rename, store into a receiver-field map, and a short table of commit helpers/remote put calls) is the call that consumes the source or is dominated by the err==nil edge of a complete read of it (io.Copy/ReadAll/ReadFrom/delegation); the read error of a consumer is never discarded; stores that compare the digest themselves commit only under HashMatches==true; every nil-error return follows a successful consumer (R-verdict). " +
			"NOT decided: that the hash functions compute the right digest; behaviour at exactly 16 MiB; fragmentation of readers; that opaque third-party upload calls (S3, Drive, Azure, GCS, mgo, the perkeep client) abort atomically when their body reader fails; aliasing beyond single-store locals, captured variables and receiver-rooted field paths; callees mutating a buffer they were not passed; what test-support packages do.",
		RuleDocs: map[string]string{
			"R-entry":   "who-may-call: every call of BlobReceiver.ReceiveBlob / blobserver.ReceiveNoHash outside test support, classified by value-flow idioms (delegation of own source, ref computed from the same bytes, hash-verified buffer, re-population from Fetch, re-verifying destination type); callers of receive(checkHash=false)",
			"R-core":    "blobserver.receive and checkHashReader.Read: value chain of the reader handed to the backend, nil-hash guard, notification and success returns dominated by ReceiveBlob success, EOF turned into ErrCorruptBlob unless the digest matches",
			"R-http":    "PUT and multipart upload handlers: guards dominating Receive, error status on every failing path, Received list built only from successful verified receives, oversize override",
			"R-commit":  "every ReceiveBlob implementation: commit points dominated by success of the call that consumes source; consumer errors not discarded; re-verifying stores commit under HashMatches==true",
			"R-verdict": "every ReceiveBlob implementation: a nil-error return is dominated by success of a call that consumed source (the digest/size verdict of blobserver.Receive reaches a backend only as that read error)",
		},
		Run:       runC02,
		DesignRef: "DESIGN.md §4 C02",
		Technique: "static analysis: type-resolved who-may-call with value-flow acceptance idioms, dominance on err==nil / HashMatches edges over go/ssa, forward taint of the source reader, path exploration for error responses",
		LevelText: "Decides structural necessary conditions only: which code may hand bytes to a store without the hash check and why those bytes are the ones the ref was computed from; that the verified core wraps the size cap and the digest comparison and notifies only after success; that the HTTP handlers guard, report and list correctly on every CFG path; that every backend commits only after the read of source succeeded. Does not decide digests, the 16 MiB boundary behaviour, reader fragmentation or atomicity of third-party uploads.",
	})
}

// c02Ctx carries the resolved anchors of one run.
type c02Ctx struct {
	p        *Program
	r        *Reporter
	recv     *types.Interface // blobserver.BlobReceiver
	kv       *types.Interface // sorted.KeyValue
	vfs      *types.Interface // files.VFS
	fetcher  *types.Interface // blob.Fetcher
	ioReader *types.Interface
	maxBlob  int64
	reverify map[*ssa.Function]int // 0 unknown, 1 yes, 2 no
	k5seen   map[string]bool
}

func runC02(p *Program, r *Reporter) {
	x := &c02Ctx{p: p, r: r, reverify: map[*ssa.Function]int{}, k5seen: map[string]bool{}}
	x.recv = p.Iface("pkg/blobserver", "BlobReceiver")
	x.kv = p.Iface("pkg/sorted", "KeyValue")
	x.vfs = p.Iface("pkg/blobserver/files", "VFS")
	x.fetcher = p.Iface("pkg/blob", "Fetcher")
	iop := p.ByPath["io"]
	if iop == nil || iop.Types == nil {
		brokenf("anchor unresolved: package io")
	}
	tn, _ := iop.Types.Scope().Lookup("Reader").(*types.TypeName)
	if tn == nil {
		brokenf("anchor unresolved: io.Reader")
	}
	x.ioReader = tn.Type().Underlying().(*types.Interface)
	x.maxBlob = c02ConstInt(p, "pkg/blobserver", "MaxBlobSize")
	t0 := time.Now()
	c02RuleCore(x)
	c02RuleHTTP(x)
	c02RuleCommit(x)
	c02RuleEntry(x)
	r.Note("C02 rules ran in %.2fs after loading", time.Since(t0).Seconds())
}

// ---------------------------------------------------------------------------
// small general helpers (c02-prefixed; candidates for helpers.go)

func c02ConstInt(p *Program, rel, name string) int64 {
	c, _ := p.Pkg(rel).Types.Scope().Lookup(name).(*types.Const)
	if c == nil {
		brokenf("anchor unresolved: constant %s.%s", rel, name)
	}
	v, ok := constant.Int64Val(constant.ToInt(c.Val()))
	if !ok {
		brokenf("anchor unresolved: constant %s.%s is not an integer", rel, name)
	}
	return v
}

func (x *c02Ctx) isReaderType(t types.Type) bool {
	if t == nil {
		return false
	}
	if types.Implements(t, x.ioReader) {
		return true
	}
	if _, isPtr := t.(*types.Pointer); !isPtr {
		if _, isIface := t.Underlying().(*types.Interface); !isIface {
			return types.Implements(types.NewPointer(t), x.ioReader)
		}
	}
	return false
}

// c02Origin is originValue that also resolves a free variable to the value
// bound where the closure is made.
func c02Origin(v ssa.Value) ssa.Value {
	for i := 0; i < 8 && v != nil; i++ {
		v = originValue(v)
		fv, ok := v.(*ssa.FreeVar)
		if !ok {
			return v
		}
		b := bindingOf(fv)
		if b == nil {
			return v
		}
		v = b
	}
	return v
}

// c02EdgeFacts are the branch facts known when control flows from pred to succ.
func c02EdgeFacts(pred, succ *ssa.BasicBlock) []CondFact {
	out := append([]CondFact(nil), FactsAt(pred)...)
	if n := len(pred.Instrs); n > 0 {
		if ifi, ok := pred.Instrs[n-1].(*ssa.If); ok && len(pred.Succs) == 2 && pred.Succs[0] != pred.Succs[1] {
			if pred.Succs[0] == succ {
				out = append(out, CondFact{ifi.Cond, true, pred})
			} else if pred.Succs[1] == succ {
				out = append(out, CondFact{ifi.Cond, false, pred})
			}
		}
	}
	return out
}

// c02Fact looks for a fact whose condition (after stripping negations) satisfies pred.
func c02Fact(facts []CondFact, pred func(cond ssa.Value) bool) (known, val bool) {
	for _, f := range facts {
		cond, v := f.Cond, f.Val
		for {
			if u, ok := cond.(*ssa.UnOp); ok && u.Op == token.NOT {
				cond, v = u.X, !v
				continue
			}
			break
		}
		if pred(cond) || pred(originValue(cond)) {
			return true, v
		}
	}
	return false, false
}

// c02Incoming splits a value into (value, facts) pairs: one per phi edge, or
// the value itself with the facts of block at.
type c02In struct {
	Val   ssa.Value
	Facts []CondFact
	From  *ssa.BasicBlock
}

func c02Incoming(v ssa.Value, at *ssa.BasicBlock) []c02In {
	if ph, ok := v.(*ssa.Phi); ok {
		var out []c02In
		for i, e := range ph.Edges {
			pred := ph.Block().Preds[i]
			if inner, ok := e.(*ssa.Phi); ok && inner != ph {
				for _, in := range c02Incoming(inner, pred) {
					in.Facts = append(in.Facts, c02EdgeFacts(pred, ph.Block())...)
					out = append(out, in)
				}
				continue
			}
			out = append(out, c02In{e, c02EdgeFacts(pred, ph.Block()), pred})
		}
		return out
	}
	if len(at.Preds) > 1 {
		// a merge block: what is known differs per incoming edge
		var out []c02In
		for _, pred := range at.Preds {
			out = append(out, c02In{v, c02EdgeFacts(pred, at), pred})
		}
		return out
	}
	return []c02In{{v, FactsAt(at), at}}
}

func c02AsCall(v ssa.Value) (CallSite, bool) {
	if c, ok := v.(*ssa.Call); ok {
		return CallSite{c.Parent(), c}, true
	}
	return CallSite{}, false
}

func c02LastInstr(b *ssa.BasicBlock) ssa.Instruction { return b.Instrs[len(b.Instrs)-1] }

func c02AllInstrs(top *ssa.Function, visit func(f *ssa.Function, in ssa.Instruction)) {
	var walk func(f *ssa.Function)
	walk = func(f *ssa.Function) {
		for _, b := range f.Blocks {
			for _, in := range b.Instrs {
				visit(f, in)
			}
		}
		for _, a := range f.AnonFuncs {
			walk(a)
		}
	}
	walk(top)
}

func c02Reaches(a, b ssa.Instruction) bool {
	return a.Parent() == b.Parent() && ReachableFrom(a, nil)[b]
}

// c02ReachesAvoiding: b is reachable from a on a path that does not execute avoid.
func c02ReachesAvoiding(a, b, avoid ssa.Instruction) bool {
	if a.Parent() != b.Parent() {
		return false
	}
	return ReachableFrom(a, func(in ssa.Instruction) bool { return in == avoid && in != b })[b]
}

// c02LiteralAnchors returns the instructions of the parent at which literal l
// starts executing (its call/go/defer sites), or its MakeClosure when the
// closure value is used in any other way.
func c02LiteralAnchors(l *ssa.Function) []ssa.Instruction {
	par := l.Parent()
	if par == nil {
		return nil
	}
	var mcs []ssa.Instruction
	onlyCalled := true
	for _, b := range par.Blocks {
		for _, in := range b.Instrs {
			mc, ok := in.(*ssa.MakeClosure)
			if !ok || mc.Fn != ssa.Value(l) {
				continue
			}
			mcs = append(mcs, mc)
			var check func(v ssa.Value, depth int)
			check = func(v ssa.Value, depth int) {
				refs := v.Referrers()
				if refs == nil || depth > 3 {
					return
				}
				for _, u := range *refs {
					switch u := u.(type) {
					case *ssa.DebugRef:
					case ssa.CallInstruction:
						if u.Common().Value != v {
							onlyCalled = false
						}
					case *ssa.Store:
						al, isAl := u.Addr.(*ssa.Alloc)
						if u.Val != v || !isAl || !plainVariable(al) {
							onlyCalled = false
						}
					default:
						onlyCalled = false
					}
				}
			}
			check(mc, 0)
		}
	}
	var calls []ssa.Instruction
	for _, c := range CallsIn(par, false) {
		if c.Callee() == l {
			calls = append(calls, c.Instr)
		}
	}
	if onlyCalled && len(calls) > 0 {
		return calls
	}
	return mcs
}

// c02SuccDom: call c succeeded on every path to site s, where s may sit in a
// function literal directly nested in c's function (then every start of the
// literal must be dominated).
func c02SuccDom(c *ssa.Call, s ssa.Instruction) (bool, string) {
	if c.Parent() == s.Parent() {
		return c02SuccessDominates(c, s)
	}
	l := s.Parent()
	if l.Parent() != c.Parent() {
		return false, "site is in a different function than the call"
	}
	anchors := c02LiteralAnchors(l)
	if len(anchors) == 0 {
		return false, "no start site of the enclosing literal found"
	}
	for _, a := range anchors {
		if ok, why := c02SuccessDominates(c, a); !ok {
			return false, "enclosing literal may start where " + why
		}
	}
	return true, ""
}

// c02CellVal: for a load of a local variable whose address is taken (so
// originValue cannot resolve it), the value stored to it earlier in the same
// block with no call in between.
func c02CellVal(v ssa.Value) ssa.Value {
	var out ssa.Value
	for i := 0; i < 4; i++ {
		ld, ok := v.(*ssa.UnOp)
		if !ok || ld.Op != token.MUL {
			break
		}
		al, ok := ld.X.(*ssa.Alloc)
		if !ok {
			break
		}
		var next ssa.Value
		instrs := ld.Block().Instrs
	scan:
		for i := instrIndex(ld) - 1; i >= 0; i-- {
			switch t := instrs[i].(type) {
			case *ssa.Store:
				if t.Addr == ssa.Value(al) {
					next = t.Val
					break scan
				}
			case ssa.CallInstruction:
				break scan
			}
		}
		if next == nil {
			if st := reachingStore(al, ld); st != nil {
				next = st.Val
			}
		}
		if next == nil {
			break
		}
		out, v = next, next
	}
	return out
}

// c02NilKnown is NilFact that also understands `x = f(); if x != nil` on a
// variable whose address is taken elsewhere.
func c02NilKnown(b *ssa.BasicBlock, v ssa.Value) (known, isNil bool) {
	if k, n := NilFact(b, v); k {
		return k, n
	}
	for _, f := range FactsAt(b) {
		cond, val := f.Cond, f.Val
		for {
			if u, ok := cond.(*ssa.UnOp); ok && u.Op == token.NOT {
				cond, val = u.X, !val
				continue
			}
			break
		}
		bo, ok := cond.(*ssa.BinOp)
		if !ok || bo.Op != token.EQL && bo.Op != token.NEQ {
			continue
		}
		var other ssa.Value
		if IsNilConst(bo.Y) {
			other = bo.X
		} else if IsNilConst(bo.X) {
			other = bo.Y
		} else {
			continue
		}
		if cv := c02CellVal(other); cv != nil && sameOrigin(cv, v) {
			return true, (bo.Op == token.EQL) == val
		}
	}
	return false, false
}

func c02SuccessDominates(c *ssa.Call, s ssa.Instruction) (bool, string) {
	ok, why := SuccessDominates(c, s)
	if ok || !Precedes(c, s) {
		return ok, why
	}
	ev, hasErr, disc := ErrValue(c)
	if !hasErr || disc {
		return ok, why
	}
	if k, isNil := c02NilKnown(s.Block(), ev); k && isNil {
		return true, ""
	}
	return false, why
}

func c02IsBytesBufferPtr(t types.Type) bool {
	pt, ok := t.(*types.Pointer)
	return ok && IsNamed(pt.Elem(), "bytes", "Buffer")
}

// c02Elems expands a variadic slice argument into the values stored into its
// backing array; other values are returned as is.
func c02Elems(v ssa.Value) []ssa.Value {
	sl, ok := v.(*ssa.Slice)
	if !ok {
		return []ssa.Value{v}
	}
	al, ok := sl.X.(*ssa.Alloc)
	if !ok || al.Referrers() == nil {
		return []ssa.Value{v}
	}
	var out []ssa.Value
	for _, u := range *al.Referrers() {
		ia, ok := u.(*ssa.IndexAddr)
		if !ok || ia.Referrers() == nil {
			continue
		}
		for _, uu := range *ia.Referrers() {
			if st, ok := uu.(*ssa.Store); ok && st.Addr == ssa.Value(ia) {
				out = append(out, st.Val)
			}
		}
	}
	if len(out) == 0 {
		return []ssa.Value{v}
	}
	return out
}

// c02ArgsExpanded lists the call's arguments (receiver first) with variadic
// slices expanded.
func c02ArgsExpanded(c CallSite) []ssa.Value {
	var out []ssa.Value
	for _, a := range c.Args() {
		out = append(out, c02Elems(a)...)
	}
	return out
}

func c02FieldLoad(v ssa.Value, field string) (*ssa.FieldAddr, bool) {
	ld, ok := v.(*ssa.UnOp)
	if !ok || ld.Op != token.MUL {
		return nil, false
	}
	fa, ok := ld.X.(*ssa.FieldAddr)
	if !ok || fieldName(fa.X.Type(), fa.Field) != field {
		return nil, false
	}
	return fa, true
}

func c02ParamOfType(fn *ssa.Function, match func(types.Type) bool) *ssa.Parameter {
	var found *ssa.Parameter
	for i, prm := range fn.Params {
		if i == 0 && fn.Signature.Recv() != nil {
			continue
		}
		if match(prm.Type()) {
			if found != nil {
				return nil
			}
			found = prm
		}
	}
	return found
}

func c02IsBlobRef(t types.Type) bool {
	n, ok := t.(*types.Named)
	return ok && n.Obj().Name() == "Ref" && n.Obj().Pkg() != nil && n.Obj().Pkg().Path() == c02BlobPath
}

func (x *c02Ctx) isReceiveBlobCall(c CallSite) bool { return c.IsMethod("ReceiveBlob", x.recv) }

func c02IsReceiveFamily(c CallSite) (name string, ok bool) {
	for _, n := range []string{"Receive", "ReceiveNoHash", "ReceiveString"} {
		if c.IsStatic(c02BSPath, "", n) {
			return n, true
		}
	}
	return "", false
}

// isReceiveBlobImpl: fn is a declared ReceiveBlob method of a BlobReceiver.
func (x *c02Ctx) isReceiveBlobImpl(fn *ssa.Function) bool {
	if fn == nil || fn.Name() != "ReceiveBlob" || fn.Signature.Recv() == nil || fn.Parent() != nil || fn.Synthetic != "" {
		return false
	}
	t := fn.Signature.Recv().Type()
	if types.Implements(t, x.recv) {
		return true
	}
	if _, isPtr := t.(*types.Pointer); !isPtr {
		return types.Implements(types.NewPointer(t), x.recv)
	}
	return false
}

// ---------------------------------------------------------------------------
// R-core

func c02RuleCore(x *c02Ctx) {
	p, r := x.p, x.r
	const rule = "R-core"
	fn := p.Func("pkg/blobserver", "", "receive")
	noHash := p.Func("pkg/blobserver", "", "ReceiveNoHash")
	p.Func("pkg/blobserver", "", "Receive")
	key := FuncKey(fn)
	dst := c02ParamOfType(fn, func(t types.Type) bool { return IsNamed(t, c02BSPath, "BlobReceiver") })
	br := c02ParamOfType(fn, c02IsBlobRef)
	src := c02ParamOfType(fn, func(t types.Type) bool { return IsNamed(t, "io", "Reader") })
	chk := c02ParamOfType(fn, func(t types.Type) bool {
		b, ok := t.(*types.Basic)
		return ok && b.Kind() == types.Bool
	})
	if dst == nil || br == nil || src == nil || chk == nil {
		brokenf("anchor unresolved: parameters (BlobReceiver, blob.Ref, io.Reader, bool) of blobserver.receive")
	}
	chkIdx := -1
	for i, prm := range fn.Params {
		if prm == chk {
			chkIdx = i
		}
	}

	// table agreement of the cap
	cmax := c02ConstInt(p, "pkg/constants", "MaxBlobSize")
	r.Check(cmax == x.maxBlob && cmax == 16<<20, rule, "pkg/constants.MaxBlobSize#value", "", "constants.MaxBlobSize == blobserver.MaxBlobSize == 16 MiB (the cap the property names)",
		fmt.Sprintf("constants.MaxBlobSize=%d, blobserver.MaxBlobSize=%d, property names 16 MiB", cmax, x.maxBlob))

	// who may call receive, and with which checkHash
	if uses := p.FuncValueUses(fn); len(uses) > 0 {
		r.Undecided(rule, key+"#func-value", p.Pos(uses[0].Pos()), "blobserver.receive is used as a function value; its callers can no longer be enumerated")
	}
	for _, c := range p.StaticCallers(fn) {
		construct := FuncKey(c.Fn) + "#calls-receive"
		arg := c.Args()[chkIdx]
		cst, isConst := originValue(arg).(*ssa.Const)
		switch {
		case isConst && cst.Value != nil && constant.BoolVal(cst.Value):
			r.OKTable(rule, construct, p.Pos(c.Pos()), "calls receive with checkHash=true")
		case c.Fn == noHash:
			r.OKTable(rule, construct, p.Pos(c.Pos()), "the one unverified entry point; its callers are classified by R-entry")
		default:
			r.Violation(rule, construct, p.Pos(c.Pos()), "calls blobserver.receive without a constant checkHash=true and is not ReceiveNoHash: a new unverified ingest entry point whose callers R-entry does not enumerate")
		}
	}

	// the one backend call
	var rb *ssa.Call
	nrb := 0
	for _, c := range CallsIn(fn, true) {
		if x.isReceiveBlobCall(c) {
			nrb++
			rb = c.Value()
		}
	}
	if nrb != 1 || rb == nil || rb.Parent() != fn {
		r.Violation(rule, key+"#backend-call", p.Pos(fn.Pos()), fmt.Sprintf("expected exactly one direct dst.ReceiveBlob call in blobserver.receive, found %d", nrb))
		r.Floor(rule, 11)
		return
	}
	rbc := CallSite{fn, rb}
	site := p.Pos(rb.Pos())
	args := rbc.Args() // recv, ctx, br, src
	r.Check(c02Origin(args[0]) == ssa.Value(dst) && c02Origin(args[2]) == ssa.Value(br), rule, key+"#backend-call:same-dst-and-ref", site,
		"the backend call receives on the dst and under the ref that were passed in", "dst.ReceiveBlob is not called on receive's own dst with receive's own ref")

	isLimited := func(v ssa.Value) bool {
		c, ok := c02AsCall(c02Origin(v))
		if !ok || !c.IsStatic("io", "", "LimitReader") {
			return false
		}
		n, ok := ConstInt(c.Args()[1])
		return ok && n == x.maxBlob && c02Origin(c.Args()[0]) == ssa.Value(src)
	}
	isChkFact := func(cond ssa.Value) bool { return originValue(cond) == ssa.Value(chk) }
	bad := ""
	nin := 0
	for _, in := range c02Incoming(args[3], rb.Block()) {
		nin++
		known, val := c02Fact(in.Facts, isChkFact)
		if known && !val {
			if !isLimited(in.Val) {
				bad = "on the checkHash=false path the reader is not io.LimitReader(src, MaxBlobSize)"
			}
			continue
		}
		// must be the hash-checking reader
		al, ok := c02Origin(in.Val).(*ssa.Alloc)
		if !ok || !IsNamed(al.Type(), c02BSPath, "checkHashReader") {
			bad = "where checkHash is not known false the reader handed to the backend is not a *checkHashReader"
			continue
		}
		fields := map[string]*ssa.Store{}
		if al.Referrers() != nil {
			for _, u := range *al.Referrers() {
				fa, ok := u.(*ssa.FieldAddr)
				if !ok || fa.Referrers() == nil {
					continue
				}
				for _, uu := range *fa.Referrers() {
					if st, ok := uu.(*ssa.Store); ok && st.Addr == ssa.Value(fa) {
						fields[fieldName(fa.X.Type(), fa.Field)] = st
					}
				}
			}
		}
		// by type: the reader field, the ref field, the hash field
		var fSrc, fRef, fHash *ssa.Store
		for _, st := range fields {
			switch {
			case IsNamed(st.Val.Type(), "io", "Reader"):
				fSrc = st
			case c02IsBlobRef(st.Val.Type()):
				fRef = st
			case IsNamed(st.Val.Type(), "hash", "Hash"):
				fHash = st
			}
		}
		switch {
		case fSrc == nil || !isLimited(fSrc.Val):
			bad = "checkHashReader does not wrap io.LimitReader(src, MaxBlobSize): an oversize body would not be cut (and so mismatched) before the digest comparison"
		case fRef == nil || c02Origin(fRef.Val) != ssa.Value(br):
			bad = "checkHashReader compares against a ref other than the one the backend stores under"
		case fHash == nil:
			bad = "checkHashReader has no hash"
		default:
			hc, ok := c02AsCall(c02Origin(fHash.Val))
			if !ok || !hc.IsStatic(c02BlobPath, "Ref", "Hash") || c02Origin(hc.Args()[0]) != ssa.Value(br) {
				bad = "checkHashReader's hash is not br.Hash() of the same ref"
			} else if k, isNil := NilFact(fHash.Block(), hc.Value()); !(k && !isNil) {
				bad = "a nil br.Hash() (unsupported hash name) is not rejected before the backend is called"
			}
		}
	}
	r.Check(bad == "" && nin > 0, rule, key+"#backend-call:reader", site,
		"reader handed to the backend: checkHashReader{br.Hash()!=nil, br, LimitReader(src, MaxBlobSize)} unless checkHash is known false, then LimitReader(src, MaxBlobSize)", bad)

	// hub notification only after success, with the backend's result
	nn := 0
	for _, c := range CallsIn(fn, true) {
		if c.MethodName() != "NotifyBlobReceived" {
			continue
		}
		nn++
		ok, why := c02SuccDom(rb, c.Instr)
		as := c.Args()
		okArg := false
		if ex, isEx := c02Origin(as[len(as)-1]).(*ssa.Extract); isEx && ex.Tuple == ssa.Value(rb) && ex.Index == 0 {
			okArg = true
		}
		r.Check(ok && okArg, rule, key+"#notify", p.Pos(c.Pos()), "hub notified only on the err==nil edge of dst.ReceiveBlob, with the SizedRef it returned",
			"NotifyBlobReceived is reachable without success of dst.ReceiveBlob ("+why+") or announces something other than its result: observers would hear of a rejected blob")
	}
	if nn == 0 {
		r.Violation(rule, key+"#notify", site, "receive no longer notifies the blob hub after a successful ReceiveBlob")
	}
	// success returns
	for _, nr := range MaybeNilErrorReturns(fn) {
		ev, _, _ := ErrValue(rb)
		ok := sameOrigin(nr.Val, ev)
		why := ""
		if !ok {
			ok, why = SuccessDominates(rb, c02LastInstr(nr.From))
		}
		r.Check(ok, rule, key+"#success-return", p.Pos(nr.Ret.Pos()), "nil-error return only after dst.ReceiveBlob succeeded",
			"receive may return a nil error without dst.ReceiveBlob having succeeded: "+why)
	}

	c02RuleCoreRead(x)
	r.Floor(rule, 11)
}

func c02RuleCoreRead(x *c02Ctx) {
	p, r := x.p, x.r
	const rule = "R-core"
	fn := p.Func("pkg/blobserver", "checkHashReader", "Read")
	key := FuncKey(fn)
	if len(fn.Params) != 2 {
		brokenf("anchor unresolved: checkHashReader.Read(p []byte)")
	}
	self, buf := fn.Params[0], fn.Params[1]
	fieldOfSelf := func(v ssa.Value) (string, bool) {
		ld, ok := originValue(v).(*ssa.UnOp)
		if !ok || ld.Op != token.MUL {
			return "", false
		}
		fa, ok := ld.X.(*ssa.FieldAddr)
		if !ok || originValue(fa.X) != ssa.Value(self) {
			return "", false
		}
		return fieldName(fa.X.Type(), fa.Field), true
	}
	var rd, hw, hm *ssa.Call
	var hashField string
	for _, c := range CallsIn(fn, false) {
		v := c.Value()
		if v == nil {
			continue
		}
		switch {
		case c.Common().IsInvoke() && c.MethodName() == "Read":
			if _, ok := fieldOfSelf(c.Args()[0]); ok && originValue(c.Args()[1]) == ssa.Value(buf) {
				rd = v
			}
		case c.Common().IsInvoke() && c.MethodName() == "Write":
			if f, ok := fieldOfSelf(c.Args()[0]); ok {
				hw, hashField = v, f
			}
		case c.IsStatic(c02BlobPath, "Ref", "HashMatches"):
			hm = v
		}
	}
	if rd == nil || hw == nil || hm == nil {
		r.Violation(rule, key+"#shape", p.Pos(fn.Pos()), "checkHashReader.Read no longer reads c.src into p, feeds a hash field and calls br.HashMatches")
		return
	}
	// the hash is fed exactly the bytes just read, before the comparison; the comparison is c.br against that hash
	okFeed := false
	if sl, ok := originValue(CallSite{fn, hw}.Args()[1]).(*ssa.Slice); ok && originValue(sl.X) == ssa.Value(buf) && sl.Low == nil && sl.High != nil {
		if ex, ok := originValue(sl.High).(*ssa.Extract); ok && ex.Tuple == ssa.Value(rd) && ex.Index == 0 {
			okFeed = true
		}
	}
	hmArgs := CallSite{fn, hm}.Args()
	f1, ok1 := fieldOfSelf(hmArgs[1])
	_, ok0 := fieldOfSelf(hmArgs[0])
	r.Check(okFeed && Precedes(rd, hw) && Precedes(hw, hm) && ok0 && ok1 && f1 == hashField, rule, key+"#hash-fed", p.Pos(hw.Pos()),
		"the hash field is written p[:n] of this Read before HashMatches compares the receiver's ref with that same hash",
		"the digest compared by HashMatches is not fed exactly the bytes returned by this Read (p[:n]) before the comparison")

	errOfRead, _, _ := ErrValue(rd)
	isEOFCond := func(cond ssa.Value) bool {
		isEOF := func(v ssa.Value) bool {
			ld, ok := originValue(v).(*ssa.UnOp)
			if !ok || ld.Op != token.MUL {
				return false
			}
			g, ok := ld.X.(*ssa.Global)
			return ok && g.Name() == "EOF" && g.Pkg != nil && g.Pkg.Pkg.Path() == "io"
		}
		if c, ok := c02AsCall(cond); ok && c.IsStatic("errors", "", "Is") {
			return sameOrigin(c.Args()[0], errOfRead) && isEOF(c.Args()[1])
		}
		if bo, ok := cond.(*ssa.BinOp); ok && bo.Op == token.EQL {
			return sameOrigin(bo.X, errOfRead) && isEOF(bo.Y) || sameOrigin(bo.Y, errOfRead) && isEOF(bo.X)
		}
		return false
	}
	isHM := func(cond ssa.Value) bool { return cond == ssa.Value(hm) }
	n := 0
	for _, ri := range Returns(fn) {
		if len(ri.Results) != 2 {
			continue
		}
		for _, in := range c02Incoming(ri.Results[1], ri.Ret.Block()) {
			n++
			construct := key + "#eof-needs-match"
			if !sameOrigin(in.Val, errOfRead) {
				if isNonNilErrorExpr(in.Val) {
					r.OK(rule, construct, p.Pos(ri.Ret.Pos()), "returns a non-nil sentinel error (ErrCorruptBlob) on this edge")
				} else {
					r.Undecided(rule, construct, p.Pos(ri.Ret.Pos()), "error returned on this edge is neither the underlying read error nor a sentinel")
				}
				continue
			}
			kE, vE := c02Fact(in.Facts, isEOFCond)
			kH, vH := c02Fact(in.Facts, isHM)
			r.Check(kE && !vE || kH && vH, rule, construct, p.Pos(ri.Ret.Pos()),
				"the underlying read error is passed on only where it is known not to be EOF or HashMatches is known true",
				"the underlying error (possibly io.EOF) can be returned unchanged although the digest does not match: the backend would see a clean EOF and commit corrupt bytes")
		}
	}
	if n == 0 {
		r.Violation(rule, key+"#eof-needs-match", p.Pos(fn.Pos()), "no return found in checkHashReader.Read")
	}
}

// ---------------------------------------------------------------------------
// R-http

func c02IsErrorResponder(c CallSite) bool {
	f := c.Callee()
	if f != nil && f.Pkg != nil && f.Pkg.Pkg.Path() == "perkeep.org/internal/httputil" && strings.HasSuffix(f.Name(), "Error") {
		return true
	}
	if c.IsStatic("net/http", "", "Error") {
		return true
	}
	if c.MethodName() == "WriteHeader" {
		as := c.Args()
		if n, ok := ConstInt(as[len(as)-1]); ok && n >= 400 {
			return true
		}
	}
	return false
}

func c02RuleHTTP(x *c02Ctx) {
	p, r := x.p, x.r
	const rule = "R-http"
	const rel = "pkg/blobserver/handlers"

	// ---- PUT
	mk := p.Func(rel, "", "CreatePutUploadHandler")
	var h *ssa.Function
	var rc *ssa.Call
	nrc := 0
	c02AllInstrs(mk, func(f *ssa.Function, in ssa.Instruction) {
		if c, ok := in.(*ssa.Call); ok && (CallSite{f, c}).IsStatic(c02BSPath, "", "Receive") {
			nrc++
			h, rc = f, c
		}
	})
	key := FuncKey(mk)
	if nrc != 1 {
		r.Violation(rule, key+"#receive", p.Pos(mk.Pos()), fmt.Sprintf("the PUT upload handler must contain exactly one call of blobserver.Receive, found %d", nrc))
	} else {
		key = FuncKey(h)
		site := p.Pos(rc.Pos())
		as := CallSite{h, rc}.Args() // ctx, dst, br, src
		facts := FactsAt(rc.Block())
		// destination = the storage the handler was made for
		stor := c02ParamOfType(mk, func(t types.Type) bool { return types.Implements(t, x.recv) })
		r.Check(stor != nil && c02Origin(as[1]) == ssa.Value(stor), rule, key+"#receive:dst", site, "Receive stores into the storage the handler was created for", "Receive's destination is not the handler's storage parameter")
		// size guard
		okSize := false
		for _, f := range facts {
			for {
				u, isNot := f.Cond.(*ssa.UnOp)
				if !isNot || u.Op != token.NOT {
					break
				}
				f.Cond, f.Val = u.X, !f.Val
			}
			bo, ok := f.Cond.(*ssa.BinOp)
			if !ok {
				continue
			}
			isCL := func(v ssa.Value) bool {
				fa, ok := c02FieldLoad(originValue(v), "ContentLength")
				return ok && IsNamed(fa.X.Type(), "net/http", "Request")
			}
			var k int64
			op := bo.Op
			if kk, ok := ConstInt(bo.Y); ok && isCL(bo.X) {
				k = kk
			} else if kk, ok := ConstInt(bo.X); ok && isCL(bo.Y) {
				k = kk
				switch op { // mirror
				case token.GTR:
					op = token.LSS
				case token.LSS:
					op = token.GTR
				case token.GEQ:
					op = token.LEQ
				case token.LEQ:
					op = token.GEQ
				}
			} else {
				continue
			}
			switch {
			case op == token.GTR && !f.Val && k <= x.maxBlob,
				op == token.LEQ && f.Val && k <= x.maxBlob,
				op == token.GEQ && !f.Val && k <= x.maxBlob+1,
				op == token.LSS && f.Val && k <= x.maxBlob+1:
				okSize = true
			}
		}
		r.Check(okSize, rule, key+"#receive:size-guard", site, "Receive is reached only with req.ContentLength <= MaxBlobSize", "Receive is not dominated by a ContentLength <= MaxBlobSize guard: a declared-oversize body is not refused up front")
		// parsed ref, ok, supported
		okParse := false
		ref := c02Origin(as[2])
		if ex, ok := ref.(*ssa.Extract); ok && ex.Index == 0 {
			if pc, ok := c02AsCall(ex.Tuple); ok && pc.IsStatic(c02BlobPath, "", "Parse") {
				k, v := c02Fact(facts, func(cond ssa.Value) bool {
					e, ok := cond.(*ssa.Extract)
					return ok && e.Tuple == ex.Tuple && e.Index == 1
				})
				okParse = k && v
			}
		}
		r.Check(okParse, rule, key+"#receive:parsed-ref", site, "the ref is blob.Parse of the request and ok==true dominates Receive", "the ref passed to Receive is not the result of blob.Parse under ok==true")
		k, v, _ := BoolCallFact(rc.Block(), func(c CallSite) bool {
			return c.IsStatic(c02BlobPath, "Ref", "IsSupported") && sameOrigin(c.Args()[0], as[2])
		})
		r.Check(k && v, rule, key+"#receive:supported", site, "br.IsSupported()==true dominates Receive", "Receive is not dominated by br.IsSupported()==true: an unknown hash name is not refused before reading")
		// body
		fa, okBody := c02FieldLoad(c02Origin(as[3]), "Body")
		r.Check(okBody && IsNamed(fa.X.Type(), "net/http", "Request"), rule, key+"#receive:body", site, "the bytes received are the request body", "the reader passed to Receive is not req.Body")
		// statuses
		ev, _, disc := ErrValue(rc)
		nilAt := func(b *ssa.BasicBlock) bool { k, isNil := NilFact(b, ev); return k && isNil }
		bad := ""
		if disc {
			bad = "the error of Receive is discarded"
		}
		for _, c := range CallsIn(h, false) {
			if c.MethodName() == "WriteHeader" && !c02IsErrorResponder(c) && Precedes(rc, c.Instr) && !nilAt(c.Block()) {
				bad = "a non-error status is written where Receive's error is not known nil"
			}
		}
		r.Check(bad == "", rule, key+"#success-status", site, "a non-error status is written only on the err==nil edge of Receive", bad)
		leaks := LeakingExits(PathQuery{
			Start: rc,
			Stop: func(in ssa.Instruction) bool {
				if in.Block() != rc.Block() && nilAt(in.Block()) {
					return true // this path went through the err==nil edge
				}
				ci, ok := in.(ssa.CallInstruction)
				return ok && c02IsErrorResponder(CallSite{h, ci})
			},
			ExitOK:       func(exit ssa.Instruction) bool { return nilAt(exit.Block()) },
			IgnorePanics: true,
		})
		detail := ""
		if len(leaks) > 0 {
			detail = fmt.Sprintf("a path from Receive to the return at line %d passes no error response although Receive's error is not known nil there: a rejected upload would be answered with a success status", p.Fset.Position(leaks[0].Exit.Pos()).Line)
		}
		r.Check(len(leaks) == 0 && !disc, rule, key+"#error-status", site, "every path on which Receive's error may be non-nil writes an error response before returning", detail)
	}

	// ---- multipart
	mp := p.Func(rel, "", "handleMultiPartUpload")
	mkey := FuncKey(mp)
	stor := c02ParamOfType(mp, func(t types.Type) bool { return types.Implements(t, x.recv) })
	var rcs []*ssa.Call
	for _, c := range CallsIn(mp, true) {
		if c.IsStatic(c02BSPath, "", "Receive") && c.Value() != nil {
			rcs = append(rcs, c.Value())
			r.Check(c.Fn == mp && stor != nil && c02Origin(c.Args()[1]) == ssa.Value(stor), rule, mkey+"#receive:dst", p.Pos(c.Pos()),
				"Receive stores into the handler's storage", "Receive's destination is not the handler's storage parameter")
		}
	}
	if len(rcs) == 0 {
		r.Violation(rule, mkey+"#receive", p.Pos(mp.Pos()), "the multipart upload handler no longer calls blobserver.Receive")
	}
	// what is listed as received
	var appends []*ssa.Call
	seen := map[ssa.Value]bool{}
	badLeaf := ""
	var walk func(v ssa.Value)
	walk = func(v ssa.Value) {
		if v == nil || seen[v] {
			return
		}
		seen[v] = true
		switch t := v.(type) {
		case *ssa.Phi:
			for _, e := range t.Edges {
				walk(e)
			}
		case *ssa.Call:
			if b, ok := t.Call.Value.(*ssa.Builtin); ok && b.Name() == "append" {
				appends = append(appends, t)
				walk(t.Call.Args[0])
				return
			}
			badLeaf = "Received is built from the result of " + (CallSite{t.Parent(), t}).CalleeKey()
		case *ssa.Slice:
			if _, ok := t.X.(*ssa.Alloc); !ok {
				badLeaf = "Received is built from a slice of unknown origin"
			}
		case *ssa.Const, *ssa.MakeSlice:
		case *ssa.UnOp:
			if o := originValue(t); o != ssa.Value(t) {
				walk(o)
			} else {
				badLeaf = "Received is loaded from a variable with several stores"
			}
		default:
			badLeaf = fmt.Sprintf("Received is built from a %T", v)
		}
	}
	nstore := 0
	c02AllInstrs(mp, func(f *ssa.Function, in ssa.Instruction) {
		st, ok := in.(*ssa.Store)
		if !ok {
			return
		}
		fa, ok := st.Addr.(*ssa.FieldAddr)
		if ok && fieldName(fa.X.Type(), fa.Field) == "Received" && IsNamed(fa.X.Type(), "perkeep.org/pkg/blobserver/protocol", "UploadResponse") {
			nstore++
			walk(st.Val)
		}
	})
	if nstore == 0 || badLeaf != "" || len(appends) == 0 {
		if badLeaf == "" {
			badLeaf = "no store to UploadResponse.Received built by append found"
		}
		r.Undecided(rule, mkey+"#received-list", p.Pos(mp.Pos()), badLeaf)
	}
	for _, ap := range appends {
		site := p.Pos(ap.Pos())
		construct := mkey + "#received-list:append"
		var guardErr ssa.Value
		ok := true
		detail := ""
		elems := c02Elems(ap.Call.Args[1])
		for _, e := range elems {
			ex, isEx := c02Origin(e).(*ssa.Extract)
			var src *ssa.Call
			if isEx && ex.Index == 0 {
				for _, c := range rcs {
					if ex.Tuple == ssa.Value(c) {
						src = c
					}
				}
			}
			if src == nil {
				ok, detail = false, "an element appended to the Received list is not the SizedRef returned by blobserver.Receive"
				break
			}
			ev, _, disc := ErrValue(src)
			if k, isNil := NilFact(ap.Block(), ev); disc || !(k && isNil) {
				ok, detail = false, "a blob is appended to the Received list where the error of its Receive is not known nil: a rejected part would be listed as received"
				break
			}
			guardErr = ev
		}
		r.Check(ok, rule, construct, site, "only SizedRefs returned by Receive are listed, and only where that Receive's (overridden) error is known nil", detail)
		if !ok || guardErr == nil {
			continue
		}
		// the oversize override: the error tested by the guard merges Receive's error with a non-nil error raised when the counted bytes reached MaxBlobSize+1
		okOver := false
		for _, f := range FactsAt(ap.Block()) {
			bo, isBo := f.Cond.(*ssa.BinOp)
			if !isBo {
				continue
			}
			var tested ssa.Value
			if IsNilConst(bo.Y) {
				tested = bo.X
			} else if IsNilConst(bo.X) {
				tested = bo.Y
			}
			ph, isPhi := tested.(*ssa.Phi)
			if !isPhi || !sameOrigin(ph, guardErr) {
				continue
			}
			for _, in := range c02Incoming(ph, ph.Block()) {
				if !isNonNilErrorExpr(in.Val) {
					continue
				}
				k, v := c02Fact(in.Facts, func(cond ssa.Value) bool {
					b, ok := cond.(*ssa.BinOp)
					if !ok {
						return false
					}
					n, okc := ConstInt(b.Y)
					ld, okl := b.X.(*ssa.UnOp)
					if !okc || !okl || ld.Op != token.MUL {
						return false
					}
					return x.c02CountsReceive(ld.X, n, rcs) && (b.Op == token.EQL && n == x.maxBlob+1 || b.Op == token.GTR && n == x.maxBlob || b.Op == token.GEQ && n == x.maxBlob+1)
				})
				if k && v {
					okOver = true
				}
			}
		}
		r.Check(okOver, rule, mkey+"#oversize-override", site,
			"the error guarding the listing merges Receive's error with a non-nil error raised when the part's counted size reached MaxBlobSize+1 (the part reader is limited to exactly that)",
			"the listing guard no longer includes the 'blob over the limit' override on a byte counter of the part limited to MaxBlobSize+1: an oversize part whose 16 MiB prefix matches would be listed as received")
	}
	r.Floor(rule, 10)
}

// c02CountsReceive: cell is the N counter of a readerutil.CountingReader handed
// to one of the Receive calls, whose Reader is io.LimitReader(_, limit).
func (x *c02Ctx) c02CountsReceive(cell ssa.Value, limit int64, rcs []*ssa.Call) bool {
	for _, rc := range rcs {
		as := CallSite{rc.Parent(), rc}.Args()
		al, ok := c02Origin(as[3]).(*ssa.Alloc)
		if !ok || al.Referrers() == nil {
			continue
		}
		okN, okR := false, false
		for _, u := range *al.Referrers() {
			fa, ok := u.(*ssa.FieldAddr)
			if !ok || fa.Referrers() == nil {
				continue
			}
			for _, uu := range *fa.Referrers() {
				st, ok := uu.(*ssa.Store)
				if !ok || st.Addr != ssa.Value(fa) {
					continue
				}
				switch fieldName(fa.X.Type(), fa.Field) {
				case "N":
					okN = st.Val == cell
				case "Reader":
					if lc, ok := c02AsCall(c02Origin(st.Val)); ok && lc.IsStatic("io", "", "LimitReader") {
						n, okc := ConstInt(lc.Args()[1])
						okR = okc && n == limit
					}
				}
			}
		}
		if okN && okR {
			return true
		}
	}
	return false
}

// ---------------------------------------------------------------------------
// R-commit / R-verdict: forward taint of the source reader

type c02Consumer struct {
	C    CallSite
	Kind string // full | delegate | opaque | partial
}

type c02Flow struct {
	top       *ssa.Function
	src       *ssa.Parameter
	tainted   map[ssa.Value]bool
	consumers []c02Consumer
}

func c02Taintable(t types.Type) bool {
	switch t.Underlying().(type) {
	case *types.Basic:
		return false
	}
	return true
}

// c02BaseObj returns the local object (Alloc) an address points into.
func c02BaseObj(addr ssa.Value) ssa.Value {
	for i := 0; i < 8; i++ {
		switch a := addr.(type) {
		case *ssa.Alloc:
			return a
		case *ssa.FieldAddr:
			addr = a.X
		case *ssa.IndexAddr:
			addr = a.X
		case *ssa.FreeVar:
			b := bindingOf(a)
			if b == nil {
				return a
			}
			addr = b
		default:
			return nil
		}
	}
	return nil
}

func (x *c02Ctx) flowOf(top *ssa.Function, src *ssa.Parameter) *c02Flow {
	fl := &c02Flow{top: top, src: src, tainted: map[ssa.Value]bool{src: true}}
	isT := func(v ssa.Value) bool {
		if v == nil {
			return false
		}
		if fl.tainted[v] {
			return true
		}
		if fv, ok := v.(*ssa.FreeVar); ok {
			if b := bindingOf(fv); b != nil && fl.tainted[b] {
				return true
			}
		}
		return false
	}
	mark := func(v ssa.Value, changed *bool) {
		if v != nil && !fl.tainted[v] && c02Taintable(v.Type()) {
			fl.tainted[v] = true
			*changed = true
		}
	}
	seenCons := map[ssa.Instruction]bool{}
	for round := 0; round < 20; round++ {
		changed := false
		c02AllInstrs(top, func(f *ssa.Function, in ssa.Instruction) {
			switch t := in.(type) {
			case *ssa.Store:
				if isT(t.Val) {
					if b := c02BaseObj(t.Addr); b != nil {
						mark(b, &changed)
					}
				}
			case *ssa.UnOp:
				if t.Op == token.MUL {
					if b := c02BaseObj(t.X); b != nil && isT(b) {
						mark(t, &changed)
					}
				}
			case *ssa.MakeInterface:
				if isT(t.X) {
					mark(t, &changed)
				}
			case *ssa.ChangeInterface:
				if isT(t.X) {
					mark(t, &changed)
				}
			case *ssa.ChangeType:
				if isT(t.X) {
					mark(t, &changed)
				}
			case *ssa.TypeAssert:
				if isT(t.X) {
					mark(t, &changed)
				}
			case *ssa.Slice:
				if isT(t.X) {
					mark(t, &changed)
				}
			case *ssa.Phi:
				for _, e := range t.Edges {
					if isT(e) {
						mark(t, &changed)
					}
				}
			case ssa.CallInstruction:
				c := CallSite{f, t}
				hit := false
				for _, a := range c02ArgsExpanded(c) {
					if isT(a) {
						hit = true
					}
				}
				if !hit {
					return
				}
				kind := x.consumerKind(c, isT)
				val := c.Value()
				if val != nil {
					res := val.Call.Signature().Results()
					if res.Len() == 1 && x.isReaderType(res.At(0).Type()) {
						mark(val, &changed)
					} else if res.Len() > 1 && val.Referrers() != nil {
						for _, u := range *val.Referrers() {
							if ex, ok := u.(*ssa.Extract); ok && x.isReaderType(res.At(ex.Index).Type()) {
								mark(ex, &changed)
							}
						}
					}
				}
				if kind != "" && !seenCons[in] {
					seenCons[in] = true
					fl.consumers = append(fl.consumers, c02Consumer{c, kind})
				}
			}
		})
		if !changed {
			break
		}
	}
	return fl
}

// consumerKind classifies a call that receives the (wrapped) source reader.
// "" = propagating wrapper or inspector (no error result): not a consumer.
func (x *c02Ctx) consumerKind(c CallSite, isT func(ssa.Value) bool) string {
	as := c.Args()
	switch {
	case c.IsStatic("io", "", "Copy") || c.IsStatic("io", "", "CopyBuffer"):
		if len(as) > 1 && isT(as[1]) {
			return "full"
		}
		return ""
	case c.IsStatic("io", "", "ReadAll") || c.IsStatic("io/ioutil", "", "ReadAll"):
		return "full"
	case c.IsStatic("bytes", "Buffer", "ReadFrom"):
		if len(as) > 1 && isT(as[1]) {
			return "full"
		}
		return ""
	case c.IsStatic("io", "", "CopyN") || c.IsStatic("io", "", "ReadFull") || c.IsStatic("io", "", "ReadAtLeast"):
		return "partial"
	}
	if x.isReceiveBlobCall(c) {
		return "delegate"
	}
	if _, ok := c02IsReceiveFamily(c); ok {
		return "delegate"
	}
	if c.MethodName() == "Read" && c.Common().IsInvoke() {
		return "partial"
	}
	sig := c.Common().Signature()
	res := sig.Results()
	if res.Len() == 0 || !isErrorType(res.At(res.Len()-1).Type()) {
		return ""
	}
	return "opaque"
}

// c02CommitHelpers: calls that make a received blob visible and are neither a
// delegated receive, a sorted.KeyValue write, a rename nor a receiver-map store.
// One symbol, one reason.
var c02CommitHelpers = map[string]string{
	"pkg/blobserver/diskpacked.(*storage).append": "appends the record to the pack file and writes the index row",
	"pkg/index.(*Index).commit":                   "writes the blob's index rows",
	"pkg/blobserver/stats.(*Receiver).ReceiveRef": "records the ref in the Have map",
	"pkg/server.(*SyncHandler).enqueue":           "puts the blob on the sync queue",
	"internal/azure/storage.(*Client).PutObject":  "creates the Azure object",
	"cloud.google.com/go/storage.(*Writer).Close": "the GCS object becomes visible when the writer is closed",
	"gopkg.in/mgo.v2.(*Collection).Insert":        "inserts the blob document",
}

type c02Commit struct {
	In   ssa.Instruction
	Fn   *ssa.Function
	Kind string
	Name string
}

func (x *c02Ctx) commitPoints(top *ssa.Function) []c02Commit {
	var out []c02Commit
	recvName := ""
	if len(top.Params) > 0 && top.Signature.Recv() != nil {
		recvName = top.Params[0].Name()
	}
	c02AllInstrs(top, func(f *ssa.Function, in ssa.Instruction) {
		switch t := in.(type) {
		case *ssa.MapUpdate:
			pth := AccessPath(t.Map)
			if recvName != "" && strings.HasPrefix(pth, recvName+".") {
				out = append(out, c02Commit{in, f, "map", "map:" + strings.TrimPrefix(pth, recvName+".")})
			}
		case ssa.CallInstruction:
			c := CallSite{f, t}
			if c.IsDefer() {
				return
			}
			key := c.CalleeKey()
			switch {
			case x.isReceiveBlobCall(c):
				out = append(out, c02Commit{in, f, "receive", "ReceiveBlob:" + c02StablePath(c.Args()[0])})
			case c.IsMethod("Set", x.kv) || c.IsMethod("Delete", x.kv) || c.IsMethod("CommitBatch", x.kv):
				out = append(out, c02Commit{in, f, "kv", c.MethodName() + ":" + c02StablePath(c.Args()[0])})
			case c.IsMethod("Rename", x.vfs) || c.IsStatic("os", "", "Rename"):
				out = append(out, c02Commit{in, f, "rename", "Rename"})
			default:
				if n, ok := c02IsReceiveFamily(c); ok {
					out = append(out, c02Commit{in, f, "receive", n + ":" + c02StablePath(c.Args()[1])})
				} else if _, ok := c02CommitHelpers[key]; ok {
					x.k5seen[key] = true
					out = append(out, c02Commit{in, f, "helper", key})
				}
			}
		}
	})
	return out
}

func (x *c02Ctx) readerParam(fn *ssa.Function) *ssa.Parameter {
	return c02ParamOfType(fn, func(t types.Type) bool { return IsNamed(t, "io", "Reader") })
}

// hashMatchFact: a HashMatches call on fn's own ref parameter is known true at block b.
func (x *c02Ctx) hashMatchTrue(top *ssa.Function, b *ssa.BasicBlock) bool {
	ref := c02ParamOfType(top, c02IsBlobRef)
	k, v, _ := BoolCallFact(b, func(c CallSite) bool {
		return c.IsStatic(c02BlobPath, "Ref", "HashMatches") && (ref == nil || c02Origin(c.Args()[0]) == ssa.Value(ref))
	})
	return k && v
}

func (x *c02Ctx) comparesDigest(top *ssa.Function) bool {
	for _, c := range CallsIn(top, true) {
		if c.IsStatic(c02BlobPath, "Ref", "HashMatches") {
			return true
		}
	}
	return false
}

// isReverifier: fn is a ReceiveBlob that compares the digest itself and whose
// commit points all sit under HashMatches==true.
func (x *c02Ctx) isReverifier(fn *ssa.Function) bool {
	if fn == nil || fn.Blocks == nil {
		return false
	}
	if st := x.reverify[fn]; st != 0 {
		return st == 1
	}
	ok := x.comparesDigest(fn)
	cps := x.commitPoints(fn)
	if len(cps) == 0 {
		ok = false
	}
	for _, cp := range cps {
		if cp.Fn != fn || !x.hashMatchTrue(fn, cp.In.Block()) {
			ok = false
		}
	}
	if ok {
		x.reverify[fn] = 1
	} else {
		x.reverify[fn] = 2
	}
	return ok
}

func c02RuleCommit(x *c02Ctx) {
	p, r := x.p, x.r
	var impls []*ssa.Function
	seen := map[*ssa.Function]bool{}
	for _, n := range p.Implementers(x.recv, false) {
		fn, _ := p.MethodOf(n, "ReceiveBlob")
		// a pointer-receiver wrapper of a value-receiver method is synthetic: find the declared one
		if fn != nil && fn.Synthetic != "" {
			if f2 := p.LookupFunc(RelPkg(n.Obj().Pkg()), n.Obj().Name(), "ReceiveBlob"); f2 != nil {
				fn = f2
			} else {
				continue // promoted from an embedded field: the declaring type is enumerated itself
			}
		}
		if fn == nil || fn.Blocks == nil || seen[fn] || !InModule(fn) || IsTestSupportPkg(RelPkg(fn.Pkg.Pkg)) {
			continue
		}
		seen[fn] = true
		impls = append(impls, fn)
	}
	r.Analysed("receiveblob_implementations", len(impls))
	nrev := 0
	for _, fn := range impls {
		src := x.readerParam(fn)
		if src == nil {
			r.Undecided("R-commit", FuncKey(fn)+"#source", p.Pos(fn.Pos()), "cannot identify the io.Reader parameter")
			continue
		}
		x.checkReceiver(fn, src, 0)
		if x.isReverifier(fn) {
			nrev++
		}
	}
	for k := range c02CommitHelpers {
		if !x.k5seen[k] {
			r.Undecided("R-commit", "table#"+k, "", "commit-helper table entry matched no call in any ReceiveBlob implementation: the table is stale")
		}
	}
	r.Check(nrev >= 2, "R-commit", "reverifying-stores#count", "", fmt.Sprintf("%d stores compare the digest themselves and commit only under HashMatches==true", nrev),
		fmt.Sprintf("only %d stores still re-verify the digest before committing (memory and encrypt are expected)", nrev))
	r.Floor("R-commit", 55)
	r.Floor("R-verdict", 33)
}

// checkReceiver applies R-commit/R-verdict to fn with src as the stream.
func (x *c02Ctx) checkReceiver(fn *ssa.Function, src *ssa.Parameter, depth int) {
	p, r := x.p, x.r
	key := FuncKey(fn)
	fl := x.flowOf(fn, src)
	isCons := map[ssa.Instruction]*c02Consumer{}
	var verdicts []*c02Consumer // consumers whose success means the stream was read to its end
	for i := range fl.consumers {
		c := &fl.consumers[i]
		isCons[c.C.Instr] = c
		if c.C.Value() == nil {
			continue
		}
		construct := key + "#consume:" + c.C.CalleeKey()
		_, hasErr, disc := ErrValue(c.C.Value())
		if !hasErr {
			continue
		}
		if disc {
			r.Violation("R-commit", construct, p.Pos(c.C.Pos()), "the error of the call that reads source is discarded: the digest/size verdict of blobserver.Receive reaches a backend only as that error")
			continue
		}
		r.OK("R-commit", construct, p.Pos(c.C.Pos()), c.Kind+" consumer of source; its error is examined")
		if c.Kind != "partial" {
			verdicts = append(verdicts, c)
		}
	}
	dominatedBy := func(at ssa.Instruction, kinds string) (bool, string) {
		why := "no call reads source to its end before this point"
		for _, c := range verdicts {
			if !strings.Contains(kinds, c.Kind) {
				continue
			}
			ok, w := c02SuccDom(c.C.Value(), at)
			if ok {
				return true, c.C.CalleeKey()
			}
			why = c.C.CalleeKey() + ": " + w
		}
		return false, why
	}
	cps := x.commitPoints(fn)
	digest := x.comparesDigest(fn)
	for _, cp := range cps {
		construct := key + "#commit:" + cp.Name
		site := p.Pos(cp.In.Pos())
		if c := isCons[cp.In]; c != nil {
			r.OK("R-commit", construct, site, "the commit is the call that consumes source: a read error fails the commit itself")
		} else {
			ok, by := dominatedBy(cp.In, "full delegate")
			r.Check(ok, "R-commit", construct, site, "dominated by the err==nil edge of "+by,
				"commit point reachable without a successful complete read of source ("+by+"): bytes that failed the digest or size check of blobserver.Receive could become visible")
		}
		if digest {
			ok := cp.Fn == fn && x.hashMatchTrue(fn, cp.In.Block())
			if !ok && cp.Fn != fn && cp.Fn.Parent() == fn {
				ok = true
				for _, a := range c02LiteralAnchors(cp.Fn) {
					if !x.hashMatchTrue(fn, a.Block()) {
						ok = false
					}
				}
			}
			r.Check(ok, "R-commit", construct+":digest", site, "this store compares the digest itself and commits only under HashMatches==true",
				"this store calls HashMatches but this commit point is not under HashMatches==true")
		}
		// a commit helper that is handed the bytes as a reader is checked like a receiver (bound 1)
		if cp.Kind == "helper" && depth == 0 {
			if c, ok := cp.In.(ssa.CallInstruction); ok {
				if callee := (CallSite{cp.Fn, c}).Callee(); callee != nil && InModule(callee) && callee.Blocks != nil {
					if rp := x.readerParam(callee); rp != nil {
						x.checkReceiver(callee, rp, depth+1)
					}
				}
			}
		}
	}
	if depth > 0 {
		return
	}
	// R-verdict
	nrs := MaybeNilErrorReturns(fn)
	if len(nrs) == 0 {
		r.OKTable("R-verdict", key+"#success-return", p.Pos(fn.Pos()), "never returns a nil error: every upload is refused")
		return
	}
	type agg struct {
		ok  bool
		why string
	}
	byRet := map[*ssa.Return]*agg{}
	var order []*ssa.Return
	for _, nr := range nrs {
		a := byRet[nr.Ret]
		if a == nil {
			a = &agg{ok: true}
			byRet[nr.Ret] = a
			order = append(order, nr.Ret)
		}
		ok, why := false, "no consumer of source"
		val := nr.Val
		if cv := c02CellVal(val); cv != nil {
			val = cv
		}
		for _, c := range verdicts {
			ev, _, _ := ErrValue(c.C.Value())
			if sameOrigin(val, ev) {
				ok, why = true, "returns the error of "+c.C.CalleeKey()
				break
			}
		}
		if !ok {
			ok, why = dominatedBy(c02LastInstr(nr.From), "full delegate opaque")
			if ok {
				why = "dominated by the err==nil edge of " + why
			}
		}
		if !ok {
			// exception (one symbol, one reason): go4.org/fault.(*Injector).FailErr returns true
			// only after storing a non-nil error through its argument
			if k, v, fc := BoolCallFact(nr.From, func(c CallSite) bool { return c.IsStatic("go4.org/fault", "Injector", "FailErr") }); k && v {
				if ld, isLd := nr.Val.(*ssa.UnOp); isLd && ld.Op == token.MUL && len(fc.Args()) == 2 && fc.Args()[1] == ld.X {
					ok, why = true, "fault-injection hook: fault.(*Injector).FailErr returned true, so it stored a non-nil error in the returned variable"
				}
			}
		}
		if !ok {
			a.ok = false
			a.why = why
		} else if a.why == "" {
			a.why = why
		}
	}
	for _, ret := range order {
		a := byRet[ret]
		r.Check(a.ok, "R-verdict", key+"#success-return", p.Pos(ret.Pos()), a.why,
			"may return a nil error without having read source successfully ("+a.why+"): blobserver.Receive then reports a blob as received whose bytes were never compared with the ref")
	}
}

// ---------------------------------------------------------------------------
// R-entry: carriers, buffers, idioms

// c02Root says where the bytes a reader / []byte / string value carries come from.
type c02Root struct {
	Kind string          // stream | buf | val | field | unknown
	V    ssa.Value       // stream: the parameter; buf: the buffer object; val: the immutable value
	Path string          // field: access path of the field address
	At   ssa.Instruction // buf via Bytes()/String(): that call; field: the load
}

func (a c02Root) same(b c02Root) bool {
	if a.Kind != b.Kind || a.Kind == "unknown" {
		return false
	}
	if a.Kind == "field" {
		return a.Path == b.Path && !strings.HasPrefix(a.Path, "?") && !strings.Contains(a.Path, "?")
	}
	return a.V == b.V
}

func (a c02Root) String() string {
	switch a.Kind {
	case "field":
		return "field " + a.Path
	case "unknown":
		return "unknown"
	}
	return a.Kind + " " + a.V.Name()
}

func c02BytesOrString(t types.Type) bool {
	switch u := t.Underlying().(type) {
	case *types.Basic:
		return u.Info()&types.IsString != 0
	case *types.Slice:
		b, ok := u.Elem().Underlying().(*types.Basic)
		return ok && b.Kind() == types.Byte
	}
	return false
}

// c02BufObj returns the *bytes.Buffer object (Alloc or producing call) v denotes, or nil.
func c02BufObj(v ssa.Value) ssa.Value {
	if v == nil {
		return nil
	}
	o := c02Origin(v)
	if o == nil || !c02IsBytesBufferPtr(o.Type()) {
		return nil
	}
	switch o.(type) {
	case *ssa.Alloc, *ssa.Call:
		return o
	}
	return nil
}

func (x *c02Ctx) carrier(v ssa.Value, depth int) c02Root {
	unknown := c02Root{Kind: "unknown"}
	if depth > 12 || v == nil {
		return unknown
	}
	v = c02Origin(v)
	if b := c02BufObj(v); b != nil {
		return c02Root{Kind: "buf", V: b}
	}
	switch t := v.(type) {
	case *ssa.Parameter:
		if c02BytesOrString(t.Type()) {
			return c02Root{Kind: "val", V: t}
		}
		if x.isReaderType(t.Type()) {
			return c02Root{Kind: "stream", V: t}
		}
	case *ssa.Convert:
		if c02BytesOrString(t.Type()) && c02BytesOrString(t.X.Type()) {
			return x.carrier(t.X, depth+1)
		}
	case *ssa.Call:
		c := CallSite{t.Parent(), t}
		as := c.Args()
		switch {
		case c.IsStatic("strings", "", "NewReader"), c.IsStatic("bytes", "", "NewReader"), c.IsStatic("bytes", "", "NewBuffer"),
			c.IsStatic("bytes", "", "NewBufferString"), c.IsStatic("io", "", "TeeReader"), c.IsStatic("io", "", "NopCloser"):
			return x.carrier(as[0], depth+1)
		case c.IsStatic("bytes", "Buffer", "String"):
			return c02Root{Kind: "val", V: t} // an immutable snapshot
		case c.IsStatic("bytes", "Buffer", "Bytes"):
			if b := c02BufObj(as[0]); b != nil {
				return c02Root{Kind: "buf", V: b, At: t}
			}
			return unknown
		}
		if c02BytesOrString(t.Type()) {
			return c02Root{Kind: "val", V: t}
		}
	case *ssa.UnOp:
		if t.Op == token.MUL {
			if fa, ok := t.X.(*ssa.FieldAddr); ok && c02BytesOrString(t.Type()) {
				return c02Root{Kind: "field", Path: AccessPath(fa), At: t}
			}
		}
	case *ssa.Extract, *ssa.MakeSlice, *ssa.Const:
		if c02BytesOrString(v.Type()) {
			return c02Root{Kind: "val", V: v}
		}
	}
	return unknown
}

type c02BufOp struct {
	In      ssa.Instruction
	Kind    string // ro | reset | fill | mut
	Src     ssa.Value
	CoSinks []ssa.Value
}

// c02Sinks: the writers a value written to reaches (through io.MultiWriter).
func c02Sinks(w ssa.Value) []ssa.Value {
	o := c02Origin(w)
	if c, ok := c02AsCall(o); ok && c.IsStatic("io", "", "MultiWriter") {
		var out []ssa.Value
		for _, e := range c02ArgsExpanded(c) {
			out = append(out, c02Sinks(e)...)
		}
		return out
	}
	return []ssa.Value{o}
}

// c02TeeSinks: the writers that see every byte read through reader r.
func c02TeeSinks(r ssa.Value) []ssa.Value {
	var out []ssa.Value
	for i := 0; i < 8; i++ {
		c, ok := c02AsCall(c02Origin(r))
		if !ok || !c.IsStatic("io", "", "TeeReader") {
			break
		}
		out = append(out, c02Sinks(c.Args()[1])...)
		r = c.Args()[0]
	}
	return out
}

// bufOps lists every operation of top (literals included) on buffer object B.
func (x *c02Ctx) bufOps(top *ssa.Function, B ssa.Value) []c02BufOp {
	var ops []c02BufOp
	is := func(v ssa.Value) bool { return v != nil && c02IsBytesBufferPtr(v.Type()) && c02BufObj(v) == B }
	isAny := func(v ssa.Value) bool { // B itself or B behind an interface
		if v == nil {
			return false
		}
		if is(v) {
			return true
		}
		o := c02Origin(v)
		return o != nil && c02IsBytesBufferPtr(o.Type()) && c02BufObj(o) == B
	}
	c02AllInstrs(top, func(f *ssa.Function, in ssa.Instruction) {
		switch t := in.(type) {
		case ssa.CallInstruction:
			c := CallSite{f, t}
			if c.IsDefer() {
				return
			}
			as := c.Args()
			if c.IsStatic("io", "", "Copy") || c.IsStatic("io", "", "CopyBuffer") {
				var co []ssa.Value
				hit := false
				for _, sk := range c02Sinks(as[0]) {
					if sk == B {
						hit = true
					} else {
						co = append(co, sk)
					}
				}
				if hit {
					ops = append(ops, c02BufOp{in, "fill", as[1], co})
					return
				}
			}
			if c.IsStatic("io", "", "MultiWriter") {
				return
			}
			hit := false
			for _, a := range c02ArgsExpanded(c) {
				if isAny(a) {
					hit = true
				}
			}
			if !hit {
				return
			}
			if f := c.Callee(); f != nil && f.Signature.Recv() != nil && funcIs(f, "bytes", "Buffer", f.Name()) && isAny(as[0]) {
				switch f.Name() {
				case "Bytes", "String", "Len", "Cap", "Available":
					ops = append(ops, c02BufOp{In: in, Kind: "ro"})
				case "Reset":
					ops = append(ops, c02BufOp{In: in, Kind: "reset"})
				case "ReadFrom":
					ops = append(ops, c02BufOp{In: in, Kind: "fill", Src: as[1]})
				default:
					ops = append(ops, c02BufOp{In: in, Kind: "mut"})
				}
				return
			}
			ops = append(ops, c02BufOp{In: in, Kind: "mut"})
		case *ssa.Store:
			if isAny(t.Val) {
				if al, ok := t.Addr.(*ssa.Alloc); ok && plainVariable(al) {
					return
				}
				if ia, ok := t.Addr.(*ssa.IndexAddr); ok {
					if al, ok := ia.X.(*ssa.Alloc); ok && al.Comment == "varargs" {
						return
					}
				}
				ops = append(ops, c02BufOp{In: in, Kind: "mut"})
			}
		case *ssa.Return:
			for _, rv := range t.Results {
				if isAny(rv) {
					ops = append(ops, c02BufOp{In: in, Kind: "mut"})
				}
			}
		case *ssa.Send:
			if isAny(t.X) {
				ops = append(ops, c02BufOp{In: in, Kind: "mut"})
			}
		case *ssa.MapUpdate:
			if isAny(t.Value) {
				ops = append(ops, c02BufOp{In: in, Kind: "mut"})
			}
		}
	})
	return ops
}

// changedBetween: may buffer content change after instruction a and before site s?
func (x *c02Ctx) changedBetween(a, s ssa.Instruction, ops []c02BufOp) (bool, string) {
	fa, fs := a.Parent(), s.Parent()
	for _, op := range ops {
		if op.Kind == "ro" || op.In == a || op.In == s {
			continue
		}
		fo := op.In.Parent()
		line := x.p.Fset.Position(op.In.Pos()).Line
		switch {
		case fa == fs && fo == fa:
			if c02ReachesAvoiding(a, op.In, a) && c02ReachesAvoiding(op.In, s, a) {
				return true, fmt.Sprintf("buffer is written or drained at line %d between", line)
			}
		case fa != fs && fs.Parent() == fa && fo == fa:
			for _, k := range c02LiteralAnchors(fs) {
				if c02Reaches(a, op.In) && (op.In == k || c02Reaches(op.In, k)) {
					return true, fmt.Sprintf("buffer is written or drained at line %d before the literal starts", line)
				}
			}
		case fa != fs && fs.Parent() == fa && fo == fs:
			if c02Reaches(op.In, s) {
				return true, fmt.Sprintf("buffer is written or drained at line %d inside the literal before the call", line)
			}
		default:
			return true, fmt.Sprintf("buffer is also written or drained in %s (line %d), order unknown", FuncKey(fo), line)
		}
	}
	return false, ""
}

// filledOnceFrom: B holds, at site, exactly the bytes of one successful,
// complete read F (returned) whose source satisfies srcOK.
func (x *c02Ctx) filledOnceFrom(top *ssa.Function, B ssa.Value, site ssa.Instruction, srcOK func(src ssa.Value, fill *ssa.Call) bool) (*c02BufOp, string) {
	ops := x.bufOps(top, B)
	why := "no complete read fills the buffer"
	for i := range ops {
		op := &ops[i]
		if op.Kind != "fill" {
			continue
		}
		fc, ok := op.In.(*ssa.Call)
		if !ok {
			continue
		}
		if !srcOK(op.Src, fc) {
			why = "the buffer is filled from something else"
			continue
		}
		if ok, w := c02SuccDom(fc, site); !ok {
			why = "the read that fills the buffer: " + w
			continue
		}
		if ch, w := x.changedBetween(fc, site, ops); ch {
			why = w
			continue
		}
		// nothing in the buffer before the fill
		dirty := ""
		def, _ := B.(ssa.Instruction)
		loopCarried := def != nil && inLoop(fc.Block()) && !(def.Parent() == fc.Parent() && c02Reaches(fc, def))
		resetOK := !loopCarried
		for _, o2 := range ops {
			if o2.In == op.In || o2.In.Parent() != fc.Parent() {
				continue
			}
			switch o2.Kind {
			case "fill", "mut":
				if c02Reaches(o2.In, fc) && !loopCarried {
					dirty = fmt.Sprintf("buffer already written at line %d before it is filled", x.p.Fset.Position(o2.In.Pos()).Line)
				}
			case "reset":
				if Precedes(o2.In, fc) && c02Reaches(fc, o2.In) {
					resetOK = true
				}
			}
		}
		if loopCarried && !resetOK {
			dirty = "buffer outlives the loop iteration and is not Reset before it is filled again"
		}
		if loopCarried && resetOK {
			// between the Reset and the fill nothing else may write
			for _, o2 := range ops {
				if o2.Kind == "reset" && Precedes(o2.In, fc) {
					if ch, w := x.changedBetween(o2.In, fc, ops); ch {
						dirty = w
					}
				}
			}
		}
		if dirty != "" {
			why = dirty
			continue
		}
		return op, ""
	}
	return nil, why
}

// refOrigin resolves a ref value to the call that computed it, also through a
// struct field stored once earlier in the same function.
func (x *c02Ctx) refOrigin(v ssa.Value) ssa.Value {
	o := c02Origin(v)
	ld, ok := o.(*ssa.UnOp)
	if !ok || ld.Op != token.MUL {
		return o
	}
	fa, ok := ld.X.(*ssa.FieldAddr)
	if !ok {
		return o
	}
	pth := AccessPath(fa)
	if strings.Contains(pth, "?") {
		return o
	}
	var found *ssa.Store
	n := 0
	for _, b := range ld.Parent().Blocks {
		for _, in := range b.Instrs {
			if st, ok := in.(*ssa.Store); ok {
				if fa2, ok := st.Addr.(*ssa.FieldAddr); ok && AccessPath(fa2) == pth {
					n++
					found = st
				}
			}
		}
	}
	if n == 1 && Precedes(found, ld) {
		return c02Origin(found.Val)
	}
	return o
}

func (x *c02Ctx) fieldStoredBetween(path string, a, s ssa.Instruction) bool {
	if a.Parent() != s.Parent() {
		return true
	}
	for _, b := range a.Parent().Blocks {
		for _, in := range b.Instrs {
			if st, ok := in.(*ssa.Store); ok {
				if fa, ok := st.Addr.(*ssa.FieldAddr); ok && AccessPath(fa) == path && c02Reaches(a, st) && c02Reaches(st, s) {
					return true
				}
			}
		}
	}
	return false
}

// sameBytes: ref was computed by blob.RefFromBytes/RefFromString from the very
// bytes that data carries at site.
func (x *c02Ctx) sameBytes(top *ssa.Function, ref, data ssa.Value, site ssa.Instruction) (bool, string) {
	rc, ok := c02AsCall(x.refOrigin(ref))
	if !ok || !(rc.IsStatic(c02BlobPath, "", "RefFromBytes") || rc.IsStatic(c02BlobPath, "", "RefFromString")) {
		return false, "the ref is not computed by blob.RefFromBytes/RefFromString in this function"
	}
	ra, rb := x.carrier(rc.Args()[0], 0), x.carrier(data, 0)
	if !ra.same(rb) {
		return false, fmt.Sprintf("the ref is the digest of %s but the bytes passed come from %s", ra, rb)
	}
	switch ra.Kind {
	case "buf":
		from := ra.At
		if from == nil {
			from = rc.Instr
		}
		if ch, w := x.changedBetween(from, site, x.bufOps(top, ra.V)); ch {
			return false, "between the digest and the call: " + w
		}
	case "field":
		if x.fieldStoredBetween(ra.Path, ra.At, site) {
			return false, "the field is assigned between the digest and the call"
		}
	case "stream":
		return false, "a stream cannot be digested and passed on"
	}
	return true, "ref = " + rc.Callee().Name() + " of the same " + ra.Kind
}

func (x *c02Ctx) dstReverifies(c CallSite, dst ssa.Value) (bool, string) {
	if f := c.Callee(); f != nil && x.isReceiveBlobImpl(f) && x.isReverifier(f) {
		return true, FuncKey(f)
	}
	o := c02Origin(dst)
	if o == nil {
		return false, ""
	}
	n := NamedOf(o.Type())
	if n == nil {
		return false, ""
	}
	if _, isIface := n.Underlying().(*types.Interface); isIface {
		return false, ""
	}
	f, _ := x.p.MethodOf(n, "ReceiveBlob")
	if f != nil && f.Synthetic == "" && x.isReverifier(f) {
		return true, FuncKey(f)
	}
	return false, ""
}

// classify returns the acceptance idiom of one unverified hand-over (dst, ref, data) at site c.
func (x *c02Ctx) classify(c CallSite, dst, ref, rd ssa.Value, allowForward bool) (idiom, detail string, ok bool) {
	top := TopFunc(c.Fn)
	var reasons []string
	// (ii) delegation
	if x.isReceiveBlobImpl(top) {
		refP := c02ParamOfType(top, c02IsBlobRef)
		srcP := x.readerParam(top)
		if refP != nil && srcP != nil && c02Origin(ref) == ssa.Value(refP) {
			root := x.carrier(rd, 0)
			isSrc := func(v ssa.Value) bool { r := x.carrier(v, 0); return r.Kind == "stream" && r.V == ssa.Value(srcP) }
			switch root.Kind {
			case "stream":
				if root.V == ssa.Value(srcP) {
					return "delegation", "a ReceiveBlob method passes on its own ref and its own source stream", true
				}
			case "buf":
				op, why := x.filledOnceFrom(top, root.V, c.Instr, func(s ssa.Value, _ *ssa.Call) bool { return isSrc(s) })
				if op != nil {
					return "delegation", fmt.Sprintf("a ReceiveBlob method passes on its own ref and a buffer filled by one checked complete read of its source (line %d), untouched since", x.p.Fset.Position(op.In.Pos()).Line), true
				}
				reasons = append(reasons, "delegation: "+why)
			case "val":
				if ex, isEx := root.V.(*ssa.Extract); isEx && ex.Index == 0 {
					if rc, isCall := c02AsCall(ex.Tuple); isCall && (rc.IsStatic("io", "", "ReadAll") || rc.IsStatic("io/ioutil", "", "ReadAll")) && isSrc(rc.Args()[0]) {
						if ok, w := c02SuccDom(rc.Value(), c.Instr); ok {
							return "delegation", "a ReceiveBlob method passes on its own ref and the bytes of a checked io.ReadAll of its source", true
						} else {
							reasons = append(reasons, "delegation: "+w)
						}
					}
				}
			default:
				reasons = append(reasons, "delegation: cannot tell where the reader's bytes come from")
			}
		} else {
			reasons = append(reasons, "delegation: the ref passed on is not the method's own ref parameter")
		}
	}
	// (iii) ref computed from the same bytes
	if ok, why := x.sameBytes(top, ref, rd, c.Instr); ok {
		return "ref-of-same-bytes", why, true
	} else {
		reasons = append(reasons, "ref-of-same-bytes: "+why)
	}
	root := x.carrier(rd, 0)
	// (v) bytes hashed while read, HashMatches(ref)==true dominates
	if k, v, hc := BoolCallFact(c.Block(), func(h CallSite) bool {
		return h.IsStatic(c02BlobPath, "Ref", "HashMatches") && sameOrigin(h.Args()[0], ref)
	}); k && v {
		hObj := c02Origin(hc.Args()[1])
		fed := func(list []ssa.Value) bool {
			for _, s := range list {
				if s == hObj {
					return true
				}
			}
			return false
		}
		switch root.Kind {
		case "val":
			for _, fc := range CallsIn(c.Fn, false) {
				if fc.IsStatic("io", "", "ReadFull") && fc.Value() != nil && c02Origin(fc.Args()[1]) == root.V && fed(c02TeeSinks(fc.Args()[0])) {
					if ok, _ := c02SuccDom(fc.Value(), c.Instr); ok && Precedes(fc.Instr, hc.Instr) {
						return "hash-verified-buffer", "the bytes were hashed while they were read (io.ReadFull through a TeeReader into the hash) and HashMatches(ref)==true dominates the call", true
					}
				}
			}
		case "buf":
			op, _ := x.filledOnceFrom(top, root.V, c.Instr, func(s ssa.Value, fc *ssa.Call) bool { return true })
			if op != nil && (fed(op.CoSinks) || fed(c02TeeSinks(op.Src))) && Precedes(op.In, hc.Instr) {
				return "hash-verified-buffer", "the buffer was filled together with the hash and HashMatches(ref)==true dominates the call", true
			}
		}
		reasons = append(reasons, "hash-verified-buffer: HashMatches(ref) holds but the hash is not fed by the read that produced these bytes")
	}
	// (iv) re-population from a checked Fetch of the same ref
	if root.Kind == "buf" {
		op, why := x.filledOnceFrom(top, root.V, c.Instr, func(s ssa.Value, fill *ssa.Call) bool {
			ex, ok := c02Origin(s).(*ssa.Extract)
			if !ok || ex.Index != 0 {
				return false
			}
			fc, ok := c02AsCall(ex.Tuple)
			if !ok || !fc.IsMethod("Fetch", x.fetcher) || !sameOrigin(fc.Args()[len(fc.Args())-1], ref) {
				return false
			}
			ok2, _ := c02SuccessDominates(fc.Value(), fill)
			return ok2
		})
		if op != nil {
			return "refetch", "the buffer holds exactly the bytes of a successful Fetch of the same ref (read completely, error checked)", true
		}
		reasons = append(reasons, "refetch: "+why)
	}
	// (vii) destination re-verifies
	if ok, who := x.dstReverifies(c, dst); ok {
		return "reverifying-destination", "the destination's static type re-verifies the digest itself (" + who + ", see R-commit)", true
	}
	// (vi) forwarding helper
	if allowForward && c.Fn.Parent() == nil {
		if rp, ok := c02Origin(ref).(*ssa.Parameter); ok && rp.Parent() == c.Fn && root.Kind == "val" {
			if dp, ok := root.V.(*ssa.Parameter); ok && dp.Parent() == c.Fn {
				return "forwarding-helper", fmt.Sprintf("%d:%d", c02ParamIndex(rp), c02ParamIndex(dp)), true
			}
		}
	}
	return "", strings.Join(reasons, "; "), false
}

func c02ParamIndex(p *ssa.Parameter) int {
	for i, q := range p.Parent().Params {
		if q == p {
			return i
		}
	}
	return -1
}

func c02RuleEntry(x *c02Ctx) {
	p, r := x.p, x.r
	const rule = "R-entry"
	core := p.Func("pkg/blobserver", "", "receive")
	noHash := p.Func("pkg/blobserver", "", "ReceiveNoHash")
	if uses := p.FuncValueUses(noHash); len(uses) > 0 {
		r.Undecided(rule, FuncKey(noHash)+"#func-value", p.Pos(uses[0].Pos()), "ReceiveNoHash is used as a function value; its callers can no longer be enumerated")
	}
	nsites := 0
	for _, fn := range p.AllFuncs {
		top := TopFunc(fn)
		if IsTestSupportPkg(RelPkg(top.Pkg.Pkg)) {
			continue
		}
		// method values / method expressions of ReceiveBlob escape the enumeration
		for _, b := range fn.Blocks {
			for _, in := range b.Instrs {
				var f *ssa.Function
				switch t := in.(type) {
				case *ssa.MakeClosure:
					f, _ = t.Fn.(*ssa.Function)
				default:
					for _, op := range in.Operands(nil) {
						if ff, ok := (*op).(*ssa.Function); ok && ff.Synthetic != "" {
							if ci, isCall := in.(ssa.CallInstruction); !isCall || ci.Common().Value != ssa.Value(ff) {
								f = ff
							}
						}
					}
				}
				if f == nil || f.Synthetic == "" {
					continue
				}
				if m, ok := f.Object().(*types.Func); ok && m.Name() == "ReceiveBlob" {
					if sig, ok := m.Type().(*types.Signature); ok && sig.Recv() != nil && (types.Implements(sig.Recv().Type(), x.recv) || types.Implements(types.NewPointer(sig.Recv().Type()), x.recv)) {
						r.Undecided(rule, FuncKey(fn)+"#method-value:ReceiveBlob", p.Pos(in.Pos()), "a ReceiveBlob method is taken as a function value; the calls made through it cannot be enumerated")
					}
				}
			}
		}
		for _, c := range CallsIn(fn, false) {
			var dst, ref, rd ssa.Value
			as := c.Args()
			what := ""
			switch {
			case x.isReceiveBlobCall(c):
				dst, ref, rd = as[0], as[2], as[3]
				what = "ReceiveBlob"
			case c.IsStatic(c02BSPath, "", "ReceiveNoHash"):
				dst, ref, rd = as[1], as[2], as[3]
				what = "ReceiveNoHash"
			default:
				continue
			}
			nsites++
			construct := FuncKey(fn) + "#" + what + ":" + c02StablePath(dst)
			site := p.Pos(c.Pos())
			if top == core {
				r.OKTable(rule, construct, site, "inside blobserver.receive: the verified core itself (R-core)")
				continue
			}
			idiom, detail, ok := x.classify(c, dst, ref, rd, true)
			if !ok {
				r.Violation(rule, construct, site, "unverified ingest path: bytes are handed to a store without the hash check and no acceptance idiom applies ("+detail+")")
				continue
			}
			if idiom != "forwarding-helper" {
				r.OK(rule, construct, site, idiom+": "+detail)
				continue
			}
			// the helper forwards (ref, bytes) parameters: its callers carry the obligation (bound 1)
			var ri, di int
			fmt.Sscanf(detail, "%d:%d", &ri, &di)
			callers := p.StaticCallers(fn)
			if uses := p.FuncValueUses(fn); len(uses) > 0 || len(callers) == 0 {
				r.Undecided(rule, construct, site, "forwards its (ref, bytes) parameters unverified, but its callers cannot be enumerated (used as a value, or none found)")
				continue
			}
			r.OK(rule, construct, site, fmt.Sprintf("forwarding helper: passes on its own (ref, bytes) parameters; %d callers checked below", len(callers)))
			for _, cc := range callers {
				if IsTestSupportPkg(RelPkg(TopFunc(cc.Fn).Pkg.Pkg)) {
					continue
				}
				nsites++
				cas := cc.Args()
				cconstruct := FuncKey(cc.Fn) + "#calls:" + FuncKey(fn)
				ok, why := x.sameBytes(TopFunc(cc.Fn), cas[ri], cas[di], cc.Instr)
				r.Check(ok, rule, cconstruct, p.Pos(cc.Pos()), "caller of a forwarding helper: "+why,
					"caller of the unverified forwarding helper "+FuncKey(fn)+" does not pass a ref computed from the same bytes: "+why)
			}
		}
	}
	r.Analysed("unverified_handover_sites", nsites)
	r.Floor(rule, 23)
}

// c02StablePath renders a destination for a construct key without SSA register names.
func c02StablePath(v ssa.Value) string {
	s := AccessPath(v)
	if strings.Contains(s, "?") {
		return "expr"
	}
	return s
}
