package main

import (
	"fmt"
	"go/constant"
	"go/token"
	"go/types"
	"sort"
	"strings"
	"time"

	"golang.org/x/tools/go/ssa"
)

const (
	c02BSPath   = "perkeep.org/pkg/blobserver"
	c02BlobPath = "perkeep.org/pkg/blob"
)

func init() {
	register(&PropSpec{
		ID:    "C02",
		Title: "Only bytes matching their blobref, within the size cap, are ever accepted",
		Explanation: "Decided (structural necessary conditions). Every rule looks in EFFECTIVE BODIES: a function with its literals plus, transitively (depth 4), the declared functions of the same package it calls statically or starts with go; a helper's parameter stands for the caller's argument, a call's result for the value the helper returns on its success returns, the facts of a call site hold inside the helper, and the facts common to all success returns of a helper (or all returns of a boolean helper with that result) hold in the caller where its error is known nil; 'call P succeeded before site Q' carries across calls when every return of each helper in between that may report success is dominated by the err==nil edge of the inner call. Code run from defer statements and deferred literals is not part of an effective body. A field that is written only while its object is being built (every store of the module to it initialises a fresh allocation, its address is never handed out, no value of the struct type is overwritten through a pointer) stands for the value stored there, whoever reads it: a helper reading cs.sb.Ref sees the caller's sb.Ref. The source stream is followed by role, not by helper name or result type: into objects it is stored in (also through a pointer parameter of a helper, which is then the caller's object), out of them again through parameters and loaded pointers, and out of helpers through whatever they return. " +
			"R-entry — every non-test call of BlobReceiver.ReceiveBlob (any implementer, static or through an interface) and of blobserver.ReceiveNoHash is classified by computed acceptance idioms, judged in the effective body of the enclosing top-level function: inside the verified core (see R-core); delegation by a ReceiveBlob method of its own (ref, source) — the stream itself or a buffer filled by one checked, complete read of it and not touched since; the ref is blob.RefFromBytes/RefFromString of the very bytes/string/buffer/field that feed the reader; bytes hashed while read with HashMatches(ref)==true dominating; re-population from a checked Fetch of the same ref; a (ref,string) forwarding helper whose callers satisfy one of the idioms; or the destination's static type is a store whose own ReceiveBlob re-verifies the digest. Where no idiom applies in the function itself and it is a helper whose static callers can all be enumerated (never used as a value or through an interface, same package), the site is judged in the effective body of every caller (recursively, depth 3): all must establish an idiom. Anything else is a violation; ReceiveNoHash/ReceiveBlob taken as a function value is undecided. " +
			"R-core — anchored at the two exported entry points blobserver.Receive and blobserver.ReceiveNoHash (not at internal helpers): the effective body of each contains exactly one backend ReceiveBlob call, on the entry point's own dst and ref; the reader handed to it is, on every feasible path (conditions on flag parameters bound to constants by the caller are evaluated), for Receive the hash-checking reader (a struct holding br.Hash() known non-nil, the same ref, and io.LimitReader/&io.LimitedReader of the entry point's src with MaxBlobSize) and for ReceiveNoHash at least that LimitReader; hub notification (BlobHub.NotifyBlobReceived, with the SizedRef the backend returned) and every nil-error return are dominated by success of the backend call; the helpers between the entry points and the backend call may be called only from the core, any other caller must itself satisfy the obligations of the verified entry point; in the Read method of the hash-checking reader type (found from the value, not by name) the bytes read are hashed before the comparison and the underlying error is returned unchanged only where it is known not to be EOF or HashMatches is known true. " +
			"R-http — anchored at the exported constructors CreatePutUploadHandler and CreateBatchUploadHandler: in the PUT handler's effective body Receive is called on the constructor's storage with the parsed ref only under ContentLength<=MaxBlobSize, Parse ok and IsSupported; every path on which Receive's error may be non-nil writes an error status (followed upwards through helpers that pass the error on), a success status only under err==nil; the multipart handler lists in UploadResponse.Received only results of Receive whose success dominates the listing, and the error guarding the listing merges Receive's error with a non-nil error raised when the part's byte counter (limited to MaxBlobSize+1) reached the limit. " +
			"R-commit — for every ReceiveBlob implementation, every commit point of its effective body (delegated receive, sorted.KeyValue Set/Delete/CommitBatch, VFS rename, store into a map reachable from the receiver, and a three-entry table of calls into other packages/third-party clients) is the call that consumes the source or is dominated by the err==nil edge of a complete read of it (io.Copy/ReadAll/ReadFrom/delegation, possibly inside a helper); the read error of a consumer is never discarded; a helper that is handed bytes as a reader other than the source stream and commits is checked like a receiver of its own; stores that compare the digest themselves commit only under HashMatches==true; every nil-error return follows a successful consumer (R-verdict; a return of a helper's error is replaced by the helper's own returns). " +
			"NOT decided: that the hash functions compute the right digest; behaviour at exactly 16 MiB; fragmentation of readers; that opaque third-party upload calls (S3, Drive, Azure, GCS, mgo, the perkeep client) abort atomically when their body reader fails; aliasing beyond single-store locals, captured variables, parameter-to-argument binding, receiver-rooted field paths and write-once fields of objects allocated in the effective body (writes through reflection or unsafe are not seen); callees mutating a buffer they were not passed; helpers of other packages, helpers reached through function values or interfaces (an HTTP handler turned into a type with a ServeHTTP method is not followed and would be reported), effective bodies deeper than 4 calls or larger than 400 frames; what deferred code and test-support packages do.",
		RuleDocs: map[string]string{
			"R-entry":   "who-may-call: every call of BlobReceiver.ReceiveBlob / blobserver.ReceiveNoHash outside test support, classified by value-flow idioms over the effective body (delegation of own source, ref computed from the same bytes, hash-verified buffer, re-population from Fetch, re-verifying destination type, forwarding helper); a helper with enumerable callers is judged in each caller's effective body",
			"R-core":    "the effective bodies of blobserver.Receive and ReceiveNoHash: one backend call on the own dst/ref, value chain of the reader handed to it on every feasible path, nil-hash guard, notification and success returns dominated by its success, who may call the shared helpers; Read of the hash-checking reader: EOF turned into ErrCorruptBlob unless the digest matches",
			"R-http":    "PUT and multipart upload handlers (effective bodies of the exported constructors): guards dominating Receive, error status on every failing path, Received list built only from successful verified receives, oversize override",
			"R-commit":  "every ReceiveBlob implementation: commit points of the effective body dominated by success of the call that consumes source (the stream is followed through handle objects, pointer parameters and helper results); consumer errors not discarded; reader-taking commit helpers checked like receivers; re-verifying stores commit under HashMatches==true",
			"R-verdict": "every ReceiveBlob implementation: a nil-error return (of the method or of the helper whose error it returns) is dominated by success of a call that consumed source (the digest/size verdict of blobserver.Receive reaches a backend only as that read error)",
		},
		Run:       runC02,
		DesignRef: "DESIGN.md §4 C02",
		Technique: "static analysis: effective bodies (call-chain frames over same-package static callees with parameter/result binding, fact transfer and success summaries of helpers), module-wide write-once classification of struct fields, type-resolved who-may-call with value-flow acceptance idioms, dominance on err==nil / HashMatches edges over go/ssa, forward taint of the source reader, path exploration for error responses",
		LevelText: "Decides structural necessary conditions only: which code may hand bytes to a store without the hash check and why those bytes are the ones the ref was computed from; that the verified core wraps the size cap and the digest comparison and notifies only after success; that the HTTP handlers guard, report and list correctly on every CFG path; that every backend commits only after the read of source succeeded. The verdicts are invariant under extraction/inlining of same-package helpers, function splitting, closure-to-function conversion, moving per-call state into the fields of a small object with methods, renaming and the usual control-flow reshapings (the selftest holds 38 behaviour-preserving variants that must stay silent). Does not decide digests, the 16 MiB boundary behaviour, reader fragmentation or atomicity of third-party uploads.",
	})
}

// c02Ctx carries the resolved anchors of one run.
type c02Ctx struct {
	p           *Program
	r           *Reporter
	recv        *types.Interface // blobserver.BlobReceiver
	kv          *types.Interface // sorted.KeyValue
	vfs         *types.Interface // files.VFS
	fetcher     *types.Interface // blob.Fetcher
	ioReader    *types.Interface
	maxBlob     int64
	reverify    map[*ssa.Function]int // 0 unknown, 1 yes, 2 no
	k5seen      map[string]bool
	trees       map[*ssa.Function]*c02Tree
	impliesMemo map[c02fc]c02verdict
	core        map[*ssa.Function]bool // the entry points of the verified core and the helpers between them and the backend call
	flagBad     map[string]string
	hashReaders map[*types.Named]bool
	fieldAddrs  map[c02FieldKey][]*ssa.FieldAddr // every address-of-field instruction of the module, built on first use
	wholeStores map[*types.Named]bool            // struct types some value of which is overwritten as a whole through a pointer
	initOnly    map[c02FieldKey]int              // 0 unknown, 1 yes, 2 no
}

// c02FieldKey names field I of the named struct type T.
type c02FieldKey struct {
	T *types.Named
	I int
}

func runC02(p *Program, r *Reporter) {
	x := &c02Ctx{p: p, r: r, reverify: map[*ssa.Function]int{}, k5seen: map[string]bool{}, trees: map[*ssa.Function]*c02Tree{},
		impliesMemo: map[c02fc]c02verdict{}, core: map[*ssa.Function]bool{}, flagBad: map[string]string{}, hashReaders: map[*types.Named]bool{}}
	c02NilRetMemo = map[*ssa.Function][]c02NilRet{}
	defer func() { c02NilRetMemo = map[*ssa.Function][]c02NilRet{} }()
	x.recv = p.Iface("pkg/blobserver", "BlobReceiver")
	x.kv = p.Iface("pkg/sorted", "KeyValue")
	x.vfs = p.Iface("pkg/blobserver/files", "VFS")
	x.fetcher = p.Iface("pkg/blob", "Fetcher")
	iop := p.ByPath["io"]
	if iop == nil || iop.Types == nil {
		brokenf("anchor unresolved: package io")
	}
	tn, _ := iop.Types.Scope().Lookup("Reader").(*types.TypeName)
	if tn == nil {
		brokenf("anchor unresolved: io.Reader")
	}
	x.ioReader = tn.Type().Underlying().(*types.Interface)
	x.maxBlob = c02ConstInt(p, "pkg/blobserver", "MaxBlobSize")
	t0 := time.Now()
	c02RuleCore(x)
	t1 := time.Now()
	c02RuleHTTP(x)
	t2 := time.Now()
	c02RuleCommit(x)
	t3 := time.Now()
	c02RuleEntry(x)
	r.Note("C02 rules ran in %.2fs after loading (core %.2f, http %.2f, commit %.2f, entry %.2f)", time.Since(t0).Seconds(),
		t1.Sub(t0).Seconds(), t2.Sub(t1).Seconds(), t3.Sub(t2).Seconds(), time.Since(t3).Seconds())
}

// ---------------------------------------------------------------------------
// small general helpers (c02-prefixed; candidates for helpers.go)

func c02ConstInt(p *Program, rel, name string) int64 {
	c, _ := p.Pkg(rel).Types.Scope().Lookup(name).(*types.Const)
	if c == nil {
		brokenf("anchor unresolved: constant %s.%s", rel, name)
	}
	v, ok := constant.Int64Val(constant.ToInt(c.Val()))
	if !ok {
		brokenf("anchor unresolved: constant %s.%s is not an integer", rel, name)
	}
	return v
}

func (x *c02Ctx) isReaderType(t types.Type) bool {
	if t == nil {
		return false
	}
	if types.Implements(t, x.ioReader) {
		return true
	}
	if _, isPtr := t.(*types.Pointer); !isPtr {
		if _, isIface := t.Underlying().(*types.Interface); !isIface {
			return types.Implements(types.NewPointer(t), x.ioReader)
		}
	}
	return false
}

// c02Origin is originValue that also resolves a free variable to the value
// bound where the closure is made.
func c02Origin(v ssa.Value) ssa.Value {
	for i := 0; i < 8 && v != nil; i++ {
		v = originValue(v)
		fv, ok := v.(*ssa.FreeVar)
		if !ok {
			return v
		}
		b := bindingOf(fv)
		if b == nil {
			return v
		}
		v = b
	}
	return v
}

// c02EdgeFacts are the branch facts known when control flows from pred to succ.
func c02EdgeFacts(pred, succ *ssa.BasicBlock) []CondFact {
	out := append([]CondFact(nil), FactsAt(pred)...)
	if n := len(pred.Instrs); n > 0 {
		if ifi, ok := pred.Instrs[n-1].(*ssa.If); ok && len(pred.Succs) == 2 && pred.Succs[0] != pred.Succs[1] {
			if pred.Succs[0] == succ {
				out = append(out, CondFact{ifi.Cond, true, pred})
			} else if pred.Succs[1] == succ {
				out = append(out, CondFact{ifi.Cond, false, pred})
			}
		}
	}
	return out
}

// c02Incoming splits a value into (value, facts) pairs: one per phi edge, or
// the value itself with the facts of block at.
type c02In struct {
	Val   ssa.Value
	Facts []CondFact
	From  *ssa.BasicBlock
}

func c02Incoming(v ssa.Value, at *ssa.BasicBlock) []c02In {
	return c02IncomingSeen(v, at, map[*ssa.Phi]bool{})
}

// c02IncomingSeen is c02Incoming with the set of phis already being expanded:
// phis of a loop refer to each other (a -> b -> a); a phi met again is kept as
// a leaf value instead of being expanded for ever.
func c02IncomingSeen(v ssa.Value, at *ssa.BasicBlock, seen map[*ssa.Phi]bool) []c02In {
	if ph, ok := v.(*ssa.Phi); ok {
		seen[ph] = true
		var out []c02In
		for i, e := range ph.Edges {
			pred := ph.Block().Preds[i]
			if inner, ok := e.(*ssa.Phi); ok && inner != ph && !seen[inner] {
				for _, in := range c02IncomingSeen(inner, pred, seen) {
					in.Facts = append(in.Facts, c02EdgeFacts(pred, ph.Block())...)
					out = append(out, in)
				}
				continue
			}
			out = append(out, c02In{e, c02EdgeFacts(pred, ph.Block()), pred})
		}
		return out
	}
	if len(at.Preds) > 1 {
		// a merge block: what is known differs per incoming edge
		var out []c02In
		for _, pred := range at.Preds {
			out = append(out, c02In{v, c02EdgeFacts(pred, at), pred})
		}
		return out
	}
	return []c02In{{v, FactsAt(at), at}}
}

func c02AsCall(v ssa.Value) (CallSite, bool) {
	if c, ok := v.(*ssa.Call); ok {
		return CallSite{c.Parent(), c}, true
	}
	return CallSite{}, false
}

func c02LastInstr(b *ssa.BasicBlock) ssa.Instruction { return b.Instrs[len(b.Instrs)-1] }

func c02AllInstrs(top *ssa.Function, visit func(f *ssa.Function, in ssa.Instruction)) {
	var walk func(f *ssa.Function)
	walk = func(f *ssa.Function) {
		for _, b := range f.Blocks {
			for _, in := range b.Instrs {
				visit(f, in)
			}
		}
		for _, a := range f.AnonFuncs {
			walk(a)
		}
	}
	walk(top)
}

func c02Reaches(a, b ssa.Instruction) bool {
	return a.Parent() == b.Parent() && ReachableFrom(a, nil)[b]
}

// c02ReachesAvoiding: b is reachable from a on a path that does not execute avoid.
func c02ReachesAvoiding(a, b, avoid ssa.Instruction) bool {
	if a.Parent() != b.Parent() {
		return false
	}
	return ReachableFrom(a, func(in ssa.Instruction) bool { return in == avoid && in != b })[b]
}

// c02LiteralAnchors returns the instructions of the parent at which literal l
// starts executing (its call/go/defer sites), or its MakeClosure when the
// closure value is used in any other way.
func c02LiteralAnchors(l *ssa.Function) []ssa.Instruction {
	par := l.Parent()
	if par == nil {
		return nil
	}
	var mcs []ssa.Instruction
	onlyCalled := true
	for _, b := range par.Blocks {
		for _, in := range b.Instrs {
			mc, ok := in.(*ssa.MakeClosure)
			if !ok || mc.Fn != ssa.Value(l) {
				continue
			}
			mcs = append(mcs, mc)
			var check func(v ssa.Value, depth int)
			check = func(v ssa.Value, depth int) {
				refs := v.Referrers()
				if refs == nil || depth > 3 {
					return
				}
				for _, u := range *refs {
					switch u := u.(type) {
					case *ssa.DebugRef:
					case ssa.CallInstruction:
						if u.Common().Value != v {
							onlyCalled = false
						}
					case *ssa.Store:
						al, isAl := u.Addr.(*ssa.Alloc)
						if u.Val != v || !isAl || !plainVariable(al) {
							onlyCalled = false
						}
					default:
						onlyCalled = false
					}
				}
			}
			check(mc, 0)
		}
	}
	var calls []ssa.Instruction
	for _, c := range CallsIn(par, false) {
		if c.Callee() == l {
			calls = append(calls, c.Instr)
		}
	}
	if onlyCalled && len(calls) > 0 {
		return calls
	}
	return mcs
}

// c02SuccDom: call c succeeded on every path to site s, where s may sit in a
// function literal directly nested in c's function (then every start of the
// literal must be dominated).
func c02SuccDom(c *ssa.Call, s ssa.Instruction) (bool, string) {
	if c.Parent() == s.Parent() {
		return c02SuccessDominates(c, s)
	}
	l := s.Parent()
	if l.Parent() != c.Parent() {
		return false, "site is in a different function than the call"
	}
	anchors := c02LiteralAnchors(l)
	if len(anchors) == 0 {
		return false, "no start site of the enclosing literal found"
	}
	for _, a := range anchors {
		if ok, why := c02SuccessDominates(c, a); !ok {
			return false, "enclosing literal may start where " + why
		}
	}
	return true, ""
}

// c02CellVal: for a load of a local variable whose address is taken (so
// originValue cannot resolve it), the value stored to it earlier in the same
// block with no call in between.
func c02CellVal(v ssa.Value) ssa.Value {
	var out ssa.Value
	for i := 0; i < 4; i++ {
		ld, ok := v.(*ssa.UnOp)
		if !ok || ld.Op != token.MUL {
			break
		}
		al, ok := ld.X.(*ssa.Alloc)
		if !ok {
			break
		}
		var next ssa.Value
		instrs := ld.Block().Instrs
	scan:
		for i := instrIndex(ld) - 1; i >= 0; i-- {
			switch t := instrs[i].(type) {
			case *ssa.Store:
				if t.Addr == ssa.Value(al) {
					next = t.Val
					break scan
				}
			case ssa.CallInstruction:
				break scan
			}
		}
		if next == nil {
			if st := reachingStore(al, ld); st != nil {
				next = st.Val
			}
		}
		if next == nil {
			break
		}
		out, v = next, next
	}
	return out
}

// c02NilKnown reports what the facts at block b say about v being nil. Unlike
// NilFact it never equates a phi with one of its operands: a test of a merged
// error variable says something about an earlier error only through
// c02NilClosure. It also understands `x = f(); if x != nil` on a variable
// whose address is taken elsewhere.
func c02NilKnown(b *ssa.BasicBlock, v ssa.Value) (known, isNil bool) {
	ov := originValue(v)
	facts := FactsAt(b)
	for _, f := range facts {
		cond, val := c02StripNot(f.Cond, f.Val)
		bo, ok := cond.(*ssa.BinOp)
		if !ok || bo.Op != token.EQL && bo.Op != token.NEQ {
			continue
		}
		var other ssa.Value
		if IsNilConst(bo.Y) {
			other = bo.X
		} else if IsNilConst(bo.X) {
			other = bo.Y
		} else {
			continue
		}
		if other == v || originValue(other) == ov {
			return true, (bo.Op == token.EQL) == val
		}
		if cv := c02CellVal(other); cv != nil && (cv == v || originValue(cv) == ov) {
			return true, (bo.Op == token.EQL) == val
		}
	}
	for _, nv := range c02NilClosure(facts, 0) {
		if originValue(nv) == ov {
			return true, true
		}
		if cv := c02CellVal(nv); cv != nil && originValue(cv) == ov {
			return true, true
		}
	}
	return false, false
}

// c02NilTested: the fact (cond==val) says that a value is nil; returns that value.
func c02NilTested(cond ssa.Value, val bool) ssa.Value {
	for {
		if u, ok := cond.(*ssa.UnOp); ok && u.Op == token.NOT {
			cond, val = u.X, !val
			continue
		}
		break
	}
	bo, ok := cond.(*ssa.BinOp)
	if !ok || bo.Op != token.EQL && bo.Op != token.NEQ {
		return nil
	}
	var other ssa.Value
	switch {
	case IsNilConst(bo.Y):
		other = bo.X
	case IsNilConst(bo.X):
		other = bo.Y
	default:
		return nil
	}
	if (bo.Op == token.EQL) != val {
		return nil
	}
	return other
}

// c02NilClosure lists the values known nil under the facts, following phis
// backwards: a phi that is nil arrived over an edge whose operand may be nil
// (an edge whose own condition says the operand is non-nil, or whose operand
// is a fresh error, is excluded); what holds on all remaining edges holds too.
// This is how `err := f(); if err == nil { err = g() }; if err != nil { return }`
// yields "f's error is nil" after the check.
func c02NilClosure(facts []CondFact, depth int) []ssa.Value {
	var out []ssa.Value
	for _, f := range facts {
		if v := c02NilTested(f.Cond, f.Val); v != nil {
			out = append(out, v)
			out = append(out, c02PhiNil(v, depth)...)
		}
	}
	return out
}

func c02PhiNil(v ssa.Value, depth int) []ssa.Value {
	ph, ok := originValue(v).(*ssa.Phi)
	if !ok || depth > 4 {
		return nil
	}
	var sets [][]ssa.Value
	for i, e := range ph.Edges {
		if isNonNilErrorExpr(e) {
			continue
		}
		ef := c02EdgeFacts(ph.Block().Preds[i], ph.Block())
		nonNil := false
		for _, f := range ef {
			cond, val := c02StripNot(f.Cond, f.Val)
			bo, ok := cond.(*ssa.BinOp)
			if !ok || bo.Op != token.EQL && bo.Op != token.NEQ {
				continue
			}
			var other ssa.Value
			switch {
			case IsNilConst(bo.Y):
				other = bo.X
			case IsNilConst(bo.X):
				other = bo.Y
			default:
				continue
			}
			if originValue(other) == originValue(e) && (bo.Op == token.EQL) != val {
				nonNil = true
			}
		}
		if nonNil {
			continue
		}
		set := append([]ssa.Value{e}, c02PhiNil(e, depth+1)...)
		set = append(set, c02NilClosure(ef, depth+1)...)
		sets = append(sets, set)
	}
	if len(sets) == 0 {
		return nil
	}
	var out []ssa.Value
	for _, a := range sets[0] {
		inAll := true
		for _, s := range sets[1:] {
			found := false
			for _, b := range s {
				if originValue(a) == originValue(b) {
					found = true
					break
				}
			}
			if !found {
				inAll = false
				break
			}
		}
		if inAll {
			out = append(out, a)
		}
	}
	return out
}

func c02SuccessDominates(c *ssa.Call, s ssa.Instruction) (bool, string) {
	if !Precedes(c, s) {
		return false, "call does not dominate the site"
	}
	ev, hasErr, disc := ErrValue(c)
	if !hasErr {
		return true, ""
	}
	if disc {
		return false, "error result of the call is discarded"
	}
	if k, isNil := c02NilKnown(s.Block(), ev); k && isNil {
		return true, ""
	}
	return false, "site is not on the err==nil edge of the call"
}

func c02IsBytesBufferPtr(t types.Type) bool {
	pt, ok := t.(*types.Pointer)
	return ok && IsNamed(pt.Elem(), "bytes", "Buffer")
}

// c02Elems expands a variadic slice argument into the values stored into its
// backing array; other values are returned as is.
func c02Elems(v ssa.Value) []ssa.Value {
	sl, ok := v.(*ssa.Slice)
	if !ok {
		return []ssa.Value{v}
	}
	al, ok := sl.X.(*ssa.Alloc)
	if !ok || al.Referrers() == nil {
		return []ssa.Value{v}
	}
	var out []ssa.Value
	for _, u := range *al.Referrers() {
		ia, ok := u.(*ssa.IndexAddr)
		if !ok || ia.Referrers() == nil {
			continue
		}
		for _, uu := range *ia.Referrers() {
			if st, ok := uu.(*ssa.Store); ok && st.Addr == ssa.Value(ia) {
				out = append(out, st.Val)
			}
		}
	}
	if len(out) == 0 {
		return []ssa.Value{v}
	}
	return out
}

// c02ArgsExpanded lists the call's arguments (receiver first) with variadic
// slices expanded.
func c02ArgsExpanded(c CallSite) []ssa.Value {
	var out []ssa.Value
	for _, a := range c.Args() {
		out = append(out, c02Elems(a)...)
	}
	return out
}

func c02FieldLoad(v ssa.Value, field string) (*ssa.FieldAddr, bool) {
	ld, ok := v.(*ssa.UnOp)
	if !ok || ld.Op != token.MUL {
		return nil, false
	}
	fa, ok := ld.X.(*ssa.FieldAddr)
	if !ok || fieldName(fa.X.Type(), fa.Field) != field {
		return nil, false
	}
	return fa, true
}

func c02ParamOfType(fn *ssa.Function, match func(types.Type) bool) *ssa.Parameter {
	var found *ssa.Parameter
	for i, prm := range fn.Params {
		if i == 0 && fn.Signature.Recv() != nil {
			continue
		}
		if match(prm.Type()) {
			if found != nil {
				return nil
			}
			found = prm
		}
	}
	return found
}

func c02IsBlobRef(t types.Type) bool {
	n, ok := t.(*types.Named)
	return ok && n.Obj().Name() == "Ref" && n.Obj().Pkg() != nil && n.Obj().Pkg().Path() == c02BlobPath
}

func (x *c02Ctx) isReceiveBlobCall(c CallSite) bool { return c.IsMethod("ReceiveBlob", x.recv) }

func c02IsReceiveFamily(c CallSite) (name string, ok bool) {
	for _, n := range []string{"Receive", "ReceiveNoHash", "ReceiveString"} {
		if c.IsStatic(c02BSPath, "", n) {
			return n, true
		}
	}
	return "", false
}

// isReceiveBlobImpl: fn is a declared ReceiveBlob method of a BlobReceiver.
func (x *c02Ctx) isReceiveBlobImpl(fn *ssa.Function) bool {
	if fn == nil || fn.Name() != "ReceiveBlob" || fn.Signature.Recv() == nil || fn.Parent() != nil || fn.Synthetic != "" {
		return false
	}
	t := fn.Signature.Recv().Type()
	if types.Implements(t, x.recv) {
		return true
	}
	if _, isPtr := t.(*types.Pointer); !isPtr {
		return types.Implements(types.NewPointer(t), x.recv)
	}
	return false
}

// ---------------------------------------------------------------------------
// Effective bodies.
//
// A rule that looks for a site "in function F" looks in F's effective body: F
// (with its function literals) plus, transitively, the declared functions of
// the same package that F calls statically. Every call chain is a frame. A
// parameter of a frame stands for the caller's argument, a result of the call
// for the value the helper returns on its success returns; branch facts of the
// call site hold inside the helper, and the facts common to all success returns
// of a helper hold in the caller where the helper's error is known nil.

const (
	c02MaxDepth  = 4
	c02MaxFrames = 400
)

type c02Frame struct {
	fn     *ssa.Function
	parent *c02Frame
	site   ssa.CallInstruction // the call or go statement (in parent.fn or one of its literals) that enters fn
	depth  int
	kids   map[ssa.Instruction]*c02Frame
	tree   *c02Tree
}

// c02Loc is an instruction of a frame, c02LV a value of a frame.
type c02Loc struct {
	F  *c02Frame
	In ssa.Instruction
}

type c02LV struct {
	F *c02Frame
	V ssa.Value
}

// c02EF is a branch fact: Cond (a value of frame F) evaluated to Val.
type c02EF struct {
	F    *c02Frame
	Cond ssa.Value
	Val  bool
}

type c02fb struct {
	f *c02Frame
	b *ssa.BasicBlock
}

type c02fi struct {
	f *c02Frame
	i int
}

type c02fbool struct {
	f *c02Frame
	v bool
}

type c02fc struct {
	fn *ssa.Function
	c  *ssa.Call
}

type c02verdict struct {
	ok  bool
	why string
}

type c02Tree struct {
	x        *c02Ctx
	root     *c02Frame
	frames   []*c02Frame
	factMemo map[c02fb][]c02EF
	retFacts map[*c02Frame][]c02EF
	retBool  map[c02fbool][]c02EF
	retVals  map[c02fi]*c02LV
	busy     map[c02fi]bool
	capped   bool
}

// isHelper: callee belongs to the effective body of a function of root's package.
func (x *c02Ctx) isHelper(root, callee *ssa.Function) bool {
	if callee == nil || callee.Blocks == nil || callee.Parent() != nil || callee.Synthetic != "" || callee.Pkg == nil || callee.Pkg != root.Pkg {
		return false
	}
	if x.isReceiveBlobImpl(callee) {
		return false
	}
	if callee.Pkg.Pkg.Path() == c02BSPath {
		switch callee.Name() {
		case "Receive", "ReceiveNoHash", "ReceiveString":
			return false // the property's own entry points: always anchors, never helpers
		}
	}
	return true
}

func (x *c02Ctx) tree(root *ssa.Function) *c02Tree {
	if t := x.trees[root]; t != nil {
		return t
	}
	t := &c02Tree{x: x, factMemo: map[c02fb][]c02EF{}, retFacts: map[*c02Frame][]c02EF{}, retBool: map[c02fbool][]c02EF{},
		retVals: map[c02fi]*c02LV{}, busy: map[c02fi]bool{}}
	t.root = &c02Frame{fn: root, kids: map[ssa.Instruction]*c02Frame{}, tree: t}
	x.trees[root] = t
	queue := []*c02Frame{t.root}
	made := 1
	for len(queue) > 0 {
		f := queue[0]
		queue = queue[1:]
		t.frames = append(t.frames, f)
		if f.depth >= c02MaxDepth {
			continue
		}
		c02AllInstrs(f.fn, func(lit *ssa.Function, in ssa.Instruction) {
			call, ok := in.(ssa.CallInstruction)
			if !ok {
				return
			}
			if _, isDefer := in.(*ssa.Defer); isDefer {
				return // runs at exit: not at this place of the body
			}
			for l := lit; l != nil && l != f.fn; l = l.Parent() {
				if c02DeferredLiteral(l) {
					return // inside a deferred literal: likewise
				}
			}
			callee := call.Common().StaticCallee()
			if !x.isHelper(root, callee) {
				return
			}
			for a := f; a != nil; a = a.parent {
				if a.fn == callee {
					return // recursion
				}
			}
			if made >= c02MaxFrames {
				t.capped = true
				return
			}
			made++
			k := &c02Frame{fn: callee, parent: f, site: call, depth: f.depth + 1, kids: map[ssa.Instruction]*c02Frame{}, tree: t}
			f.kids[in] = k
			queue = append(queue, k)
		})
	}
	return t
}

// c02DeferredLiteral: every start of literal l is a defer statement.
func c02DeferredLiteral(l *ssa.Function) bool {
	anchors := c02LiteralAnchors(l)
	if len(anchors) == 0 {
		return false
	}
	for _, a := range anchors {
		if _, ok := a.(*ssa.Defer); !ok {
			return false
		}
	}
	return true
}

// each visits every instruction of the effective body (literals included).
func (t *c02Tree) each(visit func(f *c02Frame, fn *ssa.Function, in ssa.Instruction)) {
	for _, f := range t.frames {
		c02AllInstrs(f.fn, func(fn *ssa.Function, in ssa.Instruction) { visit(f, fn, in) })
	}
}

// under visits the frames of the subtree rooted at k.
func (t *c02Tree) under(k *c02Frame) []*c02Frame {
	var out []*c02Frame
	for _, f := range t.frames {
		for a := f; a != nil; a = a.parent {
			if a == k {
				out = append(out, f)
				break
			}
		}
	}
	return out
}

// kidOf returns the frame a call instruction enters, if it calls a helper.
func (f *c02Frame) kidOf(in ssa.Instruction) *c02Frame { return f.kids[in] }

func (f *c02Frame) args() []ssa.Value { return f.site.Common().Args }

// chain names the helpers between the root and f ("" for the root).
func (f *c02Frame) chain() string {
	if f.parent == nil {
		return ""
	}
	if p := f.parent.chain(); p != "" {
		return p + "/" + f.fn.Name()
	}
	return f.fn.Name()
}

func c02LCA(a, b *c02Frame) *c02Frame {
	for a.depth > b.depth {
		a = a.parent
	}
	for b.depth > a.depth {
		b = b.parent
	}
	for a != b {
		a, b = a.parent, b.parent
	}
	return a
}

// c02LiftTo returns the instruction of frame to (f itself or an ancestor)
// during which instruction in of frame f executes.
func c02LiftTo(f *c02Frame, in ssa.Instruction, to *c02Frame) ssa.Instruction {
	for f != nil && f != to {
		in, f = f.site, f.parent
	}
	if f == nil {
		return nil
	}
	return in
}

// c02SpillParam: al is the local copy go/ssa makes of a struct parameter whose
// fields are addressed; it is written once (the parameter) and only read after.
func c02SpillParam(al *ssa.Alloc) *ssa.Parameter {
	if al == nil || al.Referrers() == nil {
		return nil
	}
	var prm *ssa.Parameter
	var readOnly func(v ssa.Value, depth int) bool
	readOnly = func(v ssa.Value, depth int) bool {
		if v.Referrers() == nil || depth > 4 {
			return false
		}
		for _, u := range *v.Referrers() {
			switch u := u.(type) {
			case *ssa.DebugRef:
			case *ssa.UnOp:
				if u.Op != token.MUL {
					return false
				}
			case *ssa.FieldAddr:
				if !readOnly(u, depth+1) {
					return false
				}
			case *ssa.Store:
				if depth > 0 || u.Addr != v {
					return false
				}
				p, ok := u.Val.(*ssa.Parameter)
				if !ok || prm != nil {
					return false
				}
				prm = p
			default:
				return false
			}
		}
		return true
	}
	if !readOnly(al, 0) {
		return nil
	}
	return prm
}

// ---- fields written once, where the object is built
//
// A helper may read from a field of a status/handle object what its caller
// holds in a local (cs.sb.Ref for sb.Ref). The two are the same value when the
// field is only ever written while the object is being built: every store of
// the module to that field goes to a freshly allocated object that has not been
// used for anything else yet, the field's address is never handed out, and no
// value of the struct type is overwritten as a whole through a pointer.

func (x *c02Ctx) buildFieldIndex() {
	if x.fieldAddrs != nil {
		return
	}
	x.fieldAddrs = map[c02FieldKey][]*ssa.FieldAddr{}
	x.wholeStores = map[*types.Named]bool{}
	x.initOnly = map[c02FieldKey]int{}
	for _, fn := range x.p.AllFuncs {
		for _, b := range fn.Blocks {
			for _, in := range b.Instrs {
				switch tv := in.(type) {
				case *ssa.FieldAddr:
					if n := NamedOf(tv.X.Type()); n != nil {
						k := c02FieldKey{n, tv.Field}
						x.fieldAddrs[k] = append(x.fieldAddrs[k], tv)
					}
				case *ssa.Store:
					n, ok := types.Unalias(tv.Val.Type()).(*types.Named)
					if !ok {
						continue
					}
					if _, isStruct := n.Underlying().(*types.Struct); !isStruct {
						continue
					}
					if al, isAl := tv.Addr.(*ssa.Alloc); isAl && (c02SpillParam(al) != nil || !al.Heap && plainVariable(al)) {
						continue // a local variable nobody else points to
					}
					x.wholeStores[n] = true
				}
			}
		}
	}
}

// c02OnlyLoaded: the address is used only to load (the whole field or parts of it).
func c02OnlyLoaded(addr ssa.Value, depth int) bool {
	if addr.Referrers() == nil || depth > 6 {
		return false
	}
	for _, u := range *addr.Referrers() {
		switch u := u.(type) {
		case *ssa.DebugRef:
		case *ssa.UnOp:
			if u.Op != token.MUL {
				return false
			}
		case *ssa.FieldAddr:
			if !c02OnlyLoaded(u, depth+1) {
				return false
			}
		case *ssa.IndexAddr:
			if u.X != addr || !c02OnlyLoaded(u, depth+1) {
				return false
			}
		default:
			return false
		}
	}
	return true
}

// c02InitStore: fa (a field address of a fresh allocation) is used for exactly
// one store, made while the object is still private to the straight-line code
// that follows its allocation; returns that store.
func c02InitStore(fa *ssa.FieldAddr) *ssa.Store {
	al, ok := fa.X.(*ssa.Alloc)
	if !ok || fa.Referrers() == nil || fa.Block() != al.Block() {
		return nil
	}
	var st *ssa.Store
	for _, u := range *fa.Referrers() {
		switch u := u.(type) {
		case *ssa.DebugRef:
		case *ssa.Store:
			if u.Addr != ssa.Value(fa) || st != nil {
				return nil
			}
			st = u
		default:
			return nil
		}
	}
	if st == nil || st.Block() != al.Block() || st.Val == ssa.Value(al) {
		return nil
	}
	// nothing between the allocation and the store uses the object except to initialise fields
	i0, i1 := instrIndex(al), instrIndex(st)
	if i0 < 0 || i1 <= i0 {
		return nil
	}
	for _, in := range al.Block().Instrs[i0+1 : i1] {
		uses := false
		for _, op := range in.Operands(nil) {
			if *op == ssa.Value(al) {
				uses = true
			}
		}
		if !uses {
			continue
		}
		f2, isFA := in.(*ssa.FieldAddr)
		if !isFA || f2.Referrers() == nil {
			return nil
		}
		for _, u := range *f2.Referrers() {
			switch u := u.(type) {
			case *ssa.DebugRef:
			case *ssa.Store:
				if u.Addr != ssa.Value(f2) {
					return nil
				}
			default:
				return nil
			}
		}
	}
	return st
}

// fieldInitOnly: field k is written only by initialising stores of fresh objects.
func (x *c02Ctx) fieldInitOnly(k c02FieldKey) bool {
	x.buildFieldIndex()
	if v := x.initOnly[k]; v != 0 {
		return v == 1
	}
	ok := !x.wholeStores[k.T]
	if _, isStruct := k.T.Underlying().(*types.Struct); !isStruct {
		ok = false
	}
	for _, fa := range x.fieldAddrs[k] {
		if !ok {
			break
		}
		if c02OnlyLoaded(fa, 0) {
			continue
		}
		if c02InitStore(fa) == nil {
			ok = false
		}
	}
	if ok {
		x.initOnly[k] = 1
	} else {
		x.initOnly[k] = 2
	}
	return ok
}

// initValue: the value field idx of the object allocated by al holds for the
// rest of its life (nil when the field is not write-once, or not initialised:
// then it holds the zero value, which no rule needs).
func (x *c02Ctx) initValue(al *ssa.Alloc, idx int) ssa.Value {
	n := NamedOf(al.Type())
	if n == nil || !x.fieldInitOnly(c02FieldKey{n, idx}) || al.Referrers() == nil {
		return nil
	}
	var val ssa.Value
	for _, u := range *al.Referrers() {
		fa, ok := u.(*ssa.FieldAddr)
		if !ok || fa.Field != idx || c02OnlyLoaded(fa, 0) {
			continue
		}
		st := c02InitStore(fa)
		if st == nil || val != nil {
			return nil
		}
		val = st.Val
	}
	return val
}

// origin resolves v (a value of frame f) to where it comes from: through
// c02Origin, a helper's parameter to the caller's argument, the result of a
// helper call to the value the helper returns on success (when unique).
func (t *c02Tree) origin(f *c02Frame, v ssa.Value) c02LV { return t.originX(f, v, true) }

// originX: with desc=false the results of helper calls are not resolved.
func (t *c02Tree) originX(f *c02Frame, v ssa.Value, desc bool) c02LV {
	for i := 0; i < 32 && v != nil; i++ {
		v = c02Origin(v)
		switch tv := v.(type) {
		case *ssa.Parameter:
			if f.parent == nil || tv.Parent() != f.fn {
				return c02LV{f, v}
			}
			idx, as := c02ParamIndex(tv), f.args()
			if idx < 0 || idx >= len(as) {
				return c02LV{f, v}
			}
			v, f = as[idx], f.parent
		case *ssa.UnOp:
			if tv.Op != token.MUL {
				return c02LV{f, v}
			}
			if fa, isFA := tv.X.(*ssa.FieldAddr); isFA && i < 16 {
				// a field written once, where the object was built (possibly by a helper, possibly
				// the caller's object): the value stored there
				bl := t.originX(f, fa.X, desc)
				if al, isAl := bl.V.(*ssa.Alloc); isAl && c02SpillParam(al) == nil {
					if v0 := t.x.initValue(al, fa.Field); v0 != nil {
						v, f = v0, bl.F
						continue
					}
				}
				return c02LV{f, v}
			}
			al, ok := tv.X.(*ssa.Alloc)
			if !ok {
				return c02LV{f, v}
			}
			p := c02SpillParam(al)
			if p == nil {
				return c02LV{f, v}
			}
			v = p
		case *ssa.Extract:
			call, ok := tv.Tuple.(*ssa.Call)
			if !ok {
				return c02LV{f, v}
			}
			k := f.kids[call]
			if k == nil || !desc {
				return c02LV{f, v}
			}
			lv := t.retVal(k, tv.Index)
			if lv == nil {
				return c02LV{f, v}
			}
			return *lv
		case *ssa.Call:
			k := f.kids[tv]
			if k == nil || !desc || tv.Call.Signature().Results().Len() != 1 {
				return c02LV{f, v}
			}
			lv := t.retVal(k, 0)
			if lv == nil {
				return c02LV{f, v}
			}
			return *lv
		default:
			return c02LV{f, v}
		}
	}
	return c02LV{f, v}
}

// retVal: the origin of result i of helper frame k on the returns that may
// report success, when it is the same on all of them; nil otherwise.
func (t *c02Tree) retVal(k *c02Frame, i int) *c02LV {
	key := c02fi{k, i}
	if lv, ok := t.retVals[key]; ok {
		return lv
	}
	if t.busy[key] {
		return nil
	}
	t.busy[key] = true
	defer delete(t.busy, key)
	var got *c02LV
	same := true
	errIdx := ErrResultIndex(k.fn)
	consider := func(v ssa.Value) {
		lv := t.origin(k, v)
		if got == nil {
			got = &lv
		} else if *got != lv {
			same = false
		}
	}
	if errIdx < 0 || errIdx == i {
		for _, ri := range Returns(k.fn) {
			if i < len(ri.Results) {
				consider(ri.Results[i])
			}
		}
	} else {
		for _, nr := range c02NilReturns(k.fn) {
			if i < len(nr.Results) {
				consider(nr.Results[i])
			}
		}
	}
	if !same {
		got = nil
	}
	t.retVals[key] = got
	return got
}

// pure renders an immutable value structurally (parameters of the root,
// constants, fields of those), "" when the value is anything else. Two values
// with the same non-empty rendering are equal at run time.
func (t *c02Tree) pure(f *c02Frame, v ssa.Value, depth int) string {
	if depth > 8 {
		return ""
	}
	lv := t.origin(f, v)
	f, v = lv.F, lv.V
	switch tv := v.(type) {
	case *ssa.Parameter:
		return "param:" + FuncKey(tv.Parent()) + ":" + tv.Name()
	case *ssa.Const:
		if tv.Value == nil {
			return ""
		}
		return "const:" + tv.Value.ExactString() + ":" + tv.Type().String()
	case *ssa.Field:
		if b := t.pure(f, tv.X, depth+1); b != "" {
			return b + "." + fieldName(tv.X.Type(), tv.Field)
		}
	case *ssa.UnOp:
		if tv.Op != token.MUL {
			return ""
		}
		fa, ok := tv.X.(*ssa.FieldAddr)
		if !ok {
			return ""
		}
		var names []string
		var base ssa.Value = fa
		outer := fa
		for {
			a, ok := base.(*ssa.FieldAddr)
			if !ok {
				break
			}
			names = append([]string{fieldName(a.X.Type(), a.Field)}, names...)
			base, outer = a.X, a
		}
		// the object may be the caller's (a pointer parameter of a helper) or one a helper built
		bl := t.origin(f, base)
		al, ok := bl.V.(*ssa.Alloc)
		if !ok {
			return ""
		}
		if p := c02SpillParam(al); p != nil {
			if b := t.pure(bl.F, p, depth+1); b != "" {
				return b + "." + strings.Join(names, ".")
			}
			return ""
		}
		// a field written once, where the object is built, holds that value ever after
		if v0 := t.x.initValue(al, outer.Field); v0 != nil {
			if b := t.pure(bl.F, v0, depth+1); b != "" {
				return strings.Join(append([]string{b}, names[1:]...), ".")
			}
		}
	}
	return ""
}

// same: two values (of possibly different frames) denote the same run-time
// value as far as the analysis can tell.
func (t *c02Tree) same(fa *c02Frame, a ssa.Value, fb *c02Frame, b ssa.Value) bool {
	if a == nil || b == nil {
		return false
	}
	if fa == fb && sameOrigin(a, b) {
		return true
	}
	la, lb := t.origin(fa, a), t.origin(fb, b)
	if la == lb {
		return true
	}
	if pa := t.pure(la.F, la.V, 0); pa != "" && pa == t.pure(lb.F, lb.V, 0) {
		return true
	}
	// a phi one of whose incoming values is the other (as sameOrigin)
	if ph, ok := la.V.(*ssa.Phi); ok {
		for _, e := range ph.Edges {
			if t.origin(la.F, e) == lb {
				return true
			}
		}
	}
	if ph, ok := lb.V.(*ssa.Phi); ok {
		for _, e := range ph.Edges {
			if t.origin(lb.F, e) == la {
				return true
			}
		}
	}
	return false
}

// limited: v is io.LimitReader(src, n) or &io.LimitedReader{R: src, N: n}.
func (t *c02Tree) limited(f *c02Frame, v ssa.Value) (src c02LV, n int64, ok bool) {
	lv := t.origin(f, v)
	if c, isCall := c02AsCall(lv.V); isCall && c.IsStatic("io", "", "LimitReader") {
		n, ok = t.constInt(lv.F, c.Args()[1])
		return t.origin(lv.F, c.Args()[0]), n, ok
	}
	al, isAl := lv.V.(*ssa.Alloc)
	if !isAl || !IsNamed(al.Type(), "io", "LimitedReader") || al.Referrers() == nil {
		return c02LV{}, 0, false
	}
	okR, okN := false, false
	for _, u := range *al.Referrers() {
		fa, isFA := u.(*ssa.FieldAddr)
		if !isFA || fa.Referrers() == nil {
			continue
		}
		for _, uu := range *fa.Referrers() {
			st, isSt := uu.(*ssa.Store)
			if !isSt || st.Addr != ssa.Value(fa) {
				continue
			}
			switch fieldName(fa.X.Type(), fa.Field) {
			case "R":
				if okR {
					return c02LV{}, 0, false
				}
				src, okR = t.origin(lv.F, st.Val), true
			case "N":
				if okN {
					return c02LV{}, 0, false
				}
				n, okN = t.constInt(lv.F, st.Val)
			}
		}
	}
	return src, n, okR && okN
}

func (t *c02Tree) constInt(f *c02Frame, v ssa.Value) (int64, bool) {
	lv := t.origin(f, v)
	if c, ok := lv.V.(*ssa.Const); ok && c.Value != nil && c.Value.Kind() == constant.Int {
		return c.Int64(), true
	}
	return 0, false
}

// ---- returns that may report success

type c02NilRet struct {
	Ret     *ssa.Return
	Val     ssa.Value       // the error operand on this edge (nil for functions without error result)
	From    *ssa.BasicBlock // the block the edge comes from (the return's block when there is no phi)
	Facts   []CondFact      // what is known on that edge
	Results []ssa.Value     // all results, phis of the return's merge block resolved for this edge
}

var c02NilRetMemo = map[*ssa.Function][]c02NilRet{}

// c02NilReturns lists, edge by edge, the returns of fn whose error result may
// be nil; for a function without error result, all its returns.
func c02NilReturns(fn *ssa.Function) []c02NilRet {
	if out, ok := c02NilRetMemo[fn]; ok {
		return out
	}
	var out []c02NilRet
	idx := ErrResultIndex(fn)
	for _, ri := range Returns(fn) {
		if idx < 0 {
			out = append(out, c02NilRet{Ret: ri.Ret, From: ri.Ret.Block(), Facts: FactsAt(ri.Ret.Block()), Results: ri.Results})
			continue
		}
		for _, in := range c02Incoming(ri.Results[idx], ri.Ret.Block()) {
			if !IsNilConst(in.Val) {
				if isNonNilErrorExpr(in.Val) {
					continue
				}
				nonNil := false
				for _, f := range in.Facts {
					if k, isNil := condSaysNil(f.Cond, f.Val, in.Val); k && !isNil {
						nonNil = true
					}
				}
				if nonNil {
					continue
				}
				if cv := c02CellVal(in.Val); cv != nil && isNonNilErrorExpr(cv) {
					continue
				}
			}
			res := make([]ssa.Value, len(ri.Results))
			for i, rv := range ri.Results {
				res[i] = rv
				if ph, ok := rv.(*ssa.Phi); ok {
					for pi, pred := range ph.Block().Preds {
						if pred == in.From {
							res[i] = ph.Edges[pi]
						}
					}
				}
			}
			res[idx] = in.Val
			out = append(out, c02NilRet{Ret: ri.Ret, Val: in.Val, From: in.From, Facts: in.Facts, Results: res})
		}
	}
	c02NilRetMemo[fn] = out
	return out
}

// c02ErrCall: v is (after value-preserving moves) the error result of a call.
func c02ErrCall(v ssa.Value) *ssa.Call {
	o := originValue(v)
	if cv := c02CellVal(o); cv != nil {
		o = originValue(cv)
	}
	switch tv := o.(type) {
	case *ssa.Call:
		res := tv.Call.Signature().Results()
		if res.Len() == 1 && isErrorType(res.At(0).Type()) {
			return tv
		}
	case *ssa.Extract:
		if call, ok := tv.Tuple.(*ssa.Call); ok {
			res := call.Call.Signature().Results()
			if tv.Index == res.Len()-1 && isErrorType(res.At(tv.Index).Type()) {
				return call
			}
		}
	}
	return nil
}

// c02NilAsserted: the fact (cond==val) says that the error of a call is nil;
// also through a variable that is otherwise only overwritten with non-nil errors.
func c02NilAsserted(cond ssa.Value, val bool) *ssa.Call {
	for {
		if u, ok := cond.(*ssa.UnOp); ok && u.Op == token.NOT {
			cond, val = u.X, !val
			continue
		}
		break
	}
	bo, ok := cond.(*ssa.BinOp)
	if !ok || bo.Op != token.EQL && bo.Op != token.NEQ || (bo.Op == token.EQL) != val {
		return nil
	}
	var other ssa.Value
	switch {
	case IsNilConst(bo.Y):
		other = bo.X
	case IsNilConst(bo.X):
		other = bo.Y
	default:
		return nil
	}
	if c := c02ErrCall(other); c != nil {
		return c
	}
	if ph, ok := originValue(other).(*ssa.Phi); ok {
		var found *ssa.Call
		for _, e := range ph.Edges {
			if isNonNilErrorExpr(e) {
				continue
			}
			c := c02ErrCall(e)
			if c == nil || found != nil && found != c {
				return nil
			}
			found = c
		}
		return found
	}
	return nil
}

// ---- facts

func c02StripNot(cond ssa.Value, val bool) (ssa.Value, bool) {
	for {
		if u, ok := cond.(*ssa.UnOp); ok && u.Op == token.NOT {
			cond, val = u.X, !val
			continue
		}
		return cond, val
	}
}

// expand locates the facts of frame f and adds what the success of helper
// calls (error known nil, boolean result known) implies.
func (t *c02Tree) expand(f *c02Frame, local []CondFact) []c02EF {
	var out []c02EF
	for _, cf := range local {
		out = append(out, c02EF{f, cf.Cond, cf.Val})
		if call := c02NilAsserted(cf.Cond, cf.Val); call != nil {
			if k := f.kids[call]; k != nil {
				out = append(out, t.successFacts(k)...)
			}
		}
		cond, val := c02StripNot(cf.Cond, cf.Val)
		if call, ok := originValue(cond).(*ssa.Call); ok {
			if k := f.kids[call]; k != nil {
				out = append(out, t.boolFacts(k, val)...)
			}
		}
	}
	return out
}

func c02Intersect(sets [][]c02EF) []c02EF {
	if len(sets) == 0 {
		return nil
	}
	var out []c02EF
	for _, ef := range sets[0] {
		inAll := true
		for _, s := range sets[1:] {
			found := false
			for _, e2 := range s {
				if e2 == ef {
					found = true
					break
				}
			}
			if !found {
				inAll = false
				break
			}
		}
		if inAll {
			out = append(out, ef)
		}
	}
	return out
}

// successFacts: what holds on every return of helper frame k that may report success.
func (t *c02Tree) successFacts(k *c02Frame) []c02EF {
	if out, ok := t.retFacts[k]; ok {
		return out
	}
	t.retFacts[k] = nil
	var sets [][]c02EF
	for _, nr := range c02NilReturns(k.fn) {
		set := t.expand(k, nr.Facts)
		if nr.Val != nil {
			if call := c02ErrCall(nr.Val); call != nil {
				if g := k.kids[call]; g != nil { // return helper(...): succeeds when the helper does
					set = append(set, t.successFacts(g)...)
				}
			}
		}
		sets = append(sets, set)
	}
	out := c02Intersect(sets)
	t.retFacts[k] = out
	return out
}

// boolFacts: what holds on every return of helper frame k whose (single, boolean) result may be val.
func (t *c02Tree) boolFacts(k *c02Frame, val bool) []c02EF {
	res := k.fn.Signature.Results()
	if res.Len() != 1 {
		return nil
	}
	if b, ok := res.At(0).Type().Underlying().(*types.Basic); !ok || b.Kind() != types.Bool {
		return nil
	}
	key := c02fbool{k, val}
	if out, ok := t.retBool[key]; ok {
		return out
	}
	t.retBool[key] = nil
	var sets [][]c02EF
	for _, ri := range Returns(k.fn) {
		for _, in := range c02Incoming(ri.Results[0], ri.Ret.Block()) {
			if c, ok := in.Val.(*ssa.Const); ok && c.Value != nil && c.Value.Kind() == constant.Bool {
				if constant.BoolVal(c.Value) != val {
					continue
				}
				sets = append(sets, t.expand(k, in.Facts))
				continue
			}
			sets = append(sets, t.expand(k, append(append([]CondFact(nil), in.Facts...), CondFact{Cond: in.Val, Val: val})))
		}
	}
	out := c02Intersect(sets)
	t.retBool[key] = out
	return out
}

// facts: the branch facts known at block b of frame f: its own dominating
// conditions, what held where an enclosing literal was created, what held at
// the call site of the frame, and what successful helper calls imply.
func (t *c02Tree) facts(f *c02Frame, b *ssa.BasicBlock) []c02EF {
	key := c02fb{f, b}
	if out, ok := t.factMemo[key]; ok {
		return out
	}
	t.factMemo[key] = nil
	out := t.expand(f, FactsAt(b))
	if lit := b.Parent(); lit != f.fn && lit.Parent() != nil {
		var sets [][]c02EF
		for _, pb := range lit.Parent().Blocks {
			for _, in := range pb.Instrs {
				if mc, ok := in.(*ssa.MakeClosure); ok && mc.Fn == ssa.Value(lit) {
					sets = append(sets, t.facts(f, pb))
				}
			}
		}
		out = append(out, c02Intersect(sets)...)
	} else if f.parent != nil {
		out = append(out, t.facts(f.parent, f.site.Block())...)
	}
	t.factMemo[key] = out
	return out
}

// c02FactE looks for a fact whose condition (negations stripped, also through
// originValue) satisfies pred.
func c02FactE(facts []c02EF, pred func(f *c02Frame, cond ssa.Value) bool) (known, val bool) {
	for _, ef := range facts {
		cond, v := c02StripNot(ef.Cond, ef.Val)
		if pred(ef.F, cond) || pred(ef.F, originValue(cond)) {
			return true, v
		}
	}
	return false, false
}

// c02BoolCallFactE: a call satisfying pred is known to have returned val.
func c02BoolCallFactE(facts []c02EF, pred func(f *c02Frame, c CallSite) bool) (known, val bool, at c02Loc) {
	for _, ef := range facts {
		cond, v := c02StripNot(ef.Cond, ef.Val)
		if c, ok := originValue(cond).(*ssa.Call); ok {
			if pred(ef.F, CallSite{c.Parent(), c}) {
				return true, v, c02Loc{ef.F, c}
			}
		}
	}
	return false, false, c02Loc{}
}

// infeasible: a fact contradicts a constant (a helper's flag parameter bound to
// a constant by the caller).
func (t *c02Tree) infeasible(facts []c02EF) bool {
	for _, ef := range facts {
		cond, val := c02StripNot(ef.Cond, ef.Val)
		if c, ok := t.origin(ef.F, cond).V.(*ssa.Const); ok && c.Value != nil && c.Value.Kind() == constant.Bool {
			if constant.BoolVal(c.Value) != val {
				return true
			}
		}
	}
	return false
}

// nilKnown: what the facts say about v (a value of frame fv) being nil.
func (t *c02Tree) nilKnown(facts []c02EF, fv *c02Frame, v ssa.Value) (known, isNil bool) {
	for _, ef := range facts {
		cond, val := c02StripNot(ef.Cond, ef.Val)
		bo, ok := cond.(*ssa.BinOp)
		if !ok || bo.Op != token.EQL && bo.Op != token.NEQ {
			continue
		}
		var other ssa.Value
		switch {
		case IsNilConst(bo.Y):
			other = bo.X
		case IsNilConst(bo.X):
			other = bo.Y
		default:
			continue
		}
		tv := t.origin(fv, v)
		if cv := c02CellVal(other); cv != nil && t.origin(ef.F, cv) == tv || t.origin(ef.F, other) == tv {
			return true, (bo.Op == token.EQL) == val
		}
	}
	return false, false
}

// ---- values split by the edge they arrive on

type c02EIn struct {
	F     *c02Frame
	Val   ssa.Value
	From  *ssa.BasicBlock
	Facts []c02EF
}

// incoming splits v (a value of frame f used in block at) into the values it
// may have, one per phi edge, per return of the helper that produced it, with
// the facts known on each way.
func (t *c02Tree) incoming(f *c02Frame, v ssa.Value, at *ssa.BasicBlock, extra []c02EF, depth int) []c02EIn {
	var out []c02EIn
	for _, in := range c02Incoming(v, at) {
		facts := append(append([]c02EF(nil), extra...), t.expand(f, in.Facts)...)
		if f.parent != nil {
			facts = append(facts, t.facts(f.parent, f.site.Block())...)
		}
		o := originValue(in.Val)
		if depth < 6 {
			if prm, ok := c02Origin(o).(*ssa.Parameter); ok && f.parent != nil && prm.Parent() == f.fn {
				if idx, as := c02ParamIndex(prm), f.args(); idx >= 0 && idx < len(as) {
					out = append(out, t.incoming(f.parent, as[idx], f.site.Block(), facts, depth+1)...)
					continue
				}
			}
			var call *ssa.Call
			ri := 0
			switch tv := o.(type) {
			case *ssa.Call:
				if tv.Call.Signature().Results().Len() == 1 {
					call = tv
				}
			case *ssa.Extract:
				call, _ = tv.Tuple.(*ssa.Call)
				ri = tv.Index
			}
			if call != nil {
				if k := f.kids[call]; k != nil {
					// where the caller knows the helper's error to be nil, only its success returns matter
					succeeded := false
					if ei := ErrResultIndex(k.fn); ei >= 0 && ei != ri {
						for _, ef := range facts {
							if ef.F == f && c02NilAsserted(ef.Cond, ef.Val) == call {
								succeeded = true
							}
						}
					}
					n := 0
					if succeeded {
						for _, nr := range c02NilReturns(k.fn) {
							if ri < len(nr.Results) {
								n++
								for _, sub := range t.incoming(k, nr.Results[ri], nr.From, facts, depth+1) {
									sub.Facts = append(sub.Facts, t.expand(k, nr.Facts)...)
									out = append(out, sub)
								}
							}
						}
					} else {
						for _, r := range Returns(k.fn) {
							if ri < len(r.Results) {
								n++
								out = append(out, t.incoming(k, r.Results[ri], r.Ret.Block(), facts, depth+1)...)
							}
						}
					}
					if n > 0 {
						continue
					}
				}
			}
			if ph, ok := o.(*ssa.Phi); ok && o != in.Val {
				out = append(out, t.incoming(f, ph, ph.Block(), facts, depth+1)...)
				continue
			}
		}
		out = append(out, c02EIn{f, in.Val, in.From, facts})
	}
	return out
}

// ---- order and dominance across frames

// c02Prec: a executes before s on every path to s; s may sit in a literal
// directly nested in a's function (then before every start of the literal).
func c02Prec(a, s ssa.Instruction) bool {
	if a.Parent() == s.Parent() {
		return Precedes(a, s)
	}
	l := s.Parent()
	if l.Parent() != a.Parent() {
		return false
	}
	anchors := c02LiteralAnchors(l)
	if len(anchors) == 0 {
		return false
	}
	for _, k := range anchors {
		if !Precedes(a, k) {
			return false
		}
	}
	return true
}

// implies: whenever helper fn reports success, call inner (of fn) has succeeded.
func (x *c02Ctx) implies(fn *ssa.Function, inner *ssa.Call) (bool, string) {
	k := c02fc{fn, inner}
	if v, ok := x.impliesMemo[k]; ok {
		return v.ok, v.why
	}
	ok, why := true, ""
	ev, hasErr, _ := ErrValue(inner)
	for _, nr := range c02NilReturns(fn) {
		if hasErr && nr.Val != nil && sameOrigin(nr.Val, ev) {
			continue // returns the call's own error
		}
		if o, w := c02SuccDom(inner, c02LastInstr(nr.From)); !o {
			ok, why = false, fmt.Sprintf("%s may report success (return at line %d) where %s", fn.Name(), x.p.Fset.Position(nr.Ret.Pos()).Line, w)
			break
		}
	}
	x.impliesMemo[k] = c02verdict{ok, why}
	return ok, why
}

// succDom: call pc of frame pf has succeeded on every path to instruction q of frame qf.
func (t *c02Tree) succDom(pf *c02Frame, pc *ssa.Call, qf *c02Frame, q ssa.Instruction) (bool, string) {
	l := c02LCA(pf, qf)
	qa := c02LiftTo(qf, q, l)
	cur, f := pc, pf
	for f != l {
		if ok, why := t.x.implies(f.fn, cur); !ok {
			return false, why
		}
		sc, isCall := f.site.(*ssa.Call)
		if !isCall {
			return false, "the call runs in a goroutine of its own"
		}
		cur, f = sc, f.parent
	}
	if ssa.Instruction(cur) == qa {
		return false, "the site is inside the call"
	}
	return c02SuccDom(cur, qa)
}

// prec: instruction a of frame af executes before instruction b of frame bf on every path to b.
func (t *c02Tree) prec(af *c02Frame, a ssa.Instruction, bf *c02Frame, b ssa.Instruction) bool {
	l := c02LCA(af, bf)
	ba := c02LiftTo(bf, b, l)
	cur, f := a, af
	for f != l {
		if _, isCall := f.site.(*ssa.Call); !isCall {
			return false
		}
		for _, ri := range Returns(f.fn) {
			if !c02Prec(cur, ri.Ret) {
				return false
			}
		}
		cur, f = f.site, f.parent
	}
	if cur == ba {
		return false
	}
	return c02Prec(cur, ba)
}

// mayFollow: instruction b of frame bf may execute after instruction a of frame af (over-approximation).
func (t *c02Tree) mayFollow(af *c02Frame, a ssa.Instruction, bf *c02Frame, b ssa.Instruction) bool {
	l := c02LCA(af, bf)
	aa, ba := c02LiftTo(af, a, l), c02LiftTo(bf, b, l)
	if aa == ba {
		return true
	}
	if aa.Parent() == ba.Parent() {
		return c02Reaches(aa, ba)
	}
	return true
}

// nilReturns lists the returns of the effective body of frame f that may
// report success: a return of a helper's own error is replaced by the helper's returns.
type c02ENil struct {
	F    *c02Frame
	Ret  *ssa.Return
	Val  ssa.Value
	From *ssa.BasicBlock
}

func (t *c02Tree) nilReturns(f *c02Frame, depth int) []c02ENil {
	var out []c02ENil
	for _, nr := range c02NilReturns(f.fn) {
		if nr.Val != nil && depth < c02MaxDepth {
			if call := c02ErrCall(nr.Val); call != nil {
				if k := f.kids[call]; k != nil && ErrResultIndex(k.fn) >= 0 {
					out = append(out, t.nilReturns(k, depth+1)...)
					continue
				}
			}
		}
		out = append(out, c02ENil{f, nr.Ret, nr.Val, nr.From})
	}
	return out
}

// ---------------------------------------------------------------------------
// R-core

type c02Report func(ok bool, construct, site, okDetail, badDetail string)

func c02RuleCore(x *c02Ctx) {
	p, r := x.p, x.r
	const rule = "R-core"
	entry := p.Func("pkg/blobserver", "", "Receive")
	noHash := p.Func("pkg/blobserver", "", "ReceiveNoHash")

	// table agreement of the cap
	cmax := c02ConstInt(p, "pkg/constants", "MaxBlobSize")
	r.Check(cmax == x.maxBlob && cmax == 16<<20, rule, "pkg/constants.MaxBlobSize#value", "", "constants.MaxBlobSize == blobserver.MaxBlobSize == 16 MiB (the cap the property names)",
		fmt.Sprintf("constants.MaxBlobSize=%d, blobserver.MaxBlobSize=%d, property names 16 MiB", cmax, x.maxBlob))

	report := func(ok bool, construct, site, okDetail, badDetail string) {
		r.Check(ok, rule, construct, site, okDetail, badDetail)
	}
	x.core = map[*ssa.Function]bool{entry: true, noHash: true}
	x.flagBad = map[string]string{}
	x.coreEntry(entry, true, report, true)
	x.coreEntry(noHash, false, report, true)

	// who may call the helpers the two entry points share
	var helpers []*ssa.Function
	for h := range x.core {
		if h != entry && h != noHash {
			helpers = append(helpers, h)
		}
	}
	sort.Slice(helpers, func(i, j int) bool { return FuncKey(helpers[i]) < FuncKey(helpers[j]) })
	for _, h := range helpers {
		if uses := p.FuncValueUses(h); len(uses) > 0 {
			r.Undecided(rule, FuncKey(h)+"#func-value", p.Pos(uses[0].Pos()), "a helper of the verified core is used as a function value; its callers can no longer be enumerated")
		}
		for _, c := range p.StaticCallers(h) {
			top := TopFunc(c.Fn)
			construct := FuncKey(c.Fn) + "#calls-" + h.Name()
			site := p.Pos(c.Pos())
			switch {
			case x.flagBad[construct] != "":
				r.Violation(rule, construct, site, x.flagBad[construct])
			case top == noHash:
				r.OKTable(rule, construct, site, "the one unverified entry point; its callers are classified by R-entry")
			case x.core[top]:
				r.OKTable(rule, construct, site, "part of the verified core: every feasible path hands the backend the hash-checking reader (see #backend-call:reader)")
			default:
				// a further entry point: acceptable only if it is a verified one
				all := true
				n := 0
				x.coreEntry(top, true, func(ok bool, _, _, _, _ string) {
					n++
					if !ok {
						all = false
					}
				}, false)
				r.Check(all && n > 0, rule, construct, site, "a further entry point into the core that satisfies every obligation of the verified entry point",
					"calls a helper of the verified core but does not hand the backend the hash-checking, size-limited reader on every path: a new unverified ingest entry point whose callers R-entry does not enumerate")
			}
		}
	}

	var ts []*types.Named
	for tn := range x.hashReaders {
		ts = append(ts, tn)
	}
	sort.Slice(ts, func(i, j int) bool { return ts[i].Obj().Name() < ts[j].Obj().Name() })
	for _, tn := range ts {
		c02RuleCoreRead(x, tn)
	}
	r.Floor(rule, 11)
}

// coreEntry checks one entry point E of the core: in E's effective body there
// is exactly one backend call; it receives on E's dst under E's ref; the reader
// handed over is, on every feasible path, the hash-checking reader over
// LimitReader(src, MaxBlobSize) (verified) or at least that LimitReader (not
// verified); notification and success returns follow its success.
func (x *c02Ctx) coreEntry(E *ssa.Function, verified bool, report c02Report, record bool) {
	p := x.p
	dst := c02ParamOfType(E, func(t types.Type) bool { return IsNamed(t, c02BSPath, "BlobReceiver") })
	br := c02ParamOfType(E, c02IsBlobRef)
	src := c02ParamOfType(E, func(t types.Type) bool { return IsNamed(t, "io", "Reader") })
	ekey := FuncKey(E)
	if dst == nil || br == nil || src == nil {
		if record {
			brokenf("anchor unresolved: parameters (BlobReceiver, blob.Ref, io.Reader) of %s", ekey)
		}
		report(false, ekey+"#backend-call", p.Pos(E.Pos()), "", "cannot identify the (BlobReceiver, blob.Ref, io.Reader) parameters")
		return
	}
	t := x.tree(E)
	root := t.root
	sfx := ""
	if !verified {
		sfx = ":nohash"
	}
	var rbF *c02Frame
	var rb *ssa.Call
	nrb := 0
	t.each(func(f *c02Frame, fn *ssa.Function, in ssa.Instruction) {
		if c, ok := in.(*ssa.Call); ok && x.isReceiveBlobCall(CallSite{fn, c}) {
			nrb++
			rbF, rb = f, c
		}
	})
	if nrb != 1 {
		report(false, ekey+"#backend-call"+sfx, p.Pos(E.Pos()), "", fmt.Sprintf("expected exactly one dst.ReceiveBlob call in the effective body of %s, found %d", ekey, nrb))
		return
	}
	if record {
		for f := rbF; f != nil; f = f.parent {
			x.core[f.fn] = true
		}
	}
	key := FuncKey(rb.Parent())
	site := p.Pos(rb.Pos())
	args := CallSite{rb.Parent(), rb}.Args() // recv, ctx, br, src
	report(t.origin(rbF, args[0]) == (c02LV{root, dst}) && t.origin(rbF, args[2]) == (c02LV{root, br}), key+"#backend-call:same-dst-and-ref"+sfx, site,
		"the backend call receives on the dst and under the ref that were passed in", "dst.ReceiveBlob is not called on the entry point's own dst with its own ref")

	isLimited := func(f *c02Frame, v ssa.Value) bool {
		from, n, ok := t.limited(f, v)
		return ok && n == x.maxBlob && from == (c02LV{root, src})
	}
	bad := ""
	nin := 0
	for _, in := range t.incoming(rbF, args[3], rb.Block(), nil, 0) {
		if t.infeasible(in.Facts) {
			continue
		}
		nin++
		lv := t.origin(in.F, in.Val)
		if isLimited(lv.F, lv.V) {
			if !verified {
				continue
			}
			bad = "on a path of the verified entry point the reader handed to the backend is the bare io.LimitReader, not the hash-checking reader"
			// which flag selected this path?
			for _, ef := range in.Facts {
				cond, _ := c02StripNot(ef.Cond, ef.Val)
				prm, ok := originValue(cond).(*ssa.Parameter)
				if !ok || ef.F.parent == nil || prm.Parent() != ef.F.fn {
					continue
				}
				if _, isConst := t.origin(ef.F, prm).V.(*ssa.Const); !isConst && record {
					x.flagBad[FuncKey(ef.F.site.Parent())+"#calls-"+ef.F.fn.Name()] = "passes a non-constant value for the parameter that selects whether the digest is checked: the verified entry point may skip the hash check"
				}
			}
			continue
		}
		// must be the hash-checking reader
		al, ok := lv.V.(*ssa.Alloc)
		var tn *types.Named
		if ok {
			tn = NamedOf(al.Type())
		}
		if tn == nil {
			if verified {
				bad = "on a path of the verified entry point the reader handed to the backend is not the hash-checking reader"
			} else {
				bad = "the reader handed to the backend is neither io.LimitReader(src, MaxBlobSize) nor the hash-checking reader"
			}
			continue
		}
		af := lv.F
		// fields by type: the reader, the ref, the hash
		var fSrc, fRef, fHash *ssa.Store
		if al.Referrers() != nil {
			for _, u := range *al.Referrers() {
				fa, ok := u.(*ssa.FieldAddr)
				if !ok || fa.Referrers() == nil {
					continue
				}
				for _, uu := range *fa.Referrers() {
					st, ok := uu.(*ssa.Store)
					if !ok || st.Addr != ssa.Value(fa) {
						continue
					}
					switch {
					case IsNamed(st.Val.Type(), "io", "Reader"):
						fSrc = st
					case c02IsBlobRef(st.Val.Type()):
						fRef = st
					case IsNamed(st.Val.Type(), "hash", "Hash"):
						fHash = st
					}
				}
			}
		}
		switch {
		case fSrc == nil || !isLimited(af, fSrc.Val):
			bad = "the hash-checking reader does not wrap io.LimitReader(src, MaxBlobSize): an oversize body would not be cut (and so mismatched) before the digest comparison"
		case fRef == nil || t.origin(af, fRef.Val) != (c02LV{root, br}):
			bad = "the hash-checking reader compares against a ref other than the one the backend stores under"
		case fHash == nil:
			bad = "the hash-checking reader has no hash"
		default:
			hv := t.origin(af, fHash.Val)
			hc, ok := c02AsCall(hv.V)
			if !ok || !hc.IsStatic(c02BlobPath, "Ref", "Hash") || t.origin(hv.F, hc.Args()[0]) != (c02LV{root, br}) {
				bad = "the hash-checking reader's hash is not br.Hash() of the same ref"
			} else if k, isNil := t.nilKnown(append(t.facts(af, fHash.Block()), in.Facts...), hv.F, hv.V); !(k && !isNil) {
				bad = "a nil br.Hash() (unsupported hash name) is not rejected before the backend is called"
			} else if record {
				x.hashReaders[tn] = true
			}
		}
	}
	okDetail := "reader handed to the backend on every feasible path: hash-checking reader{br.Hash()!=nil, br, LimitReader(src, MaxBlobSize)}"
	if !verified {
		okDetail = "reader handed to the backend by the unverified entry point: io.LimitReader(src, MaxBlobSize) (or the hash-checking reader)"
	}
	if nin == 0 && bad == "" {
		bad = "no feasible value of the reader handed to the backend found"
	}
	report(bad == "", key+"#backend-call:reader"+sfx, site, okDetail, bad)

	// hub notification only after success, with the backend's result
	hub := p.Iface("pkg/blobserver", "BlobHub")
	nn := 0
	t.each(func(f *c02Frame, fn *ssa.Function, in ssa.Instruction) {
		ci, ok := in.(ssa.CallInstruction)
		if !ok {
			return
		}
		c := CallSite{fn, ci}
		if !c.IsMethod("NotifyBlobReceived", hub) {
			return
		}
		nn++
		ok, why := t.succDom(rbF, rb, f, in)
		as := c.Args()
		okArg := false
		if lv := t.origin(f, as[len(as)-1]); lv.F == rbF {
			if ex, isEx := lv.V.(*ssa.Extract); isEx && ex.Tuple == ssa.Value(rb) && ex.Index == 0 {
				okArg = true
			}
		}
		report(ok && okArg, FuncKey(TopFunc(fn))+"#notify"+sfx, p.Pos(c.Pos()), "hub notified only on the err==nil edge of dst.ReceiveBlob, with the SizedRef it returned",
			"NotifyBlobReceived is reachable without success of dst.ReceiveBlob ("+why+") or announces something other than its result: observers would hear of a rejected blob")
	})
	if nn == 0 {
		report(false, key+"#notify"+sfx, site, "", "the entry point no longer notifies the blob hub after a successful ReceiveBlob")
	}
	// success returns
	ev, _, _ := ErrValue(rb)
	for _, nr := range t.nilReturns(root, 0) {
		ok := nr.F == rbF && nr.Val != nil && sameOrigin(nr.Val, ev)
		why := ""
		if !ok {
			ok, why = t.succDom(rbF, rb, nr.F, c02LastInstr(nr.From))
		}
		report(ok, FuncKey(nr.F.fn)+"#success-return"+sfx, p.Pos(nr.Ret.Pos()), "nil-error return only after dst.ReceiveBlob succeeded",
			"the entry point may return a nil error without dst.ReceiveBlob having succeeded: "+why)
	}
}

// c02RuleCoreRead checks the Read method of the hash-checking reader type.
func c02RuleCoreRead(x *c02Ctx, tn *types.Named) {
	p, r := x.p, x.r
	const rule = "R-core"
	fn, _ := p.MethodOf(tn, "Read")
	if fn == nil || fn.Blocks == nil || fn.Synthetic != "" {
		r.Violation(rule, typeKey(tn)+"#Read", "", "the hash-checking reader type has no declared Read method")
		return
	}
	key := FuncKey(fn)
	if len(fn.Params) != 2 {
		brokenf("anchor unresolved: %s(p []byte)", key)
	}
	t := x.tree(fn)
	root := t.root
	self, buf := fn.Params[0], fn.Params[1]
	fieldOfSelf := func(f *c02Frame, v ssa.Value) (string, bool) {
		lv := t.origin(f, v)
		ld, ok := lv.V.(*ssa.UnOp)
		if !ok || ld.Op != token.MUL {
			return "", false
		}
		fa, ok := ld.X.(*ssa.FieldAddr)
		if !ok || t.origin(lv.F, fa.X) != (c02LV{root, self}) {
			return "", false
		}
		return fieldName(fa.X.Type(), fa.Field), true
	}
	var rd, hw, hm *ssa.Call
	var rdF, hwF, hmF *c02Frame
	var hashField string
	t.each(func(f *c02Frame, pf *ssa.Function, in ssa.Instruction) {
		v, ok := in.(*ssa.Call)
		if !ok {
			return
		}
		c := CallSite{pf, v}
		switch {
		case c.Common().IsInvoke() && c.MethodName() == "Read":
			if _, ok := fieldOfSelf(f, c.Args()[0]); ok && t.origin(f, c.Args()[1]) == (c02LV{root, buf}) {
				rd, rdF = v, f
			}
		case c.Common().IsInvoke() && c.MethodName() == "Write":
			if fld, ok := fieldOfSelf(f, c.Args()[0]); ok {
				hw, hwF, hashField = v, f, fld
			}
		case c.IsStatic(c02BlobPath, "Ref", "HashMatches"):
			hm, hmF = v, f
		}
	})
	if rd == nil || hw == nil || hm == nil {
		r.Violation(rule, key+"#shape", p.Pos(fn.Pos()), "the Read method of the hash-checking reader no longer reads its source into p, feeds a hash field and calls HashMatches on its ref")
		return
	}
	// the hash is fed exactly the bytes just read, before the comparison; the comparison is the receiver's ref against that hash
	okFeed := false
	if lv := t.origin(hwF, CallSite{hw.Parent(), hw}.Args()[1]); lv.V != nil {
		if sl, ok := lv.V.(*ssa.Slice); ok && t.origin(lv.F, sl.X) == (c02LV{root, buf}) && sl.Low == nil && sl.High != nil {
			if hv := t.origin(lv.F, sl.High); hv.F == rdF {
				if ex, ok := hv.V.(*ssa.Extract); ok && ex.Tuple == ssa.Value(rd) && ex.Index == 0 {
					okFeed = true
				}
			}
		}
	}
	hmArgs := CallSite{hm.Parent(), hm}.Args()
	f1, ok1 := fieldOfSelf(hmF, hmArgs[1])
	_, ok0 := fieldOfSelf(hmF, hmArgs[0])
	r.Check(okFeed && t.prec(rdF, rd, hwF, hw) && t.prec(hwF, hw, hmF, hm) && ok0 && ok1 && f1 == hashField, rule, key+"#hash-fed", p.Pos(hw.Pos()),
		"the hash field is written p[:n] of this Read before HashMatches compares the receiver's ref with that same hash",
		"the digest compared by HashMatches is not fed exactly the bytes returned by this Read (p[:n]) before the comparison")

	errOfRead, _, _ := ErrValue(rd)
	isEOFCond := func(f *c02Frame, cond ssa.Value) bool {
		isEOF := func(v ssa.Value) bool {
			ld, ok := t.origin(f, v).V.(*ssa.UnOp)
			if !ok || ld.Op != token.MUL {
				return false
			}
			g, ok := ld.X.(*ssa.Global)
			return ok && g.Name() == "EOF" && g.Pkg != nil && g.Pkg.Pkg.Path() == "io"
		}
		isErr := func(v ssa.Value) bool { return t.same(f, v, rdF, errOfRead) }
		if c, ok := c02AsCall(cond); ok && c.IsStatic("errors", "", "Is") {
			return isErr(c.Args()[0]) && isEOF(c.Args()[1])
		}
		if bo, ok := cond.(*ssa.BinOp); ok && bo.Op == token.EQL {
			return isErr(bo.X) && isEOF(bo.Y) || isErr(bo.Y) && isEOF(bo.X)
		}
		return false
	}
	isHM := func(f *c02Frame, cond ssa.Value) bool { return f == hmF && cond == ssa.Value(hm) }
	n := 0
	for _, ri := range Returns(fn) {
		if len(ri.Results) != 2 {
			continue
		}
		for _, in := range t.incoming(root, ri.Results[1], ri.Ret.Block(), nil, 0) {
			n++
			construct := key + "#eof-needs-match"
			if !t.same(in.F, in.Val, rdF, errOfRead) {
				if isNonNilErrorExpr(in.Val) {
					r.OK(rule, construct, p.Pos(ri.Ret.Pos()), "returns a non-nil sentinel error (ErrCorruptBlob) on this edge")
				} else {
					r.Undecided(rule, construct, p.Pos(ri.Ret.Pos()), "error returned on this edge is neither the underlying read error nor a sentinel")
				}
				continue
			}
			kE, vE := c02FactE(in.Facts, isEOFCond)
			kH, vH := c02FactE(in.Facts, isHM)
			r.Check(kE && !vE || kH && vH, rule, construct, p.Pos(ri.Ret.Pos()),
				"the underlying read error is passed on only where it is known not to be EOF or HashMatches is known true",
				"the underlying error (possibly io.EOF) can be returned unchanged although the digest does not match: the backend would see a clean EOF and commit corrupt bytes")
		}
	}
	if n == 0 {
		r.Violation(rule, key+"#eof-needs-match", p.Pos(fn.Pos()), "no return found in the Read method of the hash-checking reader")
	}
}

// ---------------------------------------------------------------------------
// R-http

func c02IsErrorResponder(c CallSite) bool {
	f := c.Callee()
	if f != nil && f.Pkg != nil && f.Pkg.Pkg.Path() == "perkeep.org/internal/httputil" && strings.HasSuffix(f.Name(), "Error") {
		return true
	}
	if c.IsStatic("net/http", "", "Error") {
		return true
	}
	if c.MethodName() == "WriteHeader" {
		as := c.Args()
		if n, ok := ConstInt(as[len(as)-1]); ok && n >= 400 {
			return true
		}
	}
	return false
}

// respondsAlways: every path through helper frame k writes an error response.
func (x *c02Ctx) respondsAlways(k *c02Frame, depth int) bool {
	if k == nil || depth > 3 || len(k.fn.Blocks) == 0 || len(k.fn.Blocks[0].Instrs) == 0 {
		return false
	}
	stop := func(in ssa.Instruction) bool {
		ci, ok := in.(ssa.CallInstruction)
		if !ok {
			return false
		}
		if _, isDefer := in.(*ssa.Defer); isDefer {
			return false
		}
		return c02IsErrorResponder(CallSite{in.Parent(), ci}) || x.respondsAlways(k.kidOf(in), depth+1)
	}
	first := k.fn.Blocks[0].Instrs[0]
	if stop(first) {
		return true
	}
	return len(LeakingExits(PathQuery{Start: first, Stop: stop, IgnorePanics: true})) == 0
}

// writesSuccess: some instruction of the subtree of k writes a non-error status.
func (x *c02Ctx) writesSuccess(t *c02Tree, k *c02Frame) bool {
	found := false
	for _, f := range t.under(k) {
		for _, c := range CallsIn(f.fn, true) {
			if c.MethodName() == "WriteHeader" && !c02IsErrorResponder(c) {
				found = true
			}
		}
	}
	return found
}

func c02RuleHTTP(x *c02Ctx) {
	x.httpPut()
	x.httpMultipart()
	x.r.Floor("R-http", 10)
}

func (x *c02Ctx) httpPut() {
	p, r := x.p, x.r
	const rule = "R-http"
	mk := p.Func("pkg/blobserver/handlers", "", "CreatePutUploadHandler")
	t := x.tree(mk)
	var g *c02Frame
	var rc *ssa.Call
	nrc := 0
	t.each(func(f *c02Frame, fn *ssa.Function, in ssa.Instruction) {
		if c, ok := in.(*ssa.Call); ok && (CallSite{fn, c}).IsStatic(c02BSPath, "", "Receive") {
			nrc++
			g, rc = f, c
		}
	})
	if nrc != 1 {
		r.Violation(rule, FuncKey(mk)+"#receive", p.Pos(mk.Pos()), fmt.Sprintf("the PUT upload handler must contain exactly one call of blobserver.Receive, found %d", nrc))
		return
	}
	h := rc.Parent()
	key := FuncKey(h)
	site := p.Pos(rc.Pos())
	as := CallSite{h, rc}.Args() // ctx, dst, br, src
	facts := t.facts(g, rc.Block())
	// destination = the storage the handler was made for
	stor := c02ParamOfType(mk, func(tp types.Type) bool { return types.Implements(tp, x.recv) })
	r.Check(stor != nil && t.origin(g, as[1]) == (c02LV{t.root, stor}), rule, key+"#receive:dst", site, "Receive stores into the storage the handler was created for", "Receive's destination is not the handler's storage parameter")
	// size guard
	okSize := false
	for _, ef := range facts {
		cond, val := c02StripNot(ef.Cond, ef.Val)
		bo, ok := cond.(*ssa.BinOp)
		if !ok {
			continue
		}
		isCL := func(v ssa.Value) bool {
			fa, ok := c02FieldLoad(t.origin(ef.F, v).V, "ContentLength")
			return ok && IsNamed(fa.X.Type(), "net/http", "Request")
		}
		var k int64
		op := bo.Op
		if kk, ok := t.constInt(ef.F, bo.Y); ok && isCL(bo.X) {
			k = kk
		} else if kk, ok := t.constInt(ef.F, bo.X); ok && isCL(bo.Y) {
			k = kk
			switch op { // mirror
			case token.GTR:
				op = token.LSS
			case token.LSS:
				op = token.GTR
			case token.GEQ:
				op = token.LEQ
			case token.LEQ:
				op = token.GEQ
			}
		} else {
			continue
		}
		switch {
		case op == token.GTR && !val && k <= x.maxBlob,
			op == token.LEQ && val && k <= x.maxBlob,
			op == token.GEQ && !val && k <= x.maxBlob+1,
			op == token.LSS && val && k <= x.maxBlob+1:
			okSize = true
		}
	}
	r.Check(okSize, rule, key+"#receive:size-guard", site, "Receive is reached only with req.ContentLength <= MaxBlobSize", "Receive is not dominated by a ContentLength <= MaxBlobSize guard: a declared-oversize body is not refused up front")
	// parsed ref, ok, supported
	okParse := false
	ref := t.origin(g, as[2])
	if ex, ok := ref.V.(*ssa.Extract); ok && ex.Index == 0 {
		if pc, ok := c02AsCall(ex.Tuple); ok && pc.IsStatic(c02BlobPath, "", "Parse") {
			k, v := c02FactE(facts, func(f *c02Frame, cond ssa.Value) bool {
				e, ok := cond.(*ssa.Extract)
				return ok && f == ref.F && e.Tuple == ex.Tuple && e.Index == 1
			})
			okParse = k && v
		}
	}
	r.Check(okParse, rule, key+"#receive:parsed-ref", site, "the ref is blob.Parse of the request and ok==true dominates Receive", "the ref passed to Receive is not the result of blob.Parse under ok==true")
	k, v, _ := c02BoolCallFactE(facts, func(f *c02Frame, c CallSite) bool {
		return c.IsStatic(c02BlobPath, "Ref", "IsSupported") && t.same(f, c.Args()[0], g, as[2])
	})
	r.Check(k && v, rule, key+"#receive:supported", site, "br.IsSupported()==true dominates Receive", "Receive is not dominated by br.IsSupported()==true: an unknown hash name is not refused before reading")
	// body
	fa, okBody := c02FieldLoad(t.origin(g, as[3]).V, "Body")
	r.Check(okBody && IsNamed(fa.X.Type(), "net/http", "Request"), rule, key+"#receive:body", site, "the bytes received are the request body", "the reader passed to Receive is not req.Body")

	// statuses: followed from Receive up through the helpers that pass its error on
	badStatus, badLeak := "", ""
	f, call := g, rc
	for level := 0; level <= c02MaxDepth; level++ {
		fn := call.Parent()
		ev, hasErr, disc := ErrValue(call)
		if !hasErr || disc {
			badStatus = "the error of Receive (or of the helper that passes it on) is discarded"
			badLeak = badStatus
			break
		}
		nilAt := func(b *ssa.BasicBlock) bool { k, isNil := c02NilKnown(b, ev); return k && isNil }
		for _, c := range CallsIn(fn, false) {
			if c.IsDefer() || !Precedes(call, c.Instr) || nilAt(c.Block()) {
				continue
			}
			if c.MethodName() == "WriteHeader" && !c02IsErrorResponder(c) {
				badStatus = "a non-error status is written where Receive's error is not known nil"
			} else if k := f.kidOf(c.Instr); k != nil && x.writesSuccess(t, k) {
				badStatus = "a helper that writes a non-error status is called where Receive's error is not known nil"
			}
		}
		retVal := map[*ssa.Return]ssa.Value{}
		if idx := ErrResultIndex(fn); idx >= 0 {
			for _, ri := range Returns(fn) {
				retVal[ri.Ret] = ri.Results[idx]
			}
		}
		passesOn := false
		canPass := fn == f.fn && f.parent != nil
		leaks := LeakingExits(PathQuery{
			Start: call,
			Stop: func(in ssa.Instruction) bool {
				if in.Block() != call.Block() && nilAt(in.Block()) {
					return true // this path went through the err==nil edge
				}
				ci, ok := in.(ssa.CallInstruction)
				if !ok {
					return false
				}
				if _, isDefer := in.(*ssa.Defer); isDefer {
					return false
				}
				return c02IsErrorResponder(CallSite{fn, ci}) || x.respondsAlways(f.kidOf(in), 0)
			},
			ExitOK: func(exit ssa.Instruction) bool {
				if nilAt(exit.Block()) {
					return true
				}
				ret, ok := exit.(*ssa.Return)
				if !ok || !canPass {
					return false
				}
				rv := retVal[ret]
				if rv == nil {
					return false
				}
				nonNil := sameOrigin(rv, ev) || isNonNilErrorExpr(rv)
				if !nonNil {
					if k, isNil := c02NilKnown(exit.Block(), rv); k && !isNil {
						nonNil = true
					}
				}
				if nonNil {
					passesOn = true
				}
				return nonNil
			},
			IgnorePanics: true,
		})
		if len(leaks) > 0 {
			badLeak = fmt.Sprintf("a path from Receive to the return at line %d passes no error response although Receive's error is not known nil there: a rejected upload would be answered with a success status", p.Fset.Position(leaks[0].Exit.Pos()).Line)
			break
		}
		if !passesOn {
			break
		}
		sc, isCall := f.site.(*ssa.Call)
		if !isCall {
			badLeak = "the helper that passes Receive's error on runs in a goroutine of its own"
			break
		}
		f, call = f.parent, sc
	}
	r.Check(badStatus == "", rule, key+"#success-status", site, "a non-error status is written only on the err==nil edge of Receive", badStatus)
	r.Check(badLeak == "", rule, key+"#error-status", site, "every path on which Receive's error may be non-nil writes an error response before returning", badLeak)
}

func (x *c02Ctx) httpMultipart() {
	p, r := x.p, x.r
	const rule = "R-http"
	mk := p.Func("pkg/blobserver/handlers", "", "CreateBatchUploadHandler")
	t := x.tree(mk)
	root := t.root
	stor := c02ParamOfType(mk, func(tp types.Type) bool { return types.Implements(tp, x.recv) })
	type recvCall struct {
		f *c02Frame
		c *ssa.Call
	}
	var rcs []recvCall
	t.each(func(f *c02Frame, fn *ssa.Function, in ssa.Instruction) {
		c, ok := in.(*ssa.Call)
		if !ok || !(CallSite{fn, c}).IsStatic(c02BSPath, "", "Receive") {
			return
		}
		rcs = append(rcs, recvCall{f, c})
		r.Check(stor != nil && t.origin(f, c.Call.Args[1]) == (c02LV{root, stor}), rule, FuncKey(TopFunc(fn))+"#receive:dst", p.Pos(c.Pos()),
			"Receive stores into the handler's storage", "Receive's destination is not the handler's storage parameter")
	})
	mkey := FuncKey(mk)
	if len(rcs) == 0 {
		r.Violation(rule, mkey+"#receive", p.Pos(mk.Pos()), "the multipart upload handler no longer calls blobserver.Receive")
	}
	// what is listed as received
	type app struct {
		f *c02Frame
		c *ssa.Call
	}
	var appends []app
	seen := map[c02LV]bool{}
	badLeaf := ""
	var walk func(f *c02Frame, v ssa.Value)
	walk = func(f *c02Frame, v ssa.Value) {
		if v == nil {
			return
		}
		lv := t.origin(f, v)
		if seen[lv] {
			return
		}
		seen[lv] = true
		f, v = lv.F, lv.V
		switch tv := v.(type) {
		case *ssa.Phi:
			for _, e := range tv.Edges {
				walk(f, e)
			}
		case *ssa.Call:
			if b, ok := tv.Call.Value.(*ssa.Builtin); ok && b.Name() == "append" {
				appends = append(appends, app{f, tv})
				walk(f, tv.Call.Args[0])
				return
			}
			if k := f.kids[tv]; k != nil && tv.Call.Signature().Results().Len() == 1 {
				for _, ri := range Returns(k.fn) {
					walk(k, ri.Results[0])
				}
				return
			}
			badLeaf = "Received is built from the result of " + (CallSite{tv.Parent(), tv}).CalleeKey()
		case *ssa.Extract:
			if call, ok := tv.Tuple.(*ssa.Call); ok {
				if k := f.kids[call]; k != nil {
					for _, ri := range Returns(k.fn) {
						walk(k, ri.Results[tv.Index])
					}
					return
				}
			}
			badLeaf = "Received is built from one of several results of a call"
		case *ssa.Slice:
			if _, ok := tv.X.(*ssa.Alloc); !ok {
				badLeaf = "Received is built from a slice of unknown origin"
			}
		case *ssa.Const, *ssa.MakeSlice:
		case *ssa.UnOp:
			badLeaf = "Received is loaded from a variable with several stores"
		default:
			badLeaf = fmt.Sprintf("Received is built from a %T", v)
		}
	}
	nstore := 0
	var listFn *ssa.Function
	t.each(func(f *c02Frame, fn *ssa.Function, in ssa.Instruction) {
		st, ok := in.(*ssa.Store)
		if !ok {
			return
		}
		fa, ok := st.Addr.(*ssa.FieldAddr)
		if ok && fieldName(fa.X.Type(), fa.Field) == "Received" && IsNamed(fa.X.Type(), "perkeep.org/pkg/blobserver/protocol", "UploadResponse") {
			nstore++
			listFn = TopFunc(fn)
			walk(f, st.Val)
		}
	})
	if listFn != nil {
		mkey = FuncKey(listFn)
	}
	if nstore == 0 || badLeaf != "" || len(appends) == 0 {
		if badLeaf == "" {
			badLeaf = "no store to UploadResponse.Received built by append found"
		}
		r.Undecided(rule, mkey+"#received-list", p.Pos(mk.Pos()), badLeaf)
	}
	for _, a := range appends {
		ap := a.c
		site := p.Pos(ap.Pos())
		akey := FuncKey(TopFunc(ap.Parent()))
		construct := akey + "#received-list:append"
		ok := true
		detail := ""
		var guards []recvCall
		for _, e := range c02Elems(ap.Call.Args[1]) {
			lv := t.origin(a.f, e)
			ex, isEx := lv.V.(*ssa.Extract)
			var src *recvCall
			if isEx && ex.Index == 0 {
				for i := range rcs {
					if rcs[i].f == lv.F && ex.Tuple == ssa.Value(rcs[i].c) {
						src = &rcs[i]
					}
				}
			}
			if src == nil {
				ok, detail = false, "an element appended to the Received list is not the SizedRef returned by blobserver.Receive"
				break
			}
			if o, _ := t.succDom(src.f, src.c, a.f, ap); !o {
				ok, detail = false, "a blob is appended to the Received list where the error of its Receive is not known nil: a rejected part would be listed as received"
				break
			}
			guards = append(guards, *src)
		}
		r.Check(ok, rule, construct, site, "only SizedRefs returned by Receive are listed, and only where that Receive's (overridden) error is known nil", detail)
		if !ok || len(guards) == 0 {
			continue
		}
		// the oversize override: the error tested by the guard merges Receive's error with a non-nil error raised when the counted bytes reached MaxBlobSize+1
		okOver := false
		for _, ef := range t.facts(a.f, ap.Block()) {
			cond, _ := c02StripNot(ef.Cond, ef.Val)
			bo, isBo := cond.(*ssa.BinOp)
			if !isBo {
				continue
			}
			var tested ssa.Value
			if IsNilConst(bo.Y) {
				tested = bo.X
			} else if IsNilConst(bo.X) {
				tested = bo.Y
			}
			if tested == nil {
				continue
			}
			ins := t.incoming(ef.F, tested, bo.Block(), nil, 0)
			for _, gd := range guards {
				ev, _, _ := ErrValue(gd.c)
				covers := false
				for _, in := range ins {
					if in.F == gd.f && sameOrigin(in.Val, ev) {
						covers = true
					}
				}
				if !covers {
					continue
				}
				for _, in := range ins {
					if !isNonNilErrorExpr(in.Val) {
						continue
					}
					k, v := c02FactE(in.Facts, func(f *c02Frame, cond ssa.Value) bool {
						b, ok := cond.(*ssa.BinOp)
						if !ok {
							return false
						}
						n, okc := t.constInt(f, b.Y)
						ld, okl := b.X.(*ssa.UnOp)
						if !okc || !okl || ld.Op != token.MUL {
							return false
						}
						return x.countsReceive(t, f, ld.X, n, gd.f, gd.c) && (b.Op == token.EQL && n == x.maxBlob+1 || b.Op == token.GTR && n == x.maxBlob || b.Op == token.GEQ && n == x.maxBlob+1)
					})
					if k && v {
						okOver = true
					}
				}
			}
		}
		r.Check(okOver, rule, akey+"#oversize-override", site,
			"the error guarding the listing merges Receive's error with a non-nil error raised when the part's counted size reached MaxBlobSize+1 (the part reader is limited to exactly that)",
			"the listing guard no longer includes the 'blob over the limit' override on a byte counter of the part limited to MaxBlobSize+1: an oversize part whose 16 MiB prefix matches would be listed as received")
	}
}

// countsReceive: cell (an address of frame cf) is the N counter of a
// readerutil.CountingReader handed to the Receive call rc, whose Reader is
// io.LimitReader(_, limit).
func (x *c02Ctx) countsReceive(t *c02Tree, cf *c02Frame, cell ssa.Value, limit int64, rf *c02Frame, rc *ssa.Call) bool {
	lv := t.origin(rf, rc.Call.Args[3])
	al, ok := lv.V.(*ssa.Alloc)
	if !ok || al.Referrers() == nil {
		return false
	}
	okN, okR := false, false
	for _, u := range *al.Referrers() {
		fa, ok := u.(*ssa.FieldAddr)
		if !ok || fa.Referrers() == nil {
			continue
		}
		for _, uu := range *fa.Referrers() {
			st, ok := uu.(*ssa.Store)
			if !ok || st.Addr != ssa.Value(fa) {
				continue
			}
			switch fieldName(fa.X.Type(), fa.Field) {
			case "N":
				okN = t.origin(lv.F, st.Val) == t.origin(cf, cell)
			case "Reader":
				_, n, okc := t.limited(lv.F, st.Val)
				okR = okc && n == limit
			}
		}
	}
	return okN && okR
}

// ---------------------------------------------------------------------------
// R-commit / R-verdict: forward taint of the source reader over the effective body

type c02Consumer struct {
	F    *c02Frame
	C    CallSite
	Kind string // full | delegate | opaque | partial
}

type c02Flow struct {
	t         *c02Tree
	top       *c02Frame
	tainted   map[c02LV]bool
	consumers []c02Consumer
}

func c02Taintable(t types.Type) bool {
	switch t.Underlying().(type) {
	case *types.Basic:
		return false
	}
	return true
}

// c02BaseObj returns the local object (Alloc) an address points into.
func c02BaseObj(addr ssa.Value) ssa.Value {
	for i := 0; i < 8; i++ {
		switch a := addr.(type) {
		case *ssa.Alloc:
			return a
		case *ssa.FieldAddr:
			addr = a.X
		case *ssa.IndexAddr:
			addr = a.X
		case *ssa.FreeVar:
			b := bindingOf(a)
			if b == nil {
				return a
			}
			addr = b
		case *ssa.Parameter:
			// an object of the caller, reached through a pointer parameter
			if _, ok := a.Type().Underlying().(*types.Pointer); ok {
				return a
			}
			return nil
		case *ssa.UnOp:
			// an object reached through a pointer that was itself loaded (p.inner.f): the
			// loaded pointer stands for the object
			if _, ok := a.Type().Underlying().(*types.Pointer); ok && a.Op == token.MUL {
				return a
			}
			return nil
		default:
			return nil
		}
	}
	return nil
}

// flowOf propagates the taint of src (a parameter of frame top) through the
// subtree of top: wrappers, variables, literals, and helper parameters.
func (x *c02Ctx) flowOf(t *c02Tree, top *c02Frame, src *ssa.Parameter) *c02Flow {
	fl := &c02Flow{t: t, top: top, tainted: map[c02LV]bool{{top, src}: true}}
	frames := t.under(top)
	seenCons := map[c02Loc]bool{}
	for round := 0; round < 20; round++ {
		changed := false
		for _, fr := range frames {
			fr := fr
			isT := func(v ssa.Value) bool {
				if v == nil {
					return false
				}
				if fl.tainted[c02LV{fr, v}] {
					return true
				}
				if fv, ok := v.(*ssa.FreeVar); ok {
					if b := bindingOf(fv); b != nil && fl.tainted[c02LV{fr, b}] {
						return true
					}
				}
				return false
			}
			mark := func(v ssa.Value) {
				if v != nil && !fl.tainted[c02LV{fr, v}] && c02Taintable(v.Type()) {
					fl.tainted[c02LV{fr, v}] = true
					changed = true
				}
			}
			any := false
			for lv := range fl.tainted {
				if lv.F == fr {
					any = true
					break
				}
			}
			if !any {
				continue
			}
			c02AllInstrs(fr.fn, func(f *ssa.Function, in ssa.Instruction) {
				switch tv := in.(type) {
				case *ssa.Store:
					if isT(tv.Val) {
						if b := c02BaseObj(tv.Addr); b != nil {
							mark(b)
						}
					}
				case *ssa.UnOp:
					if tv.Op == token.MUL {
						if b := c02BaseObj(tv.X); b != nil && isT(b) {
							mark(tv)
						}
					}
				case *ssa.MakeInterface:
					if isT(tv.X) {
						mark(tv)
					}
				case *ssa.ChangeInterface:
					if isT(tv.X) {
						mark(tv)
					}
				case *ssa.ChangeType:
					if isT(tv.X) {
						mark(tv)
					}
				case *ssa.TypeAssert:
					if isT(tv.X) {
						mark(tv)
					}
				case *ssa.Slice:
					if isT(tv.X) {
						mark(tv)
					}
				case *ssa.Field:
					if isT(tv.X) {
						mark(tv)
					}
				case *ssa.Phi:
					for _, e := range tv.Edges {
						if isT(e) {
							mark(tv)
						}
					}
				case ssa.CallInstruction:
					c := CallSite{f, tv}
					hit := false
					for _, a := range c02ArgsExpanded(c) {
						if isT(a) {
							hit = true
						}
					}
					if !hit {
						return
					}
					if k := fr.kidOf(in); k != nil {
						// the helper's parameters stand for the arguments
						for i, a := range tv.Common().Args {
							if isT(a) && i < len(k.fn.Params) && c02Taintable(k.fn.Params[i].Type()) {
								if lv := (c02LV{k, k.fn.Params[i]}); !fl.tainted[lv] {
									fl.tainted[lv] = true
									changed = true
								}
							}
						}
						// ... an object the helper stored the stream into (through a pointer parameter)
						// is the caller's object
						for i, a := range tv.Common().Args {
							if i >= len(k.fn.Params) || !fl.tainted[c02LV{k, k.fn.Params[i]}] || isT(a) {
								continue
							}
							if _, isPtr := a.Type().Underlying().(*types.Pointer); isPtr {
								mark(a)
								if b := c02BaseObj(a); b != nil {
									mark(b)
								}
							}
						}
						// ... and what the helper returns for the results of the call: a value of the
						// helper that carries the stream (whatever its type) makes the result carry it
						if val := c.Value(); val != nil {
							for _, ri := range Returns(k.fn) {
								for j, rv := range ri.Results {
									if !fl.tainted[c02LV{k, rv}] {
										continue
									}
									if len(ri.Results) == 1 {
										mark(val)
									} else if val.Referrers() != nil {
										for _, u := range *val.Referrers() {
											if ex, ok := u.(*ssa.Extract); ok && ex.Index == j {
												mark(ex)
											}
										}
									}
								}
							}
						}
					}
					kind := x.consumerKind(c, isT)
					val := c.Value()
					if val != nil {
						res := val.Call.Signature().Results()
						if res.Len() == 1 && x.isReaderType(res.At(0).Type()) {
							mark(val)
						} else if res.Len() > 1 && val.Referrers() != nil {
							for _, u := range *val.Referrers() {
								if ex, ok := u.(*ssa.Extract); ok && x.isReaderType(res.At(ex.Index).Type()) {
									mark(ex)
								}
							}
						}
					}
					if kind != "" && !seenCons[c02Loc{fr, in}] {
						seenCons[c02Loc{fr, in}] = true
						fl.consumers = append(fl.consumers, c02Consumer{fr, c, kind})
					}
				}
			})
		}
		if !changed {
			break
		}
	}
	return fl
}

// consumerKind classifies a call that receives the (wrapped) source reader.
// "" = propagating wrapper or inspector (no error result): not a consumer.
func (x *c02Ctx) consumerKind(c CallSite, isT func(ssa.Value) bool) string {
	as := c.Args()
	switch {
	case c.IsStatic("io", "", "Copy") || c.IsStatic("io", "", "CopyBuffer"):
		if len(as) > 1 && isT(as[1]) {
			return "full"
		}
		return ""
	case c.IsStatic("io", "", "ReadAll") || c.IsStatic("io/ioutil", "", "ReadAll"):
		return "full"
	case c.IsStatic("bytes", "Buffer", "ReadFrom"):
		if len(as) > 1 && isT(as[1]) {
			return "full"
		}
		return ""
	case c.IsStatic("io", "", "CopyN") || c.IsStatic("io", "", "ReadFull") || c.IsStatic("io", "", "ReadAtLeast"):
		return "partial"
	}
	if x.isReceiveBlobCall(c) {
		return "delegate"
	}
	if _, ok := c02IsReceiveFamily(c); ok {
		return "delegate"
	}
	if c.MethodName() == "Read" && c.Common().IsInvoke() {
		return "partial"
	}
	sig := c.Common().Signature()
	res := sig.Results()
	if res.Len() == 0 || !isErrorType(res.At(res.Len()-1).Type()) {
		return ""
	}
	return "opaque"
}

// c02CommitCalls: calls outside the module's same-package reach that make a
// received blob visible and are neither a delegated receive, a sorted.KeyValue
// write, a rename nor a receiver-map store. One symbol, one reason. (Helpers of
// the store's own package need no entry: their commit points are found in the
// effective body.)
var c02CommitCalls = map[string]string{
	"internal/azure/storage.(*Client).PutObject":  "creates the Azure object",
	"cloud.google.com/go/storage.(*Writer).Close": "the GCS object becomes visible when the writer is closed",
	"gopkg.in/mgo.v2.(*Collection).Insert":        "inserts the blob document",
}

type c02Commit struct {
	F    *c02Frame
	In   ssa.Instruction
	Fn   *ssa.Function
	Kind string
	Name string
}

// recvPath renders v (a value of frame f) as a path below the receiver of the
// tree's root ("m", "index.kv"), "" if it is not rooted there.
func (t *c02Tree) recvPath(f *c02Frame, v ssa.Value) string {
	root := t.root.fn
	if root.Signature.Recv() == nil || len(root.Params) == 0 {
		return ""
	}
	var names []string
	for i := 0; i < 16 && v != nil; i++ {
		lv := t.origin(f, v)
		f, v = lv.F, lv.V
		switch tv := v.(type) {
		case *ssa.Parameter:
			if f == t.root && tv == root.Params[0] && len(names) > 0 {
				return strings.Join(names, ".")
			}
			return ""
		case *ssa.UnOp:
			if tv.Op != token.MUL {
				return ""
			}
			v = tv.X
		case *ssa.FieldAddr:
			names = append([]string{fieldName(tv.X.Type(), tv.Field)}, names...)
			v = tv.X
		case *ssa.Field:
			names = append([]string{fieldName(tv.X.Type(), tv.Field)}, names...)
			v = tv.X
		case *ssa.Alloc:
			p := c02SpillParam(tv)
			if p == nil {
				return ""
			}
			v = p
		default:
			return ""
		}
	}
	return ""
}

// stablePath renders a destination for a construct key without SSA register names.
func (t *c02Tree) stablePath(f *c02Frame, v ssa.Value) string {
	lv := t.origin(f, v)
	if lv.F == t.root {
		return c02StablePath(lv.V)
	}
	if rp := t.recvPath(f, v); rp != "" && len(t.root.fn.Params) > 0 {
		return t.root.fn.Params[0].Name() + "." + rp
	}
	return c02StablePath(v)
}

func (x *c02Ctx) commitPoints(t *c02Tree, top *c02Frame) []c02Commit {
	var out []c02Commit
	for _, fr := range t.under(top) {
		fr := fr
		at := ""
		if fr != top {
			at = "@" + strings.TrimPrefix(strings.TrimPrefix(fr.chain(), top.chain()), "/")
		}
		c02AllInstrs(fr.fn, func(f *ssa.Function, in ssa.Instruction) {
			switch tv := in.(type) {
			case *ssa.MapUpdate:
				if pth := t.recvPath(fr, tv.Map); pth != "" {
					out = append(out, c02Commit{fr, in, f, "map", "map:" + pth + at})
				}
			case ssa.CallInstruction:
				c := CallSite{f, tv}
				if c.IsDefer() {
					return
				}
				key := c.CalleeKey()
				switch {
				case x.isReceiveBlobCall(c):
					out = append(out, c02Commit{fr, in, f, "receive", "ReceiveBlob:" + t.stablePath(fr, c.Args()[0]) + at})
				case c.IsMethod("Set", x.kv) || c.IsMethod("Delete", x.kv) || c.IsMethod("CommitBatch", x.kv):
					out = append(out, c02Commit{fr, in, f, "kv", c.MethodName() + ":" + t.stablePath(fr, c.Args()[0]) + at})
				case c.IsMethod("Rename", x.vfs) || c.IsStatic("os", "", "Rename"):
					out = append(out, c02Commit{fr, in, f, "rename", "Rename" + at})
				default:
					if n, ok := c02IsReceiveFamily(c); ok {
						out = append(out, c02Commit{fr, in, f, "receive", n + ":" + t.stablePath(fr, c.Args()[1]) + at})
					} else if _, ok := c02CommitCalls[key]; ok {
						x.k5seen[key] = true
						out = append(out, c02Commit{fr, in, f, "helper", key + at})
					}
				}
			}
		})
	}
	return out
}

func (x *c02Ctx) readerParam(fn *ssa.Function) *ssa.Parameter {
	return c02ParamOfType(fn, func(t types.Type) bool { return IsNamed(t, "io", "Reader") })
}

// hashMatchTrue: a HashMatches call on the root's own ref parameter is known true at instruction in of frame f.
func (x *c02Ctx) hashMatchTrue(t *c02Tree, f *c02Frame, in ssa.Instruction) bool {
	ref := c02ParamOfType(t.root.fn, c02IsBlobRef)
	facts := t.facts(f, in.Block())
	k, v, _ := c02BoolCallFactE(facts, func(cf *c02Frame, c CallSite) bool {
		return c.IsStatic(c02BlobPath, "Ref", "HashMatches") && (ref == nil || t.origin(cf, c.Args()[0]) == (c02LV{t.root, ref}))
	})
	return k && v
}

func (x *c02Ctx) comparesDigest(t *c02Tree) bool {
	found := false
	t.each(func(f *c02Frame, fn *ssa.Function, in ssa.Instruction) {
		if ci, ok := in.(ssa.CallInstruction); ok && (CallSite{fn, ci}).IsStatic(c02BlobPath, "Ref", "HashMatches") {
			found = true
		}
	})
	return found
}

// digestGuarded: commit point cp sits under HashMatches==true (for a commit in
// a literal: every start of the literal does).
func (x *c02Ctx) digestGuarded(t *c02Tree, cp c02Commit) bool {
	if x.hashMatchTrue(t, cp.F, cp.In) {
		return true
	}
	if cp.Fn != cp.F.fn && cp.Fn.Parent() == cp.F.fn {
		anchors := c02LiteralAnchors(cp.Fn)
		if len(anchors) == 0 {
			return false
		}
		for _, a := range anchors {
			if !x.hashMatchTrue(t, cp.F, a) {
				return false
			}
		}
		return true
	}
	return false
}

// isReverifier: fn is a ReceiveBlob that compares the digest itself and whose
// commit points all sit under HashMatches==true.
func (x *c02Ctx) isReverifier(fn *ssa.Function) bool {
	if fn == nil || fn.Blocks == nil {
		return false
	}
	if st := x.reverify[fn]; st != 0 {
		return st == 1
	}
	t := x.tree(fn)
	ok := x.comparesDigest(t)
	cps := x.commitPoints(t, t.root)
	if len(cps) == 0 {
		ok = false
	}
	for _, cp := range cps {
		if !x.digestGuarded(t, cp) {
			ok = false
		}
	}
	if ok {
		x.reverify[fn] = 1
	} else {
		x.reverify[fn] = 2
	}
	return ok
}

func c02RuleCommit(x *c02Ctx) {
	p, r := x.p, x.r
	var impls []*ssa.Function
	seen := map[*ssa.Function]bool{}
	for _, n := range p.Implementers(x.recv, false) {
		fn, _ := p.MethodOf(n, "ReceiveBlob")
		// a pointer-receiver wrapper of a value-receiver method is synthetic: find the declared one
		if fn != nil && fn.Synthetic != "" {
			if f2 := p.LookupFunc(RelPkg(n.Obj().Pkg()), n.Obj().Name(), "ReceiveBlob"); f2 != nil {
				fn = f2
			} else {
				continue // promoted from an embedded field: the declaring type is enumerated itself
			}
		}
		if fn == nil || fn.Blocks == nil || seen[fn] || !InModule(fn) || IsTestSupportPkg(RelPkg(fn.Pkg.Pkg)) {
			continue
		}
		seen[fn] = true
		impls = append(impls, fn)
	}
	r.Analysed("receiveblob_implementations", len(impls))
	nrev := 0
	for _, fn := range impls {
		src := x.readerParam(fn)
		if src == nil {
			r.Undecided("R-commit", FuncKey(fn)+"#source", p.Pos(fn.Pos()), "cannot identify the io.Reader parameter")
			continue
		}
		t := x.tree(fn)
		if t.capped {
			r.Note("effective body of %s capped at %d frames", FuncKey(fn), c02MaxFrames)
		}
		x.checkReceiver(t, t.root, src, map[*ssa.Function]bool{})
		if x.isReverifier(fn) {
			nrev++
		}
	}
	var keys []string
	for k := range c02CommitCalls {
		keys = append(keys, k)
	}
	sort.Strings(keys)
	for _, k := range keys {
		if !x.k5seen[k] {
			r.Undecided("R-commit", "table#"+k, "", "commit-call table entry matched no call in the effective body of any ReceiveBlob implementation: the table is stale")
		}
	}
	r.Check(nrev >= 2, "R-commit", "reverifying-stores#count", "", fmt.Sprintf("%d stores compare the digest themselves and commit only under HashMatches==true", nrev),
		fmt.Sprintf("only %d stores still re-verify the digest before committing (memory and encrypt are expected)", nrev))
	r.Floor("R-commit", 55)
	r.Floor("R-verdict", 33)
}

// checkReceiver applies R-commit (and, for the root, R-verdict) to the subtree
// of frame top with src (a parameter of top.fn) as the stream.
func (x *c02Ctx) checkReceiver(t *c02Tree, top *c02Frame, src *ssa.Parameter, subDone map[*ssa.Function]bool) {
	p, r := x.p, x.r
	key := FuncKey(top.fn)
	fl := x.flowOf(t, top, src)
	isCons := map[c02Loc]*c02Consumer{}
	var verdicts []*c02Consumer // consumers whose success means the stream was read to its end
	for i := range fl.consumers {
		c := &fl.consumers[i]
		isCons[c02Loc{c.F, c.C.Instr}] = c
		if c.C.Value() == nil {
			continue
		}
		construct := FuncKey(TopFunc(c.C.Fn)) + "#consume:" + c.C.CalleeKey()
		_, hasErr, disc := ErrValue(c.C.Value())
		if !hasErr {
			continue
		}
		if disc {
			r.Violation("R-commit", construct, p.Pos(c.C.Pos()), "the error of the call that reads source is discarded: the digest/size verdict of blobserver.Receive reaches a backend only as that error")
			continue
		}
		r.OK("R-commit", construct, p.Pos(c.C.Pos()), c.Kind+" consumer of source; its error is examined")
		if c.Kind != "partial" {
			verdicts = append(verdicts, c)
		}
	}
	dominatedBy := func(f *c02Frame, at ssa.Instruction, kinds string) (bool, string) {
		why := "no call reads source to its end before this point"
		for _, c := range verdicts {
			if !strings.Contains(kinds, c.Kind) {
				continue
			}
			if c.F == f && c.C.Instr == at {
				continue
			}
			ok, w := t.succDom(c.F, c.C.Value(), f, at)
			if ok {
				return true, c.C.CalleeKey()
			}
			why = c.C.CalleeKey() + ": " + w
		}
		return false, why
	}
	cps := x.commitPoints(t, top)
	digest := top == t.root && x.comparesDigest(t)
	for _, cp := range cps {
		construct := key + "#commit:" + cp.Name
		site := p.Pos(cp.In.Pos())
		if c := isCons[c02Loc{cp.F, cp.In}]; c != nil {
			r.OK("R-commit", construct, site, "the commit is the call that consumes source: a read error fails the commit itself")
		} else {
			ok, by := dominatedBy(cp.F, cp.In, "full delegate")
			r.Check(ok, "R-commit", construct, site, "dominated by the err==nil edge of "+by,
				"commit point reachable without a successful complete read of source ("+by+"): bytes that failed the digest or size check of blobserver.Receive could become visible")
		}
		if digest {
			r.Check(x.digestGuarded(t, cp), "R-commit", construct+":digest", site, "this store compares the digest itself and commits only under HashMatches==true",
				"this store calls HashMatches but this commit point is not under HashMatches==true")
		}
	}
	// a helper that is handed bytes as a reader (not the stream followed above)
	// and makes them visible is checked like a receiver of its own
	byFrame := map[*c02Frame]bool{}
	for _, cp := range cps {
		for f := cp.F; f != nil && f != top; f = f.parent {
			byFrame[f] = true
		}
	}
	for _, k := range t.under(top) {
		if k == top || !byFrame[k] || subDone[k.fn] {
			continue
		}
		rp := x.readerParam(k.fn)
		if rp == nil || fl.tainted[c02LV{k, rp}] {
			continue
		}
		subDone[k.fn] = true
		x.checkReceiver(t, k, rp, subDone)
	}
	if top != t.root {
		return
	}
	// R-verdict
	nrs := t.nilReturns(top, 0)
	if len(nrs) == 0 {
		r.OKTable("R-verdict", key+"#success-return", p.Pos(top.fn.Pos()), "never returns a nil error: every upload is refused")
		return
	}
	type agg struct {
		ok  bool
		why string
	}
	byRet := map[*ssa.Return]*agg{}
	var order []*ssa.Return
	for _, nr := range nrs {
		a := byRet[nr.Ret]
		if a == nil {
			a = &agg{ok: true}
			byRet[nr.Ret] = a
			order = append(order, nr.Ret)
		}
		ok, why := false, "no consumer of source"
		val := nr.Val
		if cv := c02CellVal(val); cv != nil {
			val = cv
		}
		for _, c := range verdicts {
			ev, _, _ := ErrValue(c.C.Value())
			if c.F == nr.F && val != nil && sameOrigin(val, ev) {
				ok, why = true, "returns the error of "+c.C.CalleeKey()
				break
			}
		}
		if !ok {
			ok, why = dominatedBy(nr.F, c02LastInstr(nr.From), "full delegate opaque")
			if ok {
				why = "dominated by the err==nil edge of " + why
			}
		}
		if !ok {
			// exception (one symbol, one reason): go4.org/fault.(*Injector).FailErr returns true
			// only after storing a non-nil error through its argument
			if k, v, fc := BoolCallFact(nr.From, func(c CallSite) bool { return c.IsStatic("go4.org/fault", "Injector", "FailErr") }); k && v {
				if ld, isLd := nr.Val.(*ssa.UnOp); isLd && ld.Op == token.MUL && len(fc.Args()) == 2 && fc.Args()[1] == ld.X {
					ok, why = true, "fault-injection hook: fault.(*Injector).FailErr returned true, so it stored a non-nil error in the returned variable"
				}
			}
		}
		if !ok {
			a.ok = false
			a.why = why
		} else if a.why == "" {
			a.why = why
		}
	}
	for _, ret := range order {
		a := byRet[ret]
		r.Check(a.ok, "R-verdict", FuncKey(ret.Parent())+"#success-return", p.Pos(ret.Pos()), a.why,
			"may return a nil error without having read source successfully ("+a.why+"): blobserver.Receive then reports a blob as received whose bytes were never compared with the ref")
	}
}

// ---------------------------------------------------------------------------
// R-entry: carriers, buffers, idioms

// c02Root says where the bytes a reader / []byte / string value carries come from.
type c02Root struct {
	Kind string    // stream | buf | val | field | unknown
	F    *c02Frame // frame of V / of the field load
	V    ssa.Value // stream: the parameter; buf: the buffer object; val: the immutable value
	Path string    // field: access path of the field address
	At   c02Loc    // buf via Bytes()/String(): that call; field: the load
}

func (a c02Root) same(b c02Root) bool {
	if a.Kind != b.Kind || a.Kind == "unknown" {
		return false
	}
	if a.Kind == "field" {
		return a.Path == b.Path && !strings.Contains(a.Path, "?")
	}
	return a.F == b.F && a.V == b.V
}

func (a c02Root) String() string {
	switch a.Kind {
	case "field":
		return "field " + a.Path
	case "unknown":
		return "unknown"
	}
	return a.Kind + " " + a.V.Name()
}

func c02BytesOrString(t types.Type) bool {
	switch u := t.Underlying().(type) {
	case *types.Basic:
		return u.Info()&types.IsString != 0
	case *types.Slice:
		b, ok := u.Elem().Underlying().(*types.Basic)
		return ok && b.Kind() == types.Byte
	}
	return false
}

// bufObj returns the *bytes.Buffer object (Alloc or producing call) v denotes.
func (t *c02Tree) bufObj(f *c02Frame, v ssa.Value) (c02LV, bool) {
	if v == nil {
		return c02LV{}, false
	}
	lv := t.origin(f, v)
	if lv.V == nil || !c02IsBytesBufferPtr(lv.V.Type()) {
		return c02LV{}, false
	}
	switch lv.V.(type) {
	case *ssa.Alloc, *ssa.Call:
		return lv, true
	}
	return c02LV{}, false
}

// fieldPath renders the address of a field for comparison across the frames of a tree.
func (t *c02Tree) fieldPath(f *c02Frame, fa *ssa.FieldAddr) string {
	if f == t.root {
		return AccessPath(fa)
	}
	if rp := t.recvPath(f, fa); rp != "" {
		return "&" + t.root.fn.Params[0].Name() + "." + rp
	}
	return "?"
}

func (x *c02Ctx) carrier(t *c02Tree, f *c02Frame, v ssa.Value, depth int) c02Root {
	unknown := c02Root{Kind: "unknown"}
	if depth > 12 || v == nil {
		return unknown
	}
	lv := t.origin(f, v)
	r := x.carrierAt(t, lv, depth)
	if r.Kind == "unknown" || r.Kind == "field" {
		// the value a helper call returns is itself an immutable snapshot
		if sv := t.originX(f, v, false); sv != lv {
			if r2 := x.carrierAt(t, sv, depth); r2.Kind == "val" {
				return r2
			}
		}
	}
	return r
}

func (x *c02Ctx) carrierAt(t *c02Tree, lv c02LV, depth int) c02Root {
	unknown := c02Root{Kind: "unknown"}
	f, v := lv.F, lv.V
	if b, ok := t.bufObj(f, v); ok {
		return c02Root{Kind: "buf", F: b.F, V: b.V}
	}
	switch tv := v.(type) {
	case *ssa.Parameter:
		if c02BytesOrString(tv.Type()) {
			return c02Root{Kind: "val", F: f, V: tv}
		}
		if x.isReaderType(tv.Type()) {
			return c02Root{Kind: "stream", F: f, V: tv}
		}
	case *ssa.Convert:
		if c02BytesOrString(tv.Type()) && c02BytesOrString(tv.X.Type()) {
			return x.carrier(t, f, tv.X, depth+1)
		}
	case *ssa.Call:
		c := CallSite{tv.Parent(), tv}
		as := c.Args()
		switch {
		case c.IsStatic("strings", "", "NewReader"), c.IsStatic("bytes", "", "NewReader"), c.IsStatic("bytes", "", "NewBuffer"),
			c.IsStatic("bytes", "", "NewBufferString"), c.IsStatic("io", "", "TeeReader"), c.IsStatic("io", "", "NopCloser"):
			return x.carrier(t, f, as[0], depth+1)
		case c.IsStatic("bytes", "Buffer", "String"):
			return c02Root{Kind: "val", F: f, V: tv} // an immutable snapshot
		case c.IsStatic("bytes", "Buffer", "Bytes"):
			if b, ok := t.bufObj(f, as[0]); ok {
				return c02Root{Kind: "buf", F: b.F, V: b.V, At: c02Loc{f, tv}}
			}
			return unknown
		}
		if c02BytesOrString(tv.Type()) {
			return c02Root{Kind: "val", F: f, V: tv}
		}
	case *ssa.UnOp:
		if tv.Op == token.MUL {
			if fa, ok := tv.X.(*ssa.FieldAddr); ok && c02BytesOrString(tv.Type()) {
				return c02Root{Kind: "field", F: f, Path: t.fieldPath(f, fa), At: c02Loc{f, tv}}
			}
		}
	case *ssa.Extract, *ssa.MakeSlice, *ssa.Const:
		if c02BytesOrString(v.Type()) {
			return c02Root{Kind: "val", F: f, V: v}
		}
	}
	return unknown
}

type c02BufOp struct {
	F       *c02Frame
	In      ssa.Instruction
	Kind    string // ro | reset | fill | mut
	Src     ssa.Value
	CoSinks []c02LV
}

// sinks: the writers a value written to reaches (through io.MultiWriter).
func (t *c02Tree) sinks(f *c02Frame, w ssa.Value) []c02LV {
	o := t.origin(f, w)
	if c, ok := c02AsCall(o.V); ok && c.IsStatic("io", "", "MultiWriter") {
		var out []c02LV
		for _, e := range c02ArgsExpanded(c) {
			out = append(out, t.sinks(o.F, e)...)
		}
		return out
	}
	return []c02LV{o}
}

// teeSinks: the writers that see every byte read through reader r.
func (t *c02Tree) teeSinks(f *c02Frame, r ssa.Value) []c02LV {
	var out []c02LV
	for i := 0; i < 8; i++ {
		o := t.origin(f, r)
		c, ok := c02AsCall(o.V)
		if !ok || !c.IsStatic("io", "", "TeeReader") {
			break
		}
		out = append(out, t.sinks(o.F, c.Args()[1])...)
		f, r = o.F, c.Args()[0]
	}
	return out
}

// bufOps lists every operation of the effective body on buffer object B.
func (x *c02Ctx) bufOps(t *c02Tree, B c02LV) []c02BufOp {
	var ops []c02BufOp
	t.each(func(fr *c02Frame, f *ssa.Function, in ssa.Instruction) {
		isAny := func(v ssa.Value) bool { // B itself or B behind an interface
			if v == nil {
				return false
			}
			b, ok := t.bufObj(fr, v)
			return ok && b == B
		}
		switch tv := in.(type) {
		case ssa.CallInstruction:
			c := CallSite{f, tv}
			if c.IsDefer() {
				return
			}
			as := c.Args()
			if c.IsStatic("io", "", "Copy") || c.IsStatic("io", "", "CopyBuffer") {
				var co []c02LV
				hit := false
				for _, sk := range t.sinks(fr, as[0]) {
					if sk == B {
						hit = true
					} else {
						co = append(co, sk)
					}
				}
				if hit {
					ops = append(ops, c02BufOp{fr, in, "fill", as[1], co})
					return
				}
			}
			if c.IsStatic("io", "", "MultiWriter") {
				return
			}
			hit := false
			for _, a := range c02ArgsExpanded(c) {
				if isAny(a) {
					hit = true
				}
			}
			if !hit {
				return
			}
			if fr.kidOf(in) != nil {
				return // a helper of the effective body: what it does with its parameter is listed from its own frame
			}
			if cf := c.Callee(); cf != nil && cf.Signature.Recv() != nil && funcIs(cf, "bytes", "Buffer", cf.Name()) && isAny(as[0]) {
				switch cf.Name() {
				case "Bytes", "String", "Len", "Cap", "Available":
					ops = append(ops, c02BufOp{F: fr, In: in, Kind: "ro"})
				case "Reset":
					ops = append(ops, c02BufOp{F: fr, In: in, Kind: "reset"})
				case "ReadFrom":
					ops = append(ops, c02BufOp{F: fr, In: in, Kind: "fill", Src: as[1]})
				default:
					ops = append(ops, c02BufOp{F: fr, In: in, Kind: "mut"})
				}
				return
			}
			ops = append(ops, c02BufOp{F: fr, In: in, Kind: "mut"})
		case *ssa.Store:
			if isAny(tv.Val) {
				if al, ok := tv.Addr.(*ssa.Alloc); ok && plainVariable(al) {
					return
				}
				if ia, ok := tv.Addr.(*ssa.IndexAddr); ok {
					if al, ok := ia.X.(*ssa.Alloc); ok && al.Comment == "varargs" {
						return
					}
				}
				ops = append(ops, c02BufOp{F: fr, In: in, Kind: "mut"})
			}
		case *ssa.Return:
			if fr.parent != nil && f == fr.fn {
				return // handed back to the caller of the helper: followed there
			}
			for _, rv := range tv.Results {
				if isAny(rv) {
					ops = append(ops, c02BufOp{F: fr, In: in, Kind: "mut"})
				}
			}
		case *ssa.Send:
			if isAny(tv.X) {
				ops = append(ops, c02BufOp{F: fr, In: in, Kind: "mut"})
			}
		case *ssa.MapUpdate:
			if isAny(tv.Value) {
				ops = append(ops, c02BufOp{F: fr, In: in, Kind: "mut"})
			}
		}
	})
	return ops
}

// c02BetweenLocal: may o execute after a and before s (instructions of one
// function and its directly nested literals)?
func c02BetweenLocal(a, o, s ssa.Instruction) bool {
	fa, fs, fo := a.Parent(), s.Parent(), o.Parent()
	switch {
	case fa == fs && fo == fa:
		return c02ReachesAvoiding(a, o, a) && c02ReachesAvoiding(o, s, a)
	case fa != fs && fs.Parent() == fa && fo == fa:
		for _, k := range c02LiteralAnchors(fs) {
			if c02Reaches(a, o) && (o == k || c02Reaches(o, k)) {
				return true
			}
		}
		return false
	case fa != fs && fs.Parent() == fa && fo == fs:
		return c02Reaches(o, s)
	}
	return true
}

// between: may instruction o execute after a and before s (any frames)?
func (t *c02Tree) between(a, o, s c02Loc) bool {
	l := c02LCA(c02LCA(a.F, o.F), s.F)
	aa, oa, sa := c02LiftTo(a.F, a.In, l), c02LiftTo(o.F, o.In, l), c02LiftTo(s.F, s.In, l)
	switch {
	case oa == aa && oa == sa:
		return true
	case oa == aa:
		m := c02LCA(a.F, o.F)
		a2, o2 := c02LiftTo(a.F, a.In, m), c02LiftTo(o.F, o.In, m)
		if a2 == o2 || a2.Parent() != o2.Parent() {
			return true
		}
		return c02ReachesAvoiding(a2, o2, a2)
	case oa == sa:
		m := c02LCA(o.F, s.F)
		o2, s2 := c02LiftTo(o.F, o.In, m), c02LiftTo(s.F, s.In, m)
		if o2 == s2 || o2.Parent() != s2.Parent() {
			return true
		}
		return c02Reaches(o2, s2)
	case aa == sa:
		// a and s inside one call, o outside of it: only through a loop around the call
		return c02Reaches(aa, oa) && c02Reaches(oa, aa) && aa.Parent() == oa.Parent()
	}
	return c02BetweenLocal(aa, oa, sa)
}

// changedBetween: may buffer content change after a and before s?
func (x *c02Ctx) changedBetween(t *c02Tree, a, s c02Loc, ops []c02BufOp) (bool, string) {
	for _, op := range ops {
		if op.Kind == "ro" || op.F == a.F && op.In == a.In || op.F == s.F && op.In == s.In {
			continue
		}
		if t.between(a, c02Loc{op.F, op.In}, s) {
			return true, fmt.Sprintf("buffer may be written or drained at line %d (%s) between", x.p.Fset.Position(op.In.Pos()).Line, FuncKey(op.In.Parent()))
		}
	}
	return false, ""
}

// filledOnceFrom: B holds, at site, exactly the bytes of one successful,
// complete read (returned) whose source satisfies srcOK.
func (x *c02Ctx) filledOnceFrom(t *c02Tree, B c02LV, site c02Loc, srcOK func(f *c02Frame, src ssa.Value, fill c02Loc) bool) (*c02BufOp, string) {
	ops := x.bufOps(t, B)
	why := "no complete read fills the buffer"
	for i := range ops {
		op := &ops[i]
		if op.Kind != "fill" {
			continue
		}
		fc, ok := op.In.(*ssa.Call)
		if !ok {
			continue
		}
		fill := c02Loc{op.F, fc}
		if !srcOK(op.F, op.Src, fill) {
			why = "the buffer is filled from something else"
			continue
		}
		if ok, w := t.succDom(op.F, fc, site.F, site.In); !ok {
			why = "the read that fills the buffer: " + w
			continue
		}
		if ch, w := x.changedBetween(t, fill, site, ops); ch {
			why = w
			continue
		}
		// nothing in the buffer before the fill
		dirty := ""
		loopCarried := false
		if def, _ := B.V.(ssa.Instruction); def != nil {
			l := c02LCA(op.F, B.F)
			cur, f := ssa.Instruction(fc), op.F
			for {
				if inLoop(cur.Block()) {
					recreated := false
					if dh := c02LiftTo(B.F, def, f); dh != nil && dh.Parent() == cur.Parent() && c02Reaches(cur, dh) {
						recreated = true
					}
					if !recreated {
						loopCarried = true
					}
				}
				if f == l {
					break
				}
				cur, f = f.site, f.parent
			}
		}
		resetOK := !loopCarried
		for _, o2 := range ops {
			if o2.F == op.F && o2.In == op.In {
				continue
			}
			l := c02LCA(o2.F, op.F)
			oa, fa := c02LiftTo(o2.F, o2.In, l), c02LiftTo(op.F, fc, l)
			if oa == fa || oa.Parent() != fa.Parent() {
				continue
			}
			switch o2.Kind {
			case "fill", "mut":
				if c02Reaches(oa, fa) && !loopCarried {
					dirty = fmt.Sprintf("buffer already written at line %d before it is filled", x.p.Fset.Position(o2.In.Pos()).Line)
				}
			case "reset":
				if t.prec(o2.F, o2.In, op.F, fc) && t.mayFollow(op.F, fc, o2.F, o2.In) {
					resetOK = true
				}
			}
		}
		if loopCarried && !resetOK {
			dirty = "buffer outlives the loop iteration and is not Reset before it is filled again"
		}
		if loopCarried && resetOK {
			// between the Reset and the fill nothing else may write
			for _, o2 := range ops {
				if o2.Kind == "reset" && t.prec(o2.F, o2.In, op.F, fc) {
					if ch, w := x.changedBetween(t, c02Loc{o2.F, o2.In}, fill, ops); ch {
						dirty = w
					}
				}
			}
		}
		if dirty != "" {
			why = dirty
			continue
		}
		return op, ""
	}
	return nil, why
}

// refOrigin resolves a ref value to the call that computed it, also through a
// struct field stored once earlier in the same function.
func (x *c02Ctx) refOrigin(t *c02Tree, f *c02Frame, v ssa.Value) c02LV {
	o := t.origin(f, v)
	ld, ok := o.V.(*ssa.UnOp)
	if !ok || ld.Op != token.MUL {
		return o
	}
	fa, ok := ld.X.(*ssa.FieldAddr)
	if !ok {
		return o
	}
	pth := AccessPath(fa)
	if strings.Contains(pth, "?") {
		return o
	}
	var found *ssa.Store
	n := 0
	for _, b := range ld.Parent().Blocks {
		for _, in := range b.Instrs {
			if st, ok := in.(*ssa.Store); ok {
				if fa2, ok := st.Addr.(*ssa.FieldAddr); ok && AccessPath(fa2) == pth {
					n++
					found = st
				}
			}
		}
	}
	if n == 1 && Precedes(found, ld) {
		return t.origin(o.F, found.Val)
	}
	return o
}

func (x *c02Ctx) fieldStoredBetween(t *c02Tree, path string, a, s c02Loc) bool {
	hit := false
	t.each(func(fr *c02Frame, f *ssa.Function, in ssa.Instruction) {
		st, ok := in.(*ssa.Store)
		if !ok || hit {
			return
		}
		fa, ok := st.Addr.(*ssa.FieldAddr)
		if !ok || t.fieldPath(fr, fa) != path {
			return
		}
		if t.between(a, c02Loc{fr, st}, s) {
			hit = true
		}
	})
	return hit
}

// sameBytes: ref was computed by blob.RefFromBytes/RefFromString from the very
// bytes that data carries at site.
func (x *c02Ctx) sameBytes(t *c02Tree, fr *c02Frame, ref ssa.Value, fd *c02Frame, data ssa.Value, site c02Loc) (bool, string) {
	ro := x.refOrigin(t, fr, ref)
	rc, ok := c02AsCall(ro.V)
	if !ok || !(rc.IsStatic(c02BlobPath, "", "RefFromBytes") || rc.IsStatic(c02BlobPath, "", "RefFromString")) {
		return false, "the ref is not computed by blob.RefFromBytes/RefFromString in the effective body of this function"
	}
	ra, rb := x.carrier(t, ro.F, rc.Args()[0], 0), x.carrier(t, fd, data, 0)
	if !ra.same(rb) {
		return false, fmt.Sprintf("the ref is the digest of %s but the bytes passed come from %s", ra, rb)
	}
	switch ra.Kind {
	case "buf":
		from := ra.At
		if from.In == nil {
			from = c02Loc{ro.F, rc.Instr}
		}
		if ch, w := x.changedBetween(t, from, site, x.bufOps(t, c02LV{ra.F, ra.V})); ch {
			return false, "between the digest and the call: " + w
		}
	case "field":
		if x.fieldStoredBetween(t, ra.Path, ra.At, site) {
			return false, "the field is assigned between the digest and the call"
		}
	case "stream":
		return false, "a stream cannot be digested and passed on"
	}
	return true, "ref = " + rc.Callee().Name() + " of the same " + ra.Kind
}

func (x *c02Ctx) dstReverifies(t *c02Tree, f *c02Frame, c CallSite, dst ssa.Value) (bool, string) {
	if cf := c.Callee(); cf != nil && x.isReceiveBlobImpl(cf) && x.isReverifier(cf) {
		return true, FuncKey(cf)
	}
	o := t.origin(f, dst).V
	if o == nil {
		return false, ""
	}
	n := NamedOf(o.Type())
	if n == nil {
		return false, ""
	}
	if _, isIface := n.Underlying().(*types.Interface); isIface {
		return false, ""
	}
	mf, _ := x.p.MethodOf(n, "ReceiveBlob")
	if mf != nil && mf.Synthetic == "" && x.isReverifier(mf) {
		return true, FuncKey(mf)
	}
	return false, ""
}

// classify returns the acceptance idiom of one unverified hand-over (dst, ref,
// data) at call c of frame f, judged in the effective body of t's root.
func (x *c02Ctx) classify(t *c02Tree, f *c02Frame, c CallSite, dst, ref, rd ssa.Value, allowForward bool) (idiom, detail string, ok bool) {
	top := t.root.fn
	site := c02Loc{f, c.Instr}
	var reasons []string
	line := func(in ssa.Instruction) int { return x.p.Fset.Position(in.Pos()).Line }
	// (ii) delegation
	if x.isReceiveBlobImpl(top) {
		refP := c02ParamOfType(top, c02IsBlobRef)
		srcP := x.readerParam(top)
		if refP != nil && srcP != nil && t.origin(f, ref) == (c02LV{t.root, refP}) {
			root := x.carrier(t, f, rd, 0)
			isSrc := func(sf *c02Frame, v ssa.Value) bool {
				r := x.carrier(t, sf, v, 0)
				return r.Kind == "stream" && r.F == t.root && r.V == ssa.Value(srcP)
			}
			switch root.Kind {
			case "stream":
				if root.F == t.root && root.V == ssa.Value(srcP) {
					return "delegation", "a ReceiveBlob method passes on its own ref and its own source stream", true
				}
			case "buf":
				op, why := x.filledOnceFrom(t, c02LV{root.F, root.V}, site, func(sf *c02Frame, s ssa.Value, _ c02Loc) bool { return isSrc(sf, s) })
				if op != nil {
					return "delegation", fmt.Sprintf("a ReceiveBlob method passes on its own ref and a buffer filled by one checked complete read of its source (line %d), untouched since", line(op.In)), true
				}
				reasons = append(reasons, "delegation: "+why)
			case "val":
				if ex, isEx := root.V.(*ssa.Extract); isEx && ex.Index == 0 {
					if rc, isCall := c02AsCall(ex.Tuple); isCall && (rc.IsStatic("io", "", "ReadAll") || rc.IsStatic("io/ioutil", "", "ReadAll")) && isSrc(root.F, rc.Args()[0]) {
						if ok, w := t.succDom(root.F, rc.Value(), f, c.Instr); ok {
							return "delegation", "a ReceiveBlob method passes on its own ref and the bytes of a checked io.ReadAll of its source", true
						} else {
							reasons = append(reasons, "delegation: "+w)
						}
					}
				}
			default:
				reasons = append(reasons, "delegation: cannot tell where the reader's bytes come from")
			}
		} else {
			reasons = append(reasons, "delegation: the ref passed on is not the method's own ref parameter")
		}
	}
	// (iii) ref computed from the same bytes
	if ok, why := x.sameBytes(t, f, ref, f, rd, site); ok {
		return "ref-of-same-bytes", why, true
	} else {
		reasons = append(reasons, "ref-of-same-bytes: "+why)
	}
	root := x.carrier(t, f, rd, 0)
	// (v) bytes hashed while read, HashMatches(ref)==true dominates
	if k, v, hl := c02BoolCallFactE(t.facts(f, c.Block()), func(hf *c02Frame, h CallSite) bool {
		return h.IsStatic(c02BlobPath, "Ref", "HashMatches") && t.same(hf, h.Args()[0], f, ref)
	}); k && v {
		hc := hl.In.(*ssa.Call)
		hObj := t.origin(hl.F, hc.Call.Args[1])
		fed := func(list []c02LV) bool {
			for _, s := range list {
				if s == hObj {
					return true
				}
			}
			return false
		}
		switch root.Kind {
		case "val":
			done := false
			t.each(func(fr *c02Frame, pf *ssa.Function, in ssa.Instruction) {
				fcv, isCall := in.(*ssa.Call)
				if !isCall || done {
					return
				}
				fc := CallSite{pf, fcv}
				if fc.IsStatic("io", "", "ReadFull") && t.origin(fr, fc.Args()[1]) == (c02LV{root.F, root.V}) && fed(t.teeSinks(fr, fc.Args()[0])) {
					if ok, _ := t.succDom(fr, fcv, f, c.Instr); ok && t.prec(fr, fcv, hl.F, hc) {
						done = true
					}
				}
			})
			if done {
				return "hash-verified-buffer", "the bytes were hashed while they were read (io.ReadFull through a TeeReader into the hash) and HashMatches(ref)==true dominates the call", true
			}
		case "buf":
			op, _ := x.filledOnceFrom(t, c02LV{root.F, root.V}, site, func(*c02Frame, ssa.Value, c02Loc) bool { return true })
			if op != nil && (fed(op.CoSinks) || fed(t.teeSinks(op.F, op.Src))) && t.prec(op.F, op.In, hl.F, hc) {
				return "hash-verified-buffer", "the buffer was filled together with the hash and HashMatches(ref)==true dominates the call", true
			}
		}
		reasons = append(reasons, "hash-verified-buffer: HashMatches(ref) holds but the hash is not fed by the read that produced these bytes")
	}
	// (iv) re-population from a checked Fetch of the same ref
	if root.Kind == "buf" {
		op, why := x.filledOnceFrom(t, c02LV{root.F, root.V}, site, func(sf *c02Frame, s ssa.Value, fill c02Loc) bool {
			sv := t.origin(sf, s)
			ex, ok := sv.V.(*ssa.Extract)
			if !ok || ex.Index != 0 {
				return false
			}
			fc, ok := c02AsCall(ex.Tuple)
			if !ok || !fc.IsMethod("Fetch", x.fetcher) || !t.same(sv.F, fc.Args()[len(fc.Args())-1], f, ref) {
				return false
			}
			ok2, _ := t.succDom(sv.F, fc.Value(), fill.F, fill.In)
			return ok2
		})
		if op != nil {
			return "refetch", "the buffer holds exactly the bytes of a successful Fetch of the same ref (read completely, error checked)", true
		}
		reasons = append(reasons, "refetch: "+why)
	}
	// (vii) destination re-verifies
	if ok, who := x.dstReverifies(t, f, c, dst); ok {
		return "reverifying-destination", "the destination's static type re-verifies the digest itself (" + who + ", see R-commit)", true
	}
	// (vi) forwarding helper
	if allowForward && f == t.root && c.Fn.Parent() == nil {
		if rp, ok := t.origin(f, ref).V.(*ssa.Parameter); ok && rp.Parent() == c.Fn && root.Kind == "val" && root.F == t.root {
			if dp, ok := root.V.(*ssa.Parameter); ok && dp.Parent() == c.Fn {
				return "forwarding-helper", fmt.Sprintf("%d:%d", c02ParamIndex(rp), c02ParamIndex(dp)), true
			}
		}
	}
	return "", strings.Join(reasons, "; "), false
}

func c02ParamIndex(p *ssa.Parameter) int {
	for i, q := range p.Parent().Params {
		if q == p {
			return i
		}
	}
	return -1
}

// classifyUp judges the hand-over c (in top-level function S or one of its
// literals) in the effective body of root, which reaches S through the calls
// of path (outermost first). When no idiom applies there and root is a helper
// all of whose static callers can be enumerated, every caller is judged in turn.
func (x *c02Ctx) classifyUp(root *ssa.Function, path []ssa.CallInstruction, c CallSite, dst, ref, rd ssa.Value, depth int) (idiom, detail string, ok bool) {
	t := x.tree(root)
	f := t.root
	for _, call := range path {
		if f = f.kids[call]; f == nil {
			return "", "the helper is not part of the caller's effective body (different package, recursion or depth)", false
		}
	}
	idiom, detail, ok = x.classify(t, f, c, dst, ref, rd, depth == 0)
	if ok || depth >= 3 {
		return
	}
	if root.Parent() != nil || len(x.p.FuncValueUses(root)) > 0 || len(x.p.InvokeSites(root)) > 0 {
		return
	}
	var callers []CallSite
	for _, cc := range x.p.StaticCallers(root) {
		if !IsTestSupportPkg(RelPkg(TopFunc(cc.Fn).Pkg.Pkg)) {
			callers = append(callers, cc)
		}
	}
	if len(callers) == 0 {
		return
	}
	for _, cc := range callers {
		if cc.IsDefer() || TopFunc(cc.Fn).Pkg != root.Pkg {
			return "", detail + "; and its caller " + FuncKey(cc.Fn) + " cannot be followed (deferred, or another package)", false
		}
		_, d2, ok2 := x.classifyUp(TopFunc(cc.Fn), append([]ssa.CallInstruction{cc.Instr}, path...), c, dst, ref, rd, depth+1)
		if !ok2 {
			return "", detail + "; judged in its caller " + FuncKey(cc.Fn) + ": " + d2, false
		}
	}
	return "helper-of-verified-callers", fmt.Sprintf("a helper all of whose %d static callers establish an acceptance idiom for the values they pass in", len(callers)), true
}

func c02RuleEntry(x *c02Ctx) {
	p, r := x.p, x.r
	const rule = "R-entry"
	noHash := p.Func("pkg/blobserver", "", "ReceiveNoHash")
	if uses := p.FuncValueUses(noHash); len(uses) > 0 {
		r.Undecided(rule, FuncKey(noHash)+"#func-value", p.Pos(uses[0].Pos()), "ReceiveNoHash is used as a function value; its callers can no longer be enumerated")
	}
	nsites := 0
	for _, fn := range p.AllFuncs {
		top := TopFunc(fn)
		if IsTestSupportPkg(RelPkg(top.Pkg.Pkg)) {
			continue
		}
		// method values / method expressions of ReceiveBlob escape the enumeration
		for _, b := range fn.Blocks {
			for _, in := range b.Instrs {
				var f *ssa.Function
				switch t := in.(type) {
				case *ssa.MakeClosure:
					f, _ = t.Fn.(*ssa.Function)
				default:
					for _, op := range in.Operands(nil) {
						if ff, ok := (*op).(*ssa.Function); ok && ff.Synthetic != "" {
							if ci, isCall := in.(ssa.CallInstruction); !isCall || ci.Common().Value != ssa.Value(ff) {
								f = ff
							}
						}
					}
				}
				if f == nil || f.Synthetic == "" {
					continue
				}
				if m, ok := f.Object().(*types.Func); ok && m.Name() == "ReceiveBlob" {
					if sig, ok := m.Type().(*types.Signature); ok && sig.Recv() != nil && (types.Implements(sig.Recv().Type(), x.recv) || types.Implements(types.NewPointer(sig.Recv().Type()), x.recv)) {
						r.Undecided(rule, FuncKey(fn)+"#method-value:ReceiveBlob", p.Pos(in.Pos()), "a ReceiveBlob method is taken as a function value; the calls made through it cannot be enumerated")
					}
				}
			}
		}
		for _, c := range CallsIn(fn, false) {
			var dst, ref, rd ssa.Value
			as := c.Args()
			what := ""
			switch {
			case x.isReceiveBlobCall(c):
				dst, ref, rd = as[0], as[2], as[3]
				what = "ReceiveBlob"
			case c.IsStatic(c02BSPath, "", "ReceiveNoHash"):
				dst, ref, rd = as[1], as[2], as[3]
				what = "ReceiveNoHash"
			default:
				continue
			}
			nsites++
			construct := FuncKey(fn) + "#" + what + ":" + c02StablePath(dst)
			site := p.Pos(c.Pos())
			if x.core[top] {
				r.OKTable(rule, construct, site, "inside the verified core of blobserver.Receive / ReceiveNoHash (R-core)")
				continue
			}
			idiom, detail, ok := x.classifyUp(top, nil, c, dst, ref, rd, 0)
			if !ok {
				r.Violation(rule, construct, site, "unverified ingest path: bytes are handed to a store without the hash check and no acceptance idiom applies ("+detail+")")
				continue
			}
			if idiom != "forwarding-helper" {
				r.OK(rule, construct, site, idiom+": "+detail)
				continue
			}
			// the helper forwards (ref, bytes) parameters: its callers carry the obligation
			var ri, di int
			fmt.Sscanf(detail, "%d:%d", &ri, &di)
			callers := p.StaticCallers(fn)
			if uses := p.FuncValueUses(fn); len(uses) > 0 || len(callers) == 0 {
				r.Undecided(rule, construct, site, "forwards its (ref, bytes) parameters unverified, but its callers cannot be enumerated (used as a value, or none found)")
				continue
			}
			r.OK(rule, construct, site, fmt.Sprintf("forwarding helper: passes on its own (ref, bytes) parameters; %d callers checked below", len(callers)))
			for _, cc := range callers {
				ctop := TopFunc(cc.Fn)
				if IsTestSupportPkg(RelPkg(ctop.Pkg.Pkg)) {
					continue
				}
				nsites++
				cas := cc.Args()
				cconstruct := FuncKey(cc.Fn) + "#calls:" + FuncKey(fn)
				ct := x.tree(ctop)
				ok, why := x.sameBytes(ct, ct.root, cas[ri], ct.root, cas[di], c02Loc{ct.root, cc.Instr})
				if !ok && !cc.IsDefer() {
					// any other idiom, judged with the helper as part of the caller's effective body
					if id2, d2, ok2 := x.classifyUp(ctop, []ssa.CallInstruction{cc.Instr}, c, dst, ref, rd, 1); ok2 {
						ok, why = true, id2+": "+d2
					}
				}
				r.Check(ok, rule, cconstruct, p.Pos(cc.Pos()), "caller of a forwarding helper: "+why,
					"caller of the unverified forwarding helper "+FuncKey(fn)+" does not pass a ref computed from the same bytes: "+why)
			}
		}
	}
	r.Analysed("unverified_handover_sites", nsites)
	r.Floor(rule, 20) // 24 sites today; merging two hand-overs of one function into a loop, or inlining a forwarding helper, legitimately lowers the count
}

// c02StablePath renders a destination for a construct key without SSA register names.
func c02StablePath(v ssa.Value) string {
	s := AccessPath(v)
	if strings.Contains(s, "?") {
		return "expr"
	}
	return s
}
