package main

import (
	"fmt"
	"go/constant"
	"go/token"
	"go/types"
	"sort"
	"strings"

	"golang.org/x/tools/go/ssa"
)

// C06 — the live index/corpus equal what a restart would load from the rows.
//
// Everything below is computed from the SSA of pkg/index (tables included: the
// package initializer is ordinary SSA). No source text, no positions.

func init() {
	register(&PropSpec{
		ID:    "C06",
		Title: "Live index and corpus always equal what a restart would load",
		Explanation: "Decided (structural necessary conditions, all in pkg/index): " +
			"K-tables — the three row-kind tables agree: every prefix in slurpPrefixes (what a restart scans) has a non-nil merge function in corpusMergeFunc and is spelt with the separator the indexer actually writes for that kind; every non-nil merge function's kind is in slurpPrefixes; every row kind the indexer can write (keys given to mutationMap.Set, stored into mutationMap.kv, or written straight to the sorted.KeyValue; a key or key map that is a parameter of a wrapper is resolved at every call site of the wrapper) is classified — a key of corpusMergeFunc or an entry of the reasoned index-only table; scanFromStorage scans exactly slurpPrefixes (explicit head + the ranged tail); the live merge in Corpus.addBlob dispatches through corpusMergeFunc[typeOfKey(k)] on the very (k,v) of mm.kv behind a gate equivalent to the load set; slurpedKeyType is built only from slurpPrefixes; scanPrefix dispatches through the same table. " +
			"K-owner — who may write the caches that a restart rebuilds from rows: Index.deletes is (re)assigned only by the loader of 'deleted' rows (before it reads them) or on a freshly allocated Index that is not loaded afterwards; its map is written only by the constructor (a function that writes only the cache object it allocates, or the same written out in place: `&deletionCache{m: make(...)}` — in the loader any (re)initialisation of the map must, like the assignment of x.deletes, come before the rows are read; after a Wipe the object installed must be new and its map a new empty one), the loader and the live updater, and every add of the live updater comes after a successful CommitBatch with a key and value derived from a claim taken from mm.deletes — decided where the add stands (the updater written out in commit) or else at every call site of the function that makes it, recursively, never across go/defer; New's success returns are dominated by both loaders or lie in the about-to-reindex branch with a fresh cache; Index.needs/neededBy: an add (x.f[k] = append(x.f[k], v), recognised by its shape, not by the name of the function it stands in) happens only while loading the 'missing' rows or after the 'missing|have|missing' row keyed by the same pair was written successfully — where the add stands, or at every call site of the function that makes it (the in-memory adder); the other writes of needs/neededBy/readyReindex only in the tabled functions (their function literals included); Corpus fields are written only by *Corpus methods, unexported helpers of pkg/index, or the constructor, reachable only from the load entry (scanFromStorage) or the live entry (addBlob); Corpus.deletes is written only by its 'deleted'-row loader, which dominates every success return of scanFromStorage, and by the live updater, every add of which (key and value of the map update; where it stands or seen from every caller) is derived from a claim of mm.deletes; a row query is recognised by what it is given — the keyType variable, or the prefix string of that kind built in place (key.Prefix(), name + separator) — and that it returns a sorted.Iterator, not by the wrapper's name; Index.corpus is only ever NewCorpusFromStorage(x.s) of the same index and Index.s is never replaced on a live index (one reasoned test hook); mutationMap.deletes is appended to only by the note-delete step (a function that appends its claim parameter to its mutation-map parameter, recognised by that) or at a place that itself satisfies K-delete-row. Roles are decided on EFFECTIVE BODIES (see below); an unexported helper that writes a cache is accepted when every one of its static callers is, with the helper's writes counted as its own, accepted in one of the roles (recursively, depth 3), and reported when it has any other caller. " +
			"K-delete-row — every note of a delete claim (call of the note-delete step, or direct append to mm.deletes) is preceded, in the effective body of the function or — that being a helper — of each of its callers, by a put of a keyDeleted row (mutationMap.Set or a store into mm.kv) on the same mm whose key parts are cl.Target(), cl.ClaimDateString(), cl.Blob().BlobRef() in the order kvDeleted reads them, values followed through helper parameters; a put inside a helper counts only if every success return of the helper has passed it and the note is on the helper's err == nil edge; and every keyDeleted row put into mm is followed on all paths — through helpers that always note, and past the return of a helper into each of its callers — by the note on that mm. " +
			"K-live — at every call of Corpus.addBlob (today in ReceiveBlob only): addBlob receives the same mutationMap a successful Index.commit wrote (commit found in the effective body of the caller, or of every caller of the caller when that is a helper; mm and the index followed through parameters), on the corpus field of that very index, under that index's write lock (a helper is entered with the locks that every one of its static callers holds at the call; it must not release before addBlob); every path from a commit to a success return passes addBlob on the same mm unless the corpus is nil — a helper that always (or on every success return) reaches addBlob counts, a helper's return continues in its callers; commit applies mm.deletes to the index cache only after CommitBatch succeeded and, in its effective body, writes every (k,v) of mm.kv unconditionally into the one batch it begins and commits; rows of a kind the corpus merges are never written to the store behind the corpus's back (direct KeyValue.Set/Delete sites write only non-slurped kinds; one reasoned exception, helpers called only from it included, re-checked: every caller re-opens the index); every success return of addBlob comes after its merge loops over mm.kv and mm.deletes, loops in helpers counting when every success return of the helper is behind the loop and addBlob is on the helper's success edge (violated on the current tree by the duplicate-blob early return: a delete claim that arrived before its target is committed twice, the second time with its 'deleted' and 'claim' rows, and the live corpus skips that second mutation map). " +
			"EFFECTIVE BODIES (K-tables scan set / live gate / scan dispatch / row kinds, K-owner, K-delete-row, K-live): a site `in function F` is looked for in F plus, transitively to depth 4, the unexported functions and methods of pkg/index and the function literals F calls statically (literals handed to a call or returned are included as `runs later, maybe`), a parameter of a helper standing for the caller's argument. `P done before Q` across a call: the call precedes Q, Q is on the call's err == nil edge (or returns the call's own error), and inside the helper every return that may report success is itself behind P in the same sense; go/defer/callback links never establish `done`. Who-may-call / who-may-write rules accept an unexported helper only if ALL its static callers are accepted (no function-value use, no interface dispatch), and keep reporting any other. " +
			"K-inval — derived live state is invalidated / re-derived when its inputs change. Generation-stamped caches are discovered, not named: a struct field of pkg/index (today lazySortedPermanodes.ofGen) that is compared with or assigned from an integer field of Corpus/Index (today Corpus.gen). (reader, #cache-protocol) a forward abstract interpretation of every function touching the cache fields (callees on the same cache object analysed in context) decides that content which may date from an older generation is returned, stored or passed on only on the stamp==generation edge, that a cache field is rebuilt only from such content, and that the stamp is assigned only the generation itself and only when every cache field it then vouches for was cleared, rebuilt, or is on that edge. (generation, #gen-store) every assignment of the generation on an existing corpus is `itself + positive constant`; its address is never handed out. (writer, #inval:T.f) the set of locations (struct field, or elements of a named map/slice type, of pkg/index and pkg/types/camtypes) read by the functions that compute the cache content is collected over the resolved call structure (static calls, the pnTime functions stored into the cache object, restricted-CHA invokes, callbacks; branches contradicted by constant string arguments such as signerFilter==\"\" are pruned); every write of such a location in a function reachable from Corpus.addBlob (static calls, the corpusMergeFunc dispatch, function parameters such as mutateFileInfo's fn; writes through map/slice parameters are attributed to the argument; sort.*/slices.Sort* count as in-place writes) must, on every path through addBlob that executes it, also pass an increment of the generation: the increment dominates the write in the same function, or every path from the write to a return of that function passes one, or (recursively) this holds at every call site up to addBlob; a callee that increments on all its paths counts as an increment; `go` never does. Both placements (once in addBlob, or in every writer) are accepted; an uncovered writer is reported with function and location. (#inval-outside) a write of such a location in any other module function is allowed only under scanFromStorage; (#load-on-fresh-corpus) scanFromStorage runs only on a Corpus its caller just allocated (itself, or through a constructor every result of which is a new object), which is why the load path needs no increment; (#no-cache-reader) no cache builder is reachable from addBlob/scanFromStorage (undecided otherwise). (#derived) PermanodeMeta fields assigned by restoreInvariants (attr, signer) are derived from the other receiver fields it reads (Claims): on the live path every write of Claims on an existing permanode is followed, on every path to a return with building==false, by a call on the same permanode of a method that writes attr/signer (or a direct assignment); Corpus.building is assigned only by scanFromStorage and false on its success returns. (#order-invariant / #order:T.f) order invariants are discovered, not named: every in-place sort (sort.Sort/Stable/Slice/SliceStable, slices.Sort*) executed under a load entry (scanFromStorage for the corpus; for the index's own deletion cache the function found by its role — it reads the 'deleted' rows itself and fills Index.deletes, today initDeletesCacheLocked; undecided if there is none) on a slice that is, is an element of, or is stored into a struct field of index/corpus state (today PermanodeMeta.Claims by claim date, Corpus.deletes[target] and deletionCache.m[target] by deletion date, newest first) makes `sorted by that comparator` an invariant of the field; the comparator is identified by what it computes — its Less method / less function rendered symbolically over SLICE, I, J (sort.Reverse swaps I and J), e.g. call((time.Time).Before;SLICE[I].Date;SLICE[J].Date) — not by its type name. Every write of such a field reachable from the live entry (addBlob with building == false; Index.commit) must either store a value that was sorted by the same symbolic comparator on every path to the store, or be followed on every path to the return of the writing function (and, when the written object is a parameter, of its callers up to the live entry) by one of: the same sort of the same field of the same object (directly, or a call handing on the object or the slice to a function all of whose returns are so covered); the in-order edge of a comparison of the last two elements by the comparator's own key (Less(len-2,len-1) true or Less(len-1,len-2) false, also written out on the key fields, with After for Before, through a one-line helper, or kept in a local) — accepted only while the slice is `sorted + exactly one appended element`; an edge on which len(field) < 2 (== 0, == 1, <= 1; if or switch) is known, the length and elements having been read after the last write. A return reached otherwise is reported as `the live path can leave T.f unsorted; the load path sorts it`; a live sort of the field by another comparator is reported too; element stores and writes through aliases are undecided. " +
			"K-order-free — the result of merging a set of rows does not depend on the ORDER in which rows of different kinds are merged (a restart merges kind by kind in slurpPrefixes order, every 'meta' row before every other row; the live corpus merges in arrival order and, within one mutation map, in Go map order). Row kinds are the non-nil entries of corpusMergeFunc, each with its own resolved call structure (so mutateFileInfo's fn is that kind's closure only); *Corpus methods that addBlob / scanPrefix call directly join the kind whose merge function they reach (addKeyID: signerkeyid) or, when they write corpus state themselves, form the kind of rows merged outside the table (updateDeletes). For every function under a kind, every branch condition on which a write of corpus state (struct fields and elements of named map/slice types of pkg/index and camtypes, by type), a panic, or a call leading to one is (transitively) control dependent — control dependence from post-dominators, return and panic both exits —, and every non-nil error result of the kind's entry points, is sliced backwards through data AND control dependence: operands, phi selection, results of calls (returned values plus the conditions that select the return, the callee entered with a bounded call-string context so that a helper's parameters are those of the call under analysis), closures, captured variables, spilled locals, objects built in place and what callees store into them, parameters bound to the arguments at the kind's own call sites; code outside pkg/index/camtypes is taken to compute from its arguments only. The slice may reach only (1) the row (k, v, the mutation map), (2) locations no other kind's call structure writes (get-or-create of the kind's own entries, c.building, ...), (3) locations all of whose other writers belong to kinds merged first on BOTH paths — load: an explicit scanPrefix of that prefix success-dominates the scan that delivers this kind; live: a direct merger of that kind, given addBlob's mutation map, success-dominates the row dispatch (today only keyId, read when claims are merged). Anything else — c.blobs (filled by 'meta' rows) deciding whether a dirchild/fileinfo/imagesize/claim row or a deletion takes effect, c.files (fileinfo and filetimes), c.deletes, ... — is reported with the function, the location and its writers. What makes the helpers transparent is proved, not named: a field that is only ever read to be written back (brInterns) is no effect; a Corpus map all of whose updates are M[k] = k (strs) or M[v.f] = v with f never reassigned anywhere (blobs by .Ref), used only through its field, is an interning table, the maintenance of an identity table is no effect, and a function whose every return is the same function of one parameter — the parameter, a conversion of it, a constant it is known to equal, or what such a table holds under it on the `found` edge — passes on only that argument's dependences (br, str, strB); a field every load of which is preceded on all paths by the function's own stores (the scratch slice ss) carries the stored values; a zero-length reslice carries nothing. A read that only selects WHICH value is written (mutateFileInfo's read-modify-write of c.files, shared by fileinfo and filetimes) is listed as a note, not an obligation. " +
			"NOT decided: that the merge functions compute from a row the same state live as at load for every history (e.g. the `building`-only update of hasLegacySHA1; that fixupLastClaim's incremental attribute update equals restoreInvariants' full rebuild; the relative order of elements the comparator considers equal — sort.Sort is not stable and the load path sees row order, the live path arrival order; order invariants that the load path gets from the row order of the sorted.KeyValue rather than from an explicit sort), that every reader of the caches holds the index lock, that the read set is exact (it is an over-approximation by type: e.g. any FileInfo.Time write counts), generation increments placed in callers of addBlob (reported as uncovered), equality of query answers for any concrete arrival history or sorted.KeyValue backend, behaviour of out-of-order arrival beyond the order and order-free clauses, contents of rows; for K-order-free: that the keyId entry a claim row consults is the one carried by the same mutation map (a fact of receive.go), order dependence through WHICH value is written (noted only: fileinfo and filetimes write disjoint FileInfo fields, which is not checked), implicit panics (nil dereference, index out of range), conditions in the drivers themselves (addBlob's duplicate check is K-live's finding), the load-side reader of 'deleted' rows (initDeletes) against its live counterpart updateDeletes (two functions: their agreement is not decided), hidden state of functions outside pkg/index/camtypes; locations are by type, so two objects of one type are not told apart (over-approximation: can only add reports).",
		RuleDocs: map[string]string{
			"K-tables":     "H6 table agreement over slurpPrefixes / corpusMergeFunc / written row kinds (+ separators), scan set, live-merge gate and dispatch",
			"K-owner":      "H5 who-may-write by role, over effective bodies: Index.deletes (+ its map: constructor, also written out in place / loader / live add after CommitBatch derived from mm.deletes, where it stands or at every caller / after Wipe), adds to Index.needs/neededBy (loader, or after the matching 'missing' row), other writes of needs/neededBy/readyReindex (table), Corpus fields, Corpus.deletes, mutationMap.deletes; a helper is accepted only if all its callers are; open path loads both caches",
			"K-delete-row": "H2 over effective bodies: a delete claim is noted (note-delete step, by role) only where the 'deleted' row for the same claim was put into the same mutation map, and vice versa (paths followed into helpers and past helper returns)",
			"K-live":       "H7/H3/H2 over effective bodies: addBlob gets the committed mm, after commit success, under the write lock (helpers entered with the locks all their callers hold), and merges all of it; commit feeds caches only after CommitBatch; no slurped row kind bypasses commit",
			"K-order-free": "backward slice (data + control dependence, interprocedural with call-string context) of every branch condition that decides whether a merge function writes corpus state, panics or fails: it may depend only on the row, on state no other row kind writes, or on state of a kind both paths merge first; c.br/c.str/c.strB are transparent by proof (interning tables M[k]=k, M[v.f]=v), brInterns and the scratch slice by dataflow facts",
			"K-inval":      "H2 over the resolved call structure + abstract interpretation: every live write of a location the generation-stamped caches (lazySortedPermanodes, stamp ofGen vs Corpus.gen) are computed from passes a generation increment within addBlob; the caches are served only on the stamp==generation edge and stamped only with what they were built at; the generation only grows; other writers run only on a fresh corpus under scanFromStorage; PermanodeMeta.attr/signer are re-derived after every live write of Claims; #order: every field the load path sorts in place (discovered; comparator compared symbolically) is, after every live write, re-sorted by the same comparator, or known in order from a last-two comparison by the comparator's key after a one-element append, or known shorter than 2, on every path to the return of the live maintenance functions",
		},
		Run:       runC06,
		DesignRef: "DESIGN.md §4 C06",
		Technique: "static analysis: table agreement extracted from the package initializer's SSA, who-may-write enumeration over field stores and map updates with role classification, dominance on error-nil edges carried across static calls of unexported helpers and function literals (effective bodies with call chains, parameter-to-argument resolution, success-return summaries), path exploration with helper summaries and continuation into callers, locksets with inferred entry locksets of helpers, value dependence; for K-inval: field read/write sets by type over a resolved call graph (table dispatch, function-valued fields and parameters, callbacks), interprocedural must-pass-through (dominance or post-dominance of a generation increment at each level of the call chain), and a forward dataflow over the cache readers (stamp-valid / may-hold-old-content bits per cache field); for the order clause: symbolic rendering of comparators (Less methods and less functions inlined over placeholders) to compare the load path's sorts with the live path's sorts and order checks, and a three-state path exploration (sorted / sorted plus one appended element / unknown) with branch facts, phi-resolved conditions and per-callee summaries; for K-order-free: post-dominator based control dependence, an interprocedural backward slice (data and control dependence, bounded call-string contexts, closures, captured and spilled variables, must-reaching stores for scratch fields), per-kind call structures and write sets, table invariants (identity / keyed-by-field maps) proved from every update site, symbolic equality of all returns of a helper, success-dominance for the merged-first relation on the load and the live path",
		LevelText: "Decides structural necessary conditions only: the live path and the restart path of the index deletion cache, the dependency maps and the corpus are driven by the same row kinds, the same rows and the same tables, and no other code writes those caches. Also decides that the lazily sorted permanode caches cannot outlive a change of anything they are computed from (one generation increment per update that writes an input, caches served only for the current generation) and that the per-permanode attribute caches are brought up to date after every live claim, and that every slice the load path sorts (claims of a permanode, deletions of a blob in the corpus and in the index cache) is left sorted by the same comparator by every live write, on every path. Also decides that no merge function lets state filled by rows of another kind decide whether its own row takes effect (the live arrival order and the restart's kind-by-kind order would then give different corpora from the same rows), except where both paths merge that other kind first. Does not decide that both paths compute equal state for every arrival history, nor anything about concrete sorted.KeyValue backends. The function-local clauses (K-tables, K-owner, K-delete-row, K-live, the building flag) are decided on effective bodies — a function together with the unexported helpers and function literals it calls, ordering and success facts carried across the calls, helpers accepted only when all their callers are — so that extracting a helper, splitting a function, turning a closure into a method or inlining a one-line helper neither hides a breakage nor raises an alarm; the name anchors that remain are the mechanism's own entry points (New, ReceiveBlob's commit/addBlob, scanFromStorage/scanPrefix, NewCorpusFromStorage, restoreInvariants, typeOfKey); the cache constructors (newDeletionCache, newCorpus), the row-query wrappers (queryPrefix), the live updaters (updateDeletesCache, Corpus.updateDeletes), fixupLastClaim and the index-side loader (initDeletesCacheLocked) are recognised by role, so inlining or renaming them changes nothing.",
	})
}

const c06Rel = "pkg/index"

// ---------------------------------------------------------------------------
// context: types, globals, tables (all resolved through types / SSA)

type c06Kind struct {
	typ, sep string // "claim","|" ; "meta",":" ; "schemaversion","" (bare key)
}

func (k c06Kind) String() string { return k.typ + k.sep }

type c06Ctx struct {
	p   *Program
	r   *Reporter
	pkg *ssa.Package
	fns []*ssa.Function

	tIndex, tCorpus, tMM, tDelCache, tKeyType *types.Named

	keyName map[*ssa.Global]string // keyDeleted -> "deleted"

	mergeKeys   []string          // keys of corpusMergeFunc in order
	mergeFn     map[string]string // key -> "" (nil) or thunk/function name
	mergeImpl   map[*ssa.Function]bool
	mergeRoot   map[string]*ssa.Function // key -> the function value stored in corpusMergeFunc
	slurp       []c06Kind                // slurpPrefixes in order
	slurpSet    map[string]string
	initFn      *ssa.Function
	gMerge      *ssa.Global
	gSlurp      *ssa.Global
	gSlurped    *ssa.Global
	fnTypeOfKey *ssa.Function

	ffCache   map[c06Loc][]*ssa.Function
	seesCache map[*types.Package]bool

	linkCache    map[*ssa.Function][]c06Link
	reachCache   map[string]*c06Reach
	callersCache map[*ssa.Function]*c06Callers
	entryCache   map[*ssa.Function]LockSet
	lockCache    map[*ssa.Function]*LockInfo

	allCG    *c06CG // every module function that can name corpus state (lazily built, shared by K-inval and K-order-free)
	allSites []c06WSite
}

// allScope: the call structure over every module function that can name corpus
// state (test-support packages excluded) and the writes to in-scope state in it.
func (cx *c06Ctx) allScope() (*c06CG, []c06WSite) {
	if cx.allCG == nil {
		var scopeFns []*ssa.Function
		for _, fn := range cx.p.AllFuncs {
			top := TopFunc(fn)
			if top.Pkg == nil || IsTestSupportPkg(RelPkg(top.Pkg.Pkg)) || !cx.followed(fn) {
				continue
			}
			scopeFns = append(scopeFns, fn)
		}
		cx.allCG = cx.buildCG(scopeFns, false)
		cx.allSites = c06AllWriteSites(cx.allCG.order, cx.allCG)
	}
	return cx.allCG, cx.allSites
}

// indexDeletesLoaders: the load entry of the index's own deletion cache, by role:
// the declared functions of pkg/index that write Index.deletes / deletionCache.m
// (in their effective body) and read the 'deleted' rows themselves, i.e. not
// through a helper that is itself such a writer (today initDeletesCacheLocked;
// after inlining it, its callers).
func (cx *c06Ctx) indexDeletesLoaders() []*ssa.Function {
	gDeleted := c06Global(cx.pkg, "keyDeleted")
	if _, ok := cx.keyName[gDeleted]; !ok {
		brokenf("anchor unresolved: keyDeleted is not a keyType with a constant name")
	}
	isW := map[ssa.Instruction]bool{}
	for _, w := range c06Writes(cx.fns, map[*types.Named]bool{cx.tIndex: true, cx.tDelCache: true}) {
		if (w.typ == cx.tIndex && w.field == "deletes") || (w.typ == cx.tDelCache && w.field == "m") {
			isW[w.in] = true
		}
	}
	touch := cx.effReach("w:index.deletes", func(in ssa.Instruction) bool { return isW[in] })
	var out []*ssa.Function
	for _, f := range cx.fns {
		if f.Parent() == nil && touch.any[f] && len(cx.rowQueries(f, gDeleted, func(h *ssa.Function) bool { return touch.any[h] })) > 0 {
			out = append(out, f)
		}
	}
	return out
}

func c06Global(pkg *ssa.Package, name string) *ssa.Global {
	g, _ := pkg.Members[name].(*ssa.Global)
	if g == nil {
		brokenf("anchor unresolved: package variable %s.%s", c06Rel, name)
	}
	return g
}

func c06Setup(p *Program, r *Reporter) *c06Ctx {
	cx := &c06Ctx{p: p, r: r, pkg: p.SSAPkg(c06Rel)}
	if cx.pkg == nil {
		brokenf("anchor unresolved: package %s", c06Rel)
	}
	for _, fn := range p.FuncsIn(c06Rel) {
		cx.fns = append(cx.fns, fn)
	}
	cx.tIndex = p.NamedType(c06Rel, "Index")
	cx.tCorpus = p.NamedType(c06Rel, "Corpus")
	cx.tMM = p.NamedType(c06Rel, "mutationMap")
	cx.tDelCache = p.NamedType(c06Rel, "deletionCache")
	cx.tKeyType = p.NamedType(c06Rel, "keyType")
	cx.gMerge = c06Global(cx.pkg, "corpusMergeFunc")
	cx.gSlurp = c06Global(cx.pkg, "slurpPrefixes")
	cx.gSlurped = c06Global(cx.pkg, "slurpedKeyType")
	cx.fnTypeOfKey = p.Func(c06Rel, "", "typeOfKey")
	cx.initFn = cx.pkg.Func("init")
	if cx.initFn == nil {
		brokenf("anchor unresolved: package initializer of %s", c06Rel)
	}
	cx.loadKeyNames()
	cx.loadTables()
	return cx
}

// loadKeyNames reads `var keyX = &keyType{"name", ...}` from the initializer.
func (cx *c06Ctx) loadKeyNames() {
	cx.keyName = map[*ssa.Global]string{}
	for _, b := range cx.initFn.Blocks {
		for _, in := range b.Instrs {
			st, ok := in.(*ssa.Store)
			if !ok {
				continue
			}
			g, ok := st.Addr.(*ssa.Global)
			if !ok {
				continue
			}
			// g has type **keyType
			pt, ok := g.Type().(*types.Pointer)
			if !ok || NamedOf(pt.Elem()) != cx.tKeyType {
				continue
			}
			al, ok := st.Val.(*ssa.Alloc)
			if !ok {
				continue
			}
			name, found := "", false
			for _, ref := range *al.Referrers() {
				fa, ok := ref.(*ssa.FieldAddr)
				if !ok || fieldName(fa.X.Type(), fa.Field) != "name" {
					continue
				}
				for _, r2 := range *fa.Referrers() {
					if s2, ok := r2.(*ssa.Store); ok && s2.Addr == ssa.Value(fa) {
						if s, ok := ConstString(s2.Val); ok {
							name, found = s, true
						}
					}
				}
			}
			if found {
				cx.keyName[g] = name
			}
		}
	}
	if len(cx.keyName) < 10 {
		brokenf("anchor unresolved: only %d keyType variables with a constant name found in %s", len(cx.keyName), c06Rel)
	}
}

// keyGlobalOf: v is a load of a keyType package variable.
func (cx *c06Ctx) keyGlobalOf(v ssa.Value) (*ssa.Global, bool) {
	u, ok := originValue(v).(*ssa.UnOp)
	if !ok || u.Op != token.MUL {
		return nil, false
	}
	g, ok := u.X.(*ssa.Global)
	if !ok {
		return nil, false
	}
	_, known := cx.keyName[g]
	return g, known
}

// keyPrefix returns the statically known leading part of string value v and
// whether that is the complete value.
func (cx *c06Ctx) keyPrefix(v ssa.Value, depth int) (string, bool) {
	if depth > 20 {
		return "", false
	}
	v = originValue(v)
	switch x := v.(type) {
	case *ssa.Const:
		if s, ok := ConstString(x); ok {
			return s, true
		}
	case *ssa.BinOp:
		if x.Op == token.ADD {
			px, cpl := cx.keyPrefix(x.X, depth+1)
			if !cpl {
				return px, false
			}
			py, cpl2 := cx.keyPrefix(x.Y, depth+1)
			return px + py, cpl2
		}
	case *ssa.UnOp:
		if x.Op == token.MUL {
			if fa, ok := x.X.(*ssa.FieldAddr); ok && NamedOf(fa.X.Type()) == cx.tKeyType && fieldName(fa.X.Type(), fa.Field) == "name" {
				if g, ok := cx.keyGlobalOf(fa.X); ok {
					return cx.keyName[g], true
				}
			}
		}
	case *ssa.Call:
		c := CallSite{x.Parent(), x}
		if f := c.Callee(); f != nil && f.Signature.Recv() != nil && NamedOf(f.Signature.Recv().Type()) == cx.tKeyType && (f.Name() == "Key" || f.Name() == "Prefix") {
			if g, ok := cx.keyGlobalOf(c.Args()[0]); ok {
				// build(): name, then "|" before every part
				return cx.keyName[g] + "|", false
			}
		}
	}
	return "", false
}

// c06SplitKind mirrors index.typeOfKey: the kind is what precedes the first ':' or '|'.
func c06SplitKind(prefix string, complete bool) (c06Kind, bool) {
	i := strings.IndexAny(prefix, ":|")
	if i >= 0 {
		return c06Kind{prefix[:i], prefix[i : i+1]}, true
	}
	if complete && prefix != "" {
		return c06Kind{prefix, ""}, true
	}
	return c06Kind{}, false
}

func (cx *c06Ctx) kindOfKey(v ssa.Value) (c06Kind, bool) {
	return c06SplitKind(cx.keyPrefix(v, 0))
}

// kindsOfKeyUp: the row kinds key value v may denote; when v is a parameter of
// a helper all of whose callers can be enumerated (a wrapper extracted around
// the write), the kinds of the arguments at every call site.
func (cx *c06Ctx) kindsOfKeyUp(v ssa.Value, depth int) ([]c06Kind, bool) {
	if k, ok := cx.kindOfKey(v); ok {
		return []c06Kind{k}, true
	}
	prm, ok := originValue(v).(*ssa.Parameter)
	if !ok || depth >= c06EffDepth {
		return nil, false
	}
	fn := prm.Parent()
	sites, ok := cx.enumerableCallers(fn)
	if !ok {
		return nil, false
	}
	idx := -1
	for i, q := range fn.Params {
		if q == prm {
			idx = i
		}
	}
	var out []c06Kind
	for _, cs := range sites {
		args := cs.Args()
		if idx < 0 || idx >= len(args) {
			return nil, false
		}
		ks, ok := cx.kindsOfKeyUp(args[idx], depth+1)
		if !ok {
			return nil, false
		}
		out = append(out, ks...)
	}
	return out, len(out) > 0
}

// loadTables reads corpusMergeFunc and slurpPrefixes from the initializer.
func (cx *c06Ctx) loadTables() {
	cx.mergeFn = map[string]string{}
	cx.mergeImpl = map[*ssa.Function]bool{}
	cx.mergeRoot = map[string]*ssa.Function{}
	cx.slurpSet = map[string]string{}
	var mergeMap *ssa.MakeMap
	var slurpArr *ssa.Alloc
	for _, fn := range cx.fns {
		for _, b := range fn.Blocks {
			for _, in := range b.Instrs {
				st, ok := in.(*ssa.Store)
				if !ok {
					continue
				}
				switch st.Addr {
				case ssa.Value(cx.gMerge):
					mm, ok := st.Val.(*ssa.MakeMap)
					if !ok || fn != cx.initFn || mergeMap != nil {
						cx.r.Undecided("K-tables", FuncKey(fn)+"#corpusMergeFunc", cx.p.Pos(st.Pos()), "corpusMergeFunc is assigned by something other than one map literal in the package initializer; the table cannot be read statically")
						continue
					}
					mergeMap = mm
				case ssa.Value(cx.gSlurp):
					sl, ok := st.Val.(*ssa.Slice)
					var al *ssa.Alloc
					if ok {
						al, _ = sl.X.(*ssa.Alloc)
					}
					if al == nil || fn != cx.initFn || slurpArr != nil {
						cx.r.Undecided("K-tables", FuncKey(fn)+"#slurpPrefixes", cx.p.Pos(st.Pos()), "slurpPrefixes is assigned by something other than one slice literal in the package initializer; the table cannot be read statically")
						continue
					}
					slurpArr = al
				}
			}
		}
	}
	if mergeMap == nil || slurpArr == nil {
		brokenf("anchor unresolved: literal initializers of corpusMergeFunc / slurpPrefixes")
	}
	for _, ref := range *mergeMap.Referrers() {
		mu, ok := ref.(*ssa.MapUpdate)
		if !ok {
			continue
		}
		k, complete := cx.keyPrefix(mu.Key, 0)
		if !complete {
			cx.r.Undecided("K-tables", "pkg/index.corpusMergeFunc#key", cx.p.Pos(mu.Pos()), "a key of corpusMergeFunc is not a static string")
			continue
		}
		cx.mergeKeys = append(cx.mergeKeys, k)
		if IsNilConst(mu.Value) {
			cx.mergeFn[k] = ""
			continue
		}
		name := mu.Value.Name()
		if f, ok := mu.Value.(*ssa.Function); ok {
			name = f.Name()
			cx.mergeImpl[f] = true
			cx.mergeRoot[k] = f
			// method-expression thunk: the real method is its only static callee
			for _, c := range CallsIn(f, false) {
				if callee := c.Callee(); callee != nil {
					cx.mergeImpl[callee] = true
				}
			}
		}
		cx.mergeFn[k] = name
	}
	type elem struct {
		idx int64
		k   c06Kind
	}
	var elems []elem
	for _, ref := range *slurpArr.Referrers() {
		ia, ok := ref.(*ssa.IndexAddr)
		if !ok {
			continue
		}
		idx, ok := ConstInt(ia.Index)
		if !ok {
			continue
		}
		for _, r2 := range *ia.Referrers() {
			st, ok := r2.(*ssa.Store)
			if !ok || st.Addr != ssa.Value(ia) {
				continue
			}
			pfx, complete := cx.keyPrefix(st.Val, 0)
			k, ok := c06SplitKind(pfx, complete)
			if !ok || !complete || k.sep == "" || pfx != k.typ+k.sep {
				cx.r.Undecided("K-tables", fmt.Sprintf("pkg/index.slurpPrefixes#%d", idx), cx.p.Pos(st.Pos()), fmt.Sprintf("slurp prefix %q is not a static `<kind><separator>` string", pfx))
				continue
			}
			elems = append(elems, elem{idx, k})
		}
	}
	sort.Slice(elems, func(i, j int) bool { return elems[i].idx < elems[j].idx })
	for _, e := range elems {
		cx.slurp = append(cx.slurp, e.k)
		cx.slurpSet[e.k.typ] = e.k.sep
	}
}

// ---------------------------------------------------------------------------
// field / map write enumeration

// c06FieldOf: v is the address &X.f (FieldAddr) of a field of named struct T.
func c06FieldOf(v ssa.Value) (*types.Named, string, ssa.Value, bool) {
	fa, ok := v.(*ssa.FieldAddr)
	if !ok {
		return nil, "", nil, false
	}
	n := NamedOf(fa.X.Type())
	if n == nil {
		return nil, "", nil, false
	}
	return n, fieldName(fa.X.Type(), fa.Field), fa.X, true
}

// c06LoadedField: v is a value loaded from field f of named struct T (X.f).
func c06LoadedField(v ssa.Value) (*types.Named, string, ssa.Value, bool) {
	v = originValue(v)
	switch x := v.(type) {
	case *ssa.UnOp:
		if x.Op == token.MUL {
			return c06FieldOf(x.X)
		}
	case *ssa.Field:
		if n := NamedOf(x.X.Type()); n != nil {
			return n, fieldName(x.X.Type(), x.Field), x.X, true
		}
	}
	return nil, "", nil, false
}

type c06Write struct {
	fn    *ssa.Function
	in    ssa.Instruction
	typ   *types.Named
	field string
	kind  string    // "assign", "map-update", "map-delete", "clear", "addr-escape"
	base  ssa.Value // the struct pointer
}

// c06Writes enumerates writes to fields of the named struct types in `want`.
func c06Writes(fns []*ssa.Function, want map[*types.Named]bool) []c06Write {
	var out []c06Write
	for _, fn := range fns {
		for _, b := range fn.Blocks {
			for _, in := range b.Instrs {
				switch x := in.(type) {
				case *ssa.Store:
					if n, f, base, ok := c06FieldOf(x.Addr); ok && want[n] {
						out = append(out, c06Write{fn, in, n, f, "assign", base})
					}
				case *ssa.MapUpdate:
					if n, f, base, ok := c06LoadedField(x.Map); ok && want[n] {
						out = append(out, c06Write{fn, in, n, f, "map-update", base})
					}
				case ssa.CallInstruction:
					cc := x.Common()
					if bi, ok := cc.Value.(*ssa.Builtin); ok && (bi.Name() == "delete" || bi.Name() == "clear") && len(cc.Args) > 0 {
						if n, f, base, ok := c06LoadedField(cc.Args[0]); ok && want[n] {
							k := "map-delete"
							if bi.Name() == "clear" {
								k = "clear"
							}
							out = append(out, c06Write{fn, in, n, f, k, base})
						}
						continue
					}
					// the address of a field handed to a callee (e.g. mak.Set(&x.f, ...))
					for _, a := range cc.Args {
						if n, f, base, ok := c06FieldOf(a); ok && want[n] {
							out = append(out, c06Write{fn, in, n, f, "addr-escape", base})
						}
					}
				}
			}
		}
	}
	return out
}

// c06Fresh: base is an object allocated in the same function (constructor).
func c06Fresh(base ssa.Value, fn *ssa.Function) bool {
	al, ok := originValue(base).(*ssa.Alloc)
	return ok && al.Parent() == fn
}

func c06TopKey(fn *ssa.Function) string { return FuncKey(TopFunc(fn)) }

// ---------------------------------------------------------------------------

func runC06(p *Program, r *Reporter) {
	cx := c06Setup(p, r)
	r.Analysed("functions", len(cx.fns))
	c06RuleTables(cx)
	c06RuleOwner(cx)
	c06RuleDeleteRow(cx)
	c06RuleLive(cx)
	c06RuleInval(cx)
	c06RuleOrderFree(cx)
}

// ---------------------------------------------------------------------------
// K-tables

// c06IndexOnly is the frozen table N of row kinds that deliberately bypass
// corpusMergeFunc; one reason each (where the kind is read instead).
var c06IndexOnly = map[string]string{
	"deleted":          "not merged by kind: the live corpus/index caches are fed from mm.deletes (noteDelete -> commit/addBlob) and the restart path reads the rows in initDeletesCacheLocked/Corpus.initDeletes; K-delete-row and K-owner tie the two together",
	"missing":          "index-only dependency bookkeeping (Index.needs/neededBy), reloaded by initNeededMapsLocked; never read by the corpus",
	"signertargetpath": "camliPath back rows, answered from the rows by Index.PathsOfSignerTarget for live and restarted index alike; the corpus keeps no path state",
	"path":             "camliPath forward rows, answered from the rows by Index.PathsLookup/PathLookup; the corpus keeps no path state",
	"edgeback":         "edge rows, answered from the rows by Index.EdgesTo; the corpus keeps no edge state",
	"schemaversion":    "index format marker written by New/Reindex/fixMissingWholeRef; not blob data",
}

type c06RowWrite struct {
	fn     *ssa.Function
	pos    token.Pos
	kind   c06Kind
	direct bool   // written straight to the sorted.KeyValue (not through a mutationMap)
	op     string // Set / Delete
}

// isKVMethod: interface invoke of sorted.KeyValue / sorted.BatchMutation method name.
func c06IsKVInvoke(c CallSite, name string) bool {
	cc := c.Common()
	if !cc.IsInvoke() || cc.Method.Name() != name {
		return false
	}
	t := c.RecvType()
	return IsNamed(t, "perkeep.org/pkg/sorted", "KeyValue") || IsNamed(t, "perkeep.org/pkg/sorted", "BatchMutation")
}

// c06IsMMKV: v is the kv map of a mutationMap (loaded field, or the map
// literal that a composite literal stores into the kv field).
func (cx *c06Ctx) isMMKV(v ssa.Value) bool {
	if n, f, _, ok := c06LoadedField(v); ok && n == cx.tMM && f == "kv" {
		return true
	}
	if mk, ok := originValue(v).(*ssa.MakeMap); ok {
		for _, ref := range *mk.Referrers() {
			if st, ok := ref.(*ssa.Store); ok && st.Val == ssa.Value(mk) {
				if n, f, _, ok := c06FieldOf(st.Addr); ok && n == cx.tMM && f == "kv" {
					return true
				}
			}
		}
	}
	return false
}

// rangeMapOf: v is the key (or value) extracted from ranging over a map; returns the map.
func c06RangeMapOf(v ssa.Value) (ssa.Value, int, bool) {
	ex, ok := v.(*ssa.Extract)
	if !ok {
		return nil, 0, false
	}
	nx, ok := ex.Tuple.(*ssa.Next)
	if !ok || nx.IsString {
		return nil, 0, false
	}
	rg, ok := nx.Iter.(*ssa.Range)
	if !ok {
		return nil, 0, false
	}
	if _, isMap := rg.X.Type().Underlying().(*types.Map); !isMap {
		return nil, 0, false
	}
	return rg.X, ex.Index, true
}

// keyKinds resolves the row kinds a key value may denote at a KV write site.
// conduit=true: the key comes from ranging over a mutationMap's kv (commit).
func (cx *c06Ctx) keyKinds(v ssa.Value, depth int) (kinds []c06Kind, conduit, ok bool) {
	if depth > 4 {
		return nil, false, false
	}
	if ks, ok := cx.kindsOfKeyUp(v, 0); ok {
		return ks, false, true
	}
	if m, idx, isRange := c06RangeMapOf(originValue(v)); isRange && idx == 1 {
		return cx.mapKeyKinds(m, depth)
	}
	return nil, false, false
}

// mapKeyKinds: the kinds of the keys of map m: a mutationMap's kv (conduit), a
// local map literal all of whose keys resolve, or — m being a parameter of a
// helper whose callers can be enumerated — what every caller passes.
func (cx *c06Ctx) mapKeyKinds(m ssa.Value, depth int) (kinds []c06Kind, conduit, ok bool) {
	if depth > 4 {
		return nil, false, false
	}
	if cx.isMMKV(m) {
		return nil, true, true
	}
	switch x := originValue(m).(type) {
	case *ssa.MakeMap:
		all := true
		for _, ref := range *x.Referrers() {
			if mu, isUpd := ref.(*ssa.MapUpdate); isUpd && mu.Map == ssa.Value(x) {
				ks, _, ok := cx.keyKinds(mu.Key, depth+1)
				if !ok {
					all = false
				}
				kinds = append(kinds, ks...)
			}
		}
		return kinds, false, all && len(kinds) > 0
	case *ssa.Parameter:
		fn := x.Parent()
		sites, enumerable := cx.enumerableCallers(fn)
		if !enumerable {
			return nil, false, false
		}
		idx := -1
		for i, q := range fn.Params {
			if q == x {
				idx = i
			}
		}
		nConduit := 0
		for _, cs := range sites {
			args := cs.Args()
			if idx < 0 || idx >= len(args) {
				return nil, false, false
			}
			ks, cd, ok := cx.mapKeyKinds(args[idx], depth+1)
			if !ok {
				return nil, false, false
			}
			if cd {
				nConduit++
			}
			kinds = append(kinds, ks...)
		}
		if nConduit > 0 {
			return kinds, nConduit == len(sites), nConduit == len(sites)
		}
		return kinds, false, len(kinds) > 0
	}
	return nil, false, false
}

// stringSources walks back from a string value through slice elements,
// appends and variables to the calls/values it may come from.
func c06StringSources(v ssa.Value, visit func(ssa.Value)) {
	seen := map[ssa.Value]bool{}
	var walk func(v ssa.Value, d int)
	walk = func(v ssa.Value, d int) {
		if v == nil || seen[v] || d > 40 {
			return
		}
		seen[v] = true
		switch x := v.(type) {
		case *ssa.Phi:
			for _, e := range x.Edges {
				walk(e, d+1)
			}
		case *ssa.UnOp:
			if x.Op == token.MUL {
				switch a := x.X.(type) {
				case *ssa.IndexAddr:
					walk(a.X, d+1)
					return
				case *ssa.Alloc:
					for _, st := range storesTo(a) {
						walk(st.Val, d+1)
					}
					return
				}
			}
			visit(v)
		case *ssa.Slice:
			if al, ok := x.X.(*ssa.Alloc); ok {
				for _, ref := range *al.Referrers() {
					if ia, ok := ref.(*ssa.IndexAddr); ok {
						for _, r2 := range *ia.Referrers() {
							if st, ok := r2.(*ssa.Store); ok && st.Addr == ssa.Value(ia) {
								walk(st.Val, d+1)
							}
						}
					}
				}
				return
			}
			walk(x.X, d+1)
		case *ssa.Call:
			if bi, ok := x.Call.Value.(*ssa.Builtin); ok && bi.Name() == "append" {
				for _, a := range x.Call.Args {
					walk(a, d+1)
				}
				return
			}
			visit(v)
		case *ssa.Const:
			if x.Value == nil {
				return // nil slice
			}
			visit(v)
		default:
			visit(v)
		}
	}
	walk(v, 0)
}

// deleteKinds resolves the kinds of a key handed to KeyValue.Delete: the key
// must come from Iterator.Key() of iterators opened by queryPrefix(keyT, ...).
func (cx *c06Ctx) deleteKinds(key ssa.Value) ([]c06Kind, bool) {
	var kinds []c06Kind
	ok := true
	n := 0
	c06StringSources(key, func(src ssa.Value) {
		n++
		call, isCall := src.(*ssa.Call)
		if !isCall {
			if k, isKey := cx.kindOfKey(src); isKey {
				kinds = append(kinds, k)
				return
			}
			ok = false
			return
		}
		c := CallSite{call.Parent(), call}
		if k, isKey := cx.kindOfKey(src); isKey {
			kinds = append(kinds, k)
			return
		}
		if c.Common().IsInvoke() && c.MethodName() == "Key" && IsNamed(c.RecvType(), "perkeep.org/pkg/sorted", "Iterator") {
			// the iterator: result of (*Index).queryPrefix / queryPrefix(keyT, ...)
			itv := originValue(c.Common().Value)
			q, isQ := itv.(*ssa.Call)
			if !isQ {
				ok = false
				return
			}
			qc := CallSite{q.Parent(), q}
			f := qc.Callee()
			if f == nil || f.Name() != "queryPrefix" || f.Pkg != cx.pkg {
				ok = false
				return
			}
			for _, a := range qc.Args() {
				if g, isKey := cx.keyGlobalOf(a); isKey {
					kinds = append(kinds, c06Kind{cx.keyName[g], "|"})
					return
				}
			}
			ok = false
			return
		}
		ok = false
	})
	return kinds, ok && n > 0 && len(kinds) > 0
}

// rowWrites enumerates every place pkg/index produces a row key.
func (cx *c06Ctx) rowWrites() (writes []c06RowWrite, conduits []CallSite) {
	r, p := cx.r, cx.p
	// mutationMap.Set, when the map update is wrapped in it (a small helper: tolerated absent)
	setFn := p.LookupFunc(c06Rel, "mutationMap", "Set")
	if setFn != nil {
		for _, c := range p.StaticCallers(setFn) {
			ks, ok := cx.kindsOfKeyUp(c.Args()[1], 0)
			if !ok {
				r.Undecided("K-tables", FuncKey(c.Fn)+"#row:?", p.Pos(c.Pos()), "the key given to mutationMap.Set has no static `<kind><separator>` prefix: the row kind cannot be determined")
				continue
			}
			for _, k := range ks {
				writes = append(writes, c06RowWrite{c.Fn, c.Pos(), k, false, "Set"})
			}
		}
		if uses := p.FuncValueUses(setFn); len(uses) > 0 {
			r.Undecided("K-tables", FuncKey(uses[0].Parent())+"#row:?", p.Pos(uses[0].Pos()), "mutationMap.Set is used as a function value: its callers cannot be enumerated")
		}
	}
	for _, fn := range cx.fns {
		for _, b := range fn.Blocks {
			for _, in := range b.Instrs {
				switch x := in.(type) {
				case *ssa.MapUpdate:
					if !cx.isMMKV(x.Map) {
						continue
					}
					if prm, isParam := originValue(x.Key).(*ssa.Parameter); isParam && fn == setFn && prm == fn.Params[1] {
						continue // the wrapper itself; its callers are enumerated above
					}
					ks, ok := cx.kindsOfKeyUp(x.Key, 0)
					if !ok {
						r.Undecided("K-tables", FuncKey(fn)+"#row:?", p.Pos(x.Pos()), "a key stored into mutationMap.kv has no static `<kind><separator>` prefix")
						continue
					}
					for _, k := range ks {
						writes = append(writes, c06RowWrite{fn, x.Pos(), k, false, "Set"})
					}
				case ssa.CallInstruction:
					c := CallSite{fn, x}
					switch {
					case c06IsKVInvoke(c, "Set"):
						ks, conduit, ok := cx.keyKinds(c.Args()[1], 0)
						if conduit {
							conduits = append(conduits, c)
							continue
						}
						if !ok {
							r.Undecided("K-tables", FuncKey(fn)+"#row:?", p.Pos(c.Pos()), "the key written to the index's sorted.KeyValue cannot be resolved to a row kind")
							continue
						}
						for _, k := range ks {
							writes = append(writes, c06RowWrite{fn, c.Pos(), k, true, "Set"})
						}
					case c06IsKVInvoke(c, "Delete"):
						ks, ok := cx.deleteKinds(c.Args()[1])
						if !ok {
							r.Undecided("K-tables", FuncKey(fn)+"#row:?", p.Pos(c.Pos()), "the key deleted from the index's sorted.KeyValue cannot be resolved to a row kind (not Iterator.Key() of a queryPrefix(keyT, ...) iterator)")
							continue
						}
						for _, k := range ks {
							writes = append(writes, c06RowWrite{fn, c.Pos(), k, true, "Delete"})
						}
					}
				}
			}
		}
	}
	return writes, conduits
}

func c06RuleTables(cx *c06Ctx) {
	const rule = "K-tables"
	r, p := cx.r, cx.p
	initSite := p.Pos(cx.gMerge.Pos())

	writes, _ := cx.rowWritesCached()
	writtenSep := map[string]map[string]bool{}
	for _, w := range writes {
		if w.op != "Set" {
			continue
		}
		if writtenSep[w.kind.typ] == nil {
			writtenSep[w.kind.typ] = map[string]bool{}
		}
		writtenSep[w.kind.typ][w.kind.sep] = true
	}

	// (1) S ⊆ M(non-nil), and the prefix is spelt as the writer spells the rows
	for _, s := range cx.slurp {
		construct := "pkg/index.slurpPrefixes#" + s.String()
		fn, inM := cx.mergeFn[s.typ]
		seps := writtenSep[s.typ]
		switch {
		case !inM || fn == "":
			r.Violation(rule, construct, p.Pos(cx.gSlurp.Pos()), fmt.Sprintf("row kind %q is scanned at load and merged live (slurpedKeyType) but corpusMergeFunc has no non-nil merge function for it: scanPrefix/addBlob would call a nil function", s.typ))
		case len(seps) == 0:
			r.Violation(rule, construct, p.Pos(cx.gSlurp.Pos()), fmt.Sprintf("no writer of row kind %q found in the indexer: the load prefix %q matches nothing the indexer writes", s.typ, s.String()))
		case !seps[s.sep] || len(seps) > 1:
			r.Violation(rule, construct, p.Pos(cx.gSlurp.Pos()), fmt.Sprintf("load prefix %q does not match how the indexer spells rows of kind %q (separators written: %v): a restart would scan no/only some of the rows the live corpus merged", s.String(), s.typ, c06Keys(seps)))
		default:
			r.OKTable(rule, construct, p.Pos(cx.gSlurp.Pos()), fmt.Sprintf("merge function %s; rows written with the same separator %q", fn, s.sep))
		}
	}
	// (2) M(non-nil) ⊆ S
	for _, k := range cx.mergeKeys {
		if cx.mergeFn[k] == "" {
			continue
		}
		_, inS := cx.slurpSet[k]
		r.Check(inS, rule, "pkg/index.corpusMergeFunc#"+k, initSite,
			"kind is also in slurpPrefixes (merged live and scanned at load)",
			fmt.Sprintf("corpusMergeFunc has a merge function for %q but slurpPrefixes does not scan that kind: the function is never run (neither at load nor live, which is gated by slurpedKeyType), the corpus silently lacks state the table says it keeps", k))
	}
	// (3) W ⊆ keys(M) ∪ N
	type fk struct{ fn, kind string }
	seen := map[fk]bool{}
	for _, w := range writes {
		key := fk{FuncKey(w.fn), w.kind.typ}
		if seen[key] {
			continue
		}
		seen[key] = true
		construct := key.fn + "#row:" + w.kind.typ
		if _, inM := cx.mergeFn[w.kind.typ]; inM {
			r.OKTable(rule, construct, p.Pos(w.pos), "row kind is classified by corpusMergeFunc")
			continue
		}
		if why, ok := c06IndexOnly[w.kind.typ]; ok {
			r.OKTable(rule, construct, p.Pos(w.pos), "index-only row kind: "+why)
			continue
		}
		r.Violation(rule, construct, p.Pos(w.pos), fmt.Sprintf("row kind %q is written by the indexer but is neither a key of corpusMergeFunc nor in the reasoned index-only table: nobody decided whether the corpus must merge it live and scan it at load", w.kind.typ))
	}

	c06ScanSet(cx)
	c06LiveGate(cx)
	c06SlurpedBuild(cx)
	c06ScanDispatch(cx)
	r.Analysed("row_write_sites", len(writes))
	r.Floor(rule, 45)
}

func c06Keys(m map[string]bool) []string {
	var out []string
	for k := range m {
		out = append(out, k)
	}
	sort.Strings(out)
	return out
}

// isLoadOfGlobal: v is (a slice of / element of) a load of global g.
func c06LoadsGlobal(v ssa.Value, g *ssa.Global) bool {
	return DependsOn(v, func(x ssa.Value) bool {
		u, ok := x.(*ssa.UnOp)
		return ok && u.Op == token.MUL && u.X == ssa.Value(g)
	})
}

// c06ScanSet: scanFromStorage must scan exactly slurpPrefixes: explicit constant
// prefixes == slurpPrefixes[:k] and one scan ranged over slurpPrefixes[k:].
func c06ScanSet(cx *c06Ctx) {
	const rule = "K-tables"
	p, r := cx.p, cx.r
	fn := p.Func(c06Rel, "Corpus", "scanFromStorage")
	scanPrefix := p.Func(c06Rel, "Corpus", "scanPrefix")
	construct := FuncKey(fn) + "#prefixes"
	var explicit []string
	low := int64(-1)
	bad := ""
	n := 0
	// the scans of the effective body (helpers and the literals handed to the group included)
	for _, o := range cx.effCalls(fn, "call:scanPrefix", func(c CallSite) bool { return c.Callee() == scanPrefix }) {
		n++
		c := CallSite{o.in.Parent(), o.in.(ssa.CallInstruction)}
		arg, lv := o.up(c.Args()[len(c.Args())-1], o.leafLevel())
		if pfx, complete := cx.keyPrefix(arg, 0); complete {
			explicit = append(explicit, pfx)
			continue
		}
		// ranged: the prefix value depends on a Slice of a load of slurpPrefixes
		found := false
		o.dependsUp(arg, lv, func(x ssa.Value) bool {
			if sl, ok := x.(*ssa.Slice); ok && c06LoadsGlobal(sl.X, cx.gSlurp) {
				found = true
				lo := int64(0)
				if sl.Low != nil {
					v, ok := ConstInt(sl.Low)
					if !ok {
						bad = "non-constant lower bound of the slurpPrefixes slice"
					}
					lo = v
				}
				if sl.High != nil {
					bad = "the ranged part of slurpPrefixes has an upper bound"
				}
				if low >= 0 && low != lo {
					bad = "two different ranged scans of slurpPrefixes"
				}
				low = lo
				return true
			}
			return false
		})
		if !found {
			if o.dependsUp(arg, lv, func(x ssa.Value) bool {
				u, ok := x.(*ssa.UnOp)
				return ok && u.Op == token.MUL && u.X == ssa.Value(cx.gSlurp)
			}) {
				if low > 0 {
					bad = "two different ranged scans of slurpPrefixes"
				}
				low = 0
				continue
			}
			bad = "a scanPrefix call whose prefix is neither a static string nor an element of slurpPrefixes"
		}
	}
	if n == 0 {
		bad = "scanFromStorage no longer calls scanPrefix"
	}
	if bad == "" {
		if low < 0 {
			low = int64(len(explicit))
			if len(explicit) != len(cx.slurp) {
				bad = fmt.Sprintf("only the explicit prefixes %q are scanned, slurpPrefixes has %d entries", explicit, len(cx.slurp))
			}
		}
	}
	if bad == "" {
		if int(low) > len(cx.slurp) || int(low) != len(explicit) {
			bad = fmt.Sprintf("the scan loop starts at slurpPrefixes[%d:] but %d prefixes are scanned explicitly before it: an entry is scanned twice or not at all", low, len(explicit))
		} else {
			got := map[string]bool{}
			for _, e := range explicit {
				got[e] = true
			}
			for _, s := range cx.slurp[:low] {
				if !got[s.String()] {
					bad = fmt.Sprintf("slurpPrefixes[:%d] contains %q which is not among the explicitly scanned prefixes %q: that kind is merged live (slurpedKeyType) but never loaded at restart", low, s.String(), explicit)
				}
			}
		}
	}
	r.Check(bad == "", rule, construct, p.Pos(fn.Pos()),
		fmt.Sprintf("explicit scans %q == slurpPrefixes[:%d]; the rest is scanned by ranging over slurpPrefixes[%d:]", explicit, low, low), bad)
}

// c06LiveGate: the live merge in addBlob.
// c06UpConv resolves v towards the root, looking through conversions on the way.
func c06UpConv(o c06Occ, v ssa.Value, level int) (ssa.Value, int) {
	for i := 0; i < 4; i++ {
		v = c06Unconvert(v)
		nv, nl := o.up(v, level)
		if nv == v && nl == level {
			break
		}
		v, level = nv, nl
	}
	return c06Unconvert(originValue(c06Unconvert(v))), level
}

// c06DynCalls: the dynamic (function-valued, non-builtin) calls in the effective body of fn.
func (cx *c06Ctx) dynCalls(fn *ssa.Function) []c06Occ {
	return cx.effFind(fn, "dyn-call", func(in ssa.Instruction) bool {
		call, ok := in.(*ssa.Call)
		if !ok || call.Call.IsInvoke() || (CallSite{in.Parent(), call}).Callee() != nil {
			return false
		}
		_, isBuiltin := call.Call.Value.(*ssa.Builtin)
		return !isBuiltin
	})
}

func c06LiveGate(cx *c06Ctx) {
	const rule = "K-tables"
	p, r := cx.p, cx.r
	fn := p.Func(c06Rel, "Corpus", "addBlob")
	construct := FuncKey(fn) + "#merge"
	n := 0
	for _, o := range cx.dynCalls(fn) {
		call := o.in.(*ssa.Call)
		c := CallSite{o.in.Parent(), call}
		// dynamic call: must be corpusMergeFunc[kt]
		fvU, lvF := o.up(call.Call.Value, o.leafLevel())
		fv := originValue(fvU)
		lk, ok := fv.(*ssa.Lookup)
		if !ok || !c06LoadsGlobal(lk.X, cx.gMerge) {
			continue
		}
		n++
		bad := ""
		// kt = typeOfKey(k), k ranged from mm.kv
		ktV, lvK := o.up(lk.Index, lvF)
		ktCall, ok := originValue(ktV).(*ssa.Call)
		if !ok || (CallSite{ktCall.Parent(), ktCall}).Callee() != cx.fnTypeOfKey {
			bad = "the merge function is not looked up by typeOfKey(k)"
		}
		var kVal ssa.Value
		lvk := 0
		if bad == "" {
			kVal, lvk = c06UpConv(o, ktCall.Call.Args[0], lvK)
			m, idx, isRange := c06RangeMapOf(kVal)
			if !isRange || idx != 1 || !cx.isMMKV(m) {
				bad = "the key whose kind selects the merge function does not come from ranging over mm.kv"
			}
		}
		if bad == "" {
			args := c.Args()
			if len(args) != 3 {
				bad = "unexpected merge call shape"
			} else {
				ka, lka := c06UpConv(o, args[1], o.leafLevel())
				va, lva := c06UpConv(o, args[2], o.leafLevel())
				mk, ik, okk := c06RangeMapOf(ka)
				mv, iv, okv := c06RangeMapOf(va)
				if !okk || !okv || ik != 1 || iv != 2 || ka != kVal || lka != lvk || lva != lvk || mk != mv {
					bad = "the merge function is not given the same (k, v) pair of mm.kv whose kind selected it: the corpus would merge something other than the committed row"
				}
			}
		}
		if bad == "" {
			// gate: slurpedKeyType[kt] true, or fn != nil — at the call or at any call on the way down to it
			isKT := func(idx ssa.Value, level int) bool {
				iv, il := o.up(idx, level)
				ic, isCall := originValue(iv).(*ssa.Call)
				if !isCall {
					return false
				}
				if ic == ktCall && il == lvK {
					return true
				}
				if (CallSite{ic.Parent(), ic}).Callee() != cx.fnTypeOfKey {
					return false
				}
				k2, l2 := c06UpConv(o, ic.Call.Args[0], il)
				return k2 == kVal && l2 == lvk
			}
			gated := false
			for j := 0; j <= o.leafLevel(); j++ {
				blk := o.rep(j).Block()
				for _, f := range FactsAt(blk) {
					cond, val := f.Cond, f.Val
					for {
						if u, ok := cond.(*ssa.UnOp); ok && u.Op == token.NOT {
							cond, val = u.X, !val
							continue
						}
						break
					}
					if g, ok := originValue(cond).(*ssa.Lookup); ok && val && c06LoadsGlobal(g.X, cx.gSlurped) && isKT(g.Index, j) {
						gated = true
					}
					if ex, ok := cond.(*ssa.Extract); ok && val && ex.Index == 1 {
						if g, ok := ex.Tuple.(*ssa.Lookup); ok && g.CommaOk && c06LoadsGlobal(g.X, cx.gSlurped) && isKT(g.Index, j) {
							gated = true
						}
					}
				}
			}
			// fn != nil: equals the load set because K-tables (1)+(2) make S == non-nil M
			if k, isNil := NilFact(c.Block(), call.Call.Value); k && !isNil {
				gated = true
			}
			if k, isNil := NilFact(o.rep(lvF).Block(), fvU); k && !isNil {
				gated = true
			}
			if !gated {
				bad = "the live merge is not gated by slurpedKeyType[kind] (nor by a non-nil merge function): kinds the restart never scans would be merged live, or a nil function called"
			}
		}
		r.Check(bad == "", rule, construct, p.Pos(c.Pos()),
			"live merge = corpusMergeFunc[typeOfKey(k)](c, k, v) for (k, v) ranged from mm.kv, gated to the load set", bad)
	}
	if n == 0 {
		r.Violation(rule, construct, p.Pos(fn.Pos()), "addBlob no longer dispatches the rows of mm.kv through corpusMergeFunc: the live corpus and the load path (scanPrefix) use different merge code")
	}
}

// c06GuardKey renders the nearest branch condition that selects block b, without positions.
func c06GuardKey(b *ssa.BasicBlock) string {
	for _, f := range FactsAt(b) {
		if ex, ok := f.Cond.(*ssa.Extract); ok {
			if lk, ok := ex.Tuple.(*ssa.Lookup); ok && lk.CommaOk {
				if pth := AccessPath(lk.X); !strings.HasPrefix(pth, "?") {
					return pth + "[]"
				}
			}
		}
		if k := CondKey(f.Cond); k != "" {
			return strings.ReplaceAll(k, " ", "")
		}
		break
	}
	return "other"
}

func c06Unconvert(v ssa.Value) ssa.Value {
	for {
		switch x := v.(type) {
		case *ssa.Convert:
			v = x.X
		case *ssa.ChangeType:
			v = x.X
		default:
			return v
		}
	}
}

// c06SlurpedBuild: slurpedKeyType[typeOfKey(prefix)] = true for prefix ranged over slurpPrefixes, nothing else.
func c06SlurpedBuild(cx *c06Ctx) {
	const rule = "K-tables"
	p, r := cx.p, cx.r
	n := 0
	for _, fn := range cx.fns {
		for _, b := range fn.Blocks {
			for _, in := range b.Instrs {
				switch x := in.(type) {
				case *ssa.Store:
					if x.Addr == ssa.Value(cx.gSlurped) {
						_, isMake := x.Val.(*ssa.MakeMap)
						r.Check(isMake && fn == cx.initFn, rule, FuncKey(fn)+"#slurpedKeyType", p.Pos(x.Pos()),
							"initialised empty in the package initializer", "slurpedKeyType is re-assigned outside its initializer: the live merge gate no longer mirrors slurpPrefixes")
					}
				case *ssa.MapUpdate:
					if !c06LoadsGlobal(x.Map, cx.gSlurped) {
						continue
					}
					n++
					bad := ""
					kc, ok := originValue(x.Key).(*ssa.Call)
					if !ok || (CallSite{fn, kc}).Callee() != cx.fnTypeOfKey || !c06LoadsGlobal(kc.Call.Args[0], cx.gSlurp) {
						bad = "slurpedKeyType gets a key that is not typeOfKey(prefix) of an element of slurpPrefixes"
					} else if c, ok := x.Value.(*ssa.Const); !ok || c.Value == nil || c.Value.String() != "true" {
						bad = "slurpedKeyType gets a value other than true"
					} else {
						// every element: the range must be over the whole slice
						DependsOn(kc.Call.Args[0], func(v ssa.Value) bool {
							if sl, ok := v.(*ssa.Slice); ok && c06LoadsGlobal(sl.X, cx.gSlurp) {
								bad = "slurpedKeyType is built from a sub-slice of slurpPrefixes"
							}
							return false
						})
						for _, f := range FactsAt(x.Block()) {
							if c06IsLoopCond(f.Cond) {
								continue
							}
							bad = "the slurpedKeyType entry is added conditionally: some slurped kinds would be loaded at restart but skipped live"
						}
					}
					r.Check(bad == "", rule, FuncKey(fn)+"#slurpedKeyType", p.Pos(x.Pos()),
						"slurpedKeyType[typeOfKey(prefix)] = true for every prefix of slurpPrefixes", bad)
				}
			}
		}
	}
	if n == 0 {
		r.Violation(rule, "pkg/index.slurpedKeyType#build", p.Pos(cx.gSlurped.Pos()), "slurpedKeyType is never filled: the live corpus merges nothing while a restart loads every slurped kind")
	}
}

// c06IsLoopCond: the controlling condition of a range loop (`i < len(s)` or the ok of a map/string Next).
func c06IsLoopCond(cond ssa.Value) bool {
	if ex, ok := cond.(*ssa.Extract); ok {
		_, isNext := ex.Tuple.(*ssa.Next)
		return isNext
	}
	if bo, ok := cond.(*ssa.BinOp); ok {
		return c06IsLenOf(bo.X) || c06IsLenOf(bo.Y)
	}
	return false
}

func c06IsLenOf(v ssa.Value) bool {
	c, ok := v.(*ssa.Call)
	if !ok {
		return false
	}
	bi, ok := c.Call.Value.(*ssa.Builtin)
	return ok && bi.Name() == "len"
}

// c06ScanDispatch: scanPrefix runs corpusMergeFunc[typeOfKey(prefix)] on the iterator's key/value bytes.
func c06ScanDispatch(cx *c06Ctx) {
	const rule = "K-tables"
	p, r := cx.p, cx.r
	fn := p.Func(c06Rel, "Corpus", "scanPrefix")
	construct := FuncKey(fn) + "#merge"
	prefixParam := fn.Params[len(fn.Params)-1]
	n := 0
	for _, o := range cx.dynCalls(fn) {
		call := o.in.(*ssa.Call)
		c := CallSite{o.in.Parent(), call}
		fvU, lvF := o.up(call.Call.Value, o.leafLevel())
		fv := originValue(fvU)
		src := fv
		if ex, ok := fv.(*ssa.Extract); ok {
			src = ex.Tuple
		}
		lk, ok := src.(*ssa.Lookup)
		if !ok || !c06LoadsGlobal(lk.X, cx.gMerge) {
			continue
		}
		n++
		bad := ""
		ktV, lvK := o.up(lk.Index, lvF)
		kc, ok := originValue(ktV).(*ssa.Call)
		if !ok || (CallSite{kc.Parent(), kc}).Callee() != cx.fnTypeOfKey {
			bad = "the load-time merge function is not corpusMergeFunc[typeOfKey(prefix)] of the scanned prefix"
		} else if pv, pl := o.up(kc.Call.Args[0], lvK); pl != 0 || originValue(pv) != ssa.Value(prefixParam) {
			bad = "the load-time merge function is not corpusMergeFunc[typeOfKey(prefix)] of the scanned prefix"
		}
		if bad == "" {
			args := c.Args()
			isIter := func(v ssa.Value, m string) bool {
				uv, _ := o.up(v, o.leafLevel())
				call, ok := originValue(uv).(*ssa.Call)
				if !ok {
					return false
				}
				cs := CallSite{call.Parent(), call}
				return cs.Common().IsInvoke() && cs.MethodName() == m && IsNamed(cs.RecvType(), "perkeep.org/pkg/sorted", "Iterator")
			}
			if len(args) != 3 || !isIter(args[1], "KeyBytes") && !isIter(args[1], "Key") || !isIter(args[2], "ValueBytes") && !isIter(args[2], "Value") {
				bad = "the load-time merge is not given the iterator's key and value"
			}
		}
		r.Check(bad == "", rule, construct, p.Pos(c.Pos()), "load merge = corpusMergeFunc[typeOfKey(prefix)](c, it.KeyBytes(), it.ValueBytes())", bad)
	}
	if n == 0 {
		r.Violation(rule, construct, p.Pos(fn.Pos()), "scanPrefix no longer dispatches rows through corpusMergeFunc: load and live merge use different code")
	}
}

// ---------------------------------------------------------------------------
// K-owner

// c06NeedsWriters: who may remove from / rewrite Index.needs and neededBy, and
// write readyReindex (the adds are decided by role, see K-owner B). A function
// literal belongs to the function it is written in; an unexported helper all of
// whose callers are listed functions is accepted too.
var c06NeedsWriters = map[string]string{
	"pkg/index.New": "constructor: empty maps on the freshly allocated Index (re-checked: the object is allocated in New)",
	"pkg/index.(*Index).noteBlobIndexedLocked": "a dependency arrived: moves the waiters to readyReindex and drops the edge (rows follow in removeAllMissingEdges when the waiter is re-indexed)",
	"pkg/index.(*Index).indexReadyBlobs":       "pops the ready queue and re-queues blobs whose out-of-order indexing failed, under the index lock (its function literals included)",
}

// c06StoreSwapExceptions: functions that may replace Index.s on a live Index.
var c06StoreSwapExceptions = map[string]string{
	"pkg/index.(*Index).PreventStorageAccessForTesting": "test hook: installs a store whose Get/Find panic, so that search tests prove the corpus alone answers; nothing can be read from the swapped store",
}

// c06CorpusScratch: Corpus fields that carry no query-visible state.
var c06CorpusScratch = map[string]string{
	"strs":      "string interning cache",
	"brOfStr":   "blob.Ref parse cache used while loading",
	"brInterns": "statistics counter",
	"ss":        "scratch slice",
}

// isRowQuery: c opens an iterator over the rows of key type g: a call that is
// given the keyType variable and returns a sorted.Iterator (queryPrefix and
// friends, recognised by what they take and return), or KeyValue.Find from a
// start key of that kind.
func (cx *c06Ctx) isRowQuery(c CallSite, g *ssa.Global) bool {
	if c06IsKVInvoke(c, "Find") {
		if k, ok := cx.kindOfKey(c.Args()[1]); ok && k.typ == cx.keyName[g] {
			return true
		}
		return false
	}
	f := c.Callee()
	if f == nil || f.Pkg != cx.pkg {
		return false
	}
	res := f.Signature.Results()
	if res.Len() != 1 || !IsNamed(res.At(0).Type(), "perkeep.org/pkg/sorted", "Iterator") {
		return false
	}
	for _, a := range c.Args() {
		if kg, ok := cx.keyGlobalOf(a); ok && kg == g {
			return true
		}
		// the prefix string of that kind, built in place (key.Prefix(...), name + "|"): the
		// keyType-taking wrapper written out
		if bt, isB := a.Type().Underlying().(*types.Basic); isB && bt.Info()&types.IsString != 0 {
			if k, ok := cx.kindOfKey(a); ok && k.typ == cx.keyName[g] {
				return true
			}
		}
	}
	return false
}

// rowQueries: the queries of g's rows in the effective body of fn, not counting
// helpers for which skip holds (functions that play the role themselves).
func (cx *c06Ctx) rowQueries(fn *ssa.Function, g *ssa.Global, skip func(*ssa.Function) bool) []c06Occ {
	var out []c06Occ
occs:
	for _, o := range cx.effCalls(fn, "q:"+cx.keyName[g], func(c CallSite) bool { return cx.isRowQuery(c, g) }) {
		for _, l := range o.chain {
			if skip != nil && skip(l.callee) {
				continue occs
			}
		}
		out = append(out, o)
	}
	return out
}

// dependsUp: v (a value of the function at level) depends on a value satisfying
// target, parameters of statically called helpers standing for the arguments.
func (o c06Occ) dependsUp(v ssa.Value, level int, target func(ssa.Value) bool) bool {
	return DependsOn(v, func(x ssa.Value) bool {
		if target(x) {
			return true
		}
		prm, ok := x.(*ssa.Parameter)
		if !ok {
			return false
		}
		lv := -1
		for j := level; j >= 1; j-- {
			if o.fnAt(j) == prm.Parent() {
				lv = j
				break
			}
		}
		if lv < 1 {
			return false
		}
		l := o.chain[lv-1]
		if l.passed {
			return false
		}
		args := (CallSite{o.fnAt(lv - 1), l.call.(ssa.CallInstruction)}).Args()
		for i, q := range l.callee.Params {
			if q == prm && i < len(args) {
				return o.dependsUp(args[i], lv-1, target)
			}
		}
		return false
	})
}

// afterWipe: w stores a freshly constructed empty cache and is dominated by a
// successful sorted.Wiper.Wipe() in the (effective body of the) same function.
func (cx *c06Ctx) afterWipe(fn *ssa.Function, w c06Write, ctors map[*ssa.Function]bool, g *c06Grp) bool {
	st, ok := w.in.(*ssa.Store)
	if !ok {
		return false
	}
	switch v := originValue(st.Val).(type) {
	case *ssa.Call:
		if !ctors[(CallSite{fn, v}).Callee()] {
			return false
		}
	case *ssa.Alloc:
		// the constructor written out in place: a cache object allocated here whose map is
		// only ever given a new, empty map
		if v.Parent() != fn || NamedOf(v.Type()) != cx.tDelCache {
			return false
		}
		for _, mw := range g.mapw {
			if originValue(mw.base) != ssa.Value(v) {
				continue
			}
			ms, isStore := mw.in.(*ssa.Store)
			if !isStore || mw.kind != "assign" {
				return false
			}
			if _, isMake := originValue(ms.Val).(*ssa.MakeMap); !isMake {
				return false
			}
		}
	default:
		return false
	}
	wipes := cx.effCalls(fn, "call:Wipe", func(c CallSite) bool {
		cc := c.Common()
		return cc.IsInvoke() && cc.Method.Name() == "Wipe" && IsNamed(c.RecvType(), "perkeep.org/pkg/sorted", "Wiper") && c.Value() != nil
	})
	ok, _, _ = cx.anyBefore(wipes, c06Occ{root: fn, in: w.in}, nil, true)
	return ok
}

func c06LastInstr(b *ssa.BasicBlock) ssa.Instruction { return b.Instrs[len(b.Instrs)-1] }

// addedFrom: what the write at occ0 adds is derived from a value satisfying
// target — the key and the value of a map update (both), or, for a call that
// stands for the write of a helper attributed to its caller, one of the
// arguments handed to the helper. Decided where the write stands or else, the
// function being an enumerable helper, at every one of its call sites
// (parameters standing for the arguments, recursively).
func (cx *c06Ctx) addedFrom(occ0 c06Occ, target func(ssa.Value) bool) bool {
	var payload []ssa.Value
	all := true
	switch x := occ0.in.(type) {
	case *ssa.MapUpdate:
		payload = []ssa.Value{x.Key, x.Value}
	case ssa.CallInstruction:
		if a := (CallSite{occ0.in.Parent(), x}).Args(); len(a) > 1 {
			payload, all = a[1:], false
		}
	}
	if len(payload) == 0 {
		return false
	}
	ok, _ := cx.climb(occ0, -1, func(occ c06Occ) (bool, string) {
		n := 0
		for _, a := range payload {
			if occ.dependsUp(a, occ.leafLevel(), target) {
				n++
			}
		}
		return n == len(payload) || (!all && n > 0), ""
	})
	return ok
}

type c06Grp struct {
	assigns, mapw []c06Write
}

// c06Transplant: the writes of helper h seen from its call site cs in a caller:
// they happen at the call, on the object the argument denotes.
func c06Transplant(g *c06Grp, h *ssa.Function, cs CallSite) *c06Grp {
	out := &c06Grp{}
	args := cs.Args()
	move := func(w c06Write) c06Write {
		w.fn, w.in = cs.Fn, cs.Instr
		if prm, ok := originValue(w.base).(*ssa.Parameter); ok {
			for i, q := range h.Params {
				if q == prm && i < len(args) {
					w.base = args[i]
				}
			}
		}
		return w
	}
	for _, w := range g.assigns {
		out.assigns = append(out.assigns, move(w))
	}
	for _, w := range g.mapw {
		out.mapw = append(out.mapw, move(w))
	}
	return out
}

// c06AppendOne: v is append(old, x): returns old and x.
func c06AppendOne(v ssa.Value) (old, elem ssa.Value, ok bool) {
	call, isCall := originValue(v).(*ssa.Call)
	if !isCall {
		return nil, nil, false
	}
	bi, isB := call.Call.Value.(*ssa.Builtin)
	if !isB || bi.Name() != "append" || len(call.Call.Args) != 2 {
		return nil, nil, false
	}
	elems := c06VarargElems(call.Call.Args[1])
	if len(elems) != 1 {
		return nil, nil, false
	}
	return call.Call.Args[0], elems[0], true
}

func c06RuleOwner(cx *c06Ctx) {
	const rule = "K-owner"
	p, r := cx.p, cx.r
	gDeleted := c06Global(cx.pkg, "keyDeleted")
	gMissing := c06Global(cx.pkg, "keyMissing")
	if _, ok := cx.keyName[gDeleted]; !ok {
		brokenf("anchor unresolved: keyDeleted is not a keyType with a constant name")
	}
	ws := c06Writes(cx.fns, map[*types.Named]bool{cx.tIndex: true, cx.tDelCache: true, cx.tCorpus: true, cx.tMM: true})
	isCB := func(c CallSite) bool { return c06IsKVInvoke(c, "CommitBatch") && c.Value() != nil }
	fromMMDeletes := func(v ssa.Value) bool {
		n, f, _, ok := c06LoadedField(v)
		return ok && n == cx.tMM && f == "deletes"
	}

	// ---- A. Index.deletes and deletionCache.m
	groups := map[*ssa.Function]*c06Grp{}
	var order []*ssa.Function
	get := func(fn *ssa.Function) *c06Grp {
		if groups[fn] == nil {
			groups[fn] = &c06Grp{}
			order = append(order, fn)
		}
		return groups[fn]
	}
	isWriteA := map[ssa.Instruction]bool{}
	for _, w := range ws {
		switch {
		case w.typ == cx.tIndex && w.field == "deletes":
			g := get(w.fn)
			g.assigns = append(g.assigns, w)
			isWriteA[w.in] = true
		case w.typ == cx.tDelCache && w.field == "m":
			g := get(w.fn)
			g.mapw = append(g.mapw, w)
			isWriteA[w.in] = true
		}
	}
	touchA := cx.effReach("w:index.deletes", func(in ssa.Instruction) bool { return isWriteA[in] })
	isWriterA := func(f *ssa.Function) bool { return touchA.any[f] }
	delQueries := func(fn *ssa.Function) []c06Occ { return cx.rowQueries(fn, gDeleted, isWriterA) }
	// loader: reads the 'deleted' rows itself (or through helpers that do not write the cache) and fills the cache
	loaderMemo := map[*ssa.Function]bool{}
	isLoader := func(fn *ssa.Function) bool {
		if v, ok := loaderMemo[fn]; ok {
			return v
		}
		v := touchA.any[fn] && len(delQueries(fn)) > 0
		loaderMemo[fn] = v
		return v
	}
	// constructors of the cache object itself (newDeletionCache): write only a fresh deletionCache
	ctors := map[*ssa.Function]bool{}
	for _, fn := range order {
		g := groups[fn]
		if len(g.assigns) > 0 || len(g.mapw) == 0 {
			continue
		}
		fresh := true
		for _, w := range g.mapw {
			if !c06Fresh(w.base, fn) || w.kind != "assign" {
				fresh = false
			}
		}
		if fresh {
			ctors[fn] = true
		}
	}
	// roleA decides whether fn, with the writes g (its own, plus those of helpers
	// attributed to it), plays one of the accepted roles.
	var roleA func(fn *ssa.Function, g *c06Grp, depth int) (ok bool, okDetail, bad string, badPos token.Pos)
	roleA = func(fn *ssa.Function, g *c06Grp, depth int) (bool, string, string, token.Pos) {
		allFresh := true
		for _, w := range append(append([]c06Write{}, g.assigns...), g.mapw...) {
			if !c06Fresh(w.base, fn) || w.kind == "addr-escape" {
				allFresh = false
			}
		}
		bad, okDetail := "", ""
		var badPos token.Pos
		switch {
		case allFresh:
			// constructor role: must not wipe what a loader called earlier in the same function filled
			for _, lo := range cx.effCalls(fn, "", func(c CallSite) bool { f := c.Callee(); return f != nil && isLoader(f) }) {
				after := ReachableFrom(lo.top(), nil)
				for _, w := range g.assigns {
					if after[w.in] {
						bad = fmt.Sprintf("the deletes cache is re-assigned after %s loaded it from the 'deleted' rows", FuncKey((CallSite{lo.in.Parent(), lo.in.(ssa.CallInstruction)}).Callee()))
					}
				}
			}
			okDetail = "constructor: writes only the object it allocates, never after a loader ran"
		case len(delQueries(fn)) > 0:
			qs := delQueries(fn)
			for _, w := range g.assigns {
				for _, q := range qs {
					if ok, _ := cx.before(c06Occ{root: fn, in: w.in}, q, nil, false); !ok {
						bad = "the loader re-assigns x.deletes after (or beside) opening the 'deleted' row iterator: loaded entries can be dropped"
					}
				}
			}
			for _, w := range g.mapw {
				switch {
				case w.kind == "map-update":
				case w.kind == "assign":
					// the map of the cache is (re)initialised — where the cache object is built in
					// place (`&deletionCache{m: make(...)}`, the constructor inlined) or on the
					// installed cache: like the assignment of x.deletes this is a reset, which
					// must come before the rows are read
					for _, q := range qs {
						if ok, _ := cx.before(c06Occ{root: fn, in: w.in}, q, nil, false); !ok {
							bad = "the loader re-initialises the map of the deletes cache after (or beside) opening the 'deleted' row iterator: loaded entries can be dropped"
						}
					}
				default:
					bad = "the loader removes entries from the deletes cache"
				}
			}
			okDetail = "loader: resets the cache before reading the 'deleted' rows, then only adds"
		case len(g.assigns) == 0:
			// live updater: every add is made after a successful CommitBatch, with a claim taken
			// from mm.deletes — decided where the add stands (the updater written out in its
			// caller) or else, the function being an enumerable helper, at every one of its
			// call sites (recursively); never across a go/defer
			synchronous := func(occ c06Occ) (bool, string) {
				for _, l := range occ.chain {
					if !l.direct {
						return false, fmt.Sprintf("reached from %s with go/defer: not ordered after the commit", FuncKey(l.call.Parent()))
					}
				}
				return true, ""
			}
			for _, w := range g.mapw {
				if w.kind != "map-update" {
					bad = "removes entries from the deletes cache; the restart path only ever adds what the rows say"
					continue
				}
				occ0 := c06Occ{root: fn, in: w.in}
				if ok, why := cx.climb(occ0, -1, func(occ c06Occ) (bool, string) {
					if ok, why := synchronous(occ); !ok {
						return false, why
					}
					ok, _, why := cx.anyBefore(cx.effCalls(occ.root, "call:CommitBatch", isCB), occ, nil, true)
					if !ok {
						why = fmt.Sprintf("in %s no successful CommitBatch dominates it (%s)", FuncKey(occ.root), why)
					}
					return ok, why
				}); !ok {
					bad = "adds to the deletes cache where the rows are not known to be persisted: the cache would hold deletions whose rows were not committed: " + why
					continue
				}
				if !cx.addedFrom(occ0, fromMMDeletes) {
					bad = "adds a deletion that is not taken from mm.deletes (the claims whose 'deleted' rows were just committed)"
				}
			}
			okDetail = "live updater: only adds, every add after a successful CommitBatch with a claim of mm.deletes"
		default:
			// last acceptable role: an empty cache installed right after the rows were wiped
			for _, w := range g.assigns {
				if !cx.afterWipe(fn, w, ctors, g) {
					bad = "assigns Index.deletes on an existing Index without being the loader of the 'deleted' rows (and not right after a successful Wipe of the rows): a cache that New loaded from the rows is replaced (after a restart IsDeleted forgets every deletion)"
					badPos = w.in.Pos()
				}
			}
			for _, w := range g.mapw {
				// building the fresh (empty, see afterWipe) cache object in place is not a mutation of the cache
				if bad == "" && !(w.kind == "assign" && c06Fresh(w.base, fn)) {
					bad = "both re-assigns and mutates the deletes cache without being its loader"
					badPos = w.in.Pos()
				}
			}
			okDetail = "installs an empty cache only after the rows were wiped successfully"
		}
		if bad == "" {
			return true, okDetail, "", 0
		}
		// a helper extracted from accepted functions: its writes are theirs
		if sites, ok := cx.enumerableCallers(fn); ok && depth < c06EffDepth-1 {
			var served []string
			for _, cs := range sites {
				if _, plain := cs.Instr.(*ssa.Call); !plain {
					return false, "", bad, badPos
				}
				g2 := c06Transplant(g, fn, cs)
				if own := groups[cs.Fn]; own != nil {
					g2.assigns = append(g2.assigns, own.assigns...)
					g2.mapw = append(g2.mapw, own.mapw...)
				}
				ok2, d2, _, _ := roleA(cs.Fn, g2, depth+1)
				if !ok2 {
					return false, "", bad, badPos
				}
				served = append(served, FuncKey(cs.Fn)+" ("+d2+")")
			}
			return true, "helper whose writes belong to its callers, each accepted in its own role: " + strings.Join(c06Dedupe(served), "; "), "", 0
		}
		return false, "", bad, badPos
	}
	nA := 0
	for _, fn := range order {
		nA++
		construct := FuncKey(fn) + "#deletes"
		ok, okDetail, bad, badPos := roleA(fn, groups[fn], 0)
		site := p.Pos(fn.Pos())
		if !ok && badPos != 0 {
			site = p.Pos(badPos)
		}
		r.Check(ok, rule, construct, site, okDetail, bad)
	}

	// ---- B (preliminaries). adds to Index.needs / neededBy: x.f[k] = append(x.f[k], v)
	isNeedsField := func(f string) bool { return f == "needs" || f == "neededBy" }
	addForm := func(w c06Write) (key, elem ssa.Value, ok bool) {
		mu, isMU := w.in.(*ssa.MapUpdate)
		if !isMU || w.typ != cx.tIndex || !isNeedsField(w.field) {
			return nil, nil, false
		}
		old, el, isApp := c06AppendOne(mu.Value)
		if !isApp {
			return nil, nil, false
		}
		lk, isLk := originValue(old).(*ssa.Lookup)
		if !isLk || lk.CommaOk {
			return nil, nil, false
		}
		n, f, base, isF := c06LoadedField(lk.X)
		if !isF || n != cx.tIndex || f != w.field || !c06SamePlace(base, w.base) || !c06SamePlace(lk.Index, mu.Key) {
			return nil, nil, false
		}
		return mu.Key, el, true
	}
	isAddWrite := map[ssa.Instruction]bool{}
	addFns := map[*ssa.Function][]c06Write{}
	var addOrder []*ssa.Function
	for _, w := range ws {
		if _, _, ok := addForm(w); ok && !c06Fresh(w.base, w.fn) {
			isAddWrite[w.in] = true
			if addFns[w.fn] == nil {
				addOrder = append(addOrder, w.fn)
			}
			addFns[w.fn] = append(addFns[w.fn], w)
		}
	}
	reachAdd := cx.effReach("w:needs-add", func(in ssa.Instruction) bool { return isAddWrite[in] })
	missQueries := func(fn *ssa.Function) []c06Occ {
		return cx.rowQueries(fn, gMissing, func(h *ssa.Function) bool { return reachAdd.any[h] })
	}
	// loader of the 'missing' rows: reads them and adds the edges (itself or through helpers)
	needsLoaderMemo := map[*ssa.Function]bool{}
	isNeedsLoader := func(fn *ssa.Function) bool {
		if v, ok := needsLoaderMemo[fn]; ok {
			return v
		}
		v := fn != nil && fn.Parent() == nil && reachAdd.any[fn] && len(missQueries(fn)) > 0
		needsLoaderMemo[fn] = v
		return v
	}

	// ---- A'. New: success returns have both caches loaded (or the reindex branch)
	newFn := p.Func(c06Rel, "", "New")
	gReindex := c06Global(cx.pkg, "aboutToReindex")
	for _, nr := range MaybeNilErrorReturns(newFn) {
		nA++
		site := c06LastInstr(nr.From)
		construct := FuncKey(newFn) + "#open-loads-caches"
		domBy := func(is func(*ssa.Function) bool) bool {
			occs := cx.effCalls(newFn, "", func(c CallSite) bool { f := c.Callee(); return f != nil && c.Value() != nil && is(f) })
			ok, _, _ := cx.anyBefore(occs, c06Occ{root: newFn, in: site}, nil, true)
			return ok
		}
		if domBy(isLoader) && domBy(isNeedsLoader) {
			r.OK(rule, construct, p.Pos(nr.Ret.Pos()), "success return dominated by successful loads of the 'deleted' rows and of the 'missing' rows")
			continue
		}
		reindex := false
		for _, f := range FactsAt(nr.From) {
			if u, ok := originValue(f.Cond).(*ssa.UnOp); ok && u.Op == token.MUL && u.X == ssa.Value(gReindex) && f.Val {
				reindex = true
			}
		}
		if nr.From != nr.Ret.Block() {
			reindex = false
		}
		freshCache := false
		if g := groups[newFn]; g != nil {
			for _, w := range g.assigns {
				if Precedes(w.in, site) || w.in.Block() == site.Block() {
					freshCache = true
				}
			}
		}
		if reindex {
			construct = FuncKey(newFn) + "#open-reindex-branch"
		}
		r.Check(reindex && freshCache, rule, construct, p.Pos(nr.Ret.Pos()),
			"about-to-reindex branch: the rows were wiped, an empty deletes cache is installed",
			"New can return successfully without having loaded the deletes cache and the needs maps from the rows (and not on the about-to-reindex branch): the opened index disagrees with its rows")
	}

	// ---- B. needs / neededBy / readyReindex
	nB := 0
	seenB := map[string]bool{}
	inTable := func(f *ssa.Function) bool { _, ok := c06NeedsWriters[FuncKey(f)]; return ok }
	for _, w := range ws {
		if w.typ != cx.tIndex || !(w.field == "needs" || w.field == "neededBy" || w.field == "readyReindex") {
			continue
		}
		if isAddWrite[w.in] {
			continue // adds are decided by role below
		}
		key := FuncKey(w.fn)
		construct := key + "#" + w.field
		if seenB[construct] {
			continue
		}
		seenB[construct] = true
		nB++
		tkey := FuncKey(TopFunc(w.fn)) // a literal belongs to the function it is written in
		why, ok := c06NeedsWriters[tkey]
		if !ok {
			if owners, isHelper := cx.helperOf(w.fn, inTable, 0); isHelper {
				r.OK(rule, construct, p.Pos(w.in.Pos()), "helper all of whose callers are accepted writers: "+c06FuncKeys(owners))
				continue
			}
			r.Violation(rule, construct, p.Pos(w.in.Pos()), fmt.Sprintf("writes Index.%s but is not one of the functions that keep it in step with the 'missing' rows (%s), nor a helper called only by them", w.field, strings.Join(c06SortedKeys(c06NeedsWriters), ", ")))
			continue
		}
		if tkey == "pkg/index.New" && !c06Fresh(w.base, w.fn) {
			r.Violation(rule, construct, p.Pos(w.in.Pos()), "New writes the map of an Index it did not allocate")
			continue
		}
		r.OKTable(rule, construct, p.Pos(w.in.Pos()), why)
	}
	// the adds: justified where they stand (the 'missing' row loader, or after the
	// matching row was written successfully), or else at every call site of the
	// function that makes them (the in-memory adder), climbing through helpers
	isMissingSet := func(c CallSite) bool {
		if !c06IsKVInvoke(c, "Set") || c.Value() == nil {
			return false
		}
		kc, ok := originValue(c.Args()[1]).(*ssa.Call)
		if !ok {
			return false
		}
		kcs := CallSite{kc.Parent(), kc}
		g, ok := cx.keyGlobalOf(kcs.Args()[0])
		return ok && g == gMissing && kcs.Callee() != nil && NamedOf(kcs.Callee().Signature.Recv().Type()) == cx.tKeyType
	}
	justified := func(w c06Write) func(occ c06Occ) (bool, string) {
		key, elem, _ := addForm(w)
		return func(occ c06Occ) (bool, string) {
			top := TopFunc(occ.root)
			if isNeedsLoader(top) {
				if occ.root != top {
					return true, ""
				}
				if ok, _, _ := cx.anyBefore(missQueries(top), occ, nil, false); ok {
					return true, ""
				}
			}
			detail := "no successful write of the matching 'missing' row dominates the in-memory update: after a restart the dependency is forgotten (or remembered only in memory)"
			for _, s := range cx.effCalls(occ.root, "set:missing", isMissingSet) {
				if ok, _ := cx.before(s, occ, nil, true); !ok {
					continue
				}
				sc := CallSite{s.in.Parent(), s.in.(ssa.CallInstruction)}
				kc := originValue(sc.Args()[1]).(*ssa.Call)
				parts := c06VarargElems(kc.Call.Args[len(kc.Call.Args)-1])
				if len(parts) != 2 {
					detail = "cannot read the (have, missing) pair of the 'missing' row key"
					continue
				}
				have, missing := s.leafVal(parts[0]), s.leafVal(parts[1])
				k, e := occ.leafVal(key), occ.leafVal(elem)
				if w.field == "neededBy" {
					have, missing = missing, have
				}
				if c06SameVal(k, have) && c06SameVal(e, missing) {
					return true, ""
				}
				detail = "the 'missing' row written before the in-memory update is not keyed by the same (have, missing) pair"
			}
			return false, detail
		}
	}
	for _, fn := range addOrder {
		local := true
		for _, w := range addFns[fn] {
			if ok, _ := justified(w)(c06Occ{root: fn, in: w.in}); !ok {
				local = false
			}
		}
		if local {
			nB++
			r.OK(rule, FuncKey(fn)+"#needs-add", p.Pos(fn.Pos()), "adds dependency edges while loading the 'missing' rows, or only after the same 'missing|have|missing' row was written successfully")
			continue
		}
		// the in-memory adder: every call site must be justified
		sites, enumerable := cx.enumerableCallers(fn)
		if !enumerable {
			nB++
			r.Violation(rule, FuncKey(fn)+"#needs-add", p.Pos(fn.Pos()), "adds edges to Index.needs/neededBy neither while loading the 'missing' rows nor after a successful write of the matching row, and its callers cannot be enumerated (exported, used as a value, or never called): the in-memory dependency maps and the 'missing' rows diverge")
			continue
		}
		for _, c := range sites {
			nB++
			construct := FuncKey(c.Fn) + "#" + fn.Name()
			_, plain := c.Instr.(*ssa.Call)
			okAll, detail := plain, "the in-memory adder is started with go/defer"
			if plain {
				for _, w := range addFns[fn] {
					occ := c06Occ{root: c.Fn, in: w.in, chain: []c06Link{{call: c.Instr, callee: fn, direct: true}}}
					if ok, why := cx.climb(occ, 1, justified(w)); !ok {
						okAll, detail = false, why
					}
				}
			}
			okDetail := "in-memory edge added only after the same 'missing|have|missing' row was written successfully"
			if isNeedsLoader(TopFunc(c.Fn)) {
				okDetail = "called while iterating the 'missing' rows (loader)"
			}
			r.Check(okAll, rule, construct, p.Pos(c.Pos()), okDetail, detail)
		}
	}

	// ---- C. Corpus fields
	nC := c06CorpusOwner(cx, ws)

	// ---- C'. Corpus.deletes has the same three roles as the index cache
	scanFn := p.Func(c06Rel, "Corpus", "scanFromStorage")
	corpusLoaders := map[*ssa.Function]bool{}
	isWriteCD := map[ssa.Instruction]bool{}
	for _, w := range ws {
		if w.typ == cx.tCorpus && w.field == "deletes" && !c06Fresh(w.base, w.fn) {
			isWriteCD[w.in] = true
		}
	}
	touchCD := cx.effReach("w:corpus.deletes", func(in ssa.Instruction) bool { return isWriteCD[in] })
	isWriterCD := func(f *ssa.Function) bool { return touchCD.any[f] }
	// sites: the writes of Corpus.deletes in fn (for a helper's writes attributed to fn: the call of the helper)
	var roleCD func(fn *ssa.Function, sites []ssa.Instruction, depth int) (bool, string, string)
	roleCD = func(fn *ssa.Function, sites []ssa.Instruction, depth int) (bool, string, string) {
		if len(cx.rowQueries(fn, gDeleted, isWriterCD)) > 0 {
			corpusLoaders[fn] = true
			return true, "loader: fills Corpus.deletes from the 'deleted' rows", ""
		}
		bad := ""
		for _, in := range sites {
			if !cx.addedFrom(c06Occ{root: fn, in: in}, fromMMDeletes) {
				bad = fmt.Sprintf("writes Corpus.deletes (line %d) with something other than an entry derived from a claim of mm.deletes (the claims whose 'deleted' rows were committed), here and seen from its callers", p.Fset.Position(in.Pos()).Line)
			}
		}
		if bad == "" {
			return true, "live updater: every add is derived from a claim of mm.deletes", ""
		}
		if callers, ok := cx.enumerableCallers(fn); ok && depth < c06EffDepth-1 {
			var served []string
			for _, cs := range callers {
				if _, plain := cs.Instr.(*ssa.Call); !plain {
					return false, "", bad
				}
				ok2, d2, _ := roleCD(cs.Fn, []ssa.Instruction{cs.Instr}, depth+1)
				if !ok2 {
					return false, "", bad
				}
				served = append(served, FuncKey(cs.Fn)+" ("+d2+")")
			}
			return true, "helper whose writes belong to its callers, each accepted in its own role: " + strings.Join(c06Dedupe(served), "; "), ""
		}
		return false, "", bad
	}
	seenCD := map[*ssa.Function]bool{}
	for _, w := range ws {
		if w.typ != cx.tCorpus || w.field != "deletes" || seenCD[w.fn] {
			continue
		}
		seenCD[w.fn] = true
		fn := w.fn
		construct := FuncKey(fn) + "#corpus.deletes"
		if c06Fresh(w.base, fn) {
			continue // constructor, reported under #corpus
		}
		nC++
		var sitesCD []ssa.Instruction
		for _, w2 := range ws {
			if w2.fn == fn && isWriteCD[w2.in] {
				sitesCD = append(sitesCD, w2.in)
			}
		}
		ok, okDetail, bad := roleCD(fn, sitesCD, 0)
		r.Check(ok, rule, construct, p.Pos(fn.Pos()), okDetail, bad)
	}
	{
		nC++
		bad := ""
		loads := cx.effCalls(scanFn, "", func(c CallSite) bool { f := c.Callee(); return f != nil && corpusLoaders[f] && c.Value() != nil })
		for _, nr := range MaybeNilErrorReturns(scanFn) {
			if ok, _, _ := cx.anyBefore(loads, c06Occ{root: scanFn, in: c06LastInstr(nr.From)}, nr.Val, true); !ok {
				bad = fmt.Sprintf("scanFromStorage can return nil (line %d) without having loaded Corpus.deletes from the 'deleted' rows: a restarted corpus forgets every deletion the live corpus knows", p.Fset.Position(nr.Ret.Pos()).Line)
			}
		}
		r.Check(bad == "", rule, FuncKey(scanFn)+"#loads-deletes", p.Pos(scanFn.Pos()), "every success return of the corpus load is dominated by a successful load of the 'deleted' rows", bad)
	}

	// ---- C''. Index.corpus and Index.s: the corpus is built from this index's own rows, the store is never swapped
	newCorpusFrom := p.Func(c06Rel, "", "NewCorpusFromStorage")
	for _, w := range ws {
		if w.typ != cx.tIndex || !(w.field == "corpus" || w.field == "s") {
			continue
		}
		nC++
		construct := FuncKey(w.fn) + "#Index." + w.field
		site := p.Pos(w.in.Pos())
		if c06Fresh(w.base, w.fn) {
			r.OK(rule, construct, site, "constructor: field of the Index allocated here")
			continue
		}
		if w.field == "s" {
			if why, ok := c06StoreSwapExceptions[FuncKey(w.fn)]; ok {
				r.OKTable(rule, construct, site, "exception: "+why)
			} else {
				r.Violation(rule, construct, site, "replaces the sorted.KeyValue of an existing Index: the deletes cache, needs maps and corpus were loaded from other rows than the ones now queried")
			}
			continue
		}
		bad := "Index.corpus is set to something other than NewCorpusFromStorage(x.s) of the same index: the corpus answers from rows that are not this index's rows"
		if st, ok := w.in.(*ssa.Store); ok {
			v := originValue(st.Val)
			if ex, isEx := v.(*ssa.Extract); isEx {
				v = ex.Tuple
			}
			if call, isCall := v.(*ssa.Call); isCall && (CallSite{w.fn, call}).Callee() == newCorpusFrom {
				if n2, f, base, ok := c06LoadedField(call.Call.Args[0]); ok && n2 == cx.tIndex && f == "s" && c06SamePlace(base, w.base) {
					bad = ""
				}
			}
		}
		r.Check(bad == "", rule, construct, site, "corpus built by NewCorpusFromStorage from this index's own store", bad)
	}

	// ---- D. mutationMap.deletes: only the note-delete step may append to it
	nD := 0
	for _, w := range ws {
		if w.typ != cx.tMM || w.field != "deletes" {
			continue
		}
		nD++
		construct := FuncKey(w.fn) + "#mm.deletes"
		switch {
		case c06Fresh(w.base, w.fn):
			r.OK(rule, construct, p.Pos(w.in.Pos()), "field of the mutation map allocated here")
		case cx.isNoter(w.fn):
			r.OK(rule, construct, p.Pos(w.in.Pos()), "the note-delete step: appends the claim it is given to the mutation map it is given (its call sites are checked by K-delete-row)")
		default:
			ok, why := cx.noteSiteOK(c06Occ{root: w.fn, in: w.in})
			r.Check(ok, rule, construct, p.Pos(w.in.Pos()),
				"appends a delete claim to mutationMap.deletes where the matching 'deleted' row was put into the same mutation map (the K-delete-row condition, checked here)",
				"mutationMap.deletes is written outside noteDelete: deletions reach the live caches without passing the row check of K-delete-row ("+why+")")
		}
	}
	r.Analysed("owner_writer_functions", nA+nB+nC+nD)
	r.Floor(rule, 30)
}

func c06SortedKeys(m map[string]string) []string {
	var out []string
	for k := range m {
		out = append(out, k)
	}
	sort.Strings(out)
	return out
}

// c06VarargElems returns the elements stored into a variadic argument slice, by index.
func c06VarargElems(v ssa.Value) []ssa.Value {
	sl, ok := v.(*ssa.Slice)
	if !ok {
		return nil
	}
	al, ok := sl.X.(*ssa.Alloc)
	if !ok {
		return nil
	}
	m := map[int64]ssa.Value{}
	max := int64(-1)
	for _, ref := range *al.Referrers() {
		ia, ok := ref.(*ssa.IndexAddr)
		if !ok {
			continue
		}
		idx, ok := ConstInt(ia.Index)
		if !ok {
			return nil
		}
		for _, r2 := range *ia.Referrers() {
			if st, ok := r2.(*ssa.Store); ok && st.Addr == ssa.Value(ia) {
				m[idx] = st.Val
				if idx > max {
					max = idx
				}
			}
		}
	}
	out := make([]ssa.Value, max+1)
	for i := range out {
		out[i] = m[int64(i)]
		if out[i] == nil {
			return nil
		}
	}
	return out
}

// c06CorpusOwner: Corpus fields are written only by *Corpus methods (or the
// constructor), and those writers are reachable only from the load entry
// (scanFromStorage) or the live entry (addBlob).
func c06CorpusOwner(cx *c06Ctx, ws []c06Write) int {
	const rule = "K-owner"
	p, r := cx.p, cx.r
	loadEntry := p.Func(c06Rel, "Corpus", "scanFromStorage")
	liveEntry := p.Func(c06Rel, "Corpus", "addBlob")
	mutators := map[*ssa.Function][]string{}
	var order []*ssa.Function
	for _, w := range ws {
		if w.typ != cx.tCorpus {
			continue
		}
		if _, scratch := c06CorpusScratch[w.field]; scratch {
			continue
		}
		top := TopFunc(w.fn)
		if mutators[top] == nil {
			order = append(order, top)
		}
		if !c06Has(mutators[top], w.field) {
			mutators[top] = append(mutators[top], w.field)
		}
	}
	n := 0
	for _, fn := range order {
		n++
		construct := FuncKey(fn) + "#corpus"
		site := p.Pos(fn.Pos())
		fields := strings.Join(mutators[fn], ",")
		// receiver role
		isMethod := fn.Signature.Recv() != nil && NamedOf(fn.Signature.Recv().Type()) == cx.tCorpus
		if !isMethod {
			// an unexported helper of pkg/index that is handed the corpus: same reachability rule as a method
			if _, enumerable := cx.enumerableCallers(fn); enumerable {
				isMethod = true
				for _, w := range ws {
					if w.typ == cx.tCorpus && TopFunc(w.fn) == fn && c06Fresh(w.base, w.fn) {
						isMethod = false // allocates the corpus it writes: constructor
					}
				}
			}
		}
		if !isMethod {
			fresh := true
			for _, w := range ws {
				if w.typ == cx.tCorpus && TopFunc(w.fn) == fn && !c06Fresh(w.base, w.fn) {
					fresh = false
				}
			}
			if fresh {
				r.OK(rule, construct, site, "constructor: initialises the Corpus it allocates ("+fields+")")
			} else {
				r.Violation(rule, construct, site, "writes Corpus state ("+fields+") from outside a *Corpus method: the corpus is changed behind the load/live merge paths")
			}
			continue
		}
		// reachability: walk callers up to the two entries
		bad := ""
		seen := map[*ssa.Function]bool{}
		var up func(f *ssa.Function, chain string, depth int)
		up = func(f *ssa.Function, chain string, depth int) {
			if bad != "" || seen[f] {
				return
			}
			seen[f] = true
			if f == loadEntry || f == liveEntry {
				return
			}
			if depth > 12 {
				bad = "caller chain too deep to follow: " + chain
				return
			}
			viaTable := cx.mergeImpl[f]
			for _, u := range p.FuncValueUses(f) {
				if u.Parent() == cx.initFn || cx.mergeImpl[u.Parent()] {
					continue // corpusMergeFunc table entry / its thunk
				}
				bad = fmt.Sprintf("%s is used as a function value in %s: its callers cannot be enumerated", FuncKey(f), FuncKey(u.Parent()))
				return
			}
			callers := p.StaticCallers(f)
			if len(callers) == 0 && !viaTable {
				bad = fmt.Sprintf("reachable from %s, which is neither the load entry (scanFromStorage) nor the live entry (addBlob): %s", FuncKey(f), chain)
				return
			}
			for _, c := range callers {
				t := TopFunc(c.Fn)
				if cx.mergeImpl[t] && t.Synthetic != "" {
					continue // the method-expression thunk stored in corpusMergeFunc
				}
				up(t, chain+" <- "+FuncKey(t), depth+1)
			}
		}
		up(fn, FuncKey(fn), 0)
		r.Check(bad == "", rule, construct, site,
			"writes "+fields+"; reachable only from scanFromStorage (load) / addBlob (live), directly or through corpusMergeFunc", bad)
	}
	return n
}

func c06Has(s []string, x string) bool {
	for _, e := range s {
		if e == x {
			return true
		}
	}
	return false
}

// ---------------------------------------------------------------------------
// K-delete-row

func c06SamePlace(a, b ssa.Value) bool {
	if sameOrigin(a, b) {
		return true
	}
	pa, pb := AccessPath(a), AccessPath(b)
	return pa == pb && !strings.HasPrefix(pa, "?")
}

// c06MethodCallOn: v is (the result of) a call of method name whose receiver satisfies recv.
func c06MethodCallOn(v ssa.Value, name string, recv func(ssa.Value) bool) bool {
	call, ok := originValue(v).(*ssa.Call)
	if !ok {
		return false
	}
	c := CallSite{call.Parent(), call}
	if c.MethodName() != name || c.RecvType() == nil {
		return false
	}
	return recv(c.Args()[0])
}

// methodCallOnVal: val is (resolved towards the root) the result of a call of
// method name whose receiver satisfies recv.
func c06MethodCallOnVal(val c06Val, name string, recv func(c06Val) bool) bool {
	v, lv := val.occ.up(val.v, val.level)
	call, ok := originValue(v).(*ssa.Call)
	if !ok {
		return false
	}
	c := CallSite{call.Parent(), call}
	if c.MethodName() != name || c.RecvType() == nil {
		return false
	}
	return recv(c06Val{c.Args()[0], val.occ, lv})
}

// noterInfo: f's only writes of mutationMap.deletes are `mm.deletes =
// append(mm.deletes, cl)` with mm and cl two of its parameters: the
// note-delete step (mutationMap.noteDelete today), recognised by what it does.
func (cx *c06Ctx) noterInfo(f *ssa.Function) (mmIdx, clIdx int, ok bool) {
	if f == nil || len(f.Blocks) == 0 {
		return 0, 0, false
	}
	mmIdx, clIdx = -1, -1
	paramIdx := func(v ssa.Value) int {
		prm, isP := originValue(v).(*ssa.Parameter)
		if !isP {
			return -1
		}
		for i, q := range f.Params {
			if q == prm {
				return i
			}
		}
		return -1
	}
	n := 0
	for _, b := range f.Blocks {
		for _, in := range b.Instrs {
			st, isSt := in.(*ssa.Store)
			if !isSt {
				continue
			}
			t, fld, base, isF := c06FieldOf(st.Addr)
			if !isF || t != cx.tMM || fld != "deletes" {
				continue
			}
			n++
			old, elem, isApp := c06AppendOne(st.Val)
			if !isApp {
				return 0, 0, false
			}
			t2, f2, b2, isL := c06LoadedField(old)
			if !isL || t2 != cx.tMM || f2 != "deletes" || !c06SamePlace(b2, base) {
				return 0, 0, false
			}
			mi, ci := paramIdx(base), paramIdx(elem)
			if mi < 0 || ci < 0 || (mmIdx >= 0 && (mi != mmIdx || ci != clIdx)) {
				return 0, 0, false
			}
			mmIdx, clIdx = mi, ci
		}
	}
	if n == 0 {
		return 0, 0, false
	}
	// a function that also puts 'deleted' rows is not the bare note step: its append is checked where it stands
	if cx.deletedPutReach().any[f] {
		return 0, 0, false
	}
	return mmIdx, clIdx, true
}

func (cx *c06Ctx) isNoter(f *ssa.Function) bool {
	_, _, ok := cx.noterInfo(f)
	return ok
}

func (cx *c06Ctx) deletedPutReach() *c06Reach {
	return cx.effReach("put:deleted", func(in ssa.Instruction) bool { _, _, ok := cx.deletedPut(in); return ok })
}

// deletedPut: in puts a 'deleted' row into a mutation map (mutationMap.Set, or
// a direct store into its kv map): returns the mutation map and the key.
func (cx *c06Ctx) deletedPut(in ssa.Instruction) (mm, key ssa.Value, ok bool) {
	delName := cx.keyName[c06Global(cx.pkg, "keyDeleted")]
	switch x := in.(type) {
	case *ssa.Call:
		c := CallSite{in.Parent(), x}
		f := c.Callee()
		if f == nil || f != cx.p.LookupFunc(c06Rel, "mutationMap", "Set") {
			return nil, nil, false
		}
		if k, isK := cx.kindOfKey(c.Args()[1]); isK && k.typ == delName {
			return c.Args()[0], c.Args()[1], true
		}
	case *ssa.MapUpdate:
		if n, f, base, isF := c06LoadedField(x.Map); isF && n == cx.tMM && f == "kv" {
			if k, isK := cx.kindOfKey(x.Key); isK && k.typ == delName {
				return base, x.Key, true
			}
		}
	}
	return nil, nil, false
}

// noteStoreParts: in is a store mm.deletes = append(mm.deletes, cl).
func (cx *c06Ctx) noteStoreParts(in ssa.Instruction) (mm, cl ssa.Value, ok bool) {
	st, isSt := in.(*ssa.Store)
	if !isSt {
		return nil, nil, false
	}
	t, fld, base, isF := c06FieldOf(st.Addr)
	if !isF || t != cx.tMM || fld != "deletes" {
		return nil, nil, false
	}
	_, elem, isApp := c06AppendOne(st.Val)
	if !isApp {
		return base, nil, true
	}
	return base, elem, true
}

// noteSiteOK: the occurrence notes a delete claim (a call of the note-delete
// step, or a direct append to mm.deletes): the matching 'deleted' row must have
// been put into the same mutation map before, in the effective body of the
// function or — when that is a helper — of every caller.
func (cx *c06Ctx) noteSiteOK(occ0 c06Occ) (bool, string) {
	var mm, cl ssa.Value
	if ci, isCall := occ0.in.(ssa.CallInstruction); isCall {
		c := CallSite{occ0.in.Parent(), ci}
		mi, cidx, ok := cx.noterInfo(c.Callee())
		if !ok {
			return false, "not a call of the note-delete step"
		}
		mm, cl = c.Args()[mi], c.Args()[cidx]
	} else {
		var ok bool
		mm, cl, ok = cx.noteStoreParts(occ0.in)
		if !ok || cl == nil {
			return false, "mutationMap.deletes is assigned something other than append(mm.deletes, claim)"
		}
	}
	gDeleted := c06Global(cx.pkg, "keyDeleted")
	// keyAgrees: the 'deleted' row put at s describes claim cl: parts are
	// cl.Target(), cl.ClaimDateString(), cl.Blob().BlobRef() — the order in which
	// kvDeleted (load) reads target/date/deleter and in which the live updaters
	// take them from the claim.
	keyAgrees := func(s c06Occ, key ssa.Value, occ c06Occ) (bool, string) {
		kv, klv := s.up(key, s.leafLevel())
		kc, ok := originValue(kv).(*ssa.Call)
		if !ok {
			return false, "the 'deleted' key is not built by keyDeleted.Key(...)"
		}
		if g, ok := cx.keyGlobalOf(kc.Call.Args[0]); !ok || g != gDeleted {
			return false, "the 'deleted' key is not built by keyDeleted.Key(...)"
		}
		parts := c06VarargElems(kc.Call.Args[len(kc.Call.Args)-1])
		if len(parts) != 3 {
			return false, "cannot read the three parts of the keyDeleted key"
		}
		claim := occ.leafVal(cl)
		onClaim := func(v c06Val) bool { return c06SameVal(v, claim) }
		part := func(i int) c06Val { return c06Val{parts[i], s, klv} }
		if !c06MethodCallOnVal(part(0), "Target", onClaim) {
			return false, "part 1 of the 'deleted' row (the deleted entity, which a restart reads as the target) is not Target() of the claim handed to noteDelete: the restart path and the live caches record different deletions"
		}
		if !c06MethodCallOnVal(part(1), "ClaimDateString", onClaim) {
			return false, "part 2 of the 'deleted' row (the date a restart reads) is not ClaimDateString() of the claim handed to noteDelete"
		}
		if !c06MethodCallOnVal(part(2), "BlobRef", func(b c06Val) bool { return c06MethodCallOnVal(b, "Blob", onClaim) }) {
			return false, "part 3 of the 'deleted' row (the deleter a restart reads) is not Blob().BlobRef() of the claim handed to noteDelete"
		}
		return true, ""
	}
	return cx.climb(occ0, 0, func(occ c06Occ) (bool, string) {
		why := "mm.noteDelete runs although no 'deleted' row was put into the same mutation map on this path: the live deletion caches (index and corpus) report a deletion that a restart, which reads only the rows, does not"
		cx.deletedPutReach()
		for _, s := range cx.effFind(occ.root, "put:deleted", func(in ssa.Instruction) bool { _, _, ok := cx.deletedPut(in); return ok }) {
			smm, key, _ := cx.deletedPut(s.in)
			if !c06SameVal(s.leafVal(smm), occ.leafVal(mm)) {
				continue
			}
			if ok, w := cx.before(s, occ, nil, true); !ok {
				if len(s.chain) > 0 {
					why = "mm.noteDelete runs after a call of " + c06FnName(s.chain[0].callee) + " that does not always put the 'deleted' row (" + w + "): the live deletion caches (index and corpus) then report a deletion that a restart, which reads only the rows, does not"
				}
				continue
			}
			ok, w := keyAgrees(s, key, occ)
			if ok {
				return true, ""
			}
			why = w
		}
		return false, why
	})
}

func c06RuleDeleteRow(cx *c06Ctx) {
	const rule = "K-delete-row"
	p, r := cx.p, cx.r
	n := 0
	// the note-delete step(s), by role
	var noters []*ssa.Function
	for _, fn := range cx.fns {
		if cx.isNoter(fn) {
			noters = append(noters, fn)
		}
	}
	for _, noter := range noters {
		for _, c := range p.StaticCallers(noter) {
			n++
			construct := FuncKey(c.Fn) + "#" + noter.Name()
			ok, why := cx.noteSiteOK(c06Occ{root: c.Fn, in: c.Instr})
			r.Check(ok, rule, construct, p.Pos(c.Pos()), "dominated by mm.Set(keyDeleted.Key(cl.Target(), cl.ClaimDateString(), cl.Blob().BlobRef())) on the same mutation map (directly, or through a successful call all of whose success returns are)", why)
		}
		if uses := p.FuncValueUses(noter); len(uses) > 0 {
			r.Undecided(rule, FuncKey(noter)+"#value", p.Pos(uses[0].Pos()), noter.Name()+" is used as a function value")
		}
	}
	// direct appends to mm.deletes outside a note step (the step inlined into its caller)
	for _, fn := range cx.fns {
		if cx.isNoter(fn) {
			continue
		}
		for _, b := range fn.Blocks {
			for _, in := range b.Instrs {
				mm, _, ok := cx.noteStoreParts(in)
				if !ok || c06Fresh(mm, fn) {
					continue
				}
				n++
				ok, why := cx.noteSiteOK(c06Occ{root: fn, in: in})
				r.Check(ok, rule, FuncKey(fn)+"#noteDelete", p.Pos(in.Pos()), "the claim is appended to mm.deletes where the matching 'deleted' row was put into the same mutation map", why)
			}
		}
	}
	// converse: a 'deleted' row in mm is always followed by the note-delete step on the same mm
	isNote := func(in ssa.Instruction, vals []ssa.Value) bool {
		if vals[0] == nil {
			return false
		}
		switch x := in.(type) {
		case *ssa.Call, *ssa.Defer:
			c := CallSite{in.Parent(), x.(ssa.CallInstruction)}
			if mi, _, ok := cx.noterInfo(c.Callee()); ok {
				return c06SamePlace(c.Args()[mi], vals[0])
			}
		case *ssa.Store:
			if mm, _, ok := cx.noteStoreParts(x); ok && !cx.isNoter(in.Parent()) {
				return c06SamePlace(mm, vals[0])
			}
		}
		return false
	}
	for _, fn := range cx.fns {
		for _, b := range fn.Blocks {
			for _, in := range b.Instrs {
				mm, _, ok := cx.deletedPut(in)
				if !ok {
					continue
				}
				if ci, isCI := in.(ssa.CallInstruction); isCI {
					if _, plain := ci.(*ssa.Call); !plain {
						continue
					}
				}
				n++
				q := &c06PathQ{cx: cx, stop: isNote, climbUp: true}
				leaks := q.from(in, []ssa.Value{mm})
				detail := ""
				if len(leaks) > 0 {
					detail = fmt.Sprintf("a 'deleted' row is put into the mutation map but the exit of %s at line %d is reached without mm.noteDelete: the row is committed while the live index/corpus deletion caches never learn of it (a restart does)", c06FnName(leaks[0].exit.Parent()), p.Fset.Position(leaks[0].exit.Pos()).Line)
				}
				r.Check(len(leaks) == 0, rule, FuncKey(fn)+"#deleted-row", p.Pos(in.Pos()), "every path from the 'deleted' row to an exit passes mm.noteDelete on the same mutation map", detail)
			}
		}
	}
	r.Analysed("delete_row_sites", n)
	r.Floor(rule, 2)
}

// ---------------------------------------------------------------------------
// K-live

// c06DirectExceptions: functions that write slurped row kinds straight to the
// store. One symbol, one reason; the reason is re-checked structurally.
var c06DirectExceptions = map[string]string{
	"pkg/index.(*Index).fixMissingWholeRef": "offline schema 4->5 upgrade of 'fileinfo' rows; runs on an Index whose New failed with errMissingWholeRef, and every caller re-opens the index with New afterwards (re-checked), so no live cache or corpus has seen the old rows",
}

func c06RuleLive(cx *c06Ctx) {
	const rule = "K-live"
	p, r := cx.p, cx.r
	commit := p.Func(c06Rel, "Index", "commit")
	addBlob := p.Func(c06Rel, "Corpus", "addBlob")
	n := 0

	isCommitCall := func(c CallSite) bool { return c.Callee() == commit && c.Value() != nil }
	isCB := func(c CallSite) bool { return c06IsKVInvoke(c, "CommitBatch") && c.Value() != nil }
	isBegin := func(c CallSite) bool { return c06IsKVInvoke(c, "BeginBatch") && c.Value() != nil }

	// (a) callers of addBlob. The caller's effective body counts, and when the
	// caller is itself a helper, so does every one of its callers (climb).
	for _, c := range p.StaticCallers(addBlob) {
		n++
		construct := FuncKey(c.Fn) + "#addBlob"
		site := p.Pos(c.Pos())
		args := c.Args()
		mm := args[len(args)-1]
		ok, bad := cx.climb(c06Occ{root: c.Fn, in: c.Instr}, 0, func(occ c06Occ) (bool, string) {
			var commitOcc *c06Occ
			why := "corpus.addBlob is not dominated by a successful ix.commit of the same mutation map: the corpus merges rows that were not (or not yet, or not these) persisted"
			for _, cc := range cx.effCalls(occ.root, "call:commit", isCommitCall) {
				ccArgs := (CallSite{cc.in.Parent(), cc.in.(ssa.CallInstruction)}).Args()
				if !c06SameVal(cc.leafVal(ccArgs[1]), occ.leafVal(mm)) {
					continue
				}
				if ok, _ := cx.before(cc, occ, nil, true); ok {
					cc := cc
					commitOcc = &cc
					break
				}
			}
			if commitOcc == nil {
				return false, why
			}
			ccArgs := (CallSite{commitOcc.in.Parent(), commitOcc.in.(ssa.CallInstruction)}).Args()
			cv, lv := occ.up(args[0], occ.leafLevel())
			n2, f, base, isField := c06LoadedField(cv)
			if !isField || n2 != cx.tIndex || f != "corpus" || !c06SameVal(c06Val{base, occ, lv}, commitOcc.leafVal(ccArgs[0])) {
				return false, "the corpus updated is not the corpus field of the index whose rows were committed"
			}
			// the write lock of that index, held where the index is named and not released further down
			held := func(o c06Occ, ixv ssa.Value, level int, what string) string {
				ixv, level = o.up(ixv, level)
				ap := AccessPath(ixv)
				if strings.HasPrefix(ap, "?") || strings.HasPrefix(ap, "&") {
					return what + ": cannot name the index whose lock must be held"
				}
				lock := "&" + ap + ".mu"
				at := o.rep(level)
				if ls := cx.locksAt(at); ls[lock] != 'W' {
					return what + " runs without the index write lock " + lock + " (held: " + ls.String() + ")"
				}
				for j := level + 1; j <= o.leafLevel(); j++ {
					for _, hc := range CallsIn(o.fnAt(j), false) {
						if op, _, isLock := lockEffect(hc); isLock && (op == "Unlock" || op == "RUnlock") && Precedes(hc.Instr, o.rep(j)) {
							return what + " runs in " + c06FnName(o.fnAt(j)) + ", which releases a lock before it: the index write lock cannot be followed"
						}
					}
				}
				return ""
			}
			if msg := held(occ, base, lv, "corpus.addBlob"); msg != "" {
				return false, msg + ": readers under RLock can observe a half-merged corpus that no restart would produce"
			}
			if msg := held(*commitOcc, ccArgs[0], commitOcc.leafLevel(), "ix.commit"); msg != "" {
				return false, msg + ": rows and corpus are not updated atomically with respect to readers"
			}
			return true, ""
		})
		r.Check(ok, rule, construct, site, "same mutation map as the dominating successful commit, same index's corpus, under the index write lock", bad)
	}
	if uses := p.FuncValueUses(addBlob); len(uses) > 0 {
		r.Undecided(rule, FuncKey(addBlob)+"#value", p.Pos(uses[0].Pos()), "addBlob is used as a function value")
	}

	// (b) callers of commit: success paths reach addBlob unless the corpus is nil
	for _, cc := range p.StaticCallers(commit) {
		n++
		fn := cc.Fn
		construct := FuncKey(fn) + "#commit"
		q := &c06PathQ{
			cx: cx,
			stop: func(in ssa.Instruction, vals []ssa.Value) bool {
				ci, ok := in.(*ssa.Call)
				if !ok {
					return false
				}
				c := CallSite{in.Parent(), ci}
				a := c.Args()
				return c.Callee() == addBlob && len(a) > 0 && vals[0] != nil && c06SamePlace(a[len(a)-1], vals[0])
			},
			assume: func(cond ssa.Value) (bool, bool) {
				bo, ok := cond.(*ssa.BinOp)
				if !ok || (bo.Op != token.NEQ && bo.Op != token.EQL) {
					return false, false
				}
				var other ssa.Value
				switch {
				case IsNilConst(bo.Y):
					other = bo.X
				case IsNilConst(bo.X):
					other = bo.Y
				default:
					return false, false
				}
				if n2, f, _, ok := c06LoadedField(other); ok && n2 == cx.tIndex && f == "corpus" {
					return true, bo.Op == token.NEQ // explore the corpus != nil side only
				}
				return false, false
			},
			errorExitsOK: true,
			climbUp:      true,
		}
		leaks := q.from(cc.Instr, []ssa.Value{cc.Args()[1]})
		detail := ""
		if len(leaks) > 0 {
			detail = fmt.Sprintf("after ix.commit(mm) the success return of %s at line %d is reachable with a non-nil corpus without corpus.addBlob(mm): committed rows that the live corpus never merges (a restart scans them)", c06FnName(leaks[0].exit.Parent()), p.Fset.Position(leaks[0].exit.Pos()).Line)
		}
		r.Check(len(leaks) == 0, rule, construct, p.Pos(cc.Pos()), "every success path after commit passes corpus.addBlob with the same mutation map (corpus != nil)", detail)
	}
	if uses := p.FuncValueUses(commit); len(uses) > 0 {
		r.Undecided(rule, FuncKey(commit)+"#value", p.Pos(uses[0].Pos()), "commit is used as a function value")
	}

	// (c) inside commit (effective body): batch carries mm.kv, success only after CommitBatch
	{
		n++
		cbs := cx.effCalls(commit, "call:CommitBatch", isCB)
		begins := cx.effCalls(commit, "call:BeginBatch", isBegin)
		construct := FuncKey(commit) + "#batch"
		rootOcc := c06Occ{root: commit}
		if len(cbs) == 0 || len(begins) != 1 {
			r.Violation(rule, construct, p.Pos(commit.Pos()), "commit no longer writes the mutation map through one BeginBatch and CommitBatch")
		} else {
			begin := begins[0]
			beginVal := begin.leafVal(begin.in.(*ssa.Call))
			bad := ""
			for _, cb := range cbs {
				if !c06SameVal(cb.leafVal(cb.in.(*ssa.Call).Call.Args[0]), beginVal) {
					bad = "the batch committed is not the batch begun"
				}
			}
			_, conduits := cx.rowWritesCached()
			isConduit := map[ssa.Instruction]bool{}
			for _, s := range conduits {
				isConduit[s.Instr] = true
			}
			found := false
			for _, so := range cx.effFind(commit, "", func(in ssa.Instruction) bool { return isConduit[in] }) {
				s := CallSite{so.in.Parent(), so.in.(ssa.CallInstruction)}
				a := s.Args()
				km, ik, okk := c06RangeMapOf(originValue(a[1]))
				vm, iv, okv := c06RangeMapOf(originValue(a[2]))
				if !okk || !okv || ik != 1 || iv != 2 || km != vm {
					bad = "the batch does not receive the (k, v) pairs of mm.kv unchanged"
					continue
				}
				kmU, kmL := so.up(km, so.leafLevel())
				if n2, _, base, ok := c06LoadedField(kmU); !ok || n2 != cx.tMM || !c06SameVal(c06Val{base, so, kmL}, c06Val{commit.Params[1], rootOcc, 0}) {
					bad = "the rows put into the batch are not those of the mutation map given to commit"
					continue
				}
				if !c06SameVal(so.leafVal(a[0]), beginVal) {
					bad = "the rows are put into a different batch than the one committed"
					continue
				}
				for _, cb := range cbs {
					k := cb.common(so)
					if ReachableFrom(cb.rep(k), nil)[so.rep(k)] {
						bad = "rows are added to the batch after it was committed"
					}
				}
				for j := 0; j <= so.leafLevel(); j++ {
					for _, f := range FactsAt(so.rep(j).Block()) {
						if !c06IsLoopCond(f.Cond) {
							bad = "rows of mm.kv are put into the batch only conditionally, while corpus.addBlob merges all of them"
						}
					}
				}
				for _, l := range so.chain {
					if !l.direct {
						bad = "rows of mm.kv are put into the batch by a deferred / asynchronous call"
					}
				}
				found = true
			}
			if !found && bad == "" {
				bad = "commit does not put the rows of mm.kv into the batch"
			}
			r.Check(bad == "", rule, construct, p.Pos(cbs[0].in.Pos()), "every (k, v) of mm.kv is put unchanged into the batch that CommitBatch persists", bad)
			n++
			bad = ""
			for _, nr := range MaybeNilErrorReturns(commit) {
				retOcc := c06Occ{root: commit, in: c06LastInstr(nr.From)}
				ok, _, why := cx.anyBefore(cbs, retOcc, nr.Val, true)
				if !ok {
					bad = fmt.Sprintf("commit can return nil (line %d) although CommitBatch did not succeed (%s): ReceiveBlob then feeds the corpus rows that are not persisted", p.Fset.Position(nr.Ret.Pos()).Line, why)
				}
			}
			r.Check(bad == "", rule, FuncKey(commit)+"#success", p.Pos(cbs[0].in.Pos()), "every nil return of commit is dominated by a successful CommitBatch (or is CommitBatch's own error)", bad)
		}
	}

	// (e) addBlob applies the whole mutation map: no success return bypasses the
	// merge of mm.kv or of mm.deletes
	{
		n++
		construct := FuncKey(addBlob) + "#merges-all"
		mmParam := addBlob.Params[len(addBlob.Params)-1]
		rootOcc := c06Occ{root: addBlob}
		ofMM := func(o c06Occ, base ssa.Value) bool {
			return c06SameVal(o.leafVal(base), c06Val{mmParam, rootOcc, 0})
		}
		var kvLoops, delLoops []c06Occ
		for _, o := range cx.effFind(addBlob, "mm.kv-range", func(in ssa.Instruction) bool {
			x, ok := in.(*ssa.Range)
			if !ok {
				return false
			}
			n2, f, _, ok := c06LoadedField(x.X)
			return ok && n2 == cx.tMM && f == "kv"
		}) {
			if _, _, base, _ := c06LoadedField(o.in.(*ssa.Range).X); ofMM(o, base) {
				kvLoops = append(kvLoops, o)
			}
		}
		for _, o := range cx.effFind(addBlob, "mm.deletes-load", func(in ssa.Instruction) bool {
			x, ok := in.(*ssa.UnOp)
			if !ok || x.Op != token.MUL {
				return false
			}
			n2, f, _, ok := c06FieldOf(x.X)
			if !ok || n2 != cx.tMM || f != "deletes" {
				return false
			}
			// the slice is iterated (an element is read, or it is ranged/handed on), not merely measured
			for _, ref := range *x.Referrers() {
				switch u := ref.(type) {
				case *ssa.IndexAddr, *ssa.Index, *ssa.Range, *ssa.Slice:
					return true
				case *ssa.Call:
					bi, isBuiltin := u.Call.Value.(*ssa.Builtin)
					if !isBuiltin {
						return true
					}
					// len(mm.deletes) bounding a loop (index loop, range over int)
					if bi.Name() == "len" && u.Referrers() != nil {
						for _, r2 := range *u.Referrers() {
							if bo, isBO := r2.(*ssa.BinOp); isBO && inLoop(bo.Block()) {
								if _, isIf := c06LastInstr(bo.Block()).(*ssa.If); isIf {
									return true
								}
							}
						}
					}
				}
			}
			return false
		}) {
			if _, _, base, _ := c06FieldOf(o.in.(*ssa.UnOp).X); ofMM(o, base) {
				delLoops = append(delLoops, o)
			}
		}
		if len(kvLoops) == 0 || len(delLoops) == 0 {
			r.Violation(rule, construct, p.Pos(addBlob.Pos()), "addBlob does not range over mm.kv and mm.deletes of the mutation map it is given")
		} else {
			nbad := 0
			for _, nr := range MaybeNilErrorReturns(addBlob) {
				retOcc := c06Occ{root: addBlob, in: c06LastInstr(nr.From)}
				okKV, _, _ := cx.anyBefore(kvLoops, retOcc, nr.Val, true)
				okDel, _, _ := cx.anyBefore(delLoops, retOcc, nr.Val, true)
				if okKV && okDel {
					continue
				}
				nbad++
				// one obligation per bypassing return, keyed by the guard that selects it (no positions)
				r.Violation(rule, construct+"@"+c06GuardKey(nr.From), p.Pos(nr.Ret.Pos()),
					fmt.Sprintf("addBlob can return nil (line %d) without having merged mm.kv and mm.deletes: rows that commit just persisted never reach the live corpus, while a restart scans them", p.Fset.Position(nr.Ret.Pos()).Line))
			}
			if nbad == 0 {
				r.OK(rule, construct, p.Pos(addBlob.Pos()), "every success return of addBlob comes after the merge loops over mm.kv and mm.deletes")
			}
		}
	}

	// (d) no slurped row kind (nor 'deleted') is written to the store behind commit
	writes, _ := cx.rowWritesCached()
	gDeleted := c06Global(cx.pkg, "keyDeleted")
	newFn := p.Func(c06Rel, "", "New")
	seen := map[string]bool{}
	for _, w := range writes {
		if !w.direct {
			continue
		}
		construct := FuncKey(w.fn) + "#direct:" + w.kind.typ
		if seen[construct] {
			continue
		}
		seen[construct] = true
		n++
		_, slurped := cx.slurpSet[w.kind.typ]
		if !slurped && w.kind.typ != cx.keyName[gDeleted] {
			r.OKTable(rule, construct, p.Pos(w.pos), "direct "+w.op+" of an index-only row kind (not merged by the corpus, not cached in Index.deletes)")
			continue
		}
		why, excepted := c06DirectExceptions[FuncKey(w.fn)]
		checkFns := []*ssa.Function{w.fn}
		if !excepted {
			// a helper extracted from an excepted function: all its callers are (helpers of) excepted functions
			if owners, ok := cx.helperOf(w.fn, func(f *ssa.Function) bool { _, e := c06DirectExceptions[FuncKey(f)]; return e }, 0); ok {
				excepted, checkFns = true, owners
				why = "helper of " + c06FuncKeys(owners) + ": " + c06DirectExceptions[FuncKey(owners[0])]
			}
		}
		if !excepted {
			r.Violation(rule, construct, p.Pos(w.pos), fmt.Sprintf("a row of kind %q is written straight to the index's sorted.KeyValue (%s), bypassing commit: the live corpus/caches never merge it while a restart loads it", w.kind.typ, w.op))
			continue
		}
		// re-check the reason: every caller passes index.New on all later success paths
		bad := ""
		for _, xf := range checkFns {
			callers := p.StaticCallers(xf)
			if len(callers) == 0 || len(p.FuncValueUses(xf)) > 0 {
				bad = "callers cannot be enumerated"
			}
			for _, c := range callers {
				q := &c06PathQ{
					cx: cx,
					stop: func(in ssa.Instruction, _ []ssa.Value) bool {
						ci, ok := in.(ssa.CallInstruction)
						return ok && (CallSite{in.Parent(), ci}).Callee() == newFn
					},
					errorExitsOK: true,
					climbUp:      true,
				}
				if leaks := q.from(c.Instr, nil); len(leaks) > 0 {
					bad = fmt.Sprintf("%s can return successfully after %s without re-opening the index with New", FuncKey(leaks[0].exit.Parent()), FuncKey(xf))
				}
			}
		}
		r.Check(bad == "", rule, construct, p.Pos(w.pos), "exception: "+why, "exception no longer justified: "+bad)
	}
	r.Analysed("live_sites", n)
	r.Floor(rule, 10)
}

var c06RowCache struct {
	cx       *c06Ctx
	writes   []c06RowWrite
	conduits []CallSite
}

// rowWritesCached avoids reporting the Undecided obligations of rowWrites twice.
func (cx *c06Ctx) rowWritesCached() ([]c06RowWrite, []CallSite) {
	if c06RowCache.cx != cx {
		w, c := cx.rowWrites()
		c06RowCache.cx, c06RowCache.writes, c06RowCache.conduits = cx, w, c
	}
	return c06RowCache.writes, c06RowCache.conduits
}

// ---------------------------------------------------------------------------
// Effective bodies (robustness to extract-helper / split-function /
// closure→method / inline refactorings).
//
// A rule that looks for a site "in function F" looks in F's effective body: F
// plus, transitively (depth c06EffDepth), the unexported functions/methods of
// pkg/index and the function literals that F calls statically. An occurrence
// records the call chain from F down to the instruction, so that a parameter
// of a helper stands for the caller's argument and ordering facts (P precedes
// Q, P succeeded before Q) are carried across the calls.

const c06EffDepth = 4

// c06Link is one step of a call chain: call (an instruction of the caller)
// enters callee. direct: a plain synchronous static call — the callee runs
// exactly once, to completion, at this instruction (not go/defer, not a
// literal merely passed as an argument).
type c06Link struct {
	call   ssa.Instruction // the call; for a literal that is only created here (returned, stored): the instruction creating it
	callee *ssa.Function
	direct bool
	passed bool // the callee is a literal handed on as a value (argument, result, stored): its parameters are supplied by someone else, it runs later, maybe never
}

// c06Occ is an instruction in the effective body of root, reached through chain.
type c06Occ struct {
	root  *ssa.Function
	in    ssa.Instruction
	chain []c06Link
}

func (o c06Occ) fnAt(level int) *ssa.Function {
	if level == 0 {
		return o.root
	}
	return o.chain[level-1].callee
}

// rep is the instruction of the function at `level` that stands for the occurrence.
func (o c06Occ) rep(level int) ssa.Instruction {
	if level < len(o.chain) {
		return o.chain[level].call
	}
	return o.in
}

func (o c06Occ) top() ssa.Instruction { return o.rep(0) }

func (o c06Occ) leafLevel() int { return len(o.chain) }

// common is the number of leading links two occurrences (of one root) share.
func (o c06Occ) common(b c06Occ) int {
	k := 0
	for k < len(o.chain) && k < len(b.chain) && o.chain[k].call == b.chain[k].call && o.chain[k].callee == b.chain[k].callee {
		k++
	}
	return k
}

func (o c06Occ) describe() string {
	if len(o.chain) == 0 {
		return FuncKey(o.root)
	}
	parts := []string{FuncKey(o.root)}
	for _, l := range o.chain {
		parts = append(parts, c06FnName(l.callee))
	}
	return strings.Join(parts, " -> ")
}

// isHelper: f may be treated as a part of the bodies of its static callers.
func (cx *c06Ctx) isHelper(f *ssa.Function) bool {
	if f == nil || len(f.Blocks) == 0 {
		return false
	}
	if f.Parent() != nil {
		return true
	}
	if f.Pkg != cx.pkg || f.Synthetic != "" {
		return false
	}
	return !token.IsExported(f.Name())
}

// helperLinks lists the helper calls of f (not of its nested literals: those
// are reached through the links that invoke them).
func (cx *c06Ctx) helperLinks(f *ssa.Function) []c06Link {
	if cx.linkCache == nil {
		cx.linkCache = map[*ssa.Function][]c06Link{}
	}
	if l, ok := cx.linkCache[f]; ok {
		return l
	}
	var out []c06Link
	for _, c := range CallsIn(f, false) {
		if callee := c.Callee(); cx.isHelper(callee) {
			_, plain := c.Instr.(*ssa.Call)
			out = append(out, c06Link{call: c.Instr, callee: callee, direct: plain})
		}
		for _, lit := range FuncArgClosures(c) {
			if len(lit.Blocks) > 0 {
				out = append(out, c06Link{call: c.Instr, callee: lit, passed: true})
			}
		}
	}
	// literals that are neither called nor handed to a call here (returned, stored in a variable that escapes)
	linked := map[*ssa.Function]bool{}
	for _, l := range out {
		linked[l.callee] = true
	}
	for _, b := range f.Blocks {
		for _, in := range b.Instrs {
			var lit *ssa.Function
			if mc, ok := in.(*ssa.MakeClosure); ok {
				lit, _ = mc.Fn.(*ssa.Function)
			} else {
				for _, op := range in.Operands(nil) {
					if fv, ok := (*op).(*ssa.Function); ok && fv.Parent() == f {
						lit = fv
					}
				}
			}
			if lit != nil && !linked[lit] && len(lit.Blocks) > 0 {
				linked[lit] = true
				out = append(out, c06Link{call: in, callee: lit, passed: true})
			}
		}
	}
	cx.linkCache[f] = out
	return out
}

type c06Reach struct {
	direct, any map[*ssa.Function]bool
}

// effReach: which functions of pkg/index contain (direct) / can reach through
// helper links (any) an instruction satisfying pred. key != "" caches.
func (cx *c06Ctx) effReach(key string, pred func(ssa.Instruction) bool) *c06Reach {
	if cx.reachCache == nil {
		cx.reachCache = map[string]*c06Reach{}
	}
	if key != "" {
		if r, ok := cx.reachCache[key]; ok {
			return r
		}
	}
	r := &c06Reach{direct: map[*ssa.Function]bool{}, any: map[*ssa.Function]bool{}}
	for _, f := range cx.fns {
	scan:
		for _, b := range f.Blocks {
			for _, in := range b.Instrs {
				if pred(in) {
					r.direct[f], r.any[f] = true, true
					break scan
				}
			}
		}
	}
	for changed := true; changed; {
		changed = false
		for _, f := range cx.fns {
			if r.any[f] {
				continue
			}
			for _, l := range cx.helperLinks(f) {
				if r.any[l.callee] {
					r.any[f], changed = true, true
					break
				}
			}
		}
	}
	if key != "" {
		cx.reachCache[key] = r
	}
	return r
}

// effFind enumerates the occurrences of instructions satisfying pred in the
// effective body of root.
func (cx *c06Ctx) effFind(root *ssa.Function, key string, pred func(ssa.Instruction) bool) []c06Occ {
	reach := cx.effReach(key, pred)
	var out []c06Occ
	var walk func(f *ssa.Function, chain []c06Link)
	walk = func(f *ssa.Function, chain []c06Link) {
		if !reach.any[f] {
			return
		}
		if reach.direct[f] {
			for _, b := range f.Blocks {
				for _, in := range b.Instrs {
					if pred(in) {
						out = append(out, c06Occ{root: root, in: in, chain: append([]c06Link(nil), chain...)})
					}
				}
			}
		}
		if len(chain) >= c06EffDepth {
			return
		}
	links:
		for _, l := range cx.helperLinks(f) {
			if !reach.any[l.callee] || l.callee == root {
				continue
			}
			for _, c := range chain {
				if c.callee == l.callee {
					continue links
				}
			}
			walk(l.callee, append(chain, l))
		}
	}
	walk(root, nil)
	return out
}

// effCalls: the call sites (in the effective body of root) whose static callee is one of fns.
func (cx *c06Ctx) effCalls(root *ssa.Function, key string, match func(CallSite) bool) []c06Occ {
	return cx.effFind(root, key, func(in ssa.Instruction) bool {
		ci, ok := in.(ssa.CallInstruction)
		return ok && match(CallSite{in.Parent(), ci})
	})
}

func c06OwnerFn(v ssa.Value) *ssa.Function {
	switch x := v.(type) {
	case *ssa.Parameter:
		return x.Parent()
	case *ssa.FreeVar:
		return x.Parent()
	case ssa.Instruction:
		return x.Parent()
	}
	return nil
}

// up resolves value v, which lives in the function at `level` of the
// occurrence, towards the root: a parameter of a statically called helper is
// replaced by the caller's argument; a value a literal captured from an
// enclosing function is taken to that function's level.
func (o c06Occ) up(v ssa.Value, level int) (ssa.Value, int) {
	for i := 0; i < 16; i++ {
		ov := originValue(v)
		if owner := c06OwnerFn(ov); owner != nil && owner != o.fnAt(level) {
			found := -1
			for j := level - 1; j >= 0; j-- {
				if o.fnAt(j) == owner {
					found = j
					break
				}
			}
			if found < 0 {
				return v, level
			}
			v, level = ov, found
			continue
		}
		prm, ok := ov.(*ssa.Parameter)
		if !ok || level == 0 {
			return v, level
		}
		l := o.chain[level-1]
		if l.passed || prm.Parent() != l.callee {
			return v, level
		}
		args := (CallSite{o.fnAt(level - 1), l.call.(ssa.CallInstruction)}).Args()
		idx := -1
		for i, q := range l.callee.Params {
			if q == prm {
				idx = i
			}
		}
		if idx < 0 || idx >= len(args) {
			return v, level
		}
		v, level = args[idx], level-1
	}
	return v, level
}

// c06Val is a value together with the occurrence (and level) it lives in.
type c06Val struct {
	v     ssa.Value
	occ   c06Occ
	level int
}

func (o c06Occ) leafVal(v ssa.Value) c06Val { return c06Val{v, o, o.leafLevel()} }

// sameVal: the two values denote the same run-time value: resolved upwards they
// meet in one activation (a shared chain prefix) at the same place.
func c06SameVal(a, b c06Val) bool {
	ua, la := a.occ.up(a.v, a.level)
	ub, lb := b.occ.up(b.v, b.level)
	if a.occ.root != b.occ.root {
		return false
	}
	return la == lb && la <= a.occ.common(b.occ) && c06SamePlace(ua, ub)
}

// succReturns: the returns of h that may report success (all returns when h has no error result).
func c06SuccReturns(h *ssa.Function, successOnly bool) []NilReturn {
	if successOnly && ErrResultIndex(h) >= 0 {
		return MaybeNilErrorReturns(h)
	}
	var out []NilReturn
	idx := ErrResultIndex(h)
	for _, ri := range Returns(h) {
		nr := NilReturn{Ret: ri.Ret, From: ri.Ret.Block()}
		if idx >= 0 {
			nr.Val = ri.Results[idx]
		}
		out = append(out, nr)
	}
	return out
}

// c06DoneAt: instruction x has been executed (and, with success, did not fail)
// on every path to site; retVal != nil: site is a return of that error value
// (returning x's own error counts: the return reports success only if x succeeded).
func c06DoneAt(x, site ssa.Instruction, retVal ssa.Value, success bool) (bool, string) {
	call, isCall := x.(*ssa.Call)
	if _, isCI := x.(ssa.CallInstruction); isCI && !isCall {
		return false, "the call is deferred or started with go: it has not completed at the site"
	}
	if success && isCall && retVal != nil {
		if ev, _, _ := ErrValue(call); ev != nil && sameOrigin(retVal, ev) {
			return true, ""
		}
	}
	if x == site || !Precedes(x, site) {
		return false, "does not precede the site on every path"
	}
	if success && isCall {
		return SuccessDominates(call, site)
	}
	return true, ""
}

// before: occurrence a has been executed — with success: and every call on the
// way down to it, and a itself if it is a call, returned a nil error — on every
// path to occurrence b (retVal: b is a return of that error value).
func (cx *c06Ctx) before(a, b c06Occ, retVal ssa.Value, success bool) (bool, string) {
	if a.root != b.root {
		return false, "different roots"
	}
	k := a.common(b)
	ia, ib := a.rep(k), b.rep(k)
	if ia == ib {
		return false, "same instruction"
	}
	var rv ssa.Value
	if k == b.leafLevel() {
		rv = retVal
	}
	for j := k; j < len(a.chain); j++ {
		if !a.chain[j].direct {
			return false, "reached only through a go/defer/callback of " + c06FnName(a.chain[j].callee)
		}
	}
	if ok, why := c06DoneAt(ia, ib, rv, success); !ok {
		return false, why
	}
	for j := k + 1; j <= len(a.chain); j++ {
		h := a.fnAt(j)
		inner := a.rep(j)
		rets := c06SuccReturns(h, success)
		if len(rets) == 0 && len(Returns(h)) == 0 {
			return false, c06FnName(h) + " never returns"
		}
		for _, nr := range rets {
			if ok, why := c06DoneAt(inner, c06LastInstr(nr.From), nr.Val, success); !ok {
				return false, fmt.Sprintf("%s can return%s (line %d) without it: %s", c06FnName(h), map[bool]string{true: " successfully", false: ""}[success], cx.p.Fset.Position(nr.Ret.Pos()).Line, why)
			}
		}
	}
	return true, ""
}

// anyBefore: some occurrence of as is before b.
func (cx *c06Ctx) anyBefore(as []c06Occ, b c06Occ, retVal ssa.Value, success bool) (bool, c06Occ, string) {
	why := "no such site in the effective body"
	for _, a := range as {
		ok, w := cx.before(a, b, retVal, success)
		if ok {
			return true, a, ""
		}
		why = w
	}
	return false, c06Occ{}, why
}

// enumerableCallers: every use of helper f is a static call (so StaticCallers is complete).
func (cx *c06Ctx) enumerableCallers(f *ssa.Function) ([]CallSite, bool) {
	if !cx.isHelper(f) {
		return nil, false
	}
	if cx.callersCache == nil {
		cx.callersCache = map[*ssa.Function]*c06Callers{}
	}
	if c, ok := cx.callersCache[f]; ok {
		return c.sites, c.ok
	}
	res := &c06Callers{}
	cx.callersCache[f] = res
	sites := cx.p.StaticCallers(f)
	if len(sites) == 0 {
		return nil, false
	}
	if f.Parent() == nil {
		if len(cx.p.FuncValueUses(f)) > 0 {
			return nil, false
		}
		if f.Signature.Recv() != nil && len(cx.p.InvokeSites(f)) > 0 {
			return nil, false
		}
	} else if !c06LiteralOnlyCalled(f) {
		return nil, false
	}
	res.sites, res.ok = sites, true
	return sites, true
}

type c06Callers struct {
	sites []CallSite
	ok    bool
}

// c06LiteralOnlyCalled: every use of the function literal lit is in callee
// position of a call/go/defer (possibly through a plain local variable).
func c06LiteralOnlyCalled(lit *ssa.Function) bool {
	parent := lit.Parent()
	if parent == nil {
		return false
	}
	ok := true
	seen := map[ssa.Value]bool{}
	var uses func(v ssa.Value)
	classify := func(v ssa.Value, r ssa.Instruction) {
		switch r := r.(type) {
		case ssa.CallInstruction:
			if r.Common().Value != v {
				ok = false
			}
			for _, a := range r.Common().Args {
				if a == v {
					ok = false
				}
			}
		case *ssa.Store:
			if r.Val != v {
				return
			}
			cell, isVar := varOf(r.Addr)
			al, isAl := cell.(*ssa.Alloc)
			if !isVar || !isAl || !plainVariable(al) {
				ok = false
				return
			}
			followVar(al, func(ld *ssa.UnOp) { uses(ld) })
		case *ssa.Phi, *ssa.ChangeType:
			uses(r.(ssa.Value))
		case *ssa.DebugRef:
		default:
			ok = false
		}
	}
	uses = func(v ssa.Value) {
		if seen[v] {
			return
		}
		seen[v] = true
		if refs := v.Referrers(); refs != nil {
			for _, r := range *refs {
				classify(v, r)
			}
		}
	}
	var scan func(f *ssa.Function)
	scan = func(f *ssa.Function) {
		for _, b := range f.Blocks {
			for _, in := range b.Instrs {
				if mc, isMC := in.(*ssa.MakeClosure); isMC && mc.Fn == ssa.Value(lit) {
					uses(mc)
					continue
				}
				for _, op := range in.Operands(nil) {
					if *op == ssa.Value(lit) {
						classify(lit, in)
					}
				}
			}
		}
		for _, a := range f.AnonFuncs {
			scan(a)
		}
	}
	scan(parent)
	return ok
}

// entryLocks: the locks a helper is entered with: held at every one of its
// (enumerable) static call sites, renamed from the arguments to the parameters.
func (cx *c06Ctx) entryLocks(f *ssa.Function) LockSet {
	if cx.entryCache == nil {
		cx.entryCache = map[*ssa.Function]LockSet{}
	}
	if ls, ok := cx.entryCache[f]; ok {
		return ls
	}
	cx.entryCache[f] = LockSet{} // recursion guard: nothing known
	if f.Parent() != nil {
		return LockSet{}
	}
	sites, ok := cx.enumerableCallers(f)
	if !ok {
		return LockSet{}
	}
	var res LockSet
	for i, cs := range sites {
		var here LockSet
		if _, plain := cs.Instr.(*ssa.Call); plain {
			here = LockSet{}
			held := cx.locksAt(cs.Instr)
			args := cs.Args()
			for path, mode := range held {
				for j, prm := range f.Params {
					if j >= len(args) {
						break
					}
					ap := AccessPath(args[j])
					if strings.HasPrefix(ap, "?") || strings.HasPrefix(ap, "&") {
						continue
					}
					if strings.HasPrefix(path, "&"+ap+".") {
						here["&"+prm.Name()+path[len(ap)+1:]] = mode
					}
				}
			}
		} else {
			here = LockSet{} // go: starts with nothing; defer: runs at exit, not tracked
		}
		if i == 0 {
			res = here
		} else {
			res = meet(res, here)
		}
	}
	if res == nil {
		res = LockSet{}
	}
	cx.entryCache[f] = res
	return res
}

func (cx *c06Ctx) lockInfo(top *ssa.Function) *LockInfo {
	if cx.lockCache == nil {
		cx.lockCache = map[*ssa.Function]*LockInfo{}
	}
	if li, ok := cx.lockCache[top]; ok {
		return li
	}
	li := AnalyzeLocks(top, cx.entryLocks(top))
	cx.lockCache[top] = li
	return li
}

// locksAt: the locks held on every path when in executes, the enclosing
// function being entered with the locks all its callers hold.
func (cx *c06Ctx) locksAt(in ssa.Instruction) LockSet {
	return cx.lockInfo(TopFunc(in.Parent())).HeldAt(in)
}

// climb evaluates check on the occurrence and, while it fails and the root is
// a helper whose callers can all be enumerated, on the occurrence seen from
// every caller (the call standing for the helper's body). All callers must pass.
func (cx *c06Ctx) climb(occ c06Occ, depth int, check func(c06Occ) (bool, string)) (bool, string) {
	ok, why := check(occ)
	if ok {
		return true, ""
	}
	if depth >= c06EffDepth-1 {
		return false, why
	}
	sites, enumerable := cx.enumerableCallers(occ.root)
	if !enumerable {
		return false, why
	}
	for _, cs := range sites {
		_, plain := cs.Instr.(*ssa.Call)
		up := c06Occ{root: cs.Fn, in: occ.in, chain: append([]c06Link{{call: cs.Instr, callee: occ.root, direct: plain}}, occ.chain...)}
		if ok2, why2 := cx.climb(up, depth+1, check); !ok2 {
			return false, fmt.Sprintf("%s; seen from its caller %s: %s", why, FuncKey(cs.Fn), why2)
		}
	}
	return true, ""
}

// helperOf: f is a helper all of whose static callers are, recursively, accepted
// functions (or helpers of accepted functions). Returns the accepted functions
// it serves. A helper with any other caller, or whose callers cannot all be
// enumerated, is not accepted.
func (cx *c06Ctx) helperOf(f *ssa.Function, accept func(*ssa.Function) bool, depth int) ([]*ssa.Function, bool) {
	if depth >= c06EffDepth {
		return nil, false
	}
	sites, ok := cx.enumerableCallers(f)
	if !ok {
		return nil, false
	}
	var out []*ssa.Function
	add := func(g *ssa.Function) {
		for _, x := range out {
			if x == g {
				return
			}
		}
		out = append(out, g)
	}
	for _, cs := range sites {
		t := cs.Fn
		if t == f {
			continue
		}
		if accept(t) || accept(TopFunc(t)) {
			add(TopFunc(t))
			continue
		}
		sub, ok := cx.helperOf(t, accept, depth+1)
		if !ok {
			return nil, false
		}
		for _, g := range sub {
			add(g)
		}
	}
	return out, len(out) > 0
}

func c06FuncKeys(fns []*ssa.Function) string {
	var ks []string
	for _, f := range fns {
		ks = append(ks, FuncKey(f))
	}
	sort.Strings(ks)
	return strings.Join(ks, ", ")
}

// ---- path exploration across helpers

// c06PathQ asks: does every path from a start point to an exit pass an
// instruction satisfying stop? A direct call of a helper counts when the
// helper passes one on all its paths (or on all paths to a success return: then
// only the err == nil edge of the call is discharged); with climb, a helper's
// return continues after each of its call sites. vals are tracked values
// (e.g. the mutation map), renamed across calls; an entry is nil when lost.
type c06PathQ struct {
	cx           *c06Ctx
	stop         func(in ssa.Instruction, vals []ssa.Value) bool
	assume       func(cond ssa.Value) (known, val bool)
	errorExitsOK bool // returns whose error result is known non-nil need not have passed
	climbUp      bool
	summaries    map[string]int // 0 none, 1 on success, 2 always
}

type c06PLeak struct {
	exit ssa.Instruction
}

func c06ValsKey(h *ssa.Function, vals []ssa.Value) string {
	s := FuncKey(h)
	for _, v := range vals {
		if v == nil {
			s += "|-"
		} else {
			s += "|" + v.Name()
		}
	}
	return s
}

func (q *c06PathQ) definitelyFails(ret *ssa.Return) bool {
	fn := ret.Parent()
	if ErrResultIndex(fn) < 0 {
		return false
	}
	for _, nr := range MaybeNilErrorReturns(fn) {
		if nr.Ret == ret {
			return false
		}
	}
	return true
}

func (q *c06PathQ) summary(h *ssa.Function, vals []ssa.Value, depth int) int {
	if q.summaries == nil {
		q.summaries = map[string]int{}
	}
	key := c06ValsKey(h, vals)
	if s, ok := q.summaries[key]; ok {
		return s
	}
	q.summaries[key] = 0 // recursion guard
	sub := *q
	sub.climbUp = false
	sub.errorExitsOK = false
	leaks := sub.explore(h.Blocks[0], 0, vals, depth+1)
	q.summaries = sub.summaries
	res := 2
	for _, lk := range leaks {
		ret, isRet := lk.exit.(*ssa.Return)
		if q.errorExitsOK && isRet && q.definitelyFails(ret) {
			res = 1
			continue
		}
		res = 0
		break
	}
	q.summaries[key] = res
	return res
}

// from explores the paths after start.
func (q *c06PathQ) from(start ssa.Instruction, vals []ssa.Value) []c06PLeak {
	return q.explore(start.Block(), instrIndex(start)+1, vals, 0)
}

func (q *c06PathQ) explore(b0 *ssa.BasicBlock, from0 int, vals []ssa.Value, depth int) []c06PLeak {
	var leaks []c06PLeak
	fn := b0.Parent()
	type pend []*ssa.Call
	pkey := func(p pend) string {
		s := ""
		for _, c := range p {
			s += c.Name() + ","
		}
		return s
	}
	seen := map[string]bool{}
	var walk func(b *ssa.BasicBlock, from int, p pend)
	visit := func(b *ssa.BasicBlock, p pend) {
		k := fmt.Sprintf("%d/%s", b.Index, pkey(p))
		if seen[k] {
			return
		}
		seen[k] = true
		walk(b, 0, p)
	}
	walk = func(b *ssa.BasicBlock, from int, p pend) {
		for i := from; i < len(b.Instrs); i++ {
			in := b.Instrs[i]
			if q.stop(in, vals) {
				return
			}
			switch t := in.(type) {
			case *ssa.Call:
				callee := (CallSite{fn, t}).Callee()
				if depth < c06EffDepth-1 && q.cx.isHelper(callee) {
					down := make([]ssa.Value, len(vals))
					args := (CallSite{fn, t}).Args()
					for vi, v := range vals {
						if v == nil {
							continue
						}
						for ai, a := range args {
							if ai < len(callee.Params) && c06SamePlace(a, v) {
								down[vi] = callee.Params[ai]
							}
						}
						if down[vi] == nil && callee.Parent() != nil {
							down[vi] = v // a literal sees the enclosing function's values
						}
					}
					switch q.summary(callee, down, depth) {
					case 2:
						return
					case 1:
						if _, hasErr, discarded := ErrValue(t); hasErr && !discarded {
							p = append(append(pend{}, p...), t)
						}
					}
				}
			case *ssa.Return:
				if q.errorExitsOK && q.definitelyFails(t) {
					return
				}
				if q.errorExitsOK && len(p) > 0 {
					if idx := ErrResultIndex(fn); idx >= 0 {
						for _, ri := range Returns(fn) {
							if ri.Ret != t {
								continue
							}
							for _, pc := range p {
								if ev, _, _ := ErrValue(pc); ev != nil && sameOrigin(ri.Results[idx], ev) {
									return // returns the helper's own error: success only if it passed
								}
							}
						}
					}
				}
				if q.climbUp && depth < c06EffDepth-1 {
					if sites, ok := q.cx.enumerableCallers(fn); ok {
						for _, cs := range sites {
							call, plain := cs.Instr.(*ssa.Call)
							if !plain {
								leaks = append(leaks, c06PLeak{t})
								continue
							}
							upv := make([]ssa.Value, len(vals))
							args := cs.Args()
							for vi, v := range vals {
								if v == nil {
									continue
								}
								switch ov := originValue(v).(type) {
								case *ssa.Parameter:
									for pi, prm := range fn.Params {
										if prm == ov && pi < len(args) {
											upv[vi] = args[pi]
										}
									}
								case *ssa.Global, *ssa.Const:
									upv[vi] = ov
								default:
									if fn.Parent() != nil && c06OwnerFn(ov) != fn {
										upv[vi] = ov
									}
								}
							}
							sub := *q
							leaks = append(leaks, sub.explore(call.Block(), instrIndex(call)+1, upv, depth+1)...)
							q.summaries = sub.summaries
						}
						return
					}
				}
				leaks = append(leaks, c06PLeak{t})
				return
			case *ssa.Panic:
				return
			case *ssa.If:
				if q.assume != nil {
					if known, val := q.assume(t.Cond); known {
						s := b.Succs[1]
						if val {
							s = b.Succs[0]
						}
						visit(s, p)
						return
					}
				}
				if len(p) > 0 {
					for side := 0; side < 2; side++ {
						np := pend{}
						discharged := false
						for _, pc := range p {
							ev, _, _ := ErrValue(pc)
							if known, isNil := condSaysNil(t.Cond, side == 0, ev); known {
								if isNil {
									discharged = true
								}
								continue // failed: no longer pending
							}
							np = append(np, pc)
						}
						if !discharged {
							visit(b.Succs[side], np)
						}
					}
					return
				}
			}
		}
		for _, s := range b.Succs {
			visit(s, p)
		}
	}
	walk(b0, from0, nil)
	return leaks
}

// ---------------------------------------------------------------------------
// K-inval — generation-stamped caches of derived corpus state
//
// A "stamped cache" is a struct of pkg/index one of whose fields (the stamp,
// today lazySortedPermanodes.ofGen) is compared with / assigned from an integer
// field of Corpus (the generation, today Corpus.gen). Everything is discovered
// from those two relations; no names are frozen.
//
//   reader side  (#cache-protocol): abstract interpretation of every function
//                that touches the cache fields: content that may date from an
//                older generation is used only on the stamp==generation edge,
//                and the stamp is refreshed only when no such content is kept.
//   generation   (#gen-store): the generation only ever grows.
//   writer side  (#inval:T.f): every write, on the live path (reachable from
//                Corpus.addBlob), of a location that the cache's compute
//                functions read passes a generation increment somewhere between
//                addBlob's entry and its return (the whole of addBlob runs under
//                the index write lock, K-live) — must-pass-through over the
//                resolved call structure.
//   load side    (#load-on-fresh-corpus, #inval-load:…): the other writers run
//                only under scanFromStorage, on a corpus that was just allocated.

type c06Loc struct {
	typ   *types.Named
	field string // field name; "[]" = elements of a named map/slice type; "*" = the whole struct
}

func (l c06Loc) String() string { return l.typ.Obj().Name() + "." + l.field }

// inScope: types whose fields make up corpus state (declared in pkg/index or pkg/types/camtypes).
func c06InScope(n *types.Named) bool {
	if n == nil || n.Obj().Pkg() == nil {
		return false
	}
	rel := RelPkg(n.Obj().Pkg())
	return rel == c06Rel || rel == "pkg/types/camtypes"
}

func c06FnName(fn *ssa.Function) string {
	if fn == nil {
		return "?"
	}
	if fn.Pkg == nil && fn.Parent() == nil {
		return strings.ReplaceAll(fn.String(), modPrefix, "")
	}
	return FuncKey(fn)
}

// c06NamedRef: t is an in-scope named map or slice type.
func c06NamedRef(t types.Type) *types.Named {
	n, _ := t.(*types.Named)
	if n == nil || !c06InScope(n) {
		return nil
	}
	switch n.Underlying().(type) {
	case *types.Map, *types.Slice:
		return n
	}
	return nil
}

// ---- roots of a reference value

type c06RootSet struct {
	locs    []c06Loc
	params  []*ssa.Parameter
	fresh   bool   // may be an object allocated in the function itself
	unknown string // non-empty: a shape the walk cannot follow
}

func (rs *c06RootSet) addLoc(l c06Loc) {
	for _, x := range rs.locs {
		if x == l {
			return
		}
	}
	rs.locs = append(rs.locs, l)
}

// c06Roots walks back from a reference (map, slice, pointer) to the struct
// fields / named containers / parameters it may have been obtained from.
func c06Roots(v ssa.Value) *c06RootSet { return c06RootsN(v, 0) }

// c06RootsN: nest counts how many module calls deep the walk already is (bound 4).
func c06RootsN(v ssa.Value, nest int) *c06RootSet {
	rs := &c06RootSet{}
	if nest > 4 {
		rs.unknown = "reference returned through a call chain too deep to follow"
		return rs
	}
	seen := map[ssa.Value]bool{}
	var walk func(v ssa.Value, depth int)
	walk = func(v ssa.Value, depth int) {
		if v == nil || seen[v] {
			return
		}
		if depth > 40 {
			rs.unknown = "reference chain too deep"
			return
		}
		seen[v] = true
		if n := c06NamedRef(v.Type()); n != nil {
			rs.addLoc(c06Loc{n, "[]"})
		}
		switch x := v.(type) {
		case *ssa.ChangeType:
			walk(x.X, depth+1)
		case *ssa.Convert:
			walk(x.X, depth+1)
		case *ssa.MakeInterface:
			walk(x.X, depth+1)
		case *ssa.ChangeInterface:
			walk(x.X, depth+1)
		case *ssa.TypeAssert:
			walk(x.X, depth+1)
		case *ssa.SliceToArrayPointer:
			walk(x.X, depth+1)
		case *ssa.UnOp:
			if x.Op != token.MUL {
				rs.unknown = "unary " + x.Op.String()
				return
			}
			switch a := x.X.(type) {
			case *ssa.FieldAddr:
				if n := NamedOf(a.X.Type()); n != nil && c06InScope(n) {
					rs.addLoc(c06Loc{n, fieldName(a.X.Type(), a.Field)})
				} else {
					walk(a.X, depth+1)
				}
			case *ssa.IndexAddr:
				walk(a.X, depth+1)
			case *ssa.Global:
				// package-level state is not corpus state
			default:
				if cell, ok := varOf(x.X); ok {
					if al, isAl := cell.(*ssa.Alloc); isAl {
						sts := storesTo(al)
						if len(sts) == 0 {
							rs.fresh = true
						}
						for _, st := range sts {
							walk(st.Val, depth+1)
						}
						return
					}
				}
				// load through a pointer value: *p
				walk(x.X, depth+1)
			}
		case *ssa.Field:
			if n := NamedOf(x.X.Type()); n != nil && c06InScope(n) {
				rs.addLoc(c06Loc{n, fieldName(x.X.Type(), x.Field)})
			} else {
				walk(x.X, depth+1)
			}
		case *ssa.FieldAddr:
			// a pointer into a struct: &x.f
			if n := NamedOf(x.X.Type()); n != nil && c06InScope(n) {
				rs.addLoc(c06Loc{n, fieldName(x.X.Type(), x.Field)})
			} else {
				walk(x.X, depth+1)
			}
		case *ssa.IndexAddr:
			walk(x.X, depth+1)
		case *ssa.Lookup:
			walk(x.X, depth+1)
		case *ssa.Index:
			walk(x.X, depth+1)
		case *ssa.Slice:
			walk(x.X, depth+1)
		case *ssa.Phi:
			for _, e := range x.Edges {
				walk(e, depth+1)
			}
		case *ssa.Extract:
			switch t := x.Tuple.(type) {
			case *ssa.Lookup:
				walk(t.X, depth+1)
			case *ssa.TypeAssert:
				walk(t.X, depth+1)
			case *ssa.Next:
				if rg, ok := t.Iter.(*ssa.Range); ok {
					walk(rg.X, depth+1)
				}
			case *ssa.Call:
				walk(t, depth+1)
			default:
				rs.unknown = "tuple of " + fmt.Sprintf("%T", x.Tuple)
			}
		case *ssa.Call:
			if bi, ok := x.Call.Value.(*ssa.Builtin); ok {
				if bi.Name() == "append" && len(x.Call.Args) > 0 {
					walk(x.Call.Args[0], depth+1)
					return
				}
				rs.fresh = true
				return
			}
			cs := CallSite{x.Parent(), x}
			callee := cs.Callee()
			if callee == nil || callee.Blocks == nil || !InModule(TopFunc(callee)) {
				// external or unresolved: the result may alias any reference argument
				for _, a := range cs.Args() {
					if c06IsRefType(a.Type()) {
						walk(a, depth+1)
					}
				}
				rs.fresh = true
				return
			}
			// module function: follow what it returns; its parameters map to our arguments
			args := cs.Args()
			for _, ri := range Returns(callee) {
				for _, res := range ri.Results {
					if !c06IsRefType(res.Type()) {
						continue
					}
					sub := c06RootsN(res, nest+1)
					for _, l := range sub.locs {
						rs.addLoc(l)
					}
					if sub.fresh {
						rs.fresh = true
					}
					if sub.unknown != "" {
						rs.unknown = sub.unknown
					}
					for _, prm := range sub.params {
						for i, fp := range callee.Params {
							if fp == prm && i < len(args) {
								walk(args[i], depth+1)
							}
						}
					}
				}
			}
		case *ssa.Parameter:
			rs.params = append(rs.params, x)
		case *ssa.FreeVar:
			if b := bindingOf(x); b != nil {
				walk(b, depth+1)
			} else {
				rs.unknown = "captured variable " + x.Name()
			}
		case *ssa.Alloc, *ssa.MakeMap, *ssa.MakeSlice, *ssa.MakeClosure, *ssa.MakeChan:
			rs.fresh = true
		case *ssa.Const:
			rs.fresh = true
		case *ssa.Global:
		case *ssa.Function:
		default:
			rs.unknown = fmt.Sprintf("%T", v)
		}
	}
	walk(v, 0)
	return rs
}

func c06IsRefType(t types.Type) bool {
	switch t.Underlying().(type) {
	case *types.Map, *types.Slice, *types.Pointer, *types.Interface:
		return true
	}
	return false
}

// onlyFresh: the reference can only denote an object made in the function.
func (rs *c06RootSet) onlyFresh() bool {
	return rs.fresh && len(rs.locs) == 0 && len(rs.params) == 0 && rs.unknown == ""
}

// ---- call structure

type c06Const struct {
	state int // 0 unset, 1 constant, 2 unknown
	val   string
}

type c06CG struct {
	cx           *c06Ctx
	roots        []*ssa.Function
	funcs        map[*ssa.Function]bool
	order        []*ssa.Function
	out          map[ssa.CallInstruction][]*ssa.Function
	in           map[*ssa.Function][]CallSite
	unresolved   map[ssa.CallInstruction]string
	callback     map[ssa.CallInstruction]bool // the edges of this call are functions handed to code we do not follow
	paramFn      map[*ssa.Parameter]map[*ssa.Function]bool
	paramUnknown map[*ssa.Parameter]bool
	env          map[*ssa.Function][]c06Const // constant string parameters (only when prune)
	prune        bool
	changed      bool
}

// c06FieldFuncs: function values stored into func-typed struct fields of in-scope types.
func (cx *c06Ctx) fieldFuncs() map[c06Loc][]*ssa.Function {
	if cx.ffCache != nil {
		return cx.ffCache
	}
	out := map[c06Loc][]*ssa.Function{}
	for _, fn := range cx.fns {
		for _, b := range fn.Blocks {
			for _, in := range b.Instrs {
				st, ok := in.(*ssa.Store)
				if !ok {
					continue
				}
				n, f, _, ok := c06FieldOf(st.Addr)
				if !ok || !c06InScope(n) {
					continue
				}
				if _, isSig := st.Val.Type().Underlying().(*types.Signature); !isSig {
					continue
				}
				l := c06Loc{n, f}
				switch v := originValue(st.Val).(type) {
				case *ssa.MakeClosure:
					out[l] = append(out[l], v.Fn.(*ssa.Function))
				case *ssa.Function:
					out[l] = append(out[l], v)
				default:
					out[l] = append(out[l], nil) // something we cannot name
				}
			}
		}
	}
	cx.ffCache = out
	return out
}

// scopeImplementers: methods named name of in-scope types implementing iface.
func (cx *c06Ctx) scopeImplementers(iface *types.Interface, name string) []*ssa.Function {
	var out []*ssa.Function
	for _, rel := range []string{c06Rel, "pkg/types/camtypes"} {
		pk := cx.p.Pkg(rel)
		if pk == nil || pk.Types == nil {
			continue
		}
		sc := pk.Types.Scope()
		for _, nm := range sc.Names() {
			tn, ok := sc.Lookup(nm).(*types.TypeName)
			if !ok || tn.IsAlias() {
				continue
			}
			n, ok := tn.Type().(*types.Named)
			if !ok || n.TypeParams().Len() > 0 {
				continue
			}
			if _, isIface := n.Underlying().(*types.Interface); isIface {
				continue
			}
			if types.Implements(n, iface) || types.Implements(types.NewPointer(n), iface) {
				if f, _ := cx.p.MethodOf(n, name); f != nil && f.Blocks != nil {
					out = append(out, f)
				}
			}
		}
	}
	return out
}

func (g *c06CG) feasible(b *ssa.BasicBlock) bool {
	if !g.prune {
		return true
	}
	fn := b.Parent()
	env := g.env[fn]
	if env == nil {
		return true
	}
	for _, f := range FactsAt(b) {
		cond, val := f.Cond, f.Val
		for {
			if u, ok := cond.(*ssa.UnOp); ok && u.Op == token.NOT {
				cond, val = u.X, !val
				continue
			}
			break
		}
		bo, ok := cond.(*ssa.BinOp)
		if !ok || (bo.Op != token.EQL && bo.Op != token.NEQ) {
			continue
		}
		for _, pair := range [][2]ssa.Value{{bo.X, bo.Y}, {bo.Y, bo.X}} {
			prm, ok := originValue(pair[0]).(*ssa.Parameter)
			if !ok {
				continue
			}
			cst, ok := ConstString(pair[1])
			if !ok {
				continue
			}
			for i, fp := range fn.Params {
				if fp == prm && i < len(env) && env[i].state == 1 {
					truth := (env[i].val == cst) == (bo.Op == token.EQL)
					if truth != val {
						return false
					}
				}
			}
		}
	}
	return true
}

func (g *c06CG) add(fn *ssa.Function) {
	if fn == nil || fn.Blocks == nil || g.funcs[fn] {
		return
	}
	g.funcs[fn] = true
	g.order = append(g.order, fn)
	g.changed = true
}

// resolve: the functions a call may run (module code only).
func (g *c06CG) resolve(c CallSite) (out []*ssa.Function, unresolved string) {
	cc := c.Common()
	if _, isBuiltin := cc.Value.(*ssa.Builtin); isBuiltin {
		return nil, ""
	}
	if cc.IsInvoke() {
		iface, _ := cc.Value.Type().Underlying().(*types.Interface)
		if iface == nil {
			return nil, ""
		}
		return g.cx.scopeImplementers(iface, cc.Method.Name()), ""
	}
	if f := c.Callee(); f != nil {
		if !g.cx.followed(f) {
			// external, or a module package that cannot name corpus state (it can touch
			// it only through c06Mutators or by calling back a function it is given)
			g.callback[c.Instr] = true
			return g.callbacks(c), ""
		}
		return []*ssa.Function{f}, ""
	}
	var fromValue func(v ssa.Value, depth int) ([]*ssa.Function, string)
	fromValue = func(v ssa.Value, depth int) ([]*ssa.Function, string) {
		v = originValue(v)
		if depth > 6 {
			return nil, "function value too indirect"
		}
		switch x := v.(type) {
		case *ssa.MakeClosure:
			return []*ssa.Function{x.Fn.(*ssa.Function)}, ""
		case *ssa.Function:
			return []*ssa.Function{x}, ""
		case *ssa.Extract:
			return fromValue(x.Tuple, depth+1)
		case *ssa.Lookup:
			if c06LoadsGlobal(x.X, g.cx.gMerge) {
				var fs []*ssa.Function
				for f := range g.cx.mergeImpl {
					fs = append(fs, f)
				}
				sort.Slice(fs, func(i, j int) bool { return c06FnName(fs[i]) < c06FnName(fs[j]) })
				return fs, ""
			}
			return nil, "function looked up in a table other than corpusMergeFunc"
		case *ssa.Parameter:
			if g.paramUnknown[x] {
				return nil, "function parameter " + x.Name() + " receives a value that cannot be named"
			}
			var fs []*ssa.Function
			for f := range g.paramFn[x] {
				fs = append(fs, f)
			}
			sort.Slice(fs, func(i, j int) bool { return c06FnName(fs[i]) < c06FnName(fs[j]) })
			return fs, "" // empty until a caller is seen; the builder iterates
		case *ssa.FreeVar:
			if b := bindingOf(x); b != nil {
				return fromValue(b, depth+1)
			}
			return nil, "captured function variable " + x.Name()
		case *ssa.UnOp:
			if x.Op == token.MUL {
				if n, f, _, ok := c06FieldOf(x.X); ok && c06InScope(n) {
					var fs []*ssa.Function
					for _, fv := range g.cx.fieldFuncs()[c06Loc{n, f}] {
						if fv == nil {
							return nil, "field " + n.Obj().Name() + "." + f + " is assigned a function that cannot be named"
						}
						fs = append(fs, fv)
					}
					if len(fs) == 0 {
						return nil, "no function is ever stored into " + n.Obj().Name() + "." + f
					}
					return fs, ""
				}
			}
		}
		return nil, fmt.Sprintf("dynamic call through %T", v)
	}
	return fromValue(cc.Value, 0)
}

// followed: f has a body and belongs to a package that can name in-scope types
// (pkg/index, camtypes, or an importer of them), or is a synthetic wrapper.
func (cx *c06Ctx) followed(f *ssa.Function) bool {
	if f == nil || f.Blocks == nil {
		return false
	}
	top := TopFunc(f)
	if top.Pkg == nil {
		return true // bound-method / method-expression wrapper
	}
	if !InModule(top) {
		return false
	}
	return cx.seesScope(top.Pkg.Pkg)
}

func (cx *c06Ctx) seesScope(pk *types.Package) bool {
	if cx.seesCache == nil {
		cx.seesCache = map[*types.Package]bool{}
	}
	if v, ok := cx.seesCache[pk]; ok {
		return v
	}
	cx.seesCache[pk] = false // cycles cannot happen; placeholder
	rel := RelPkg(pk)
	res := rel == c06Rel || rel == "pkg/types/camtypes"
	if !res && strings.HasPrefix(pk.Path(), modPrefix) {
		for _, imp := range pk.Imports() {
			if cx.seesScope(imp) {
				res = true
				break
			}
		}
	}
	cx.seesCache[pk] = res
	return res
}

// callbacks: the followed functions handed as arguments to a call that is not itself followed.
func (g *c06CG) callbacks(c CallSite) []*ssa.Function {
	var out []*ssa.Function
	for _, a := range c.Common().Args {
		if _, isSig := a.Type().Underlying().(*types.Signature); !isSig {
			continue
		}
		switch v := originValue(a).(type) {
		case *ssa.MakeClosure:
			if f := v.Fn.(*ssa.Function); g.cx.followed(f) {
				out = append(out, f)
			}
		case *ssa.Function:
			if g.cx.followed(v) {
				out = append(out, v)
			}
		}
	}
	return out
}

func (g *c06CG) scan(fn *ssa.Function) {
	for _, b := range fn.Blocks {
		if !g.feasible(b) {
			continue
		}
		for _, in := range b.Instrs {
			ci, ok := in.(ssa.CallInstruction)
			if !ok {
				continue
			}
			c := CallSite{fn, ci}
			callees, why := g.resolve(c)
			if why != "" {
				if g.unresolved[ci] != why {
					g.unresolved[ci] = why
				}
				continue
			}
			delete(g.unresolved, ci)
			args := c.Args()
			for _, callee := range callees {
				has := false
				for _, x := range g.out[ci] {
					if x == callee {
						has = true
					}
				}
				if !has {
					g.out[ci] = append(g.out[ci], callee)
					g.in[callee] = append(g.in[callee], c)
					g.changed = true
				}
				g.add(callee)
				if g.callback[ci] {
					// called back by code we do not follow: nothing is known about its arguments
					for _, prm := range callee.Params {
						if _, isSig := prm.Type().Underlying().(*types.Signature); isSig && !g.paramUnknown[prm] {
							g.paramUnknown[prm] = true
							g.changed = true
						}
					}
					if g.prune {
						g.mergeEnv(fn, callee, nil)
					}
					continue
				}
				// function-typed and constant arguments
				for i, prm := range callee.Params {
					if i >= len(args) {
						break
					}
					if _, isSig := prm.Type().Underlying().(*types.Signature); isSig {
						switch a := originValue(args[i]).(type) {
						case *ssa.MakeClosure:
							g.noteParamFn(prm, a.Fn.(*ssa.Function))
						case *ssa.Function:
							g.noteParamFn(prm, a)
						case *ssa.Parameter:
							if g.paramUnknown[a] && !g.paramUnknown[prm] {
								g.paramUnknown[prm] = true
								g.changed = true
							}
							for f := range g.paramFn[a] {
								g.noteParamFn(prm, f)
							}
						default:
							if !IsNilConst(args[i]) && !g.paramUnknown[prm] {
								g.paramUnknown[prm] = true
								g.changed = true
							}
						}
					}
				}
				if g.prune {
					g.mergeEnv(fn, callee, args)
				}
			}
		}
	}
}

func (g *c06CG) noteParamFn(prm *ssa.Parameter, f *ssa.Function) {
	if g.paramFn[prm] == nil {
		g.paramFn[prm] = map[*ssa.Function]bool{}
	}
	if !g.paramFn[prm][f] {
		g.paramFn[prm][f] = true
		g.changed = true
	}
}

func (g *c06CG) mergeEnv(caller, callee *ssa.Function, args []ssa.Value) {
	env := g.env[callee]
	if env == nil {
		env = make([]c06Const, len(callee.Params))
		g.env[callee] = env
	}
	cenv := g.env[caller]
	for i := range callee.Params {
		nv := c06Const{state: 2}
		if i < len(args) {
			if s, ok := ConstString(args[i]); ok {
				nv = c06Const{1, s}
			} else if prm, ok := originValue(args[i]).(*ssa.Parameter); ok {
				for j, fp := range caller.Params {
					if fp == prm && j < len(cenv) && cenv[j].state == 1 {
						nv = cenv[j]
					}
				}
			}
		}
		old := env[i]
		switch {
		case old.state == 0:
			env[i] = nv
		case old.state == 1 && (nv.state != 1 || nv.val != old.val):
			env[i] = c06Const{state: 2}
		}
		if env[i] != old {
			g.changed = true
		}
	}
}

func (cx *c06Ctx) buildCG(roots []*ssa.Function, prune bool) *c06CG {
	g := &c06CG{cx: cx, roots: roots, funcs: map[*ssa.Function]bool{}, out: map[ssa.CallInstruction][]*ssa.Function{},
		in: map[*ssa.Function][]CallSite{}, unresolved: map[ssa.CallInstruction]string{}, callback: map[ssa.CallInstruction]bool{}, paramFn: map[*ssa.Parameter]map[*ssa.Function]bool{},
		paramUnknown: map[*ssa.Parameter]bool{}, env: map[*ssa.Function][]c06Const{}, prune: prune}
	for _, r := range roots {
		g.add(r)
		if prune {
			env := make([]c06Const, len(r.Params))
			for i := range env {
				env[i].state = 2
			}
			g.env[r] = env
		}
	}
	for iter := 0; iter < 50; iter++ {
		g.changed = false
		for i := 0; i < len(g.order); i++ {
			g.scan(g.order[i])
		}
		if !g.changed {
			break
		}
	}
	return g
}

// ---- reads

// c06Reads collects the in-scope locations read in the feasible blocks of the graph's functions.
func (g *c06CG) reads() map[c06Loc][]*ssa.Function {
	out := map[c06Loc][]*ssa.Function{}
	note := func(l c06Loc, fn *ssa.Function) {
		for _, f := range out[l] {
			if f == fn {
				return
			}
		}
		out[l] = append(out[l], fn)
	}
	for _, fn := range g.order {
		for _, b := range fn.Blocks {
			if !g.feasible(b) {
				continue
			}
			for _, in := range b.Instrs {
				switch x := in.(type) {
				case *ssa.UnOp:
					if x.Op == token.MUL {
						if n, f, _, ok := c06FieldOf(x.X); ok && c06InScope(n) {
							note(c06Loc{n, f}, fn)
						}
					}
				case *ssa.Field:
					if n := NamedOf(x.X.Type()); n != nil && c06InScope(n) {
						note(c06Loc{n, fieldName(x.X.Type(), x.Field)}, fn)
					}
				case *ssa.Lookup:
					if n := c06NamedRef(x.X.Type()); n != nil {
						note(c06Loc{n, "[]"}, fn)
					}
				case *ssa.Index:
					if n := c06NamedRef(x.X.Type()); n != nil {
						note(c06Loc{n, "[]"}, fn)
					}
				case *ssa.IndexAddr:
					if n := c06NamedRef(x.X.Type()); n != nil {
						note(c06Loc{n, "[]"}, fn)
					}
				case *ssa.Range:
					if n := c06NamedRef(x.X.Type()); n != nil {
						note(c06Loc{n, "[]"}, fn)
					}
				case ssa.CallInstruction:
					// the address of a field handed to a callee may be read there
					for _, a := range x.Common().Args {
						if n, f, _, ok := c06FieldOf(a); ok && c06InScope(n) {
							note(c06Loc{n, f}, fn)
						}
					}
				}
			}
		}
	}
	return out
}

// ---- writes

// c06Mutators: functions outside the module that modify an argument in place
// (index of the argument). Other external functions are taken not to write
// through the references they receive.
var c06Mutators = map[string]int{
	"sort.Sort": 0, "sort.Stable": 0, "sort.Slice": 0, "sort.SliceStable": 0, "sort.Strings": 0, "sort.Ints": 0, "sort.Float64s": 0,
	"slices.Sort": 0, "slices.SortFunc": 0, "slices.SortStableFunc": 0, "slices.Reverse": 0,
}

func c06ExternalKey(f *ssa.Function) string {
	if o := f.Origin(); o != nil {
		f = o
	}
	if f.Pkg == nil || f.Signature.Recv() != nil {
		return ""
	}
	return f.Pkg.Pkg.Path() + "." + f.Name()
}

type c06WSite struct {
	fn   *ssa.Function
	in   ssa.Instruction
	loc  c06Loc
	how  string
	undc string // non-empty: the written reference could not be followed
}

// c06WriteSites enumerates the writes to in-scope state in fns. g resolves
// calls (for writes through parameters); pw is the parameter-write summary
// (filled to a fixpoint by the caller).
func c06WriteSites(fns []*ssa.Function, g *c06CG, pw map[*ssa.Parameter]bool) (sites []c06WSite, changed bool) {
	emit := func(fn *ssa.Function, in ssa.Instruction, ref ssa.Value, how string) {
		rs := c06Roots(ref)
		for _, l := range rs.locs {
			sites = append(sites, c06WSite{fn: fn, in: in, loc: l, how: how})
		}
		for _, prm := range rs.params {
			if !pw[prm] {
				pw[prm] = true
				changed = true
			}
		}
		if rs.unknown != "" {
			sites = append(sites, c06WSite{fn: fn, in: in, how: how, undc: rs.unknown})
		}
	}
	for _, fn := range fns {
		for _, b := range fn.Blocks {
			for _, in := range b.Instrs {
				switch x := in.(type) {
				case *ssa.Store:
					switch a := x.Addr.(type) {
					case *ssa.FieldAddr:
						n := NamedOf(a.X.Type())
						if n == nil || !c06InScope(n) {
							continue
						}
						if c06Roots(a.X).onlyFresh() {
							continue // initialising an object made here
						}
						sites = append(sites, c06WSite{fn: fn, in: in, loc: c06Loc{n, fieldName(a.X.Type(), a.Field)}, how: "assigns"})
					case *ssa.IndexAddr:
						emit(fn, in, a.X, "stores an element of")
					case *ssa.Alloc, *ssa.FreeVar, *ssa.Global:
						// a variable
					default:
						// *p = v through a pointer value
						if pt, ok := x.Addr.Type().Underlying().(*types.Pointer); ok {
							if n := NamedOf(pt.Elem()); n != nil && c06InScope(n) {
								if _, isStruct := n.Underlying().(*types.Struct); isStruct {
									if !c06Roots(x.Addr).onlyFresh() {
										sites = append(sites, c06WSite{fn: fn, in: in, loc: c06Loc{n, "*"}, how: "overwrites"})
									}
									continue
								}
							}
						}
						emit(fn, in, x.Addr, "stores through")
					}
				case *ssa.MapUpdate:
					emit(fn, in, x.Map, "updates an entry of")
				case ssa.CallInstruction:
					cc := x.Common()
					if bi, ok := cc.Value.(*ssa.Builtin); ok {
						switch bi.Name() {
						case "delete", "clear", "copy":
							if len(cc.Args) > 0 {
								emit(fn, in, cc.Args[0], bi.Name()+"s from/into")
							}
						}
						continue
					}
					c := CallSite{fn, x}
					args := c.Args()
					if f := cc.StaticCallee(); f != nil && (f.Blocks == nil || !InModule(TopFunc(f)) && f.Pkg != nil) {
						if idx, ok := c06Mutators[c06ExternalKey(f)]; ok && idx < len(args) {
							emit(fn, in, args[idx], "reorders in place ("+c06ExternalKey(f)+")")
						}
					}
					for _, a := range cc.Args {
						if n, f, _, ok := c06FieldOf(a); ok && c06InScope(n) {
							if fa := a.(*ssa.FieldAddr); !c06Roots(fa.X).onlyFresh() {
								sites = append(sites, c06WSite{fn: fn, in: in, loc: c06Loc{n, f}, how: "hands out the address of"})
							}
						}
					}
					if g != nil && !g.callback[x] {
						for _, callee := range g.out[x] {
							for i, prm := range callee.Params {
								if pw[prm] && i < len(args) {
									emit(fn, in, args[i], "passes to "+c06FnName(callee)+", which writes through it,")
								}
							}
						}
					}
				}
			}
		}
	}
	return sites, changed
}

func c06AllWriteSites(fns []*ssa.Function, g *c06CG) []c06WSite {
	pw := map[*ssa.Parameter]bool{}
	var sites []c06WSite
	for i := 0; i < 20; i++ {
		var ch bool
		sites, ch = c06WriteSites(fns, g, pw)
		if !ch {
			break
		}
	}
	return sites
}

// ---- stamped caches: discovery

type c06Stamped struct {
	typ       *types.Named // the cache struct
	stamp     string       // its stamp field
	gen       c06Loc       // the generation field it is compared with / assigned from
	caches    []string     // the other fields of typ that are assigned on existing objects
	accessors []*ssa.Function
}

func c06IsInteger(t types.Type) bool {
	b, ok := t.Underlying().(*types.Basic)
	return ok && b.Info()&types.IsInteger != 0
}

// c06DirectField: v is exactly a load of (or extraction of) field f of named struct T.
func c06DirectField(v ssa.Value) (c06Loc, ssa.Value, bool) {
	n, f, base, ok := c06LoadedField(v)
	if !ok || n == nil {
		return c06Loc{}, nil, false
	}
	return c06Loc{n, f}, base, true
}

func (cx *c06Ctx) stampedCaches() []*c06Stamped {
	type pair struct{ stamp, gen c06Loc }
	found := map[pair]bool{}
	var order []pair
	note := func(a, b c06Loc) {
		// the generation lives in the live structure (Corpus / Index), the stamp elsewhere
		isOwner := func(l c06Loc) bool { return l.typ == cx.tCorpus || l.typ == cx.tIndex }
		var pr pair
		switch {
		case isOwner(b) && !isOwner(a):
			pr = pair{a, b}
		case isOwner(a) && !isOwner(b):
			pr = pair{b, a}
		default:
			return
		}
		if RelPkg(pr.stamp.typ.Obj().Pkg()) != c06Rel {
			return
		}
		if !found[pr] {
			found[pr] = true
			order = append(order, pr)
		}
	}
	for _, fn := range cx.fns {
		for _, b := range fn.Blocks {
			for _, in := range b.Instrs {
				switch x := in.(type) {
				case *ssa.BinOp:
					switch x.Op {
					case token.EQL, token.NEQ, token.LSS, token.LEQ, token.GTR, token.GEQ:
					default:
						continue
					}
					if !c06IsInteger(x.X.Type()) {
						continue
					}
					la, _, oka := c06DirectField(x.X)
					lb, _, okb := c06DirectField(x.Y)
					if oka && okb && la.typ != lb.typ {
						note(la, lb)
					}
				case *ssa.Store:
					n, f, _, ok := c06FieldOf(x.Addr)
					if !ok || !c06IsInteger(x.Val.Type()) {
						continue
					}
					if lb, _, okb := c06DirectField(x.Val); okb && lb.typ != n {
						note(c06Loc{n, f}, lb)
					}
				}
			}
		}
	}
	var out []*c06Stamped
	for _, pr := range order {
		sc := &c06Stamped{typ: pr.stamp.typ, stamp: pr.stamp.field, gen: pr.gen}
		isCache := map[string]bool{}
		acc := map[*ssa.Function]bool{}
		for _, fn := range cx.fns {
			for _, b := range fn.Blocks {
				for _, in := range b.Instrs {
					st, ok := in.(*ssa.Store)
					if !ok {
						continue
					}
					n, f, base, ok := c06FieldOf(st.Addr)
					if !ok || n != sc.typ || f == sc.stamp || c06Roots(base).onlyFresh() {
						continue
					}
					if !isCache[f] {
						isCache[f] = true
						sc.caches = append(sc.caches, f)
					}
				}
			}
		}
		sort.Strings(sc.caches)
		for _, fn := range cx.fns {
			for _, b := range fn.Blocks {
				for _, in := range b.Instrs {
					fa, ok := in.(*ssa.FieldAddr)
					if !ok || NamedOf(fa.X.Type()) != sc.typ {
						continue
					}
					f := fieldName(fa.X.Type(), fa.Field)
					if (f == sc.stamp || isCache[f]) && !c06Roots(fa.X).onlyFresh() && !acc[fn] {
						acc[fn] = true
						sc.accessors = append(sc.accessors, fn)
					}
				}
			}
		}
		out = append(out, sc)
	}
	return out
}

// ---- reader side: abstract interpretation of the cache protocol

type c06CState struct {
	reached    bool
	stampCur   bool   // stamp == generation is known
	old, fresh uint32 // per cache field: may hold what it held at entry / may hold content built now
	oldLoads   map[ssa.Value]bool
	okStamp    map[ssa.Value]bool // stamp loads not followed by a stamp store
	okCmp      map[ssa.Value]bool // stamp==generation comparisons of such loads
}

func (s *c06CState) clone() *c06CState {
	c := &c06CState{reached: s.reached, stampCur: s.stampCur, old: s.old, fresh: s.fresh,
		oldLoads: map[ssa.Value]bool{}, okStamp: map[ssa.Value]bool{}, okCmp: map[ssa.Value]bool{}}
	for k := range s.oldLoads {
		c.oldLoads[k] = true
	}
	for k := range s.okStamp {
		c.okStamp[k] = true
	}
	for k := range s.okCmp {
		c.okCmp[k] = true
	}
	return c
}

// join merges o into s; reports whether s changed.
func (s *c06CState) join(o *c06CState) bool {
	if !o.reached {
		return false
	}
	if !s.reached {
		*s = *o.clone()
		return true
	}
	ch := false
	if s.stampCur && !o.stampCur {
		s.stampCur, ch = false, true
	}
	if s.old|o.old != s.old {
		s.old, ch = s.old|o.old, true
	}
	if s.fresh|o.fresh != s.fresh {
		s.fresh, ch = s.fresh|o.fresh, true
	}
	for k := range o.oldLoads {
		if !s.oldLoads[k] {
			s.oldLoads[k], ch = true, true
		}
	}
	for k := range s.okStamp {
		if !o.okStamp[k] {
			delete(s.okStamp, k)
			ch = true
		}
	}
	for k := range s.okCmp {
		if !o.okCmp[k] {
			delete(s.okCmp, k)
			ch = true
		}
	}
	return ch
}

type c06Proto struct {
	cx      *c06Ctx
	sc      *c06Stamped
	isAcc   map[*ssa.Function]bool
	memo    map[string]*c06CState
	inprog  map[string]bool
	reports map[*ssa.Function]map[string]token.Pos // message -> a position
	undec   map[*ssa.Function]string
	checked map[*ssa.Function]int // contexts analysed
}

func (pr *c06Proto) report(fn *ssa.Function, pos token.Pos, msg string) {
	if pr.reports[fn] == nil {
		pr.reports[fn] = map[string]token.Pos{}
	}
	if _, ok := pr.reports[fn][msg]; !ok {
		pr.reports[fn][msg] = pos
	}
}

func (pr *c06Proto) cacheIdx(addr ssa.Value, recv ssa.Value) (idx int, isStamp, ok bool) {
	n, f, base, isF := c06FieldOf(addr)
	if !isF || n != pr.sc.typ {
		return 0, false, false
	}
	if !c06SamePlace(base, recv) {
		return -1, false, true // a field of another cache object
	}
	if f == pr.sc.stamp {
		return 0, true, true
	}
	for i, c := range pr.sc.caches {
		if c == f {
			return i, false, true
		}
	}
	return 0, false, false
}

func (pr *c06Proto) isGenLoad(v ssa.Value) bool {
	l, _, ok := c06DirectField(v)
	return ok && l == pr.sc.gen
}

// analyse runs fn from the given entry facts and returns the joined state at its returns.
func (pr *c06Proto) analyse(fn *ssa.Function, entry *c06CState) *c06CState {
	key := fmt.Sprintf("%p/%v/%d/%d", fn, entry.stampCur, entry.old, entry.fresh)
	if r, ok := pr.memo[key]; ok {
		return r
	}
	if pr.inprog[key] {
		pr.undec[fn] = "recursive use of the cache fields"
		return entry
	}
	pr.inprog[key] = true
	defer delete(pr.inprog, key)
	pr.checked[fn]++
	if len(fn.Params) == 0 || fn.Signature.Recv() == nil || NamedOf(fn.Params[0].Type()) != pr.sc.typ {
		pr.undec[fn] = "touches the cache fields of " + pr.sc.typ.Obj().Name() + " without being one of its methods: the cache object cannot be followed"
		pr.memo[key] = entry
		return entry
	}
	recv := ssa.Value(fn.Params[0])
	resolved := map[*ssa.Return][]ssa.Value{}
	for _, ri := range Returns(fn) {
		resolved[ri.Ret] = ri.Results
	}
	in := map[*ssa.BasicBlock]*c06CState{}
	for _, b := range fn.Blocks {
		in[b] = &c06CState{}
	}
	start := entry.clone()
	start.reached = true
	start.oldLoads, start.okStamp, start.okCmp = map[ssa.Value]bool{}, map[ssa.Value]bool{}, map[ssa.Value]bool{}
	in[fn.Blocks[0]].join(start)
	exit := &c06CState{}

	staleDep := func(st *c06CState, v ssa.Value) bool {
		if st.stampCur || len(st.oldLoads) == 0 {
			return false
		}
		return DependsOn(v, func(x ssa.Value) bool { return st.oldLoads[x] })
	}
	fieldNames := func(mask uint32) string {
		var out []string
		for i, c := range pr.sc.caches {
			if mask&(1<<uint(i)) != 0 {
				out = append(out, c)
			}
		}
		return strings.Join(out, ", ")
	}
	stampName := pr.sc.typ.Obj().Name() + "." + pr.sc.stamp
	step := func(st *c06CState, instr ssa.Instruction, final bool) {
		switch x := instr.(type) {
		case *ssa.UnOp:
			if x.Op != token.MUL {
				return
			}
			idx, isStamp, ok := pr.cacheIdx(x.X, recv)
			if !ok {
				return
			}
			if idx < 0 {
				if final {
					pr.undec[fn] = "reads the cache fields of another " + pr.sc.typ.Obj().Name() + " than its receiver"
				}
				return
			}
			if isStamp {
				st.okStamp[x] = true
				return
			}
			if st.old&(1<<uint(idx)) != 0 {
				st.oldLoads[x] = true
			} else {
				delete(st.oldLoads, x)
			}
		case *ssa.BinOp:
			if x.Op != token.EQL && x.Op != token.NEQ {
				return
			}
			if st.okStamp[originValue(x.X)] && pr.isGenLoad(x.Y) || st.okStamp[originValue(x.Y)] && pr.isGenLoad(x.X) {
				st.okCmp[x] = true
			}
		case *ssa.Store:
			idx, isStamp, ok := pr.cacheIdx(x.Addr, recv)
			switch {
			case ok && idx < 0:
				if final {
					pr.undec[fn] = "writes the cache fields of another " + pr.sc.typ.Obj().Name() + " than its receiver"
				}
			case ok && isStamp:
				if final {
					if !pr.isGenLoad(x.Val) {
						pr.report(fn, x.Pos(), stampName+" is set to something other than the current "+pr.sc.gen.String()+": a cache built at one generation is stamped with another and is served after a later change")
					}
					if st.old != 0 && !st.stampCur {
						pr.report(fn, x.Pos(), stampName+" is refreshed while "+fieldNames(st.old)+" may still hold content built at an older generation (not on the "+pr.sc.stamp+"=="+pr.sc.gen.field+" edge, not cleared, not rebuilt): that content is served as current from then on")
					}
				}
				st.stampCur = true
				st.okStamp, st.okCmp = map[ssa.Value]bool{}, map[ssa.Value]bool{}
			case ok:
				bit := uint32(1) << uint(idx)
				if IsNilConst(x.Val) {
					st.old &^= bit
					st.fresh &^= bit
					return
				}
				if final && staleDep(st, x.Val) {
					pr.report(fn, x.Pos(), pr.sc.caches[idx]+" is rebuilt from cache content that may date from an older generation (not on the "+pr.sc.stamp+"=="+pr.sc.gen.field+" edge)")
				}
				st.old &^= bit
				st.fresh |= bit
			default:
				if _, isVar := varOf(x.Addr); isVar {
					return
				}
				if final && staleDep(st, x.Val) {
					pr.report(fn, x.Pos(), "cache content that may date from an older generation is stored away (not on the "+pr.sc.stamp+"=="+pr.sc.gen.field+" edge)")
				}
			}
		case *ssa.Return:
			if final {
				for _, res := range resolved[x] {
					if staleDep(st, res) {
						pr.report(fn, x.Pos(), "returns cache content that may date from an older generation: the return is not on the "+pr.sc.stamp+"=="+pr.sc.gen.field+" edge and the field was neither cleared nor rebuilt on the way")
					}
				}
			}
			exit.join(st)
		case ssa.CallInstruction:
			cc := x.Common()
			if bi, ok := cc.Value.(*ssa.Builtin); ok && (bi.Name() == "len" || bi.Name() == "cap") {
				return
			}
			c := CallSite{fn, x}
			if callee := c.Callee(); callee != nil && pr.isAcc[callee] && !c.IsGo() {
				args := c.Args()
				if len(args) == 0 || !c06SamePlace(args[0], recv) {
					if final {
						pr.undec[fn] = "calls " + c06FnName(callee) + " on another cache object than its receiver"
					}
					return
				}
				if c.IsDefer() {
					if final {
						pr.undec[fn] = "defers " + c06FnName(callee) + ", which touches the cache fields"
					}
					return
				}
				res := pr.analyse(callee, st)
				st.stampCur, st.old, st.fresh = res.stampCur, res.old, res.fresh
				st.okStamp, st.okCmp = map[ssa.Value]bool{}, map[ssa.Value]bool{}
				return
			}
			if final {
				for _, a := range cc.Args {
					if staleDep(st, a) {
						pr.report(fn, x.Pos(), "cache content that may date from an older generation is handed to "+c.CalleeKey()+" (not on the "+pr.sc.stamp+"=="+pr.sc.gen.field+" edge)")
					}
				}
			}
		}
	}
	flow := func(b *ssa.BasicBlock, final bool) []*c06CState {
		st := in[b].clone()
		for _, instr := range b.Instrs {
			step(st, instr, final)
		}
		outs := make([]*c06CState, len(b.Succs))
		for i := range b.Succs {
			outs[i] = st.clone()
		}
		if ifi, ok := b.Instrs[len(b.Instrs)-1].(*ssa.If); ok && len(b.Succs) == 2 {
			cond, neg := ifi.Cond, false
			for {
				if u, ok := cond.(*ssa.UnOp); ok && u.Op == token.NOT {
					cond, neg = u.X, !neg
					continue
				}
				break
			}
			if bo, ok := cond.(*ssa.BinOp); ok && st.okCmp[bo] {
				eqEdge := 0
				if bo.Op == token.NEQ {
					eqEdge = 1
				}
				if neg {
					eqEdge = 1 - eqEdge
				}
				outs[eqEdge].stampCur = true
			}
		}
		return outs
	}
	work := []*ssa.BasicBlock{fn.Blocks[0]}
	for n := 0; len(work) > 0 && n < 10000; n++ {
		b := work[0]
		work = work[1:]
		if !in[b].reached {
			continue
		}
		for i, o := range flow(b, false) {
			if in[b.Succs[i]].join(o) {
				work = append(work, b.Succs[i])
			}
		}
	}
	exit = &c06CState{}
	for _, b := range fn.Blocks {
		if in[b].reached {
			flow(b, true)
		}
	}
	if !exit.reached {
		exit = entry
	}
	pr.memo[key] = exit
	return exit
}

// ---- writer side: must-pass-through of a generation increment

type c06Cover struct {
	cx     *c06Ctx
	g      *c06CG
	gen    c06Loc
	root   *ssa.Function
	always map[*ssa.Function]bool
	memo   map[ssa.Instruction]*c06CovRes
	inprog map[ssa.Instruction]bool
	nBumps int
}

type c06CovRes struct {
	ok  bool
	why string
}

// ownerParam: the parameter (possibly captured) of the generation owner's type that base denotes.
func (cv *c06Cover) ownerParam(base ssa.Value) *ssa.Parameter {
	v := originValue(base)
	for i := 0; i < 8; i++ {
		switch x := v.(type) {
		case *ssa.Parameter:
			if NamedOf(x.Type()) == cv.gen.typ {
				return x
			}
			return nil
		case *ssa.FreeVar:
			b := bindingOf(x)
			if b == nil {
				return nil
			}
			v = originValue(b)
			if u, ok := v.(*ssa.UnOp); ok && u.Op == token.MUL {
				v = originValue(u)
			}
		case *ssa.Alloc:
			// a parameter spilled because a literal captures it
			sts := storesTo(x)
			if len(sts) != 1 {
				return nil
			}
			v = originValue(sts[0].Val)
		default:
			return nil
		}
	}
	return nil
}

// c06GenStore classifies a store to the generation field: increment (by a positive constant) or not.
func c06GenStore(st *ssa.Store, gen c06Loc) (isGen, isIncr bool, base ssa.Value) {
	n, f, b, ok := c06FieldOf(st.Addr)
	if !ok || n != gen.typ || f != gen.field {
		return false, false, nil
	}
	bo, ok := st.Val.(*ssa.BinOp)
	if !ok || bo.Op != token.ADD {
		return true, false, b
	}
	if bo.Op == token.ADD {
		if k, isK := ConstInt(bo.Y); isK && k <= 0 {
			return true, false, b
		}
	}
	for _, pair := range [][2]ssa.Value{{bo.X, bo.Y}, {bo.Y, bo.X}} {
		l, lb, ok := c06DirectField(pair[0])
		k, isK := ConstInt(pair[1])
		if ok && l == gen && isK && k > 0 && c06SamePlace(lb, b) {
			return true, true, b
		}
	}
	return true, false, b
}

// c06GenGoesBack: the store assigns a constant, or the old value minus / plus a non-positive constant.
func c06GenGoesBack(st *ssa.Store, gen c06Loc) bool {
	if _, isConst := st.Val.(*ssa.Const); isConst {
		return true
	}
	bo, ok := st.Val.(*ssa.BinOp)
	if !ok {
		return false
	}
	l, _, isField := c06DirectField(bo.X)
	k, isK := ConstInt(bo.Y)
	if !isField || l != gen || !isK {
		return false
	}
	return bo.Op == token.SUB && k >= 0 || bo.Op == token.ADD && k <= 0
}

func (cv *c06Cover) isBump(in ssa.Instruction) bool {
	switch x := in.(type) {
	case *ssa.Store:
		_, incr, base := c06GenStore(x, cv.gen)
		return incr && cv.ownerParam(base) != nil
	case *ssa.Go:
		return false
	case ssa.CallInstruction:
		callees := cv.g.out[x]
		if len(callees) == 0 || cv.g.callback[x] {
			return false
		}
		c := CallSite{x.Parent(), x}
		args := c.Args()
		for _, callee := range callees {
			if !cv.always[callee] {
				return false
			}
			// the callee increments the generation of one of its parameters: it must be our owner
			okArg := false
			for i, prm := range callee.Params {
				if NamedOf(prm.Type()) == cv.gen.typ && i < len(args) && cv.ownerParam(args[i]) != nil {
					okArg = true
				}
			}
			if !okArg && len(callee.FreeVars) == 0 {
				return false
			}
		}
		return true
	}
	return false
}

// allPathsPass: every path from (b, idx) to a return passes a bump (panics end a path harmlessly).
func (cv *c06Cover) allPathsPass(b *ssa.BasicBlock, idx int) bool {
	seen := map[*ssa.BasicBlock]bool{}
	var walk func(b *ssa.BasicBlock, from int) bool
	walk = func(b *ssa.BasicBlock, from int) bool {
		for i := from; i < len(b.Instrs); i++ {
			in := b.Instrs[i]
			if cv.isBump(in) {
				return true
			}
			switch in.(type) {
			case *ssa.Return:
				return false
			case *ssa.Panic:
				return true
			}
		}
		for _, s := range b.Succs {
			if seen[s] {
				continue
			}
			seen[s] = true
			if !walk(s, 0) {
				return false
			}
		}
		return true
	}
	return walk(b, idx)
}

func (cv *c06Cover) computeAlways() {
	for {
		changed := false
		for _, fn := range cv.g.order {
			if cv.always[fn] || len(fn.Blocks) == 0 {
				continue
			}
			if cv.allPathsPass(fn.Blocks[0], 0) {
				cv.always[fn] = true
				changed = true
			}
		}
		if !changed {
			return
		}
	}
}

// covered: on every path through the root that executes `in`, a bump is executed too.
func (cv *c06Cover) covered(in ssa.Instruction) *c06CovRes {
	if r, ok := cv.memo[in]; ok {
		return r
	}
	if cv.inprog[in] {
		return &c06CovRes{false, "recursive call chain"}
	}
	cv.inprog[in] = true
	defer delete(cv.inprog, in)
	fn := in.Parent()
	res := &c06CovRes{}
	defer func() { cv.memo[in] = res }()
	if _, isGo := in.(*ssa.Go); isGo {
		res.why = "started with `go` in " + c06FnName(fn) + ": runs outside addBlob's critical section"
		return res
	}
	if cv.isBump(in) {
		res.ok, res.why = true, c06BumpName(in, cv.gen)+" is itself an increment"
		return res
	}
	for _, b := range fn.Blocks {
		for _, x := range b.Instrs {
			if x != in && cv.isBump(x) && Precedes(x, in) {
				res.ok, res.why = true, c06BumpName(x, cv.gen)+" in "+c06FnName(fn)+" precedes it on every path"
				return res
			}
		}
	}
	if cv.allPathsPass(in.Block(), instrIndex(in)+1) {
		res.ok, res.why = true, "every path from it to a return of "+c06FnName(fn)+" passes an increment of "+cv.gen.String()
		return res
	}
	if fn == cv.root {
		res.why = "no increment of " + cv.gen.String() + " on some path through " + c06FnName(fn)
		return res
	}
	callers := cv.g.in[fn]
	if len(callers) == 0 {
		res.why = c06FnName(fn) + " has no resolved caller under " + c06FnName(cv.root)
		return res
	}
	var via []string
	for _, c := range callers {
		r := cv.covered(c.Instr)
		if !r.ok {
			res.why = "not in " + c06FnName(fn) + "; its caller " + c06FnName(c.Fn) + ": " + r.why
			return res
		}
		via = append(via, c06FnName(c.Fn))
	}
	res.ok, res.why = true, "every caller passes an increment ("+strings.Join(c06Dedupe(via), ", ")+")"
	return res
}

func c06Dedupe(s []string) []string {
	seen := map[string]bool{}
	var out []string
	for _, x := range s {
		if !seen[x] {
			seen[x] = true
			out = append(out, x)
		}
	}
	return out
}

func c06BumpName(in ssa.Instruction, gen c06Loc) string {
	if _, ok := in.(*ssa.Store); ok {
		return "the increment of " + gen.String()
	}
	if ci, ok := in.(ssa.CallInstruction); ok {
		return "the call of " + (CallSite{in.Parent(), ci}).CalleeKey() + " (which always increments " + gen.String() + ")"
	}
	return "an increment"
}

// ---- the rule

func c06RuleInval(cx *c06Ctx) {
	const rule = "K-inval"
	p, r := cx.p, cx.r
	addBlob := p.Func(c06Rel, "Corpus", "addBlob")
	scanFn := p.Func(c06Rel, "Corpus", "scanFromStorage")
	stamped := cx.stampedCaches()
	if len(stamped) == 0 {
		r.Undecided(rule, "pkg/index#stamped-caches", p.Pos(addBlob.Pos()), "no struct field of pkg/index is compared with or assigned from an integer field of Corpus/Index any more: the generation stamp that invalidated the sorted-permanode caches is gone or takes a form this rule cannot follow (e.g. sync/atomic), and the rule has nothing to anchor on")
		r.Floor(rule, 20)
		return
	}
	live := cx.buildCG([]*ssa.Function{addBlob}, false)
	load := cx.buildCG([]*ssa.Function{scanFn}, false)
	all, sites := cx.allScope()
	n := 0

	for _, sc := range stamped {
		tname := sc.typ.Obj().Name()
		isAcc := map[*ssa.Function]bool{}
		for _, f := range sc.accessors {
			isAcc[f] = true
		}
		if len(sc.caches) == 0 || len(sc.accessors) == 0 {
			r.Undecided(rule, "pkg/index."+tname+"#cache-fields", p.Pos(addBlob.Pos()), tname+"."+sc.stamp+" is related to "+sc.gen.String()+" but no cache field of "+tname+" is assigned outside its constructor")
			continue
		}

		// (R) reader side
		pr := &c06Proto{cx: cx, sc: sc, isAcc: isAcc, memo: map[string]*c06CState{}, inprog: map[string]bool{},
			reports: map[*ssa.Function]map[string]token.Pos{}, undec: map[*ssa.Function]string{}, checked: map[*ssa.Function]int{}}
		entry := &c06CState{reached: true, old: 1<<uint(len(sc.caches)) - 1}
		for _, fn := range sc.accessors {
			isRoot := len(p.FuncValueUses(fn)) > 0 || fn.Parent() != nil
			callers := p.StaticCallers(fn)
			if len(callers) == 0 {
				isRoot = true
			}
			for _, c := range callers {
				if !isAcc[c.Fn] {
					isRoot = true
				}
			}
			if isRoot {
				pr.analyse(fn, entry)
			}
		}
		for _, fn := range sc.accessors {
			if pr.checked[fn] == 0 {
				pr.analyse(fn, entry)
			}
		}
		for _, fn := range sc.accessors {
			n++
			construct := FuncKey(fn) + "#cache-protocol"
			site := p.Pos(fn.Pos())
			if why := pr.undec[fn]; why != "" {
				r.Undecided(rule, construct, site, why)
				continue
			}
			if len(pr.reports[fn]) == 0 {
				r.OK(rule, construct, site, fmt.Sprintf("%s of %s: content that may date from an older generation is used only on the %s==%s edge, and %s is refreshed (from %s itself) only when every kept field was cleared, rebuilt, or is on that edge", strings.Join(sc.caches, "/"), tname, sc.stamp, sc.gen.field, sc.stamp, sc.gen.String()))
				continue
			}
			var msgs []string
			for m := range pr.reports[fn] {
				msgs = append(msgs, m)
			}
			sort.Strings(msgs)
			for _, m := range msgs {
				r.Violation(rule, construct, p.Pos(pr.reports[fn][m]), m)
			}
		}

		// the generation field must be an ordinary variable: read and assigned, never handed out
		genEscapes := false
		for _, fn := range cx.fns {
			for _, b := range fn.Blocks {
				for _, in := range b.Instrs {
					fa, ok := in.(*ssa.FieldAddr)
					if !ok || NamedOf(fa.X.Type()) != sc.gen.typ || fieldName(fa.X.Type(), fa.Field) != sc.gen.field || fa.Referrers() == nil {
						continue
					}
					for _, ref := range *fa.Referrers() {
						switch x := ref.(type) {
						case *ssa.UnOp, *ssa.DebugRef:
						case *ssa.Store:
							if x.Addr != ssa.Value(fa) {
								genEscapes = true
							}
						default:
							genEscapes = true
						}
						if genEscapes {
							n++
							r.Undecided(rule, FuncKey(fn)+"#gen-store", p.Pos(fa.Pos()), "the address of "+sc.gen.String()+" is handed out (e.g. to sync/atomic): increments and reads of the generation can no longer be followed, the writer side of this rule is not evaluated")
							break
						}
					}
				}
			}
		}

		// (S) the generation only grows
		for _, fn := range cx.fns {
			for _, b := range fn.Blocks {
				for _, in := range b.Instrs {
					st, ok := in.(*ssa.Store)
					if !ok {
						continue
					}
					isGen, incr, base := c06GenStore(st, sc.gen)
					if !isGen {
						continue
					}
					n++
					construct := FuncKey(fn) + "#gen-store"
					switch {
					case c06Roots(base).onlyFresh():
						r.OK(rule, construct, p.Pos(st.Pos()), "initialises "+sc.gen.String()+" of an object allocated here")
					case incr:
						r.OK(rule, construct, p.Pos(st.Pos()), sc.gen.String()+" is incremented by a positive constant")
					case c06GenGoesBack(st, sc.gen):
						r.Violation(rule, construct, p.Pos(st.Pos()), sc.gen.String()+" is reset or decreased on a live corpus: a generation that repeats makes "+tname+"."+sc.stamp+" match again after the corpus changed, and the stale cache is served")
					default:
						r.Undecided(rule, construct, p.Pos(st.Pos()), sc.gen.String()+" is assigned something other than itself plus a positive constant: it cannot be established that the generation never repeats (a repeat makes "+tname+"."+sc.stamp+" match again after changes)")
					}
				}
			}
		}

		// compute side: what the cache content is computed from
		comp := cx.buildCG(sc.accessors, true)
		var unres []ssa.CallInstruction
		for ci := range comp.unresolved {
			unres = append(unres, ci)
		}
		sort.Slice(unres, func(i, j int) bool { return unres[i].Pos() < unres[j].Pos() })
		for _, ci := range unres {
			if !comp.feasible(ci.Block()) {
				continue
			}
			r.Undecided(rule, FuncKey(ci.Parent())+"#compute-call", p.Pos(ci.Pos()), "a call made while computing the "+tname+" caches cannot be resolved ("+comp.unresolved[ci]+"): the set of locations the caches depend on is incomplete")
		}
		reads := comp.reads()
		for l := range reads {
			if l.typ == sc.typ || l == sc.gen {
				delete(reads, l)
			}
		}
		readBy := func(l c06Loc) ([]*ssa.Function, bool) {
			if fs, ok := reads[l]; ok {
				return fs, true
			}
			if l.field == "*" {
				for rl, fs := range reads {
					if rl.typ == l.typ {
						return fs, true
					}
				}
			}
			return nil, false
		}
		{
			var rl []string
			for l := range reads {
				rl = append(rl, l.String())
			}
			sort.Strings(rl)
			r.Note("K-inval: the %s caches (stamp %s, generation %s) are computed from: %s", tname, sc.stamp, sc.gen, strings.Join(rl, " "))
		}
		r.Analysed("cache_compute_functions", len(comp.order))
		r.Analysed("cache_read_locations", len(reads))

		// no cache reader under the live or the load entry
		{
			n++
			var bad []string
			for _, f := range sc.accessors {
				if live.funcs[f] {
					bad = append(bad, c06FnName(f)+" (under addBlob)")
				}
				if load.funcs[f] {
					bad = append(bad, c06FnName(f)+" (under scanFromStorage)")
				}
			}
			if len(bad) == 0 {
				r.OK(rule, FuncKey(addBlob)+"#no-cache-reader:"+tname, p.Pos(addBlob.Pos()), "no function that builds or serves the "+tname+" caches is reachable from addBlob or scanFromStorage: a cache is never stamped in the middle of an update")
			} else {
				// harmless after the last write of the update, wrong before it; the order is not analysed
				r.Undecided(rule, FuncKey(addBlob)+"#no-cache-reader:"+tname, p.Pos(addBlob.Pos()), "the "+tname+" caches can be built while the corpus is being updated: "+strings.Join(bad, ", ")+"; what is built then is stamped with a generation that later writes of the same update may not change (#inval only requires one increment per update, before or after the writes), and whether writes can follow is not analysed")
			}
		}

		// (W) writer side
		if genEscapes {
			continue
		}
		cv := &c06Cover{cx: cx, g: live, gen: sc.gen, root: addBlob, always: map[*ssa.Function]bool{}, memo: map[ssa.Instruction]*c06CovRes{}, inprog: map[ssa.Instruction]bool{}}
		cv.computeAlways()
		for ci, why := range live.unresolved {
			r.Undecided(rule, FuncKey(ci.Parent())+"#live-call", p.Pos(ci.Pos()), "a call on the live path under addBlob cannot be resolved ("+why+"): writers of cache inputs may be missed")
		}
		type gkey struct {
			fn  *ssa.Function
			loc c06Loc
		}
		type grp struct {
			sites []c06WSite
		}
		groups := map[gkey]*grp{}
		var gorder []gkey
		for _, s := range sites {
			if s.undc != "" {
				if live.funcs[s.fn] {
					k := gkey{s.fn, c06Loc{}}
					if groups[k] == nil {
						groups[k] = &grp{}
						gorder = append(gorder, k)
					}
					groups[k].sites = append(groups[k].sites, s)
				}
				continue
			}
			if _, ok := readBy(s.loc); !ok {
				continue
			}
			k := gkey{s.fn, s.loc}
			if groups[k] == nil {
				groups[k] = &grp{}
				gorder = append(gorder, k)
			}
			groups[k].sites = append(groups[k].sites, s)
		}
		sort.Slice(gorder, func(i, j int) bool {
			a, b := gorder[i], gorder[j]
			if FuncKey(a.fn) != FuncKey(b.fn) {
				return FuncKey(a.fn) < FuncKey(b.fn)
			}
			if a.loc.typ == nil || b.loc.typ == nil {
				return a.loc.typ == nil && b.loc.typ != nil
			}
			return a.loc.String() < b.loc.String()
		})
		nLive := 0
		for _, k := range gorder {
			g := groups[k]
			first := g.sites[0]
			site := p.Pos(first.in.Pos())
			if k.loc.typ == nil {
				n++
				r.Undecided(rule, FuncKey(k.fn)+"#inval:?", site, "on the live path under addBlob, "+c06FnName(k.fn)+" "+first.how+" a reference that cannot be followed to the state it belongs to ("+first.undc+")")
				continue
			}
			readers, _ := readBy(k.loc)
			var rn []string
			for _, f := range readers {
				rn = append(rn, c06FnName(f))
			}
			sort.Strings(rn)
			if len(rn) > 3 {
				rn = append(rn[:3], "…")
			}
			switch {
			case live.funcs[k.fn]:
				n++
				nLive++
				construct := FuncKey(k.fn) + "#inval:" + k.loc.String()
				bad := ""
				okWhy := ""
				for _, s := range g.sites {
					res := cv.covered(s.in)
					if !res.ok {
						bad = res.why
						site = p.Pos(s.in.Pos())
						break
					}
					okWhy = res.why
				}
				if bad == "" {
					r.OK(rule, construct, site, fmt.Sprintf("%s %s (read by %s when the %s caches are built): %s", first.how, k.loc, strings.Join(rn, ", "), tname, okWhy))
				} else {
					r.Violation(rule, construct, site, fmt.Sprintf("%s %s %s, which %s read(s) when the %s caches are built, on a path through addBlob on which %s is not incremented (%s): %s.%s still equals %s, so the live corpus keeps serving the permanode order computed before this write, while a corpus reloaded from the same rows computes it afresh",
						c06FnName(k.fn), first.how, k.loc, strings.Join(rn, ", "), tname, sc.gen, bad, tname, sc.stamp, sc.gen.field))
				}
			case load.funcs[k.fn]:
				n++
				r.OKTable(rule, FuncKey(k.fn)+"#inval-load:"+k.loc.String(), site, "load path only (under scanFromStorage, which runs on a corpus allocated by its caller and not yet published: #load-on-fresh-corpus)")
			default:
				n++
				r.Violation(rule, FuncKey(k.fn)+"#inval-outside:"+k.loc.String(), site, fmt.Sprintf("%s %s %s, which the %s caches are computed from, but is reachable neither from addBlob (where %s is incremented) nor from scanFromStorage (fresh corpus): the caches are not invalidated by this write", c06FnName(k.fn), first.how, k.loc, tname, sc.gen))
			}
		}
		r.Analysed("live_cache_input_writers", nLive)
		r.Analysed("live_path_functions", len(live.order))
	}

	// (L) the load entry runs on a corpus nobody has seen yet
	for _, c := range p.StaticCallers(scanFn) {
		n++
		// allocated by the caller itself (the constructor written out in place) ...
		ok := c06Fresh(c.Args()[0], c.Fn)
		// ... or by a constructor the caller calls, every result of which is a new object
		if call, isCall := originValue(c.Args()[0]).(*ssa.Call); isCall && call.Parent() == c.Fn {
			if mk := (CallSite{c.Fn, call}).Callee(); mk != nil && mk.Blocks != nil {
				ok = true
				for _, ri := range Returns(mk) {
					for _, res := range ri.Results {
						if NamedOf(res.Type()) == cx.tCorpus && !c06Fresh(res, mk) {
							ok = false
						}
					}
				}
			}
		}
		r.Check(ok, rule, FuncKey(c.Fn)+"#load-on-fresh-corpus", p.Pos(c.Pos()),
			"scanFromStorage runs on the Corpus its caller just allocated: no cache can have been built from it yet, so the load path needs no generation increment",
			"scanFromStorage is run on a Corpus that is not freshly allocated in the caller: caches built earlier are not invalidated by the rows it merges (the load path does not touch the generation)")
	}
	if uses := p.FuncValueUses(scanFn); len(uses) > 0 {
		r.Undecided(rule, FuncKey(scanFn)+"#value", p.Pos(uses[0].Pos()), "scanFromStorage is used as a function value")
	}
	n += c06RuleDerived(cx, live, all, sites)
	// order invariants: the corpus (scanFromStorage vs addBlob, which runs with building == false:
	// #building-false-when-live) and the index's own deletion cache (its loader vs commit)
	n += c06RuleOrder(cx, load, live, all, sites, "scanFromStorage", "addBlob", c06AssumeNotBuilding(cx.tCorpus), 2)
	// the load entry of the index's own deletion cache is found by its role (the function that
	// reads the 'deleted' rows and fills Index.deletes), not by its name
	initDel := cx.indexDeletesLoaders()
	var initDelNames []string
	for _, f := range initDel {
		initDelNames = append(initDelNames, c06FnName(f))
	}
	commit := p.Func(c06Rel, "Index", "commit")
	if len(initDel) == 0 {
		n++
		r.Undecided(rule, "pkg/index#order-invariants:index-deletes-loader", p.Pos(commit.Pos()), "no function of pkg/index reads the 'deleted' rows and fills Index.deletes: the load entry of the index deletion cache cannot be found, so the order its entries are loaded in cannot be compared with the live path")
	} else {
		n += c06RuleOrder(cx, cx.buildCG(initDel, false), cx.buildCG([]*ssa.Function{commit}, false), all, sites, strings.Join(initDelNames, ", "), "Index.commit", nil, 1)
	}
	r.Analysed("inval_obligations", n)
	r.Floor(rule, 26) // 24 before the order clause + 3 order invariants + 3 ordered live writes, minus slack
}

// ---- eagerly maintained derived fields (PermanodeMeta.attr / .signer from .Claims)
//
// The anchor is the function the load path uses to (re)build the derived
// fields: (*PermanodeMeta).restoreInvariants. D = the receiver fields it
// assigns, S = the other receiver fields it reads. On the live path (building
// == false), every write to an S field of an existing object must be followed,
// on every path to a return of the writing function, by a call (same object) of
// a method that writes a D field, or by a direct assignment of a D field.

func c06RuleDerived(cx *c06Ctx, live, all *c06CG, sites []c06WSite) int {
	const rule = "K-inval"
	p, r := cx.p, cx.r
	rest := p.Func(c06Rel, "PermanodeMeta", "restoreInvariants")
	scanFn := p.Func(c06Rel, "Corpus", "scanFromStorage")
	tPM := NamedOf(rest.Params[0].Type())
	recv := ssa.Value(rest.Params[0])
	D, S := map[string]bool{}, map[string]bool{}
	for _, b := range rest.Blocks {
		for _, in := range b.Instrs {
			switch x := in.(type) {
			case *ssa.Store:
				if n, f, base, ok := c06FieldOf(x.Addr); ok && n == tPM && c06SamePlace(base, recv) {
					D[f] = true
				}
			case *ssa.UnOp:
				if x.Op == token.MUL {
					if n, f, base, ok := c06FieldOf(x.X); ok && n == tPM && c06SamePlace(base, recv) {
						S[f] = true
					}
				}
			}
		}
	}
	for f := range D {
		delete(S, f)
	}
	n := 1
	if len(D) == 0 || len(S) == 0 {
		r.Undecided(rule, FuncKey(rest)+"#derived", p.Pos(rest.Pos()), "restoreInvariants no longer assigns receiver fields computed from other receiver fields: the derived-attribute clause has nothing to anchor on")
		return n
	}
	dn, sn := strings.Join(c06Keys(D), "/"), strings.Join(c06Keys(S), "/")
	r.OKTable(rule, FuncKey(rest)+"#derived", p.Pos(rest.Pos()), "load-time rebuild: PermanodeMeta."+dn+" is derived from PermanodeMeta."+sn)

	// methods of PermanodeMeta from which a write of a D field is reachable
	writesD := map[*ssa.Function]bool{}
	for _, s := range sites {
		if s.loc.typ == tPM && D[s.loc.field] {
			writesD[s.fn] = true
		}
	}
	for changed := true; changed; {
		changed = false
		for ci, callees := range all.out {
			if all.callback[ci] || writesD[ci.Parent()] {
				continue
			}
			for _, c := range callees {
				if writesD[c] {
					writesD[ci.Parent()] = true
					changed = true
				}
			}
		}
	}
	// Corpus.building is false whenever the live path runs
	tCorpus := cx.tCorpus
	{
		n++
		bad := ""
		buildingStore := func(in ssa.Instruction) (isFalse, ok bool) {
			st, isSt := in.(*ssa.Store)
			if !isSt {
				return false, false
			}
			nn, f, base, isF := c06FieldOf(st.Addr)
			if !isF || nn != tCorpus || f != "building" || c06Roots(base).onlyFresh() {
				return false, false
			}
			c, isC := st.Val.(*ssa.Const)
			return isC && c.Value != nil && c.Value.String() == "false", true
		}
		for _, fn := range cx.fns {
			for _, b := range fn.Blocks {
				for _, in := range b.Instrs {
					if _, ok := buildingStore(in); !ok || fn == scanFn {
						continue
					}
					// a helper split off scanFromStorage (all its callers are scanFromStorage or such helpers) counts as scanFromStorage
					if _, isHelper := cx.helperOf(fn, func(f *ssa.Function) bool { return f == scanFn }, 0); !isHelper {
						bad = c06FnName(fn) + " assigns Corpus.building outside scanFromStorage"
					}
				}
			}
		}
		if bad == "" {
			stores := cx.effFind(scanFn, "w:building", func(in ssa.Instruction) bool { _, ok := buildingStore(in); return ok })
			for _, nr := range MaybeNilErrorReturns(scanFn) {
				ok := false
				retOcc := c06Occ{root: scanFn, in: c06LastInstr(nr.From)}
				for _, fo := range stores {
					if isFalse, _ := buildingStore(fo.in); !isFalse {
						continue
					}
					if done, _ := cx.before(fo, retOcc, nr.Val, true); !done {
						continue
					}
					ok = true
					for _, so := range stores {
						if isFalse, _ := buildingStore(so.in); isFalse || so.in == fo.in {
							continue
						}
						k := fo.common(so)
						if fo.rep(k) == so.rep(k) || ReachableFrom(fo.rep(k), nil)[so.rep(k)] {
							ok = false // set to true again afterwards
						}
					}
					if ok {
						break
					}
				}
				if !ok {
					bad = "scanFromStorage can return successfully with Corpus.building still true: the live path would skip keeping PermanodeMeta." + dn + " in step"
				}
			}
		}
		r.Check(bad == "", rule, FuncKey(scanFn)+"#building-false-when-live", p.Pos(scanFn.Pos()),
			"Corpus.building is assigned only in scanFromStorage and is false on each of its success returns: the live path (addBlob) always runs with building == false", bad)
	}
	assume := c06AssumeNotBuilding(tCorpus)
	type wsite struct {
		fn   *ssa.Function
		in   ssa.Instruction
		base ssa.Value
		f    string
		how  string
	}
	var ws []wsite
	for _, fn := range live.order {
		for _, b := range fn.Blocks {
			for _, in := range b.Instrs {
				switch x := in.(type) {
				case *ssa.Store:
					if nn, f, base, ok := c06FieldOf(x.Addr); ok && nn == tPM && S[f] && !c06Roots(base).onlyFresh() {
						ws = append(ws, wsite{fn, in, base, f, "assigns"})
					}
				case ssa.CallInstruction:
					cc := x.Common()
					f := cc.StaticCallee()
					if f == nil {
						continue
					}
					idx, isMut := c06Mutators[c06ExternalKey(f)]
					if !isMut || idx >= len(cc.Args) {
						continue
					}
					DependsOn(cc.Args[idx], func(v ssa.Value) bool {
						if u, ok := v.(*ssa.UnOp); ok && u.Op == token.MUL {
							if nn, fld, base, ok := c06FieldOf(u.X); ok && nn == tPM && S[fld] && !c06Roots(base).onlyFresh() {
								ws = append(ws, wsite{fn, in, base, fld, "reorders"})
								return true
							}
						}
						return false
					})
				}
			}
		}
	}
	seen := map[string]bool{}
	for _, w := range ws {
		construct := FuncKey(w.fn) + "#derived:" + tPM.Obj().Name() + "." + w.f
		fn, base := w.fn, w.base
		leaks := LeakingExits(PathQuery{
			Start: w.in,
			Stop: func(in ssa.Instruction) bool {
				switch x := in.(type) {
				case *ssa.Store:
					nn, f, b2, ok := c06FieldOf(x.Addr)
					return ok && nn == tPM && D[f] && c06SamePlace(b2, base)
				case *ssa.Call:
					c := CallSite{fn, x}
					callee := c.Callee()
					if callee == nil || !writesD[callee] || callee.Signature.Recv() == nil || NamedOf(callee.Signature.Recv().Type()) != tPM {
						return false
					}
					return c06SamePlace(c.Args()[0], base)
				}
				return false
			},
			Assume:       assume,
			IgnorePanics: true,
		})
		if seen[construct] && len(leaks) == 0 {
			continue
		}
		seen[construct] = true
		n++
		detail := ""
		if len(leaks) > 0 {
			detail = fmt.Sprintf("%s %s PermanodeMeta.%s of an existing permanode on the live path, and the return at line %d is reached (with building == false) without a call that brings PermanodeMeta.%s up to date for the same permanode: attribute look-ups (PermanodeAttrValue, the pnTime functions behind the sorted-permanode caches) answer from the stale %s, while a restart rebuilds it from all claims", c06FnName(w.fn), w.how, w.f, p.Fset.Position(leaks[0].Exit.Pos()).Line, dn, dn)
		}
		r.Check(len(leaks) == 0, rule, construct, p.Pos(w.in.Pos()),
			"every path (building == false) from this write of PermanodeMeta."+w.f+" to a return passes a call, on the same permanode, of a method that updates PermanodeMeta."+dn+", or assigns it directly", detail)
	}
	if len(ws) == 0 {
		r.Violation(rule, FuncKey(rest)+"#derived-writers", p.Pos(rest.Pos()), "no live write of PermanodeMeta."+sn+" found under addBlob: claims no longer reach the live corpus")
	}
	return n
}

// c06AssumeNotBuilding: Corpus.building is false on the live path (#building-false-when-live).
func c06AssumeNotBuilding(tCorpus *types.Named) func(ssa.Value) (bool, bool) {
	return func(cond ssa.Value) (bool, bool) {
		neg := false
		for {
			if u, ok := cond.(*ssa.UnOp); ok && u.Op == token.NOT {
				cond, neg = u.X, !neg
				continue
			}
			break
		}
		if l, _, ok := c06DirectField(cond); ok && l.typ == tCorpus && l.field == "building" {
			return true, neg // building is false
		}
		return false, false
	}
}

// ---- order invariants the load path establishes (K-inval #order)
//
// Discovery (nothing named): every in-place sort (sort.Sort/Stable/Slice/
// SliceStable, slices.Sort*/SortFunc*) executed on a load path whose slice is
// (an element of) a struct field of corpus/index state is an ORDER INVARIANT of
// that field: after a restart the field is sorted by that comparator. The
// comparator is not identified by name but by what it computes: the Less
// method / less function is evaluated symbolically over the placeholders
// SLICE, I, J (sort.Reverse swaps I and J), e.g.
//     call((time.Time).Before;SLICE[I].Date;SLICE[J].Date).
//
// Obligation: every live write (assignment of the field, update of its map
// entry) must, on every path from the write to the return of the writing
// function — and, if the written object is a parameter, of its callers up to
// the live entry — pass
//   * the same sort (same symbolic comparator) of the same field of the same
//     object, directly or in a callee all of whose returns are so covered, or
//   * the "in order" edge of a comparison of the last two elements by the
//     comparator's own key (effLess(len-2,len-1) true, effLess(len-1,len-2) false), or
//   * an edge on which len(field) <= 1 is known,
// or the written value must itself have been sorted by that comparator before
// it is stored. Anything else: "the live path can leave <field> unsorted".

type c06SortCall struct {
	in    ssa.CallInstruction
	fn    *ssa.Function
	slice ssa.Value     // the slice handed to the sort, conversions stripped
	rev   bool          // wrapped in sort.Reverse an odd number of times
	kind  string        // "iface" (Less method), "lessfn" (func(i,j) bool), "cmpfn" (func(a,b) int), "natural"
	cmp   *ssa.Function // Less method / less literal / cmp literal; nil if it cannot be named
	name  string        // for reports
}

func c06StripConv(v ssa.Value) ssa.Value {
	for i := 0; i < 16 && v != nil; i++ {
		switch x := v.(type) {
		case *ssa.ChangeType:
			v = x.X
		case *ssa.Convert:
			v = x.X
		case *ssa.MakeInterface:
			v = x.X
		default:
			return v
		}
	}
	return v
}

// c06LessMethod: the declared Less method of a named (non-interface) type.
func (cx *c06Ctx) lessMethod(n *types.Named) *ssa.Function {
	if _, isIface := n.Underlying().(*types.Interface); isIface {
		return nil
	}
	for _, t := range []types.Type{n, types.NewPointer(n)} {
		sel := cx.p.SSA.MethodSets.MethodSet(t).Lookup(n.Obj().Pkg(), "Less")
		if sel == nil {
			continue
		}
		if f := cx.p.SSA.MethodValue(sel); f != nil && f.Blocks != nil {
			return f
		}
	}
	return nil
}

func c06FuncValue(v ssa.Value) *ssa.Function {
	switch x := originValue(v).(type) {
	case *ssa.MakeClosure:
		return x.Fn.(*ssa.Function)
	case *ssa.Function:
		return x
	}
	return nil
}

// parseSort recognises a call of one of the standard in-place sorts.
func (cx *c06Ctx) parseSort(ci ssa.CallInstruction) *c06SortCall {
	if _, isCall := ci.(*ssa.Call); !isCall {
		return nil
	}
	cc := ci.Common()
	f := cc.StaticCallee()
	if f == nil {
		return nil
	}
	key := c06ExternalKey(f)
	sc := &c06SortCall{in: ci, fn: ci.Parent()}
	switch key {
	case "sort.Sort", "sort.Stable":
		if len(cc.Args) != 1 {
			return nil
		}
		sc.kind = "iface"
		v := cc.Args[0]
	peel:
		for i := 0; i < 16; i++ {
			if n, _ := v.Type().(*types.Named); n != nil && sc.cmp == nil {
				if m := cx.lessMethod(n); m != nil {
					sc.cmp, sc.name = m, n.Obj().Name()
				}
			}
			switch x := v.(type) {
			case *ssa.MakeInterface:
				v = x.X
			case *ssa.ChangeType:
				v = x.X
			case *ssa.Convert:
				v = x.X
			case *ssa.Call:
				g := x.Call.StaticCallee()
				if g == nil || c06ExternalKey(g) != "sort.Reverse" || len(x.Call.Args) != 1 {
					break peel
				}
				sc.rev = !sc.rev
				v = x.Call.Args[0]
			case *ssa.UnOp:
				if x.Op != token.MUL {
					break peel
				}
				r := resolveLoad(x)
				if r == nil {
					break peel
				}
				v = r
			default:
				break peel
			}
		}
		sc.slice = v
		if sc.rev {
			sc.name = "reverse " + sc.name
		}
	case "sort.Slice", "sort.SliceStable":
		if len(cc.Args) != 2 {
			return nil
		}
		sc.kind, sc.slice, sc.cmp, sc.name = "lessfn", c06StripConv(cc.Args[0]), c06FuncValue(cc.Args[1]), "less function"
	case "slices.SortFunc", "slices.SortStableFunc":
		if len(cc.Args) != 2 {
			return nil
		}
		sc.kind, sc.slice, sc.cmp, sc.name = "cmpfn", c06StripConv(cc.Args[0]), c06FuncValue(cc.Args[1]), "compare function"
	case "slices.Sort", "sort.Strings", "sort.Ints", "sort.Float64s":
		if len(cc.Args) != 1 {
			return nil
		}
		sc.kind, sc.slice, sc.name = "natural", c06StripConv(cc.Args[0]), "natural order"
	default:
		return nil
	}
	return sc
}

// -- symbolic rendering of comparison expressions

type c06SymEnv struct {
	fn      *ssa.Function
	isSlice func(ssa.Value) bool // recognises the ordered slice in fn's own values
	params  map[*ssa.Parameter]string
	parent  *c06SymEnv // environment of the function that created this literal
}

// sym renders v as a canonical string over the placeholders SLICE / LEN /
// parameter bindings. Dereferences are transparent (a place and its content
// render alike); shapes that are not followed render as a unique "?…" string
// that never equals anything else.
func (cx *c06Ctx) sym(v ssa.Value, env *c06SymEnv, depth int) string {
	if v == nil || depth > 40 {
		return uniquePath(v)
	}
	if env.isSlice != nil && env.isSlice(v) {
		return "SLICE"
	}
	rec := func(x ssa.Value) string { return cx.sym(x, env, depth+1) }
	switch x := v.(type) {
	case *ssa.Parameter:
		if s, ok := env.params[x]; ok {
			return s
		}
	case *ssa.FreeVar:
		if b := bindingOf(x); b != nil && env.parent != nil {
			return cx.sym(b, env.parent, depth+1)
		}
	case *ssa.Alloc:
		if sts := storesTo(x); len(sts) == 1 {
			return cx.sym(sts[0].Val, env, depth+1)
		}
	case *ssa.Const:
		if x.Value == nil {
			return "nil"
		}
		return x.Value.ExactString()
	case *ssa.ChangeType:
		return rec(x.X)
	case *ssa.Convert:
		return rec(x.X)
	case *ssa.MakeInterface:
		return rec(x.X)
	case *ssa.UnOp:
		switch x.Op {
		case token.MUL:
			if fv, isFV := x.X.(*ssa.FreeVar); isFV {
				return rec(fv) // captured variable: rendered in the creating function's environment
			}
			if r := resolveLoad(x); r != nil {
				return rec(r)
			}
			if _, isAlloc := x.X.(*ssa.Alloc); isAlloc {
				return uniquePath(v)
			}
			return rec(x.X)
		case token.NOT:
			return "!" + rec(x.X)
		}
	case *ssa.FieldAddr:
		return rec(x.X) + "." + fieldName(x.X.Type(), x.Field)
	case *ssa.Field:
		return rec(x.X) + "." + fieldName(x.X.Type(), x.Field)
	case *ssa.IndexAddr:
		return rec(x.X) + "[" + rec(x.Index) + "]"
	case *ssa.Index:
		return rec(x.X) + "[" + rec(x.Index) + "]"
	case *ssa.Lookup:
		if !x.CommaOk {
			return rec(x.X) + "[" + rec(x.Index) + "]"
		}
	case *ssa.BinOp:
		a, b := rec(x.X), rec(x.Y)
		switch x.Op {
		case token.GTR:
			return "(" + b + " < " + a + ")"
		case token.GEQ:
			return "(" + b + " <= " + a + ")"
		case token.SUB:
			if k, ok := ConstInt(x.Y); ok && a == "LEN" {
				return fmt.Sprintf("LEN-%d", k)
			}
		}
		return "(" + a + " " + x.Op.String() + " " + b + ")"
	case *ssa.Call:
		cc := x.Common()
		if bi, ok := cc.Value.(*ssa.Builtin); ok {
			if bi.Name() == "len" && len(cc.Args) == 1 {
				if a := rec(cc.Args[0]); a == "SLICE" {
					return "LEN"
				} else {
					return "len(" + a + ")"
				}
			}
			return uniquePath(v)
		}
		cs := CallSite{x.Parent(), x}
		callee := cs.Callee()
		if callee == nil {
			return uniquePath(v)
		}
		args := cs.Args()
		as := make([]string, len(args))
		for i, a := range args {
			as[i] = rec(a)
		}
		if s, ok := cx.symInline(callee, as, env, depth+1); ok {
			return s
		}
		return c06SymCall(callee, as)
	}
	return uniquePath(v)
}

func c06SymCall(callee *ssa.Function, as []string) string {
	name := callee.String()
	if name == "(time.Time).After" && len(as) == 2 {
		name, as = "(time.Time).Before", []string{as[1], as[0]}
	}
	return "call(" + name + ";" + strings.Join(as, ";") + ")"
}

// symInline: callee is a one-block function with a single result; render that
// result with the parameters bound to as (receiver first).
func (cx *c06Ctx) symInline(callee *ssa.Function, as []string, env *c06SymEnv, depth int) (string, bool) {
	if callee == nil || len(callee.Blocks) != 1 || len(callee.Params) != len(as) || depth > 40 {
		return "", false
	}
	if top := TopFunc(callee); top.Pkg != nil && !InModule(top) {
		return "", false
	}
	ret, ok := c06LastInstr(callee.Blocks[0]).(*ssa.Return)
	if !ok || len(ret.Results) != 1 {
		return "", false
	}
	e2 := &c06SymEnv{fn: callee, params: map[*ssa.Parameter]string{}}
	for i, prm := range callee.Params {
		e2.params[prm] = as[i]
	}
	if callee.Parent() != nil && env != nil && callee.Parent() == env.fn {
		e2.parent = env
	}
	return cx.sym(ret.Results[0], e2, depth+1), true
}

// sortLess renders "element at index i sorts before element at index j" for the comparator of sc.
func (cx *c06Ctx) sortLess(sc *c06SortCall, env *c06SymEnv, i, j string) string {
	if sc.rev {
		i, j = j, i
	}
	switch sc.kind {
	case "iface":
		if sc.cmp == nil {
			break
		}
		if s, ok := cx.symInline(sc.cmp, []string{"SLICE", i, j}, env, 0); ok {
			return s
		}
		return c06SymCall(sc.cmp, []string{"SLICE", i, j})
	case "lessfn":
		if s, ok := cx.symInline(sc.cmp, []string{i, j}, env, 0); ok {
			return s
		}
	case "cmpfn":
		as := []string{"SLICE[" + i + "]", "SLICE[" + j + "]"}
		if s, ok := cx.symInline(sc.cmp, as, env, 0); ok {
			return "(" + s + " < 0)"
		}
		if sc.cmp != nil {
			return "(" + c06SymCall(sc.cmp, as) + " < 0)"
		}
	case "natural":
		return "(SLICE[" + i + "] < SLICE[" + j + "])"
	}
	return uniquePath(sc.in.Value())
}

// sortSig: the comparator of sc, with sc's own slice as SLICE.
func (cx *c06Ctx) sortSig(sc *c06SortCall, i, j string) string {
	self := c06StripConv(originValue(sc.slice))
	env := &c06SymEnv{fn: sc.fn, isSlice: func(v ssa.Value) bool {
		return v == sc.slice || c06StripConv(originValue(v)) == self
	}}
	return cx.sortLess(sc, env, i, j)
}

type c06OrdInv struct {
	loc    c06Loc
	sig    string // effLess(I, J)
	pl, lp string // effLess(LEN-2, LEN-1), effLess(LEN-1, LEN-2)
	name   string
	loadFn *ssa.Function
	pos    token.Pos
}

// c06StateLocs: the struct fields of in-scope types that slice value v is (an element of), or is stored into.
func c06StateLocs(v ssa.Value) []c06Loc {
	var out []c06Loc
	add := func(l c06Loc) {
		if l.typ == nil || l.field == "[]" || l.field == "*" || !c06InScope(l.typ) {
			return
		}
		if _, isStruct := l.typ.Underlying().(*types.Struct); !isStruct {
			return
		}
		for _, x := range out {
			if x == l {
				return
			}
		}
		out = append(out, l)
	}
	for _, l := range c06Roots(v).locs {
		add(l)
	}
	o := c06StripConv(originValue(v))
	if refs := o.Referrers(); refs != nil {
		for _, ref := range *refs {
			switch x := ref.(type) {
			case *ssa.Store:
				if x.Val == o {
					if n, f, _, ok := c06FieldOf(x.Addr); ok {
						add(c06Loc{n, f})
					}
				}
			case *ssa.MapUpdate:
				if x.Value == o {
					if l, _, ok := c06DirectField(x.Map); ok {
						add(l)
					}
				}
			}
		}
	}
	return out
}

// orderInvariants: the order invariants established under the load entry of g.
func (cx *c06Ctx) orderInvariants(g *c06CG, rule string) []*c06OrdInv {
	var out []*c06OrdInv
	for _, fn := range g.order {
		for _, b := range fn.Blocks {
			for _, in := range b.Instrs {
				ci, ok := in.(ssa.CallInstruction)
				if !ok {
					continue
				}
				sc := cx.parseSort(ci)
				if sc == nil {
					continue
				}
				locs := c06StateLocs(sc.slice)
				if len(locs) == 0 {
					continue
				}
				sig := cx.sortSig(sc, "I", "J")
				for _, l := range locs {
					if strings.Contains(sig, "?") {
						cx.r.Undecided(rule, FuncKey(fn)+"#order-invariant:"+l.String(), cx.p.Pos(in.Pos()), "the load path sorts "+l.String()+" here, but its comparator ("+sc.name+") cannot be rendered symbolically: the order the live path has to maintain is unknown")
						continue
					}
					dup := false
					for _, x := range out {
						if x.loc == l && x.sig == sig {
							dup = true
						}
					}
					if dup {
						continue
					}
					out = append(out, &c06OrdInv{loc: l, sig: sig, pl: cx.sortSig(sc, "LEN-2", "LEN-1"), lp: cx.sortSig(sc, "LEN-1", "LEN-2"), name: sc.name, loadFn: fn, pos: in.Pos()})
				}
			}
		}
	}
	return out
}

// -- the ordered slice as seen from one function

type c06OrdMode struct {
	inv  *c06OrdInv
	base ssa.Value // the struct owning the field (nil: any object)
	key  ssa.Value // the field is a map of slices: the key of the entry
	val  ssa.Value // value mode: the slice is this very value (a parameter of a helper)
	// pairOK: the slice is "sorted, then exactly one element appended", so that comparing the
	// last two elements decides sortedness. False after any other kind of write.
	pairOK bool
}

func (m c06OrdMode) fieldLoad(v ssa.Value, loads *[]ssa.Instruction) bool {
	u, ok := v.(*ssa.UnOp)
	if !ok || u.Op != token.MUL {
		return false
	}
	n, f, b, ok := c06FieldOf(u.X)
	if !ok || n != m.inv.loc.typ || f != m.inv.loc.field {
		return false
	}
	if m.base != nil && !c06SamePlace(b, m.base) {
		return false
	}
	if loads != nil {
		*loads = append(*loads, u)
	}
	return true
}

func (m c06OrdMode) isSlice(loads *[]ssa.Instruction) func(ssa.Value) bool {
	return func(v ssa.Value) bool {
		switch {
		case m.val != nil:
			return v == m.val || originValue(v) == m.val
		case m.key != nil:
			var x, k ssa.Value
			switch l := v.(type) {
			case *ssa.Lookup:
				if l.CommaOk {
					return false
				}
				x, k = l.X, l.Index
			case *ssa.Extract:
				lk, ok := l.Tuple.(*ssa.Lookup)
				if !ok || l.Index != 0 {
					return false
				}
				x, k = lk.X, lk.Index
			default:
				return false
			}
			return sameOrigin(k, m.key) && m.fieldLoad(x, loads)
		default:
			return m.fieldLoad(v, loads)
		}
	}
}

type c06OrdLeak struct {
	ret   ssa.Instruction
	notes []string
}

type c06EnsRes struct {
	ok  bool
	why string
}

type c06OrdWalk struct {
	cx      *c06Ctx
	inv     *c06OrdInv
	all     *c06CG
	wr      map[ssa.Instruction]bool // direct writes of the field
	writesF map[*ssa.Function]bool   // functions from which such a write is reachable
	sorters map[*ssa.Function]bool   // functions from which a sort by the invariant's comparator is reachable
	assume  func(ssa.Value) (bool, bool)
	ens     map[string]*c06EnsRes
	inprog  map[string]bool
	reach   map[ssa.Instruction]map[ssa.Instruction]bool
}

func (w *c06OrdWalk) reachable(from ssa.Instruction) map[ssa.Instruction]bool {
	if r, ok := w.reach[from]; ok {
		return r
	}
	r := ReachableFrom(from, nil)
	w.reach[from] = r
	return r
}

func (w *c06OrdWalk) isWriteEvent(in ssa.Instruction) bool {
	if w.wr[in] {
		return true
	}
	if ci, ok := in.(ssa.CallInstruction); ok {
		for _, callee := range w.all.out[ci] {
			if w.writesF[callee] {
				return true
			}
		}
	}
	return false
}

// writeBetween: some write of the field may execute after `from` and before `to`.
func (w *c06OrdWalk) writeBetween(from, to ssa.Instruction) bool {
	after := w.reachable(from)
	for _, b := range from.Parent().Blocks {
		for _, x := range b.Instrs {
			if x != to && after[x] && w.isWriteEvent(x) && w.reachable(x)[to] {
				return true
			}
		}
	}
	return false
}

// factOrdered: on the edge (cond == val) the slice is known to be in order:
// at most one element, or the last two elements compare in order by the
// comparator's key.
func (w *c06OrdWalk) factOrdered(at ssa.Instruction, cond ssa.Value, val bool, m c06OrdMode) (ordered, byPair bool) {
	for {
		u, ok := cond.(*ssa.UnOp)
		if !ok || u.Op != token.NOT {
			break
		}
		cond, val = u.X, !val
	}
	var loads []ssa.Instruction
	env := &c06SymEnv{fn: at.Parent(), isSlice: m.isSlice(&loads)}
	if bo, ok := cond.(*ssa.BinOp); ok {
		op := bo.Op
		var k int64
		isLen := false
		if kk, isK := ConstInt(bo.Y); isK && w.cx.sym(bo.X, env, 0) == "LEN" {
			k, isLen = kk, true
		} else if kk, isK := ConstInt(bo.X); isK && w.cx.sym(bo.Y, env, 0) == "LEN" {
			k, isLen = kk, true
			switch op { // k op LEN  ==  LEN op' k
			case token.LSS:
				op = token.GTR
			case token.LEQ:
				op = token.GEQ
			case token.GTR:
				op = token.LSS
			case token.GEQ:
				op = token.LEQ
			}
		}
		if isLen {
			if !val {
				switch op {
				case token.LSS:
					op = token.GEQ
				case token.LEQ:
					op = token.GTR
				case token.GTR:
					op = token.LEQ
				case token.GEQ:
					op = token.LSS
				case token.EQL:
					op = token.NEQ
				case token.NEQ:
					op = token.EQL
				}
			}
			switch op {
			case token.LSS:
				ordered = k <= 2
			case token.LEQ, token.EQL:
				ordered = k <= 1
			}
		}
	}
	if !ordered {
		s := w.cx.sym(cond, env, 0)
		ordered = val && s == m.inv.pl || !val && s == m.inv.lp
		byPair = ordered
	}
	if !ordered {
		return false, false
	}
	// what was read must still be what the field holds
	for _, ld := range loads {
		if ld.Parent() == at.Parent() && w.writeBetween(ld, at) {
			return false, false
		}
	}
	return ordered, byPair
}

// establishes: executing `in` leaves the slice sorted by the invariant's comparator.
func (w *c06OrdWalk) establishes(in ssa.Instruction, m c06OrdMode) (bool, string) {
	call, ok := in.(*ssa.Call)
	if !ok {
		return false, ""
	}
	cx := w.cx
	env := &c06SymEnv{fn: in.Parent(), isSlice: m.isSlice(nil)}
	if sc := cx.parseSort(call); sc != nil {
		if cx.sym(sc.slice, env, 0) != "SLICE" {
			return false, ""
		}
		if cx.sortSig(sc, "I", "J") == m.inv.sig {
			return true, ""
		}
		return false, fmt.Sprintf("the sort at line %d orders it by %s, not by %s as the load path does", cx.p.Fset.Position(in.Pos()).Line, sc.name, m.inv.name)
	}
	c := CallSite{in.Parent(), call}
	callee := c.Callee()
	if callee == nil || callee.Blocks == nil {
		return false, ""
	}
	note := ""
	for i, a := range c.Args() {
		if i >= len(callee.Params) {
			break
		}
		sliceMode := false
		switch {
		case m.val == nil && m.key == nil && m.base != nil && NamedOf(a.Type()) == m.inv.loc.typ && c06SamePlace(a, m.base):
		case c06IsSliceType(a.Type()) && cx.sym(a, env, 0) == "SLICE":
			sliceMode = true
		default:
			continue
		}
		res := w.ensures(callee, i, sliceMode, m.pairOK)
		if res.ok {
			return true, ""
		}
		if w.sorters[callee] {
			note = "the call of " + c06FnName(callee) + " does not re-establish the order: " + res.why
		}
	}
	return false, note
}

func c06IsSliceType(t types.Type) bool {
	_, ok := t.Underlying().(*types.Slice)
	return ok
}

// ensures: every return of callee leaves the slice (field of parameter i, or parameter i itself) sorted.
func (w *c06OrdWalk) ensures(callee *ssa.Function, i int, sliceMode, pairOK bool) *c06EnsRes {
	key := fmt.Sprintf("%p/%d/%v/%v", callee, i, sliceMode, pairOK)
	if r, ok := w.ens[key]; ok {
		return r
	}
	if w.inprog[key] {
		return &c06EnsRes{false, "recursive"}
	}
	w.inprog[key] = true
	defer delete(w.inprog, key)
	m := c06OrdMode{inv: w.inv, pairOK: pairOK}
	if sliceMode {
		m.val = callee.Params[i]
	} else {
		m.base = callee.Params[i]
	}
	res := &c06EnsRes{ok: true}
	if lk := w.leaks(callee.Blocks[0], 0, m); len(lk) > 0 {
		res.ok, res.why = false, w.describe(callee, lk[0])
	}
	w.ens[key] = res
	return res
}

func (w *c06OrdWalk) describe(fn *ssa.Function, lk c06OrdLeak) string {
	s := fmt.Sprintf("the return at line %d of %s is reached with neither that sort, nor an order check of the last two elements (which only counts after a single one-element append to the sorted slice), nor a known length below 2", w.cx.p.Fset.Position(lk.ret.Pos()).Line, c06FnName(fn))
	if len(lk.notes) > 0 {
		s += " (" + strings.Join(c06Dedupe(lk.notes), "; ") + ")"
	}
	return s
}

// leaks: the returns reachable from (b, from) on a path whose last relevant
// event is not one that leaves the slice sorted.
func (w *c06OrdWalk) leaks(b *ssa.BasicBlock, from int, m c06OrdMode) []c06OrdLeak {
	// est: 0 = not known sorted, "sorted + one appended element" (a comparison of the last two decides);
	//      1 = sorted; 2 = not known sorted, and more than one write since it last was
	const (
		needPair = 0
		sorted   = 1
		needSort = 2
	)
	type st struct {
		b    *ssa.BasicBlock
		pred *ssa.BasicBlock
		est  int
	}
	seen := map[st]bool{}
	var out []c06OrdLeak
	var notes []string
	var walk func(b *ssa.BasicBlock, from int, pred *ssa.BasicBlock, est int)
	after := func(est int, x *ssa.If, cond ssa.Value, val bool) int {
		if est == sorted {
			return sorted
		}
		if ok, byPair := w.factOrdered(x, cond, val, m); ok && (!byPair || est == needPair) {
			return sorted
		}
		return est
	}
	visit := func(s, pred *ssa.BasicBlock, est int) {
		k := st{s, pred, est}
		if seen[k] {
			return
		}
		seen[k] = true
		walk(s, 0, pred, est)
	}
	walk = func(b *ssa.BasicBlock, from int, pred *ssa.BasicBlock, est int) {
		for i := from; i < len(b.Instrs); i++ {
			in := b.Instrs[i]
			switch x := in.(type) {
			case *ssa.Return:
				if est != sorted {
					out = append(out, c06OrdLeak{ret: x})
				}
				return
			case *ssa.Panic:
				return
			case *ssa.If:
				cond := x.Cond
				// a condition materialised through a phi of this block (a || b stored in a variable)
				if ph, ok := cond.(*ssa.Phi); ok && ph.Block() == b && pred != nil {
					for pi, p := range b.Preds {
						if p == pred && pi < len(ph.Edges) {
							cond = ph.Edges[pi]
						}
					}
				}
				if c, ok := cond.(*ssa.Const); ok && c.Value != nil {
					if c.Value.String() == "true" {
						visit(b.Succs[0], b, est)
					} else {
						visit(b.Succs[1], b, est)
					}
					return
				}
				if w.assume != nil {
					if known, val := w.assume(cond); known {
						if val {
							visit(b.Succs[0], b, est)
						} else {
							visit(b.Succs[1], b, est)
						}
						return
					}
				}
				visit(b.Succs[0], b, after(est, x, cond, true))
				visit(b.Succs[1], b, after(est, x, cond, false))
				return
			}
			mm := m
			mm.pairOK = est == needPair
			if ok, note := w.establishes(in, mm); ok {
				est = sorted
				continue
			} else if note != "" {
				notes = append(notes, note)
			}
			if w.isWriteEvent(in) {
				est = needSort // a further write of unknown form: only a sort (or a length below 2) helps now
			}
		}
		for _, s := range b.Succs {
			visit(s, b, est)
		}
	}
	start := needSort
	if m.pairOK {
		start = needPair
	}
	walk(b, from, nil, start)
	for i := range out {
		out[i].notes = notes
	}
	return out
}

// climb: the function leaves the slice of its parameter i unsorted on some
// return; every call of it on the live path must be followed by an
// order-restoring event in the caller (recursively, up to the live entry).
func (w *c06OrdWalk) climb(fn *ssa.Function, i int, pairOK bool, live *c06CG, root *ssa.Function, depth int) (bool, string) {
	if fn == root || depth > 6 {
		return false, ""
	}
	callers := live.in[fn]
	if len(callers) == 0 {
		return false, ""
	}
	for _, cs := range callers {
		args := cs.Args()
		if live.callback[cs.Instr] || i >= len(args) || cs.IsGo() || cs.IsDefer() {
			return false, "its caller " + c06FnName(cs.Fn) + " cannot be followed"
		}
		lk := w.leaks(cs.Instr.Block(), instrIndex(cs.Instr)+1, c06OrdMode{inv: w.inv, base: args[i], pairOK: pairOK})
		if len(lk) == 0 {
			continue
		}
		if prm, isParam := originValue(args[i]).(*ssa.Parameter); isParam {
			up := false
			for j, fp := range cs.Fn.Params {
				if fp == prm {
					if ok, _ := w.climb(cs.Fn, j, pairOK, live, root, depth+1); ok {
						up = true
					}
				}
			}
			if up {
				continue
			}
		}
		return false, "after the call in " + c06FnName(cs.Fn) + ", " + w.describe(cs.Fn, lk[0])
	}
	return true, ""
}

// appendsOne: the value written is append(<the slice as it was>, one element).
func (cx *c06Ctx) appendsOne(val ssa.Value, m c06OrdMode) bool {
	call, ok := originValue(val).(*ssa.Call)
	if !ok {
		return false
	}
	bi, ok := call.Call.Value.(*ssa.Builtin)
	if !ok || bi.Name() != "append" || len(call.Call.Args) != 2 {
		return false
	}
	env := &c06SymEnv{fn: call.Parent(), isSlice: m.isSlice(nil)}
	if cx.sym(call.Call.Args[0], env, 0) != "SLICE" {
		return false
	}
	sl, ok := call.Call.Args[1].(*ssa.Slice)
	if !ok || sl.Low != nil || sl.High != nil {
		return false
	}
	al, ok := sl.X.(*ssa.Alloc)
	if !ok {
		return false
	}
	pt, ok := al.Type().Underlying().(*types.Pointer)
	if !ok {
		return false
	}
	arr, ok := pt.Elem().Underlying().(*types.Array)
	return ok && arr.Len() == 1
}

// c06RuleOrder checks one (load entry, live entry) pair.
func c06RuleOrder(cx *c06Ctx, load, live, all *c06CG, sites []c06WSite, loadName, liveName string, assume func(ssa.Value) (bool, bool), minInv int) int {
	const rule = "K-inval"
	p, r := cx.p, cx.r
	n := 0
	invs := cx.orderInvariants(load, rule)
	if len(invs) < minInv {
		n++
		r.Undecided(rule, FuncKey(load.roots[0])+"#order-invariants", p.Pos(load.roots[0].Pos()), fmt.Sprintf("only %d in-place sort(s) of state fields found under %s (at least %d expected): the load path no longer sorts what it used to, or sorts in a form this rule cannot follow; the order clause has nothing to compare the live path with", len(invs), loadName, minInv))
	}
	root := live.roots[0]
	for _, inv := range invs {
		n++
		r.OKTable(rule, FuncKey(inv.loadFn)+"#order-invariant:"+inv.loc.String(), p.Pos(inv.pos), fmt.Sprintf("the load path (%s) leaves %s sorted by %s: element i precedes element j when %s", loadName, inv.loc, inv.name, inv.sig))
		w := &c06OrdWalk{cx: cx, inv: inv, all: all, wr: map[ssa.Instruction]bool{}, writesF: map[*ssa.Function]bool{}, sorters: map[*ssa.Function]bool{}, assume: assume,
			ens: map[string]*c06EnsRes{}, inprog: map[string]bool{}, reach: map[ssa.Instruction]map[ssa.Instruction]bool{}}
		for _, s := range sites {
			if s.loc != inv.loc {
				continue
			}
			if ci, isCall := s.in.(*ssa.Call); isCall {
				if sc := cx.parseSort(ci); sc != nil && cx.sortSig(sc, "I", "J") == inv.sig {
					w.sorters[s.fn] = true
					continue // a sort by the invariant's own comparator never disorders
				}
			}
			w.wr[s.in] = true
			w.writesF[s.fn] = true
		}
		for _, set := range []map[*ssa.Function]bool{w.writesF, w.sorters} {
			for changed := true; changed; {
				changed = false
				for ci, callees := range all.out {
					if all.callback[ci] || set[ci.Parent()] {
						continue
					}
					for _, c := range callees {
						if set[c] {
							set[ci.Parent()] = true
							changed = true
						}
					}
				}
			}
		}
		done := map[ssa.Instruction]bool{}
		seen := map[string]bool{}
		nW := 0
		for _, s := range sites {
			if s.loc != inv.loc || !live.funcs[s.fn] || done[s.in] {
				continue
			}
			done[s.in] = true
			fn := s.fn
			construct := FuncKey(fn) + "#order:" + inv.loc.String()
			site := p.Pos(s.in.Pos())
			var m c06OrdMode
			var val ssa.Value
			switch x := s.in.(type) {
			case *ssa.Store:
				nn, f, base, ok := c06FieldOf(x.Addr)
				if !ok || nn != inv.loc.typ || f != inv.loc.field {
					n++
					r.Undecided(rule, construct, site, c06FnName(fn)+" "+s.how+" "+inv.loc.String()+" on the live path in a form (element store / store through a pointer) whose effect on the order cannot be followed; the load path sorts it by "+inv.name)
					continue
				}
				if IsNilConst(x.Val) {
					continue // emptied: trivially sorted
				}
				m, val = c06OrdMode{inv: inv, base: base}, x.Val
			case *ssa.MapUpdate:
				l, base, ok := c06DirectField(x.Map)
				if !ok || l != inv.loc {
					n++
					r.Undecided(rule, construct, site, c06FnName(fn)+" "+s.how+" "+inv.loc.String()+" on the live path through a reference that is not the field itself; the effect on the order cannot be followed")
					continue
				}
				if IsNilConst(x.Value) {
					continue
				}
				m, val = c06OrdMode{inv: inv, base: base, key: x.Key}, x.Value
			case *ssa.Call:
				if bi, ok := x.Call.Value.(*ssa.Builtin); ok && (bi.Name() == "delete" || bi.Name() == "clear") {
					continue // removes whole entries
				}
				if ok, _ := (w.establishes(x, c06OrdMode{inv: inv})); ok {
					continue // the sort itself (or a helper that always ends sorted)
				}
				sc := cx.parseSort(x)
				if sc != nil && (cx.sortSig(sc, "I", "J") == inv.sig || !c06OrdMode{inv: inv}.fieldLoad(c06StripConv(sc.slice), nil)) {
					continue // same order; or a local copy is sorted: the store of that copy is judged
				}
				n++
				if sc != nil {
					r.Violation(rule, construct, site, fmt.Sprintf("%s re-orders %s on the live path by %s, the load path (%s) sorts it by %s (%s): after a restart the elements are in a different order", c06FnName(fn), inv.loc, sc.name, loadName, inv.name, inv.sig))
				} else {
					r.Undecided(rule, construct, site, c06FnName(fn)+" "+s.how+" "+inv.loc.String()+" on the live path; whether it stays sorted by "+inv.name+" cannot be followed")
				}
				continue
			default:
				n++
				r.Undecided(rule, construct, site, c06FnName(fn)+" "+s.how+" "+inv.loc.String()+" on the live path in a form whose effect on the order cannot be followed")
				continue
			}
			nW++
			m.pairOK = cx.appendsOne(val, m)
			okWhy, bad := "", ""
			// (i) the stored value was sorted by the same comparator before it is stored
			sv := c06StripConv(originValue(val))
			for _, b := range fn.Blocks {
				for _, in := range b.Instrs {
					ci, isCall := in.(*ssa.Call)
					if !isCall || okWhy != "" {
						continue
					}
					if sc := cx.parseSort(ci); sc != nil && c06StripConv(originValue(sc.slice)) == sv && Precedes(in, s.in) && cx.sortSig(sc, "I", "J") == inv.sig {
						okWhy = fmt.Sprintf("the value stored was sorted by the same comparator (%s) on every path to the store", sc.name)
					}
				}
			}
			if okWhy == "" {
				// (ii) every path onwards passes the sort or an in-order fact
				lk := w.leaks(s.in.Block(), instrIndex(s.in)+1, m)
				switch {
				case len(lk) == 0:
					okWhy = "every path from this write to a return of " + c06FnName(fn) + " passes the same sort (directly or in a callee all of whose returns are so covered), the in-order edge of a comparison of the last two elements by the comparator's key, or an edge on which the length is below 2"
				default:
					bad = w.describe(fn, lk[0])
					if prm, isParam := originValue(m.base).(*ssa.Parameter); isParam && m.key == nil {
						for j, fp := range fn.Params {
							if fp == prm {
								if ok, why := w.climb(fn, j, m.pairOK, live, root, 0); ok {
									bad, okWhy = "", "not within "+c06FnName(fn)+", but every call of it under "+liveName+" is followed by the sort or an in-order fact on the same object"
								} else if why != "" {
									bad += "; " + why
								}
							}
						}
					}
				}
			}
			if bad == "" && seen[construct] {
				continue
			}
			seen[construct] = true
			n++
			if bad == "" {
				r.OK(rule, construct, site, fmt.Sprintf("live write of %s (sorted by %s on the load path): %s", inv.loc, inv.name, okWhy))
			} else {
				r.Violation(rule, construct, site, fmt.Sprintf("the live path can leave %s unsorted; the load path sorts it (%s, by %s: %s): %s %s it and %s. The running corpus/index then holds the elements in arrival order where a restart over the same rows holds them sorted, and every reader that relies on the order (newest claim last, latest deletion first) answers differently", inv.loc, c06FnName(inv.loadFn), inv.name, inv.sig, c06FnName(fn), s.how, bad))
			}
		}
		if nW == 0 {
			n++
			r.Undecided(rule, FuncKey(root)+"#order-writers:"+inv.loc.String(), p.Pos(root.Pos()), "no assignment of "+inv.loc.String()+" (which "+loadName+" sorts) found under "+liveName+": the live path updates it in a form this rule does not follow, or not at all")
		}
	}
	return n
}

// ---------------------------------------------------------------------------
// K-order-free — merging a set of rows gives the same corpus whatever the order
// in which rows of different kinds are merged.
//
// The load path merges kind by kind in slurpPrefixes order (every `meta:` row
// before any other row, ...); the live path merges in arrival order, and within
// one mutation map in Go map order. Both end in the same state only if no merge
// function lets state filled by rows of ANOTHER kind decide WHETHER it writes
// (or panics, or which error it returns). This is decided by a backward slice
// (data + control dependence, through calls, closures, captured variables and
// spilled locals) of every branch condition on which a write of corpus state,
// a panic, or a call leading to one is control dependent.
//
//   kinds        : the non-nil entries of corpusMergeFunc, each with its own
//                  call structure (so a function parameter such as
//                  mutateFileInfo's fn resolves to that kind's closure only);
//                  *Corpus methods the drivers (addBlob, scanFromStorage,
//                  scanPrefix) call directly join the kind whose merge function
//                  they reach (addKeyID -> signerkeyid) or, when they write
//                  corpus state themselves, the pseudo kind of rows merged
//                  outside the table (updateDeletes/initDeletes: `deleted`).
//   ownership    : location L (struct field / elements of a named map or slice
//                  type) is foreign to kind K when a function of another kind's
//                  call structure writes it.
//   not events   : writes of fields nothing ever reads other than to write them
//                  back (counters), and the self-maintenance of identity tables
//                  (every update is M[k] = k: skipping the update when k is
//                  present cannot change the table).
//   determined   : a function all of whose returns are the same function of one
//                  parameter (the parameter itself, a conversion of it, what an
//                  identity table holds under it, or field f of what a table
//                  with M[v.f] = v holds under it, each under the `present`
//                  edge) contributes only that argument's dependences: this is
//                  what makes c.br / c.str / c.strB transparent, by proof
//                  rather than by name.
//   ordered      : a foreign location whose writers all belong to kinds that are
//                  merged before K on BOTH paths (load: an explicit scanPrefix
//                  of the writer's prefix success-dominates the scan of K's
//                  prefix; live: addBlob calls a direct merger of the writer's
//                  kind on the same mutation map, success-dominating the row
//                  dispatch) is accepted (keyId for claims).

type c06OfKind struct {
	name   string
	pseudo bool
	roots  []*ssa.Function
	cg     *c06CG
	sites  []c06WSite                        // writes that count as events
	undc   []c06WSite                        // writes through references that cannot be followed
	writes map[c06Loc][]*ssa.Function        // every location written under this kind -> by which functions
	trans  map[*ssa.Function]map[c06Loc]bool // locations written by fn or by anything it calls
	events map[*ssa.Function][]ssa.Instruction
	hasEv  map[*ssa.Function]bool
}

type c06Of struct {
	cx        *c06Ctx
	kinds     []*c06OfKind
	byName    map[string]*c06OfKind
	unobs     map[c06Loc]bool   // fields only ever read to be written back
	intern    map[c06Loc]string // Corpus map field -> projection: "" (M[k] = k) or field name f (M[v.f] = v)
	selfMaint map[c06Loc]bool   // identity tables
	cdCache   map[*ssa.Function]map[*ssa.BasicBlock][]*ssa.BasicBlock
	detCache  map[*ssa.Function]int
	usedDet   map[*ssa.Function]bool
	ordCache  map[[2]*c06OfKind]string
	drivers   map[*ssa.Function]bool
}

// ---- exempt locations

// findUnobservable: fields of Corpus whose every load only feeds a store back into the same field.
func (o *c06Of) findUnobservable() {
	cx := o.cx
	st, _ := cx.tCorpus.Underlying().(*types.Struct)
	if st == nil {
		return
	}
	observed := map[string]bool{}
	seenField := map[string]bool{}
	for _, fn := range cx.fns {
		for _, b := range fn.Blocks {
			for _, in := range b.Instrs {
				switch x := in.(type) {
				case *ssa.Field:
					if NamedOf(x.X.Type()) == cx.tCorpus {
						observed[fieldName(x.X.Type(), x.Field)] = true
					}
				case *ssa.FieldAddr:
					if NamedOf(x.X.Type()) != cx.tCorpus || x.Referrers() == nil {
						continue
					}
					f := fieldName(x.X.Type(), x.Field)
					seenField[f] = true
					for _, ref := range *x.Referrers() {
						switch r := ref.(type) {
						case *ssa.DebugRef:
						case *ssa.Store:
							if r.Addr != ssa.Value(x) {
								observed[f] = true
							}
						case *ssa.UnOp:
							if r.Op != token.MUL || !c06OfOnlyWrittenBack(r, f, cx.tCorpus, 0) {
								observed[f] = true
							}
						default:
							observed[f] = true
						}
					}
				}
			}
		}
	}
	for i := 0; i < st.NumFields(); i++ {
		f := st.Field(i).Name()
		if b, ok := st.Field(i).Type().Underlying().(*types.Basic); ok && b.Info()&types.IsNumeric != 0 && seenField[f] && !observed[f] {
			o.unobs[c06Loc{cx.tCorpus, f}] = true
		}
	}
}

// c06OfOnlyWrittenBack: every use of v ends (through arithmetic) in a store to field f of T.
func c06OfOnlyWrittenBack(v ssa.Value, f string, T *types.Named, depth int) bool {
	if depth > 4 || v.Referrers() == nil {
		return false
	}
	for _, ref := range *v.Referrers() {
		switch r := ref.(type) {
		case *ssa.DebugRef:
		case *ssa.BinOp:
			switch r.Op {
			case token.ADD, token.SUB, token.MUL:
			default:
				return false
			}
			if !c06OfOnlyWrittenBack(r, f, T, depth+1) {
				return false
			}
		case *ssa.Store:
			if r.Val != v {
				return false
			}
			n, g, _, ok := c06FieldOf(r.Addr)
			if !ok || n != T || g != f {
				return false
			}
		default:
			return false
		}
	}
	return true
}

func c06OfStripConv(v ssa.Value) ssa.Value {
	for i := 0; i < 8; i++ {
		v = originValue(v)
		if cv, ok := v.(*ssa.Convert); ok {
			v = cv.X
			continue
		}
		break
	}
	return v
}

// c06OfUpdateProjection classifies a map update M[k] = v: "" when k and v are the
// same value (identity table), "f" when v is a pointer to a struct made here and k
// is its field f (never reassigned here).
func c06OfUpdateProjection(mu *ssa.MapUpdate) (string, bool) {
	if types.Identical(mu.Key.Type(), mu.Value.Type()) && c06OfStripConv(mu.Key) == c06OfStripConv(mu.Value) {
		return "", true
	}
	al, ok := originValue(mu.Value).(*ssa.Alloc)
	if !ok || al.Parent() != mu.Parent() {
		return "", false
	}
	if f, ok := c06OfBuiltWithKey(al, mu.Key); ok {
		return f, true
	}
	ld, ok := originValue(mu.Key).(*ssa.UnOp)
	if !ok || ld.Op != token.MUL {
		return "", false
	}
	fa, ok := ld.X.(*ssa.FieldAddr)
	if !ok || originValue(fa.X) != ssa.Value(al) {
		return "", false
	}
	f := fieldName(fa.X.Type(), fa.Field)
	if al.Referrers() == nil {
		return "", false
	}
	for _, ref := range *al.Referrers() {
		switch r := ref.(type) {
		case *ssa.Store:
			if r.Addr == ssa.Value(al) && !Precedes(r, ld) {
				return "", false
			}
		case *ssa.FieldAddr:
			if r.Field != fa.Field || r.Referrers() == nil {
				continue
			}
			for _, r2 := range *r.Referrers() {
				switch y := r2.(type) {
				case *ssa.UnOp, *ssa.DebugRef:
				case *ssa.Store:
					if y.Addr == ssa.Value(r) {
						return "", false
					}
				default:
					return "", false // address of the key field handed out
				}
			}
		}
	}
	return f, true
}

// c06OfBuiltWithKey: the object al is built field by field (never assigned as a
// whole) and exactly one of its fields is stored, once, the very value used as key.
func c06OfBuiltWithKey(al *ssa.Alloc, key ssa.Value) (string, bool) {
	if al.Referrers() == nil {
		return "", false
	}
	stores := map[int][]*ssa.Store{}
	for _, ref := range *al.Referrers() {
		switch r := ref.(type) {
		case *ssa.Store:
			if r.Addr == ssa.Value(al) {
				return "", false
			}
		case *ssa.FieldAddr:
			if r.Referrers() == nil {
				continue
			}
			for _, r2 := range *r.Referrers() {
				switch y := r2.(type) {
				case *ssa.UnOp, *ssa.DebugRef:
				case *ssa.Store:
					if y.Addr == ssa.Value(r) {
						stores[r.Field] = append(stores[r.Field], y)
					}
				default:
					stores[r.Field] = append(stores[r.Field], nil) // address handed out
				}
			}
		}
	}
	found, name := 0, ""
	for fld, sts := range stores {
		if len(sts) != 1 || sts[0] == nil {
			continue
		}
		if c06OfSameRead(sts[0].Val, key) {
			found++
			name = fieldName(al.Type(), fld)
		}
	}
	return name, found == 1
}

// c06OfSameRead: a and b are the same value, or two reads of the same field of a
// local object whose field is never assigned separately.
func c06OfSameRead(a, b ssa.Value) bool {
	oa, ob := originValue(a), originValue(b)
	if oa == ob {
		return true
	}
	la, ok1 := oa.(*ssa.UnOp)
	lb, ok2 := ob.(*ssa.UnOp)
	if !ok1 || !ok2 || la.Op != token.MUL || lb.Op != token.MUL {
		return false
	}
	fa, ok1 := la.X.(*ssa.FieldAddr)
	fb, ok2 := lb.X.(*ssa.FieldAddr)
	if !ok1 || !ok2 || fa.Field != fb.Field {
		return false
	}
	al, ok := originValue(fa.X).(*ssa.Alloc)
	if !ok || originValue(fb.X) != ssa.Value(al) || al.Referrers() == nil {
		return false
	}
	for _, ref := range *al.Referrers() {
		r, ok := ref.(*ssa.FieldAddr)
		if !ok || r.Field != fa.Field || r.Referrers() == nil {
			continue
		}
		for _, r2 := range *r.Referrers() {
			switch r2.(type) {
			case *ssa.UnOp, *ssa.DebugRef:
			default:
				return false
			}
		}
	}
	// whole-object stores must come before both reads
	for _, ref := range *al.Referrers() {
		if st, ok := ref.(*ssa.Store); ok && st.Addr == ssa.Value(al) {
			if !Precedes(st, la) || !Precedes(st, lb) {
				return false
			}
		}
	}
	return true
}

// mapNotAliased: the map held in Corpus.field is only ever looked up, updated,
// ranged, measured or compared through a direct load of the field.
func (o *c06Of) mapNotAliased(field string) bool {
	cx := o.cx
	for _, fn := range cx.fns {
		for _, b := range fn.Blocks {
			for _, in := range b.Instrs {
				fa, ok := in.(*ssa.FieldAddr)
				if !ok || NamedOf(fa.X.Type()) != cx.tCorpus || fieldName(fa.X.Type(), fa.Field) != field || fa.Referrers() == nil {
					continue
				}
				for _, ref := range *fa.Referrers() {
					switch r := ref.(type) {
					case *ssa.DebugRef:
					case *ssa.Store:
						if r.Addr != ssa.Value(fa) {
							return false
						}
					case *ssa.UnOp:
						if r.Op != token.MUL || r.Referrers() == nil {
							return false
						}
						for _, r2 := range *r.Referrers() {
							switch y := r2.(type) {
							case *ssa.DebugRef, *ssa.Lookup, *ssa.Range, *ssa.BinOp:
							case *ssa.MapUpdate:
								if y.Map != ssa.Value(r) {
									return false
								}
							case *ssa.Call:
								bi, isB := y.Call.Value.(*ssa.Builtin)
								if !isB || (bi.Name() != "len" && bi.Name() != "delete" && bi.Name() != "clear") {
									return false
								}
							default:
								return false
							}
						}
					default:
						return false
					}
				}
			}
		}
	}
	return true
}

// findInternTables: Corpus map fields every update of which is M[k] = k (identity)
// or M[v.f] = v (keyed by a field of the stored object that is never reassigned).
func (o *c06Of) findInternTables() {
	cx := o.cx
	ws := c06Writes(cx.fns, map[*types.Named]bool{cx.tCorpus: true})
	type acc struct {
		proj string
		n    int
		bad  bool
	}
	by := map[string]*acc{}
	for _, w := range ws {
		a := by[w.field]
		if a == nil {
			a = &acc{}
			by[w.field] = a
		}
		switch w.kind {
		case "assign":
			st := w.in.(*ssa.Store)
			switch v := originValue(st.Val).(type) {
			case *ssa.MakeMap:
			case *ssa.Const:
				if v.Value != nil {
					a.bad = true
				}
			default:
				a.bad = true
			}
		case "map-update":
			pr, ok := c06OfUpdateProjection(w.in.(*ssa.MapUpdate))
			if !ok || (a.n > 0 && a.proj != pr) {
				a.bad = true
			}
			a.proj = pr
			a.n++
		case "map-delete", "clear":
		default:
			a.bad = true
		}
	}
	st, _ := cx.tCorpus.Underlying().(*types.Struct)
	for f, a := range by {
		if a.bad || a.n == 0 || !o.mapNotAliased(f) {
			continue
		}
		var mt *types.Map
		for i := 0; st != nil && i < st.NumFields(); i++ {
			if st.Field(i).Name() == f {
				mt, _ = st.Field(i).Type().Underlying().(*types.Map)
			}
		}
		if mt == nil {
			continue
		}
		loc := c06Loc{cx.tCorpus, f}
		if a.proj == "" {
			o.intern[loc] = ""
			o.selfMaint[loc] = true
			continue
		}
		// keyed by a field of the stored object: that field is never written on an existing object
		pt, ok := mt.Elem().Underlying().(*types.Pointer)
		if !ok {
			continue
		}
		T := NamedOf(pt.Elem())
		if T == nil {
			continue
		}
		_, sites := cx.allScope()
		ok = true
		for _, s := range sites {
			if s.loc.typ == T && (s.loc.field == a.proj || s.loc.field == "*") {
				ok = false
			}
		}
		if ok {
			o.intern[loc] = a.proj
		}
	}
}

// ---- control dependence

// cd: for each block, the branching blocks it is directly control dependent on
// (post-dominators over the CFG with one virtual exit; return and panic both exit).
func (o *c06Of) cd(fn *ssa.Function) map[*ssa.BasicBlock][]*ssa.BasicBlock {
	if m, ok := o.cdCache[fn]; ok {
		return m
	}
	n := len(fn.Blocks)
	words := (n + 1 + 63) / 64
	newSet := func(fill bool) []uint64 {
		s := make([]uint64, words)
		if fill {
			for i := range s {
				s[i] = ^uint64(0)
			}
		}
		return s
	}
	has := func(s []uint64, i int) bool { return s[i/64]&(1<<uint(i%64)) != 0 }
	pdom := make([][]uint64, n+1)
	for i := 0; i < n; i++ {
		pdom[i] = newSet(true)
	}
	pdom[n] = newSet(false)
	pdom[n][n/64] |= 1 << uint(n%64)
	for changed := true; changed; {
		changed = false
		for i := n - 1; i >= 0; i-- {
			b := fn.Blocks[i]
			nw := newSet(true)
			if len(b.Succs) == 0 {
				copy(nw, pdom[n])
			} else {
				for _, s := range b.Succs {
					for w := range nw {
						nw[w] &= pdom[s.Index][w]
					}
				}
			}
			nw[i/64] |= 1 << uint(i%64)
			for w := range nw {
				if nw[w] != pdom[i][w] {
					changed = true
				}
			}
			pdom[i] = nw
		}
	}
	out := map[*ssa.BasicBlock][]*ssa.BasicBlock{}
	for _, x := range fn.Blocks {
		if len(x.Succs) != 2 || x.Succs[0] == x.Succs[1] {
			continue
		}
		if _, isIf := x.Instrs[len(x.Instrs)-1].(*ssa.If); !isIf {
			continue
		}
		for _, s := range x.Succs {
			for _, b := range fn.Blocks {
				if !has(pdom[s.Index], b.Index) {
					continue
				}
				if b != x && has(pdom[x.Index], b.Index) {
					continue
				}
				dup := false
				for _, y := range out[b] {
					if y == x {
						dup = true
					}
				}
				if !dup {
					out[b] = append(out[b], x)
				}
			}
		}
	}
	o.cdCache[fn] = out
	return out
}

// controllers: the branching blocks b is (transitively) control dependent on.
func (o *c06Of) controllers(b *ssa.BasicBlock, into map[*ssa.BasicBlock]bool) {
	for _, x := range o.cd(b.Parent())[b] {
		if !into[x] {
			into[x] = true
			o.controllers(x, into)
		}
	}
}

func c06OfCond(x *ssa.BasicBlock) ssa.Value {
	return x.Instrs[len(x.Instrs)-1].(*ssa.If).Cond
}

// ---- determined functions

// okFact: the lookup lk is known to have found its key on every path to block b.
func c06OfOkFact(b *ssa.BasicBlock, lk *ssa.Lookup) bool {
	for _, f := range FactsAt(b) {
		cond, val := f.Cond, f.Val
		for {
			if u, ok := cond.(*ssa.UnOp); ok && u.Op == token.NOT {
				cond, val = u.X, !val
				continue
			}
			break
		}
		if ex, ok := originValue(cond).(*ssa.Extract); ok && ex.Index == 1 && ex.Tuple == ssa.Value(lk) && val {
			return true
		}
	}
	return false
}

func (o *c06Of) internOf(m ssa.Value) (string, bool) {
	n, f, _, ok := c06LoadedField(m)
	if !ok {
		return "", false
	}
	pr, ok := o.intern[c06Loc{n, f}]
	return pr, ok
}

// symOf renders v, as seen at block b, as a function of one parameter of fn; "" when it is not.
func (o *c06Of) symOf(v ssa.Value, b *ssa.BasicBlock, depth int) string {
	if depth > 8 {
		return ""
	}
	v = originValue(v)
	switch x := v.(type) {
	case *ssa.Parameter:
		for i, p := range x.Parent().Params {
			if p == x {
				return fmt.Sprintf("P%d", i)
			}
		}
	case *ssa.Convert:
		if s := o.symOf(x.X, b, depth+1); s != "" {
			return "conv<" + x.Type().String() + ">(" + s + ")"
		}
	case *ssa.Const:
		// a constant returned where the parameter is known to equal it
		for _, f := range FactsAt(b) {
			cond, val := f.Cond, f.Val
			for {
				if u, ok := cond.(*ssa.UnOp); ok && u.Op == token.NOT {
					cond, val = u.X, !val
					continue
				}
				break
			}
			bo, ok := cond.(*ssa.BinOp)
			if !ok || !(bo.Op == token.EQL && val || bo.Op == token.NEQ && !val) {
				continue
			}
			for _, pr := range [][2]ssa.Value{{bo.X, bo.Y}, {bo.Y, bo.X}} {
				c, ok := pr[1].(*ssa.Const)
				if !ok || c.Value == nil {
					continue
				}
				if x.Value != nil && types.Identical(c.Type(), x.Type()) && constant.Compare(c.Value, token.EQL, x.Value) {
					if s := o.symOf(pr[0], b, depth+1); s != "" {
						return s
					}
				}
				// len(p) == 0 and the empty string: string(p) is ""
				if call, ok := pr[0].(*ssa.Call); ok && x.Value != nil && x.Value.Kind() == constant.String && constant.StringVal(x.Value) == "" {
					if bi, isB := call.Call.Value.(*ssa.Builtin); isB && bi.Name() == "len" && c.Value.Kind() == constant.Int && constant.Sign(c.Value) == 0 {
						if s := o.symOf(call.Call.Args[0], b, depth+1); s != "" {
							if types.Identical(call.Call.Args[0].Type().Underlying(), x.Type().Underlying()) {
								return s
							}
							return "conv<" + x.Type().String() + ">(" + s + ")"
						}
					}
				}
			}
		}
	case *ssa.Extract:
		if lk, ok := x.Tuple.(*ssa.Lookup); ok && lk.CommaOk && x.Index == 0 {
			if pr, ok := o.internOf(lk.X); ok && pr == "" && c06OfOkFact(b, lk) {
				return o.symOf(lk.Index, b, depth+1)
			}
		}
	case *ssa.UnOp:
		if x.Op != token.MUL {
			return ""
		}
		fa, ok := x.X.(*ssa.FieldAddr)
		if !ok {
			return ""
		}
		ex, ok := originValue(fa.X).(*ssa.Extract)
		if !ok || ex.Index != 0 {
			return ""
		}
		lk, ok := ex.Tuple.(*ssa.Lookup)
		if !ok || !lk.CommaOk {
			return ""
		}
		if pr, ok := o.internOf(lk.X); ok && pr != "" && pr == fieldName(fa.X.Type(), fa.Field) && c06OfOkFact(b, lk) {
			return o.symOf(lk.Index, b, depth+1)
		}
	}
	return ""
}

// determined: fn has one result and every return yields the same function of one
// parameter; returns that parameter's index, or -1.
func (o *c06Of) determined(fn *ssa.Function) int {
	if v, ok := o.detCache[fn]; ok {
		return v
	}
	res := -1
	o.detCache[fn] = res
	if fn.Signature.Results().Len() != 1 || len(fn.Blocks) == 0 {
		return res
	}
	rets := Returns(fn)
	sym := ""
	for _, ri := range rets {
		if len(ri.Results) != 1 {
			return res
		}
		s := o.symOf(ri.Results[0], ri.Ret.Block(), 0)
		if s == "" || (sym != "" && s != sym) {
			return res
		}
		sym = s
	}
	if sym == "" {
		return res
	}
	i := strings.LastIndex(sym, "P")
	idx := 0
	fmt.Sscanf(sym[i+1:], "%d", &idx)
	res = idx
	o.detCache[fn] = res
	return res
}

// ---- the slice

type c06OfFrame struct {
	call   ssa.CallInstruction
	callee *ssa.Function
	parent *c06OfFrame
	depth  int
}

type c06OfFrameKey struct {
	call   ssa.CallInstruction
	callee *ssa.Function
	parent *c06OfFrame
}

type c06OfVK struct {
	v ssa.Value
	f *c06OfFrame
}

type c06OfBK struct {
	b *ssa.BasicBlock
	f *c06OfFrame
}

type c06OfResKey struct {
	call *ssa.Call
	idx  int
	f    *c06OfFrame
}

// c06OfWalk is one backward slice. Calls are entered with a frame (call-string
// context, bounded) so that a helper's parameters are bound to the arguments of
// the call under analysis, not to those of every call of the helper.
type c06OfWalk struct {
	o      *c06Of
	k      *c06OfKind
	frames map[c06OfFrameKey]*c06OfFrame
	seenV  map[c06OfVK]bool
	seenB  map[c06OfBK]bool
	seenR  map[c06OfResKey]bool
	seenC  map[c06OfVK]bool
	tags   map[c06Loc]token.Pos
	unk    []string
}

func (o *c06Of) newWalk(k *c06OfKind) *c06OfWalk {
	return &c06OfWalk{o: o, k: k, frames: map[c06OfFrameKey]*c06OfFrame{}, seenV: map[c06OfVK]bool{}, seenB: map[c06OfBK]bool{}, seenR: map[c06OfResKey]bool{}, seenC: map[c06OfVK]bool{}, tags: map[c06Loc]token.Pos{}}
}

func (w *c06OfWalk) frame(call ssa.CallInstruction, callee *ssa.Function, parent *c06OfFrame) *c06OfFrame {
	d := 1
	if parent != nil {
		d = parent.depth + 1
	}
	if d > 8 {
		return nil // deeper: parameters are bound to every call site (still sound)
	}
	key := c06OfFrameKey{call, callee, parent}
	if f, ok := w.frames[key]; ok {
		return f
	}
	f := &c06OfFrame{call, callee, parent, d}
	w.frames[key] = f
	return f
}

func c06OfValueFn(v ssa.Value) *ssa.Function {
	switch x := v.(type) {
	case *ssa.Parameter:
		return x.Parent()
	case *ssa.FreeVar:
		return x.Parent()
	}
	if in, ok := v.(ssa.Instruction); ok {
		return in.Parent()
	}
	return nil
}

func (w *c06OfWalk) tag(l c06Loc, pos token.Pos) {
	if old, ok := w.tags[l]; !ok || (old == token.NoPos && pos != token.NoPos) {
		w.tags[l] = pos
	}
}

func (w *c06OfWalk) unknown(s string) {
	for _, x := range w.unk {
		if x == s {
			return
		}
	}
	w.unk = append(w.unk, s)
}

// ctrl: the conditions that decide whether block b runs.
func (w *c06OfWalk) ctrl(b *ssa.BasicBlock, cx *c06OfFrame) {
	if cx != nil && cx.callee != b.Parent() {
		cx = nil
	}
	if w.seenB[c06OfBK{b, cx}] {
		return
	}
	w.seenB[c06OfBK{b, cx}] = true
	for _, x := range w.o.cd(b.Parent())[b] {
		w.val(c06OfCond(x), cx)
		w.ctrl(x, cx)
	}
}

func (w *c06OfWalk) param(p *ssa.Parameter, cx *c06OfFrame) {
	fn := p.Parent()
	idx := -1
	for i, q := range fn.Params {
		if q == p {
			idx = i
		}
	}
	if cx != nil {
		args := (CallSite{cx.call.Parent(), cx.call}).Args()
		if w.k.cg.callback[cx.call] {
			for _, a := range args {
				w.val(a, cx.parent)
			}
		} else if idx >= 0 && idx < len(args) {
			w.val(args[idx], cx.parent)
		} else {
			w.unknown("argument for parameter " + p.Name() + " of " + c06FnName(fn))
		}
		return
	}
	for _, c := range w.k.cg.in[fn] {
		args := c.Args()
		if w.k.cg.callback[c.Instr] {
			for _, a := range args {
				w.val(a, nil)
			}
			continue
		}
		if idx >= 0 && idx < len(args) {
			w.val(args[idx], nil)
		} else {
			w.unknown("argument for parameter " + p.Name() + " of " + c06FnName(fn))
		}
	}
}

// mustDefs: the load ld of field loc (address fa) can only see values stored into
// that field of the same object earlier in the same function: every path back
// from the load meets such a store before the function entry, and nothing in
// between (a call that writes the field, a store through another base) can have
// changed it. nil when that cannot be established.
func (w *c06OfWalk) mustDefs(ld *ssa.UnOp, fa *ssa.FieldAddr, loc c06Loc) []*ssa.Store {
	ok := true
	var out []*ssa.Store
	seen := map[*ssa.BasicBlock]bool{}
	var back func(b *ssa.BasicBlock, from int)
	back = func(b *ssa.BasicBlock, from int) {
		for i := from - 1; i >= 0 && ok; i-- {
			switch in := b.Instrs[i].(type) {
			case *ssa.Store:
				a2, isFA := in.Addr.(*ssa.FieldAddr)
				if !isFA || a2.Field != fa.Field || NamedOf(a2.X.Type()) != loc.typ {
					continue
				}
				if !sameOrigin(a2.X, fa.X) {
					ok = false // the same field of what may be the same object
					return
				}
				out = append(out, in)
				return
			case ssa.CallInstruction:
				for _, a := range in.Common().Args {
					if n, f, _, isF := c06FieldOf(a); isF && n == loc.typ && f == loc.field {
						ok = false
						return
					}
				}
				for _, callee := range w.k.cg.out[in] {
					if w.k.trans[callee][loc] {
						ok = false
						return
					}
				}
			}
		}
		if !ok {
			return
		}
		if len(b.Preds) == 0 {
			ok = false // the value the field had on entry
			return
		}
		for _, p := range b.Preds {
			if !seen[p] {
				seen[p] = true
				back(p, len(p.Instrs))
			}
		}
	}
	back(ld.Block(), instrIndex(ld))
	if !ok || len(out) == 0 {
		return nil
	}
	return out
}

func (w *c06OfWalk) load(x *ssa.UnOp, cx *c06OfFrame) {
	switch a := x.X.(type) {
	case *ssa.FieldAddr:
		if n := NamedOf(a.X.Type()); n != nil && c06InScope(n) {
			loc := c06Loc{n, fieldName(a.X.Type(), a.Field)}
			if sts := w.mustDefs(x, a, loc); sts != nil {
				for _, st := range sts {
					w.val(st.Val, cx)
					if len(sts) > 1 {
						w.ctrl(st.Block(), cx) // which of the stores ran
					}
				}
				return
			}
			w.tag(loc, x.Pos())
		}
		w.val(a.X, cx)
	case *ssa.IndexAddr:
		if n := c06NamedRef(a.X.Type()); n != nil {
			w.tag(c06Loc{n, "[]"}, x.Pos())
		}
		w.val(a.X, cx)
		w.val(a.Index, cx)
	case *ssa.Global:
	case *ssa.Alloc, *ssa.FreeVar:
		if r := resolveLoad(x); r != nil {
			w.val(r, cx)
			return
		}
		w.val(a, cx)
	default:
		if pt, ok := x.X.Type().Underlying().(*types.Pointer); ok {
			if n := NamedOf(pt.Elem()); n != nil && c06InScope(n) {
				if _, isStruct := n.Underlying().(*types.Struct); isStruct {
					w.tag(c06Loc{n, "*"}, x.Pos())
				}
			}
		}
		w.val(x.X, cx)
	}
}

// contents: what may have been stored into the object root points to (a local
// variable, array, struct, map or slice made here), wherever the pointer went.
func (w *c06OfWalk) contents(root ssa.Value, cx *c06OfFrame) {
	if w.seenC[c06OfVK{root, cx}] {
		return
	}
	w.seenC[c06OfVK{root, cx}] = true
	seen := map[ssa.Value]bool{}
	var fwd func(cur ssa.Value, depth int)
	fwd = func(cur ssa.Value, depth int) {
		if seen[cur] {
			return
		}
		seen[cur] = true
		if depth > 12 {
			w.unknown("pointer into a local object handed on too many times")
			return
		}
		refs := cur.Referrers()
		if refs == nil {
			return
		}
		for _, ref := range *refs {
			switch r := ref.(type) {
			case *ssa.Store:
				if r.Addr == cur {
					w.val(r.Val, cx)
				}
			case *ssa.MapUpdate:
				if r.Map == cur {
					w.val(r.Key, cx)
					w.val(r.Value, cx)
				}
			case *ssa.FieldAddr:
				if r.X == cur {
					fwd(r, depth+1)
				}
			case *ssa.IndexAddr:
				if r.X == cur {
					fwd(r, depth+1)
				}
			case *ssa.Slice:
				if r.X == cur {
					fwd(r, depth+1)
				}
			case *ssa.Phi:
				fwd(r, depth+1)
			case *ssa.ChangeType:
				fwd(r, depth+1)
			case *ssa.Convert:
				fwd(r, depth+1)
			case *ssa.MakeInterface:
				fwd(r, depth+1)
			case *ssa.MakeClosure:
				f := r.Fn.(*ssa.Function)
				for i, bnd := range r.Bindings {
					if bnd == cur && i < len(f.FreeVars) {
						fwd(f.FreeVars[i], depth+1)
					}
				}
			case ssa.CallInstruction:
				cc := r.Common()
				if bi, ok := cc.Value.(*ssa.Builtin); ok {
					switch bi.Name() {
					case "append":
						if len(cc.Args) > 0 && cc.Args[0] == cur {
							for _, a := range cc.Args[1:] {
								w.val(a, cx)
							}
							if v, ok := r.(*ssa.Call); ok {
								fwd(v, depth+1)
							}
						}
					case "copy":
						if len(cc.Args) == 2 && cc.Args[0] == cur {
							w.val(cc.Args[1], cx)
						}
					}
					continue
				}
				c := CallSite{r.Parent(), r}
				args := c.Args()
				callees := w.k.cg.out[r]
				if len(callees) == 0 || w.k.cg.callback[r] {
					// code that is not followed may store anything it was given
					for _, a := range args {
						if a != cur {
							w.val(a, cx)
						}
					}
					continue
				}
				for _, callee := range callees {
					for i, a := range args {
						if a == cur && i < len(callee.Params) {
							fwd(callee.Params[i], depth+1)
						}
					}
				}
			}
		}
	}
	fwd(root, 0)
}

func (w *c06OfWalk) res(call *ssa.Call, idx int, cx *c06OfFrame) {
	key := c06OfResKey{call, idx, cx}
	if w.seenR[key] {
		return
	}
	w.seenR[key] = true
	c := CallSite{call.Parent(), call}
	args := c.Args()
	if _, ok := call.Call.Value.(*ssa.Builtin); ok {
		for _, a := range args {
			w.val(a, cx)
		}
		return
	}
	callees := w.k.cg.out[call]
	if len(callees) == 0 || w.k.cg.callback[call] {
		if why, bad := w.k.cg.unresolved[call]; bad {
			w.unknown("a call that cannot be resolved (" + why + ")")
		}
		// a function that is not followed: its result is a function of what it is given
		if !call.Call.IsInvoke() && c.Callee() == nil {
			w.val(call.Call.Value, cx)
		}
		for _, a := range args {
			w.val(a, cx)
		}
		return
	}
	for _, callee := range callees {
		if pi := w.o.determined(callee); pi >= 0 && idx == 0 {
			w.o.usedDet[callee] = true
			if pi < len(args) {
				w.val(args[pi], cx)
			}
			continue
		}
		rets := Returns(callee)
		if c06OfSameConst(rets, idx) {
			continue // every return yields the same constant
		}
		nf := w.frame(call, callee, cx)
		for _, ri := range rets {
			if idx < len(ri.Results) {
				w.val(ri.Results[idx], nf)
			}
			w.ctrl(ri.Ret.Block(), nf)
		}
	}
}

// c06OfSameConst: result idx is the same constant at every return.
func c06OfSameConst(rets []ReturnInfo, idx int) bool {
	var c0 *ssa.Const
	for _, ri := range rets {
		if idx >= len(ri.Results) {
			return false
		}
		c, ok := ri.Results[idx].(*ssa.Const)
		if !ok {
			return false
		}
		if c0 == nil {
			c0 = c
			continue
		}
		if !types.Identical(c0.Type(), c.Type()) {
			return false
		}
		if (c0.Value == nil) != (c.Value == nil) {
			return false
		}
		if c0.Value != nil && !constant.Compare(c0.Value, token.EQL, c.Value) {
			return false
		}
	}
	return c0 != nil
}

// val: everything the value v depends on.
func (w *c06OfWalk) val(v ssa.Value, cx *c06OfFrame) {
	if v == nil {
		return
	}
	if cx != nil && cx.callee != c06OfValueFn(v) {
		cx = nil
	}
	if w.seenV[c06OfVK{v, cx}] {
		return
	}
	w.seenV[c06OfVK{v, cx}] = true
	switch x := v.(type) {
	case *ssa.Const, *ssa.Function, *ssa.Builtin, *ssa.Global:
	case *ssa.Parameter:
		w.param(x, cx)
	case *ssa.FreeVar:
		if b := bindingOf(x); b != nil {
			w.val(b, nil)
		} else {
			w.unknown("captured variable " + x.Name())
		}
	case *ssa.Alloc:
		w.contents(x, cx)
	case *ssa.MakeMap:
		w.val(x.Reserve, cx)
		w.contents(x, cx)
	case *ssa.MakeSlice:
		w.val(x.Len, cx)
		w.val(x.Cap, cx)
		w.contents(x, cx)
	case *ssa.MakeChan:
	case *ssa.MakeClosure:
		for _, b := range x.Bindings {
			w.val(b, cx)
		}
	case *ssa.UnOp:
		if x.Op == token.MUL {
			w.load(x, cx)
		} else if x.Op == token.ARROW {
			w.unknown("channel receive")
		} else {
			w.val(x.X, cx)
		}
	case *ssa.Field:
		if n := NamedOf(x.X.Type()); n != nil && c06InScope(n) {
			w.tag(c06Loc{n, fieldName(x.X.Type(), x.Field)}, x.Pos())
		}
		w.val(x.X, cx)
	case *ssa.FieldAddr:
		if n := NamedOf(x.X.Type()); n != nil && c06InScope(n) {
			w.tag(c06Loc{n, fieldName(x.X.Type(), x.Field)}, x.Pos())
		}
		w.val(x.X, cx)
	case *ssa.IndexAddr:
		w.val(x.X, cx)
		w.val(x.Index, cx)
	case *ssa.Lookup:
		if n := c06NamedRef(x.X.Type()); n != nil {
			w.tag(c06Loc{n, "[]"}, x.Pos())
		}
		w.val(x.X, cx)
		w.val(x.Index, cx)
	case *ssa.Index:
		if n := c06NamedRef(x.X.Type()); n != nil {
			w.tag(c06Loc{n, "[]"}, x.Pos())
		}
		w.val(x.X, cx)
		w.val(x.Index, cx)
	case *ssa.Slice:
		if x.High != nil {
			if h, ok := ConstInt(x.High); ok && h == 0 {
				return // a zero-length reslice exposes no element
			}
		}
		w.val(x.X, cx)
		w.val(x.Low, cx)
		w.val(x.High, cx)
		w.val(x.Max, cx)
	case *ssa.BinOp:
		w.val(x.X, cx)
		w.val(x.Y, cx)
	case *ssa.Convert:
		w.val(x.X, cx)
	case *ssa.MultiConvert:
		w.val(x.X, cx)
	case *ssa.ChangeType:
		w.val(x.X, cx)
	case *ssa.MakeInterface:
		w.val(x.X, cx)
	case *ssa.ChangeInterface:
		w.val(x.X, cx)
	case *ssa.SliceToArrayPointer:
		w.val(x.X, cx)
	case *ssa.TypeAssert:
		w.val(x.X, cx)
	case *ssa.Extract:
		if call, ok := x.Tuple.(*ssa.Call); ok {
			w.res(call, x.Index, cx)
		} else {
			w.val(x.Tuple, cx)
		}
	case *ssa.Next:
		w.val(x.Iter, cx)
	case *ssa.Range:
		w.val(x.X, cx)
	case *ssa.Phi:
		for _, e := range x.Edges {
			w.val(e, cx)
		}
		for _, p := range x.Block().Preds {
			w.ctrl(p, cx)
			if len(p.Succs) == 2 {
				if ifi, ok := p.Instrs[len(p.Instrs)-1].(*ssa.If); ok {
					w.val(ifi.Cond, cx)
				}
			}
		}
	case *ssa.Call:
		w.res(x, 0, cx)
	default:
		w.unknown(fmt.Sprintf("a value of shape %T", v))
	}
}

// ---- kinds

func (o *c06Of) newKind(name string, pseudo bool, roots []*ssa.Function) *c06OfKind {
	k := &c06OfKind{name: name, pseudo: pseudo, roots: roots}
	o.finishKind(k)
	return k
}

func (o *c06Of) finishKind(k *c06OfKind) {
	k.cg = o.cx.buildCG(k.roots, false)
	k.sites, k.undc = nil, nil
	k.writes = map[c06Loc][]*ssa.Function{}
	k.trans = map[*ssa.Function]map[c06Loc]bool{}
	k.events = map[*ssa.Function][]ssa.Instruction{}
	k.hasEv = map[*ssa.Function]bool{}
	addEv := func(fn *ssa.Function, in ssa.Instruction) {
		for _, x := range k.events[fn] {
			if x == in {
				return
			}
		}
		k.events[fn] = append(k.events[fn], in)
	}
	for _, s := range c06AllWriteSites(k.cg.order, k.cg) {
		if s.undc != "" {
			k.undc = append(k.undc, s)
			addEv(s.fn, s.in)
			continue
		}
		if o.unobs[s.loc] {
			continue
		}
		if k.trans[s.fn] == nil {
			k.trans[s.fn] = map[c06Loc]bool{}
		}
		k.trans[s.fn][s.loc] = true
		dup := false
		for _, f := range k.writes[s.loc] {
			if f == s.fn {
				dup = true
			}
		}
		if !dup {
			k.writes[s.loc] = append(k.writes[s.loc], s.fn)
		}
		if o.selfMaint[s.loc] {
			continue
		}
		k.sites = append(k.sites, s)
		addEv(s.fn, s.in)
	}
	for _, fn := range k.cg.order {
		for _, b := range fn.Blocks {
			for _, in := range b.Instrs {
				if _, ok := in.(*ssa.Panic); ok {
					addEv(fn, in)
				}
			}
		}
	}
	for _, fn := range k.cg.order {
		if len(k.events[fn]) > 0 {
			k.hasEv[fn] = true
		}
	}
	for changed := true; changed; {
		changed = false
		for _, fn := range k.cg.order {
			for _, b := range fn.Blocks {
				for _, in := range b.Instrs {
					ci, ok := in.(ssa.CallInstruction)
					if !ok {
						continue
					}
					for _, callee := range k.cg.out[ci] {
						if k.hasEv[callee] && !k.hasEv[fn] {
							k.hasEv[fn] = true
							changed = true
						}
						for l := range k.trans[callee] {
							if k.trans[fn] == nil {
								k.trans[fn] = map[c06Loc]bool{}
							}
							if !k.trans[fn][l] {
								k.trans[fn][l] = true
								changed = true
							}
						}
					}
				}
			}
		}
	}
	// calls that lead to an event are events of the caller
	for _, fn := range k.cg.order {
		for _, b := range fn.Blocks {
			for _, in := range b.Instrs {
				if ci, ok := in.(ssa.CallInstruction); ok {
					for _, callee := range k.cg.out[ci] {
						if k.hasEv[callee] {
							addEv(fn, in)
						}
					}
				}
			}
		}
	}
}

// c06OfRealMethod: the method behind a method-expression thunk stored in corpusMergeFunc.
func c06OfRealMethod(f *ssa.Function) *ssa.Function {
	if f.Synthetic == "" {
		return f
	}
	var callee *ssa.Function
	for _, c := range CallsIn(f, false) {
		if x := c.Callee(); x != nil {
			if callee != nil && callee != x {
				return f
			}
			callee = x
		}
	}
	if callee == nil {
		return f
	}
	return callee
}

func (o *c06Of) buildKinds() {
	cx, p, r := o.cx, o.cx.p, o.cx.r
	const rule = "K-order-free"
	realOf := map[*ssa.Function]*c06OfKind{}
	for _, key := range cx.mergeKeys {
		f := cx.mergeRoot[key]
		if f == nil {
			continue
		}
		real := c06OfRealMethod(f)
		k := o.newKind(key, false, []*ssa.Function{real})
		o.kinds = append(o.kinds, k)
		o.byName[key] = k
		realOf[real] = k
	}
	// direct mergers: *Corpus methods the drivers call themselves
	addBlob := p.Func(c06Rel, "Corpus", "addBlob")
	scanFn := p.Func(c06Rel, "Corpus", "scanFromStorage")
	scanPrefix := p.Func(c06Rel, "Corpus", "scanPrefix")
	o.drivers = map[*ssa.Function]bool{addBlob: true, scanFn: true, scanPrefix: true}
	// helpers split off a driver are drivers too: unexported functions / literals in a
	// driver's effective body that (transitively) contain the table dispatch — a dynamic
	// call of a merge-function-typed value — or a call of scanPrefix
	var mergeSig types.Type
	if mt, ok := cx.gMerge.Type().(*types.Pointer).Elem().Underlying().(*types.Map); ok {
		mergeSig = mt.Elem()
	}
	drives := cx.effReach("driver-core", func(in ssa.Instruction) bool {
		call, ok := in.(*ssa.Call)
		if !ok || call.Call.IsInvoke() {
			return false
		}
		c := CallSite{in.Parent(), call}
		if c.Callee() == scanPrefix {
			return true
		}
		if c.Callee() != nil {
			return false
		}
		if _, isBuiltin := call.Call.Value.(*ssa.Builtin); isBuiltin {
			return false
		}
		return mergeSig != nil && types.Identical(call.Call.Value.Type().Underlying(), mergeSig.Underlying())
	})
	var spread func(d *ssa.Function, depth int)
	spread = func(d *ssa.Function, depth int) {
		if depth >= c06EffDepth {
			return
		}
		for _, l := range cx.helperLinks(d) {
			h := l.callee
			if o.drivers[h] || cx.mergeImpl[h] || !drives.any[h] {
				continue
			}
			o.drivers[h] = true
			spread(h, depth+1)
		}
	}
	// the drivers that merge rows one by one (addBlob, scanPrefix and what was split off them);
	// scanFromStorage and its helpers only start scans
	spread(addBlob, 0)
	spread(scanPrefix, 0)
	seen := map[*ssa.Function]bool{}
	var direct []*ssa.Function
	var driverList []*ssa.Function
	for d := range o.drivers {
		if d != scanFn {
			driverList = append(driverList, d)
		}
	}
	spread(scanFn, 0)
	sort.Slice(driverList, func(i, j int) bool { return FuncKey(driverList[i]) < FuncKey(driverList[j]) })
	for _, d := range driverList {
		for _, c := range CallsIn(d, true) {
			h := c.Callee()
			if h == nil || h.Blocks == nil || seen[h] || o.drivers[h] || o.drivers[TopFunc(h)] || cx.mergeImpl[h] || h.Signature.Recv() == nil || NamedOf(h.Signature.Recv().Type()) != cx.tCorpus {
				continue
			}
			seen[h] = true
			direct = append(direct, h)
		}
	}
	var pseudoRoots []*ssa.Function
	for _, h := range direct {
		probe := o.newKind("?", true, []*ssa.Function{h})
		var reach []*c06OfKind
		for real, k := range realOf {
			if probe.cg.funcs[real] {
				reach = append(reach, k)
			}
		}
		switch {
		case len(reach) == 1:
			k := reach[0]
			k.roots = append(k.roots, h)
			o.finishKind(k)
		case len(reach) > 1:
			r.Undecided(rule, FuncKey(h)+"#kind", p.Pos(h.Pos()), c06FnName(h)+" is called by the merge drivers and reaches the merge functions of several row kinds: it cannot be attributed to one kind")
		case len(probe.sites) > 0 || len(probe.undc) > 0:
			pseudoRoots = append(pseudoRoots, h)
		}
	}
	if len(pseudoRoots) > 0 {
		sort.Slice(pseudoRoots, func(i, j int) bool { return FuncKey(pseudoRoots[i]) < FuncKey(pseudoRoots[j]) })
		var names []string
		for _, h := range pseudoRoots {
			names = append(names, h.Name())
		}
		k := o.newKind("(direct:"+strings.Join(names, "+")+")", true, pseudoRoots)
		o.kinds = append(o.kinds, k)
		o.byName[k.name] = k
	}
	sort.Slice(o.kinds, func(i, j int) bool { return o.kinds[i].name < o.kinds[j].name })
}

// ---- both paths merge kind a before kind b

func (o *c06Of) orderedBefore(a, b *c06OfKind) string {
	key := [2]*c06OfKind{a, b}
	if s, ok := o.ordCache[key]; ok {
		return s
	}
	o.ordCache[key] = ""
	if a == b || a.pseudo || b.pseudo {
		return ""
	}
	cx, p := o.cx, o.cx.p
	addBlob := p.Func(c06Rel, "Corpus", "addBlob")
	scanFn := p.Func(c06Rel, "Corpus", "scanFromStorage")
	scanPrefix := p.Func(c06Rel, "Corpus", "scanPrefix")
	// live: a direct merger of kind a, given addBlob's mutation map, success-dominates the row
	// dispatch (both looked for in addBlob's effective body)
	var dispatch *c06Occ
	for _, dc := range cx.dynCalls(addBlob) {
		fv, _ := dc.up(dc.in.(*ssa.Call).Call.Value, dc.leafLevel())
		if lk, ok := originValue(fv).(*ssa.Lookup); ok && c06LoadsGlobal(lk.X, cx.gMerge) {
			if dispatch != nil {
				return ""
			}
			dc := dc
			dispatch = &dc
		}
	}
	if dispatch == nil {
		return ""
	}
	var mmParam *ssa.Parameter
	for _, prm := range addBlob.Params {
		if NamedOf(prm.Type()) == cx.tMM {
			mmParam = prm
		}
	}
	live := ""
	isRootOfA := func(h *ssa.Function) bool {
		for _, rt := range a.roots {
			if rt == h {
				return true
			}
		}
		return false
	}
	for _, ho := range cx.effCalls(addBlob, "", func(c CallSite) bool { return c.Value() != nil && c.Callee() != nil && isRootOfA(c.Callee()) }) {
		c := CallSite{ho.in.Parent(), ho.in.(ssa.CallInstruction)}
		given := false
		for _, arg := range c.Args() {
			if mmParam != nil && c06SameVal(ho.leafVal(arg), c06Val{mmParam, c06Occ{root: addBlob}, 0}) {
				given = true
			}
		}
		if !given {
			continue
		}
		if ok, _ := cx.before(ho, *dispatch, nil, true); ok {
			live = c.Callee().Name() + "(mm) succeeds before the rows of mm.kv are dispatched"
		}
	}
	if live == "" {
		return ""
	}
	// load: an explicit scan of a's prefix success-dominates every scan that can deliver b's rows
	// (scans looked for in scanFromStorage's effective body, prefixes followed through parameters)
	var head *c06Occ
	type scan struct {
		occ  c06Occ
		kind string // "" = ranged
	}
	var scans []scan
	for _, so := range cx.effCalls(scanFn, "call:scanPrefix", func(c CallSite) bool { return c.Callee() == scanPrefix }) {
		c := CallSite{so.in.Parent(), so.in.(ssa.CallInstruction)}
		kind := ""
		args := c.Args()
		pv, _ := so.up(args[len(args)-1], so.leafLevel())
		if pfx, complete := cx.keyPrefix(pv, 0); complete {
			if kd, ok := c06SplitKind(pfx, true); ok {
				kind = kd.typ
			}
		}
		sync := c.Value() != nil
		for _, l := range so.chain {
			if !l.direct {
				sync = false
			}
		}
		if kind == a.name && sync {
			if head != nil {
				return ""
			}
			so := so
			head = &so
		}
		scans = append(scans, scan{so, kind})
	}
	if head == nil {
		return ""
	}
	explicitB := false
	for _, s := range scans {
		if s.kind == b.name {
			explicitB = true
		}
	}
	n := 0
	for _, s := range scans {
		if s.kind == a.name {
			continue
		}
		if (explicitB && s.kind != b.name) || (!explicitB && s.kind != "") {
			continue
		}
		if ok, _ := cx.before(*head, s.occ, nil, true); !ok {
			return ""
		}
		n++
	}
	if n == 0 {
		return ""
	}
	res := "load: scanFromStorage scans the '" + a.name + "' rows, successfully, before it starts the scan that delivers '" + b.name + "' rows; live: " + live
	o.ordCache[key] = res
	return res
}

// ---- the rule

type c06OfFinding struct {
	pos    token.Pos
	owners []string
	fns    []string
}

func c06RuleOrderFree(cx *c06Ctx) {
	const rule = "K-order-free"
	p, r := cx.p, cx.r
	o := &c06Of{cx: cx, byName: map[string]*c06OfKind{}, unobs: map[c06Loc]bool{}, intern: map[c06Loc]string{}, selfMaint: map[c06Loc]bool{},
		cdCache: map[*ssa.Function]map[*ssa.BasicBlock][]*ssa.BasicBlock{}, detCache: map[*ssa.Function]int{}, usedDet: map[*ssa.Function]bool{}, ordCache: map[[2]*c06OfKind]string{}}
	o.findUnobservable()
	o.findInternTables()
	o.buildKinds()
	n := 0
	corpusPos := p.Pos(cx.tCorpus.Obj().Pos())
	locNames := func(m map[c06Loc]bool) []string {
		var out []string
		for l := range m {
			out = append(out, l.String())
		}
		sort.Strings(out)
		return out
	}
	if len(o.kinds) < 2 {
		r.Undecided(rule, "pkg/index.corpusMergeFunc#kinds", corpusPos, "fewer than two row kinds with a merge function were found: the rule has nothing to compare")
		r.Floor(rule, 20)
		return
	}
	for _, l := range locNames(o.unobs) {
		n++
		r.OKTable(rule, "pkg/index."+l+"#never-read", corpusPos, l+" is only ever read to be written back (a counter): a write of it is not an observable effect of a merge")
	}
	for loc, pr := range o.intern {
		n++
		if pr == "" {
			r.OKTable(rule, "pkg/index."+loc.String()+"#identity-table", corpusPos, "every update of "+loc.String()+" is M[k] = k and the map is used only through the field: a lookup that succeeds yields its key, and skipping an update for a key already present cannot change the table, so its maintenance is not a merge effect")
		} else {
			r.OKTable(rule, "pkg/index."+loc.String()+"#keyed-by-field", corpusPos, "every update of "+loc.String()+" is M[v."+pr+"] = v for an object made there, and field "+pr+" is never written on an existing object: ."+pr+" of what a successful lookup yields equals the key")
		}
	}
	owners := map[c06Loc][]*c06OfKind{}
	for _, k := range o.kinds {
		for l := range k.writes {
			owners[l] = append(owners[l], k)
		}
	}
	// classify: "" free/own, "ordered: why", or foreign (returns owner kinds)
	classify := func(k *c06OfKind, l c06Loc) (foreign []*c06OfKind, ordered string) {
		var others []*c06OfKind
		for _, ow := range owners[l] {
			if ow != k {
				others = append(others, ow)
			}
		}
		if len(others) == 0 {
			return nil, ""
		}
		why := ""
		for _, ow := range others {
			s := o.orderedBefore(ow, k)
			if s == "" {
				return others, ""
			}
			why = s
		}
		return nil, why
	}
	type result struct {
		foreign map[c06Loc]*c06OfFinding
		ordered map[c06Loc]string
		own     map[c06Loc]bool
		unk     []string
	}
	assess := func(k *c06OfKind, w *c06OfWalk, res *result) {
		for l, pos := range w.tags {
			fk, ord := classify(k, l)
			switch {
			case len(fk) > 0:
				if res.foreign[l] == nil {
					f := &c06OfFinding{pos: pos}
					for _, ow := range fk {
						f.owners = append(f.owners, "'"+ow.name+"'")
						for _, fn := range ow.writes[l] {
							f.fns = append(f.fns, c06FnName(fn))
						}
					}
					sort.Strings(f.owners)
					f.fns = c06Dedupe(f.fns)
					sort.Strings(f.fns)
					res.foreign[l] = f
				}
			case ord != "":
				res.ordered[l] = ord
			case len(owners[l]) > 0:
				res.own[l] = true
			}
		}
		for _, u := range w.unk {
			res.unk = append(res.unk, u)
		}
	}
	newResult := func() *result {
		return &result{foreign: map[c06Loc]*c06OfFinding{}, ordered: map[c06Loc]string{}, own: map[c06Loc]bool{}}
	}
	loadOrder := func(owner string) string {
		return "a restart merges kind by kind in slurpPrefixes order (scanFromStorage: every 'meta' and 'signerkeyid' row first, the rest concurrently), the live corpus merges rows in arrival order and, within one mutation map, in Go map order"
	}
	report := func(k *c06OfKind, construct string, site string, res *result, what string, okDetail string) {
		n++
		if len(res.unk) > 0 {
			r.Undecided(rule, construct, site, what+": the dependence analysis cannot follow "+strings.Join(c06Dedupe(res.unk), "; "))
			return
		}
		if len(res.foreign) == 0 {
			ord := ""
			if len(res.ordered) > 0 {
				var parts []string
				for _, l := range locNames(func() map[c06Loc]bool {
					m := map[c06Loc]bool{}
					for l := range res.ordered {
						m[l] = true
					}
					return m
				}()) {
					parts = append(parts, l)
				}
				var why string
				for _, s := range res.ordered {
					why = s
				}
				ord = "; also on " + strings.Join(parts, ", ") + ", filled by a kind that both paths merge first (" + why + "; that the entry consulted is the one carried by the same mutation map is not decided)"
			}
			own := "the row alone"
			if len(res.own) > 0 {
				own = "the row and state only '" + k.name + "' rows fill (" + strings.Join(locNames(res.own), ", ") + ")"
			}
			r.OK(rule, construct, site, okDetail+" depend(s) on "+own+ord)
			return
		}
		var ls []c06Loc
		for l := range res.foreign {
			ls = append(ls, l)
		}
		sort.Slice(ls, func(i, j int) bool { return ls[i].String() < ls[j].String() })
		for _, l := range ls {
			f := res.foreign[l]
			pos := site
			if f.pos != token.NoPos {
				pos = p.Pos(f.pos)
			}
			r.Violation(rule, construct+"@"+l.String(), pos, fmt.Sprintf("%s depends on %s, which is filled by the merge of %s rows (%s): %s — so whether a '%s' row takes effect depends on which rows were merged before it, and the live corpus can differ for good from one reloaded from the same rows",
				what, l, strings.Join(f.owners, ", "), strings.Join(f.fns, ", "), loadOrder(""), k.name))
		}
	}
	nConds := 0
	for _, k := range o.kinds {
		for ci, why := range k.cg.unresolved {
			n++
			r.Undecided(rule, FuncKey(ci.Parent())+"#order-free-call:"+k.name, p.Pos(ci.Pos()), "a call made while merging '"+k.name+"' rows cannot be resolved ("+why+"): writes and the conditions guarding them may be missed")
		}
		for _, s := range k.undc {
			n++
			r.Undecided(rule, FuncKey(s.fn)+"#order-free-write:"+k.name, p.Pos(s.in.Pos()), "while merging '"+k.name+"' rows, "+c06FnName(s.fn)+" "+s.how+" a reference that cannot be followed to the state it belongs to ("+s.undc+")")
		}
		fns := append([]*ssa.Function(nil), k.cg.order...)
		sort.Slice(fns, func(i, j int) bool { return FuncKey(fns[i]) < FuncKey(fns[j]) })
		for _, fn := range fns {
			if len(k.events[fn]) == 0 {
				continue
			}
			ctl := map[*ssa.BasicBlock]bool{}
			for _, in := range k.events[fn] {
				o.controllers(in.Block(), ctl)
			}
			if len(ctl) == 0 {
				continue
			}
			res := newResult()
			var blocks []*ssa.BasicBlock
			for b := range ctl {
				blocks = append(blocks, b)
			}
			sort.Slice(blocks, func(i, j int) bool { return blocks[i].Index < blocks[j].Index })
			for _, b := range blocks {
				w := o.newWalk(k)
				w.val(c06OfCond(b), nil)
				assess(k, w, res)
			}
			nConds += len(blocks)
			report(k, FuncKey(fn)+"#order-free:"+k.name, p.Pos(fn.Pos()), res,
				fmt.Sprintf("whether %s, merging a '%s' row, writes corpus state (or panics, or goes on to a function that does)", c06FnName(fn), k.name),
				fmt.Sprintf("the %d branch condition(s) that decide whether %s writes corpus state, panics or calls on", len(blocks), c06FnName(fn)))
		}
		for _, root := range k.roots {
			ei := ErrResultIndex(root)
			if ei < 0 {
				continue
			}
			res := newResult()
			w := o.newWalk(k)
			for _, ri := range Returns(root) {
				// which non-nil error, and whether one is returned at all: the returns of a
				// constant nil are the complement and add nothing
				if ei >= len(ri.Results) || IsNilConst(ri.Results[ei]) {
					continue
				}
				w.val(ri.Results[ei], nil)
				w.ctrl(ri.Ret.Block(), nil)
			}
			assess(k, w, res)
			report(k, FuncKey(root)+"#result:"+k.name, p.Pos(root.Pos()), res,
				fmt.Sprintf("which error %s returns for a '%s' row (a non-nil error makes addBlob / scanPrefix abandon the remaining rows)", c06FnName(root), k.name),
				"the error result")
		}
		// which VALUE is written: weaker, reported as a note only
		notes := map[string]bool{}
		for _, s := range k.sites {
			var vals []ssa.Value
			switch x := s.in.(type) {
			case *ssa.Store:
				vals = append(vals, x.Val)
			case *ssa.MapUpdate:
				vals = append(vals, x.Key, x.Value)
			}
			for _, v := range vals {
				w := o.newWalk(k)
				w.val(v, nil)
				for l := range w.tags {
					if fk, _ := classify(k, l); len(fk) > 0 {
						var ows []string
						for _, ow := range fk {
							ows = append(ows, "'"+ow.name+"'")
						}
						sort.Strings(ows)
						notes[fmt.Sprintf("%s (%s %s) uses %s, also written by %s rows", c06FnName(s.fn), s.how, s.loc, l, strings.Join(ows, "/"))] = true
					}
				}
			}
		}
		if len(notes) > 0 {
			var ns []string
			for s := range notes {
				ns = append(ns, s)
			}
			sort.Strings(ns)
			r.Note("K-order-free (which value, not whether — not an obligation) merging '%s' rows: %s", k.name, strings.Join(ns, "; "))
		}
	}
	{
		var ks []string
		for _, k := range o.kinds {
			var rs []string
			for _, rt := range k.roots {
				rs = append(rs, rt.Name())
			}
			ks = append(ks, k.name+"="+strings.Join(rs, "+"))
		}
		r.Note("K-order-free: row kinds and their merge entry points: %s", strings.Join(ks, " "))
	}
	// functions proved transparent (those a slice actually went through)
	{
		var det []*ssa.Function
		for fn := range o.usedDet {
			det = append(det, fn)
		}
		sort.Slice(det, func(i, j int) bool { return FuncKey(det[i]) < FuncKey(det[j]) })
		for _, fn := range det {
			n++
			r.OK(rule, FuncKey(fn)+"#determined", p.Pos(fn.Pos()), fmt.Sprintf("every return of %s yields the same function of parameter %s (the parameter, a conversion of it, or what an interning table holds under it on the `present` edge): its result carries no dependence on corpus state", c06FnName(fn), fn.Params[o.determined(fn)].Name()))
		}
	}
	r.Analysed("order_free_kinds", len(o.kinds))
	r.Analysed("order_free_conditions", nConds)
	r.Analysed("order_free_obligations", n)
	r.Floor(rule, 34) // today 38: 3 table facts + 3 transparent helpers + 20 functions with guarded effects + 12 entry-point results
}
