package main

import (
	"fmt"
	"go/token"
	"go/types"
	"sort"
	"strings"

	"golang.org/x/tools/go/ssa"
)

// C06 — the live index/corpus equal what a restart would load from the rows.
//
// Everything below is computed from the SSA of pkg/index (tables included: the
// package initializer is ordinary SSA). No source text, no positions.

func init() {
	register(&PropSpec{
		ID:    "C06",
		Title: "Live index and corpus always equal what a restart would load",
		Explanation: "Decided (structural necessary conditions, all in pkg/index): " +
			"K-tables — the three row-kind tables agree: every prefix in slurpPrefixes (what a restart scans) has a non-nil merge function in corpusMergeFunc and is spelt with the separator the indexer actually writes for that kind; every non-nil merge function's kind is in slurpPrefixes; every row kind the indexer can write (keys given to mutationMap.Set, stored into mutationMap.kv, or written straight to the sorted.KeyValue) is classified — a key of corpusMergeFunc or an entry of the reasoned index-only table; scanFromStorage scans exactly slurpPrefixes (explicit head + the ranged tail); the live merge in Corpus.addBlob dispatches through corpusMergeFunc[typeOfKey(k)] on the very (k,v) of mm.kv behind a gate equivalent to the load set; slurpedKeyType is built only from slurpPrefixes; scanPrefix dispatches through the same table. " +
			"K-owner — who may write the caches that a restart rebuilds from rows: Index.deletes is (re)assigned only by the loader of 'deleted' rows (before it reads them) or on a freshly allocated Index that is not loaded afterwards; its map is written only by the constructor, the loader and the live updater, and every call of the live updater comes after a successful CommitBatch with a claim taken from mm.deletes; New's success returns are dominated by both loaders or lie in the about-to-reindex branch with a fresh cache; Index.needs/neededBy/readyReindex are written only by the tabled functions, and the in-memory adder is called only from the 'missing' row loader or after the matching 'missing' row was written successfully; Corpus fields are written only by *Corpus methods (or the constructor) that are reachable only from the load entry (scanFromStorage) or the live entry (addBlob); Corpus.deletes is written only by its 'deleted'-row loader, which dominates every success return of scanFromStorage, and by the live updater, every caller of which passes a claim of mm.deletes; Index.corpus is only ever NewCorpusFromStorage(x.s) of the same index and Index.s is never replaced on a live index (one reasoned test hook); mutationMap.deletes is written only by noteDelete. " +
			"K-delete-row — every mm.noteDelete(cl) is dominated by an mm.Set of a keyDeleted row on the same mm whose key parts are cl.Target(), cl.ClaimDateString(), cl.Blob().BlobRef() in the order kvDeleted reads them (or by a successful call of a function all of whose success returns are so dominated), and every keyDeleted row put into mm is followed on all paths by noteDelete on that mm. " +
			"K-live — in every caller of Index.commit/Corpus.addBlob (today ReceiveBlob only): addBlob receives the same mutationMap commit wrote, is dominated by commit's success, runs under the index write lock, and every path from a successful commit to a success return passes addBlob unless the corpus is nil; commit applies mm.deletes to the index cache only after CommitBatch succeeded and writes every (k,v) of mm.kv into the batch it commits; rows of a kind the corpus merges are never written to the store behind the corpus's back (direct KeyValue.Set/Delete sites write only non-slurped kinds; one reasoned exception); every success return of addBlob comes after its merge loops over mm.kv and mm.deletes (violated on the current tree by the duplicate-blob early return: a delete claim that arrived before its target is committed twice, the second time with its 'deleted' and 'claim' rows, and the live corpus skips that second mutation map). " +
			"NOT decided: that the merge functions compute from a row the same state live as at load for every history (e.g. ordering effects, the `building`-only update of hasLegacySHA1, PermanodeMeta caches), equality of query answers for any concrete arrival history or sorted.KeyValue backend, behaviour of out-of-order arrival, contents of rows.",
		RuleDocs: map[string]string{
			"K-tables":     "H6 table agreement over slurpPrefixes / corpusMergeFunc / written row kinds (+ separators), scan set, live-merge gate and dispatch",
			"K-owner":      "H5 who-may-write: Index.deletes (+ its map), Index.needs/neededBy/readyReindex, Corpus fields, mutationMap.deletes; open path loads both caches",
			"K-delete-row": "H2: noteDelete only where the 'deleted' row for the same claim was put into the same mutation map, and vice versa",
			"K-live":       "H7/H3/H2: addBlob gets the committed mm, after commit success, under the write lock, and merges all of it; commit feeds caches only after CommitBatch; no slurped row kind bypasses commit",
		},
		Run:       runC06,
		DesignRef: "DESIGN.md §4 C06",
		Technique: "static analysis: table agreement extracted from the package initializer's SSA, who-may-write enumeration over field stores and map updates, dominance on error-nil edges, lockset, value dependence",
		LevelText: "Decides structural necessary conditions only: the live path and the restart path of the index deletion cache, the dependency maps and the corpus are driven by the same row kinds, the same rows and the same tables, and no other code writes those caches. Does not decide that both paths compute equal state for every arrival history, nor anything about concrete sorted.KeyValue backends.",
	})
}

const c06Rel = "pkg/index"

// ---------------------------------------------------------------------------
// context: types, globals, tables (all resolved through types / SSA)

type c06Kind struct {
	typ, sep string // "claim","|" ; "meta",":" ; "schemaversion","" (bare key)
}

func (k c06Kind) String() string { return k.typ + k.sep }

type c06Ctx struct {
	p   *Program
	r   *Reporter
	pkg *ssa.Package
	fns []*ssa.Function

	tIndex, tCorpus, tMM, tDelCache, tKeyType *types.Named

	keyName map[*ssa.Global]string // keyDeleted -> "deleted"

	mergeKeys   []string          // keys of corpusMergeFunc in order
	mergeFn     map[string]string // key -> "" (nil) or thunk/function name
	mergeImpl   map[*ssa.Function]bool
	slurp       []c06Kind // slurpPrefixes in order
	slurpSet    map[string]string
	initFn      *ssa.Function
	gMerge      *ssa.Global
	gSlurp      *ssa.Global
	gSlurped    *ssa.Global
	fnTypeOfKey *ssa.Function
}

func c06Global(pkg *ssa.Package, name string) *ssa.Global {
	g, _ := pkg.Members[name].(*ssa.Global)
	if g == nil {
		brokenf("anchor unresolved: package variable %s.%s", c06Rel, name)
	}
	return g
}

func c06Setup(p *Program, r *Reporter) *c06Ctx {
	cx := &c06Ctx{p: p, r: r, pkg: p.SSAPkg(c06Rel)}
	if cx.pkg == nil {
		brokenf("anchor unresolved: package %s", c06Rel)
	}
	for _, fn := range p.FuncsIn(c06Rel) {
		cx.fns = append(cx.fns, fn)
	}
	cx.tIndex = p.NamedType(c06Rel, "Index")
	cx.tCorpus = p.NamedType(c06Rel, "Corpus")
	cx.tMM = p.NamedType(c06Rel, "mutationMap")
	cx.tDelCache = p.NamedType(c06Rel, "deletionCache")
	cx.tKeyType = p.NamedType(c06Rel, "keyType")
	cx.gMerge = c06Global(cx.pkg, "corpusMergeFunc")
	cx.gSlurp = c06Global(cx.pkg, "slurpPrefixes")
	cx.gSlurped = c06Global(cx.pkg, "slurpedKeyType")
	cx.fnTypeOfKey = p.Func(c06Rel, "", "typeOfKey")
	cx.initFn = cx.pkg.Func("init")
	if cx.initFn == nil {
		brokenf("anchor unresolved: package initializer of %s", c06Rel)
	}
	cx.loadKeyNames()
	cx.loadTables()
	return cx
}

// loadKeyNames reads `var keyX = &keyType{"name", ...}` from the initializer.
func (cx *c06Ctx) loadKeyNames() {
	cx.keyName = map[*ssa.Global]string{}
	for _, b := range cx.initFn.Blocks {
		for _, in := range b.Instrs {
			st, ok := in.(*ssa.Store)
			if !ok {
				continue
			}
			g, ok := st.Addr.(*ssa.Global)
			if !ok {
				continue
			}
			// g has type **keyType
			pt, ok := g.Type().(*types.Pointer)
			if !ok || NamedOf(pt.Elem()) != cx.tKeyType {
				continue
			}
			al, ok := st.Val.(*ssa.Alloc)
			if !ok {
				continue
			}
			name, found := "", false
			for _, ref := range *al.Referrers() {
				fa, ok := ref.(*ssa.FieldAddr)
				if !ok || fieldName(fa.X.Type(), fa.Field) != "name" {
					continue
				}
				for _, r2 := range *fa.Referrers() {
					if s2, ok := r2.(*ssa.Store); ok && s2.Addr == ssa.Value(fa) {
						if s, ok := ConstString(s2.Val); ok {
							name, found = s, true
						}
					}
				}
			}
			if found {
				cx.keyName[g] = name
			}
		}
	}
	if len(cx.keyName) < 10 {
		brokenf("anchor unresolved: only %d keyType variables with a constant name found in %s", len(cx.keyName), c06Rel)
	}
}

// keyGlobalOf: v is a load of a keyType package variable.
func (cx *c06Ctx) keyGlobalOf(v ssa.Value) (*ssa.Global, bool) {
	u, ok := originValue(v).(*ssa.UnOp)
	if !ok || u.Op != token.MUL {
		return nil, false
	}
	g, ok := u.X.(*ssa.Global)
	if !ok {
		return nil, false
	}
	_, known := cx.keyName[g]
	return g, known
}

// keyPrefix returns the statically known leading part of string value v and
// whether that is the complete value.
func (cx *c06Ctx) keyPrefix(v ssa.Value, depth int) (string, bool) {
	if depth > 20 {
		return "", false
	}
	v = originValue(v)
	switch x := v.(type) {
	case *ssa.Const:
		if s, ok := ConstString(x); ok {
			return s, true
		}
	case *ssa.BinOp:
		if x.Op == token.ADD {
			px, cpl := cx.keyPrefix(x.X, depth+1)
			if !cpl {
				return px, false
			}
			py, cpl2 := cx.keyPrefix(x.Y, depth+1)
			return px + py, cpl2
		}
	case *ssa.UnOp:
		if x.Op == token.MUL {
			if fa, ok := x.X.(*ssa.FieldAddr); ok && NamedOf(fa.X.Type()) == cx.tKeyType && fieldName(fa.X.Type(), fa.Field) == "name" {
				if g, ok := cx.keyGlobalOf(fa.X); ok {
					return cx.keyName[g], true
				}
			}
		}
	case *ssa.Call:
		c := CallSite{x.Parent(), x}
		if f := c.Callee(); f != nil && f.Signature.Recv() != nil && NamedOf(f.Signature.Recv().Type()) == cx.tKeyType && (f.Name() == "Key" || f.Name() == "Prefix") {
			if g, ok := cx.keyGlobalOf(c.Args()[0]); ok {
				// build(): name, then "|" before every part
				return cx.keyName[g] + "|", false
			}
		}
	}
	return "", false
}

// c06SplitKind mirrors index.typeOfKey: the kind is what precedes the first ':' or '|'.
func c06SplitKind(prefix string, complete bool) (c06Kind, bool) {
	i := strings.IndexAny(prefix, ":|")
	if i >= 0 {
		return c06Kind{prefix[:i], prefix[i : i+1]}, true
	}
	if complete && prefix != "" {
		return c06Kind{prefix, ""}, true
	}
	return c06Kind{}, false
}

func (cx *c06Ctx) kindOfKey(v ssa.Value) (c06Kind, bool) {
	return c06SplitKind(cx.keyPrefix(v, 0))
}

// loadTables reads corpusMergeFunc and slurpPrefixes from the initializer.
func (cx *c06Ctx) loadTables() {
	cx.mergeFn = map[string]string{}
	cx.mergeImpl = map[*ssa.Function]bool{}
	cx.slurpSet = map[string]string{}
	var mergeMap *ssa.MakeMap
	var slurpArr *ssa.Alloc
	for _, fn := range cx.fns {
		for _, b := range fn.Blocks {
			for _, in := range b.Instrs {
				st, ok := in.(*ssa.Store)
				if !ok {
					continue
				}
				switch st.Addr {
				case ssa.Value(cx.gMerge):
					mm, ok := st.Val.(*ssa.MakeMap)
					if !ok || fn != cx.initFn || mergeMap != nil {
						cx.r.Undecided("K-tables", FuncKey(fn)+"#corpusMergeFunc", cx.p.Pos(st.Pos()), "corpusMergeFunc is assigned by something other than one map literal in the package initializer; the table cannot be read statically")
						continue
					}
					mergeMap = mm
				case ssa.Value(cx.gSlurp):
					sl, ok := st.Val.(*ssa.Slice)
					var al *ssa.Alloc
					if ok {
						al, _ = sl.X.(*ssa.Alloc)
					}
					if al == nil || fn != cx.initFn || slurpArr != nil {
						cx.r.Undecided("K-tables", FuncKey(fn)+"#slurpPrefixes", cx.p.Pos(st.Pos()), "slurpPrefixes is assigned by something other than one slice literal in the package initializer; the table cannot be read statically")
						continue
					}
					slurpArr = al
				}
			}
		}
	}
	if mergeMap == nil || slurpArr == nil {
		brokenf("anchor unresolved: literal initializers of corpusMergeFunc / slurpPrefixes")
	}
	for _, ref := range *mergeMap.Referrers() {
		mu, ok := ref.(*ssa.MapUpdate)
		if !ok {
			continue
		}
		k, complete := cx.keyPrefix(mu.Key, 0)
		if !complete {
			cx.r.Undecided("K-tables", "pkg/index.corpusMergeFunc#key", cx.p.Pos(mu.Pos()), "a key of corpusMergeFunc is not a static string")
			continue
		}
		cx.mergeKeys = append(cx.mergeKeys, k)
		if IsNilConst(mu.Value) {
			cx.mergeFn[k] = ""
			continue
		}
		name := mu.Value.Name()
		if f, ok := mu.Value.(*ssa.Function); ok {
			name = f.Name()
			cx.mergeImpl[f] = true
			// method-expression thunk: the real method is its only static callee
			for _, c := range CallsIn(f, false) {
				if callee := c.Callee(); callee != nil {
					cx.mergeImpl[callee] = true
				}
			}
		}
		cx.mergeFn[k] = name
	}
	type elem struct {
		idx int64
		k   c06Kind
	}
	var elems []elem
	for _, ref := range *slurpArr.Referrers() {
		ia, ok := ref.(*ssa.IndexAddr)
		if !ok {
			continue
		}
		idx, ok := ConstInt(ia.Index)
		if !ok {
			continue
		}
		for _, r2 := range *ia.Referrers() {
			st, ok := r2.(*ssa.Store)
			if !ok || st.Addr != ssa.Value(ia) {
				continue
			}
			pfx, complete := cx.keyPrefix(st.Val, 0)
			k, ok := c06SplitKind(pfx, complete)
			if !ok || !complete || k.sep == "" || pfx != k.typ+k.sep {
				cx.r.Undecided("K-tables", fmt.Sprintf("pkg/index.slurpPrefixes#%d", idx), cx.p.Pos(st.Pos()), fmt.Sprintf("slurp prefix %q is not a static `<kind><separator>` string", pfx))
				continue
			}
			elems = append(elems, elem{idx, k})
		}
	}
	sort.Slice(elems, func(i, j int) bool { return elems[i].idx < elems[j].idx })
	for _, e := range elems {
		cx.slurp = append(cx.slurp, e.k)
		cx.slurpSet[e.k.typ] = e.k.sep
	}
}

// ---------------------------------------------------------------------------
// field / map write enumeration

// c06FieldOf: v is the address &X.f (FieldAddr) of a field of named struct T.
func c06FieldOf(v ssa.Value) (*types.Named, string, ssa.Value, bool) {
	fa, ok := v.(*ssa.FieldAddr)
	if !ok {
		return nil, "", nil, false
	}
	n := NamedOf(fa.X.Type())
	if n == nil {
		return nil, "", nil, false
	}
	return n, fieldName(fa.X.Type(), fa.Field), fa.X, true
}

// c06LoadedField: v is a value loaded from field f of named struct T (X.f).
func c06LoadedField(v ssa.Value) (*types.Named, string, ssa.Value, bool) {
	v = originValue(v)
	switch x := v.(type) {
	case *ssa.UnOp:
		if x.Op == token.MUL {
			return c06FieldOf(x.X)
		}
	case *ssa.Field:
		if n := NamedOf(x.X.Type()); n != nil {
			return n, fieldName(x.X.Type(), x.Field), x.X, true
		}
	}
	return nil, "", nil, false
}

type c06Write struct {
	fn    *ssa.Function
	in    ssa.Instruction
	typ   *types.Named
	field string
	kind  string    // "assign", "map-update", "map-delete", "clear", "addr-escape"
	base  ssa.Value // the struct pointer
}

// c06Writes enumerates writes to fields of the named struct types in `want`.
func c06Writes(fns []*ssa.Function, want map[*types.Named]bool) []c06Write {
	var out []c06Write
	for _, fn := range fns {
		for _, b := range fn.Blocks {
			for _, in := range b.Instrs {
				switch x := in.(type) {
				case *ssa.Store:
					if n, f, base, ok := c06FieldOf(x.Addr); ok && want[n] {
						out = append(out, c06Write{fn, in, n, f, "assign", base})
					}
				case *ssa.MapUpdate:
					if n, f, base, ok := c06LoadedField(x.Map); ok && want[n] {
						out = append(out, c06Write{fn, in, n, f, "map-update", base})
					}
				case ssa.CallInstruction:
					cc := x.Common()
					if bi, ok := cc.Value.(*ssa.Builtin); ok && (bi.Name() == "delete" || bi.Name() == "clear") && len(cc.Args) > 0 {
						if n, f, base, ok := c06LoadedField(cc.Args[0]); ok && want[n] {
							k := "map-delete"
							if bi.Name() == "clear" {
								k = "clear"
							}
							out = append(out, c06Write{fn, in, n, f, k, base})
						}
						continue
					}
					// the address of a field handed to a callee (e.g. mak.Set(&x.f, ...))
					for _, a := range cc.Args {
						if n, f, base, ok := c06FieldOf(a); ok && want[n] {
							out = append(out, c06Write{fn, in, n, f, "addr-escape", base})
						}
					}
				}
			}
		}
	}
	return out
}

// c06Fresh: base is an object allocated in the same function (constructor).
func c06Fresh(base ssa.Value, fn *ssa.Function) bool {
	al, ok := originValue(base).(*ssa.Alloc)
	return ok && al.Parent() == fn
}

func c06TopKey(fn *ssa.Function) string { return FuncKey(TopFunc(fn)) }

// ---------------------------------------------------------------------------

func runC06(p *Program, r *Reporter) {
	cx := c06Setup(p, r)
	r.Analysed("functions", len(cx.fns))
	c06RuleTables(cx)
	c06RuleOwner(cx)
	c06RuleDeleteRow(cx)
	c06RuleLive(cx)
}

// ---------------------------------------------------------------------------
// K-tables

// c06IndexOnly is the frozen table N of row kinds that deliberately bypass
// corpusMergeFunc; one reason each (where the kind is read instead).
var c06IndexOnly = map[string]string{
	"deleted":          "not merged by kind: the live corpus/index caches are fed from mm.deletes (noteDelete -> commit/addBlob) and the restart path reads the rows in initDeletesCacheLocked/Corpus.initDeletes; K-delete-row and K-owner tie the two together",
	"missing":          "index-only dependency bookkeeping (Index.needs/neededBy), reloaded by initNeededMapsLocked; never read by the corpus",
	"signertargetpath": "camliPath back rows, answered from the rows by Index.PathsOfSignerTarget for live and restarted index alike; the corpus keeps no path state",
	"path":             "camliPath forward rows, answered from the rows by Index.PathsLookup/PathLookup; the corpus keeps no path state",
	"edgeback":         "edge rows, answered from the rows by Index.EdgesTo; the corpus keeps no edge state",
	"schemaversion":    "index format marker written by New/Reindex/fixMissingWholeRef; not blob data",
}

type c06RowWrite struct {
	fn     *ssa.Function
	pos    token.Pos
	kind   c06Kind
	direct bool   // written straight to the sorted.KeyValue (not through a mutationMap)
	op     string // Set / Delete
}

// isKVMethod: interface invoke of sorted.KeyValue / sorted.BatchMutation method name.
func c06IsKVInvoke(c CallSite, name string) bool {
	cc := c.Common()
	if !cc.IsInvoke() || cc.Method.Name() != name {
		return false
	}
	t := c.RecvType()
	return IsNamed(t, "perkeep.org/pkg/sorted", "KeyValue") || IsNamed(t, "perkeep.org/pkg/sorted", "BatchMutation")
}

// c06IsMMKV: v is the kv map of a mutationMap (loaded field, or the map
// literal that a composite literal stores into the kv field).
func (cx *c06Ctx) isMMKV(v ssa.Value) bool {
	if n, f, _, ok := c06LoadedField(v); ok && n == cx.tMM && f == "kv" {
		return true
	}
	if mk, ok := originValue(v).(*ssa.MakeMap); ok {
		for _, ref := range *mk.Referrers() {
			if st, ok := ref.(*ssa.Store); ok && st.Val == ssa.Value(mk) {
				if n, f, _, ok := c06FieldOf(st.Addr); ok && n == cx.tMM && f == "kv" {
					return true
				}
			}
		}
	}
	return false
}

// rangeMapOf: v is the key (or value) extracted from ranging over a map; returns the map.
func c06RangeMapOf(v ssa.Value) (ssa.Value, int, bool) {
	ex, ok := v.(*ssa.Extract)
	if !ok {
		return nil, 0, false
	}
	nx, ok := ex.Tuple.(*ssa.Next)
	if !ok || nx.IsString {
		return nil, 0, false
	}
	rg, ok := nx.Iter.(*ssa.Range)
	if !ok {
		return nil, 0, false
	}
	if _, isMap := rg.X.Type().Underlying().(*types.Map); !isMap {
		return nil, 0, false
	}
	return rg.X, ex.Index, true
}

// keyKinds resolves the row kinds a key value may denote at a KV write site.
// conduit=true: the key comes from ranging over a mutationMap's kv (commit).
func (cx *c06Ctx) keyKinds(v ssa.Value, depth int) (kinds []c06Kind, conduit, ok bool) {
	if depth > 4 {
		return nil, false, false
	}
	if k, ok := cx.kindOfKey(v); ok {
		return []c06Kind{k}, false, true
	}
	if m, idx, isRange := c06RangeMapOf(originValue(v)); isRange && idx == 1 {
		if cx.isMMKV(m) {
			return nil, true, true
		}
		if mk, isLocal := originValue(m).(*ssa.MakeMap); isLocal {
			all := true
			for _, ref := range *mk.Referrers() {
				if mu, isUpd := ref.(*ssa.MapUpdate); isUpd && mu.Map == ssa.Value(mk) {
					ks, _, ok := cx.keyKinds(mu.Key, depth+1)
					if !ok {
						all = false
					}
					kinds = append(kinds, ks...)
				}
			}
			return kinds, false, all && len(kinds) > 0
		}
	}
	return nil, false, false
}

// stringSources walks back from a string value through slice elements,
// appends and variables to the calls/values it may come from.
func c06StringSources(v ssa.Value, visit func(ssa.Value)) {
	seen := map[ssa.Value]bool{}
	var walk func(v ssa.Value, d int)
	walk = func(v ssa.Value, d int) {
		if v == nil || seen[v] || d > 40 {
			return
		}
		seen[v] = true
		switch x := v.(type) {
		case *ssa.Phi:
			for _, e := range x.Edges {
				walk(e, d+1)
			}
		case *ssa.UnOp:
			if x.Op == token.MUL {
				switch a := x.X.(type) {
				case *ssa.IndexAddr:
					walk(a.X, d+1)
					return
				case *ssa.Alloc:
					for _, st := range storesTo(a) {
						walk(st.Val, d+1)
					}
					return
				}
			}
			visit(v)
		case *ssa.Slice:
			if al, ok := x.X.(*ssa.Alloc); ok {
				for _, ref := range *al.Referrers() {
					if ia, ok := ref.(*ssa.IndexAddr); ok {
						for _, r2 := range *ia.Referrers() {
							if st, ok := r2.(*ssa.Store); ok && st.Addr == ssa.Value(ia) {
								walk(st.Val, d+1)
							}
						}
					}
				}
				return
			}
			walk(x.X, d+1)
		case *ssa.Call:
			if bi, ok := x.Call.Value.(*ssa.Builtin); ok && bi.Name() == "append" {
				for _, a := range x.Call.Args {
					walk(a, d+1)
				}
				return
			}
			visit(v)
		case *ssa.Const:
			if x.Value == nil {
				return // nil slice
			}
			visit(v)
		default:
			visit(v)
		}
	}
	walk(v, 0)
}

// deleteKinds resolves the kinds of a key handed to KeyValue.Delete: the key
// must come from Iterator.Key() of iterators opened by queryPrefix(keyT, ...).
func (cx *c06Ctx) deleteKinds(key ssa.Value) ([]c06Kind, bool) {
	var kinds []c06Kind
	ok := true
	n := 0
	c06StringSources(key, func(src ssa.Value) {
		n++
		call, isCall := src.(*ssa.Call)
		if !isCall {
			if k, isKey := cx.kindOfKey(src); isKey {
				kinds = append(kinds, k)
				return
			}
			ok = false
			return
		}
		c := CallSite{call.Parent(), call}
		if k, isKey := cx.kindOfKey(src); isKey {
			kinds = append(kinds, k)
			return
		}
		if c.Common().IsInvoke() && c.MethodName() == "Key" && IsNamed(c.RecvType(), "perkeep.org/pkg/sorted", "Iterator") {
			// the iterator: result of (*Index).queryPrefix / queryPrefix(keyT, ...)
			itv := originValue(c.Common().Value)
			q, isQ := itv.(*ssa.Call)
			if !isQ {
				ok = false
				return
			}
			qc := CallSite{q.Parent(), q}
			f := qc.Callee()
			if f == nil || f.Name() != "queryPrefix" || f.Pkg != cx.pkg {
				ok = false
				return
			}
			for _, a := range qc.Args() {
				if g, isKey := cx.keyGlobalOf(a); isKey {
					kinds = append(kinds, c06Kind{cx.keyName[g], "|"})
					return
				}
			}
			ok = false
			return
		}
		ok = false
	})
	return kinds, ok && n > 0 && len(kinds) > 0
}

// rowWrites enumerates every place pkg/index produces a row key.
func (cx *c06Ctx) rowWrites() (writes []c06RowWrite, conduits []CallSite) {
	r, p := cx.r, cx.p
	setFn := p.Func(c06Rel, "mutationMap", "Set")
	for _, c := range p.StaticCallers(setFn) {
		k, ok := cx.kindOfKey(c.Args()[1])
		if !ok {
			r.Undecided("K-tables", FuncKey(c.Fn)+"#row:?", p.Pos(c.Pos()), "the key given to mutationMap.Set has no static `<kind><separator>` prefix: the row kind cannot be determined")
			continue
		}
		writes = append(writes, c06RowWrite{c.Fn, c.Pos(), k, false, "Set"})
	}
	if uses := p.FuncValueUses(setFn); len(uses) > 0 {
		r.Undecided("K-tables", FuncKey(uses[0].Parent())+"#row:?", p.Pos(uses[0].Pos()), "mutationMap.Set is used as a function value: its callers cannot be enumerated")
	}
	for _, fn := range cx.fns {
		for _, b := range fn.Blocks {
			for _, in := range b.Instrs {
				switch x := in.(type) {
				case *ssa.MapUpdate:
					if !cx.isMMKV(x.Map) {
						continue
					}
					if prm, isParam := originValue(x.Key).(*ssa.Parameter); isParam && fn == setFn && prm == fn.Params[1] {
						continue // the wrapper itself; its callers are enumerated above
					}
					k, ok := cx.kindOfKey(x.Key)
					if !ok {
						r.Undecided("K-tables", FuncKey(fn)+"#row:?", p.Pos(x.Pos()), "a key stored into mutationMap.kv has no static `<kind><separator>` prefix")
						continue
					}
					writes = append(writes, c06RowWrite{fn, x.Pos(), k, false, "Set"})
				case ssa.CallInstruction:
					c := CallSite{fn, x}
					switch {
					case c06IsKVInvoke(c, "Set"):
						ks, conduit, ok := cx.keyKinds(c.Args()[1], 0)
						if conduit {
							conduits = append(conduits, c)
							continue
						}
						if !ok {
							r.Undecided("K-tables", FuncKey(fn)+"#row:?", p.Pos(c.Pos()), "the key written to the index's sorted.KeyValue cannot be resolved to a row kind")
							continue
						}
						for _, k := range ks {
							writes = append(writes, c06RowWrite{fn, c.Pos(), k, true, "Set"})
						}
					case c06IsKVInvoke(c, "Delete"):
						ks, ok := cx.deleteKinds(c.Args()[1])
						if !ok {
							r.Undecided("K-tables", FuncKey(fn)+"#row:?", p.Pos(c.Pos()), "the key deleted from the index's sorted.KeyValue cannot be resolved to a row kind (not Iterator.Key() of a queryPrefix(keyT, ...) iterator)")
							continue
						}
						for _, k := range ks {
							writes = append(writes, c06RowWrite{fn, c.Pos(), k, true, "Delete"})
						}
					}
				}
			}
		}
	}
	return writes, conduits
}

func c06RuleTables(cx *c06Ctx) {
	const rule = "K-tables"
	r, p := cx.r, cx.p
	initSite := p.Pos(cx.gMerge.Pos())

	writes, _ := cx.rowWritesCached()
	writtenSep := map[string]map[string]bool{}
	for _, w := range writes {
		if w.op != "Set" {
			continue
		}
		if writtenSep[w.kind.typ] == nil {
			writtenSep[w.kind.typ] = map[string]bool{}
		}
		writtenSep[w.kind.typ][w.kind.sep] = true
	}

	// (1) S ⊆ M(non-nil), and the prefix is spelt as the writer spells the rows
	for _, s := range cx.slurp {
		construct := "pkg/index.slurpPrefixes#" + s.String()
		fn, inM := cx.mergeFn[s.typ]
		seps := writtenSep[s.typ]
		switch {
		case !inM || fn == "":
			r.Violation(rule, construct, p.Pos(cx.gSlurp.Pos()), fmt.Sprintf("row kind %q is scanned at load and merged live (slurpedKeyType) but corpusMergeFunc has no non-nil merge function for it: scanPrefix/addBlob would call a nil function", s.typ))
		case len(seps) == 0:
			r.Violation(rule, construct, p.Pos(cx.gSlurp.Pos()), fmt.Sprintf("no writer of row kind %q found in the indexer: the load prefix %q matches nothing the indexer writes", s.typ, s.String()))
		case !seps[s.sep] || len(seps) > 1:
			r.Violation(rule, construct, p.Pos(cx.gSlurp.Pos()), fmt.Sprintf("load prefix %q does not match how the indexer spells rows of kind %q (separators written: %v): a restart would scan no/only some of the rows the live corpus merged", s.String(), s.typ, c06Keys(seps)))
		default:
			r.OKTable(rule, construct, p.Pos(cx.gSlurp.Pos()), fmt.Sprintf("merge function %s; rows written with the same separator %q", fn, s.sep))
		}
	}
	// (2) M(non-nil) ⊆ S
	for _, k := range cx.mergeKeys {
		if cx.mergeFn[k] == "" {
			continue
		}
		_, inS := cx.slurpSet[k]
		r.Check(inS, rule, "pkg/index.corpusMergeFunc#"+k, initSite,
			"kind is also in slurpPrefixes (merged live and scanned at load)",
			fmt.Sprintf("corpusMergeFunc has a merge function for %q but slurpPrefixes does not scan that kind: the function is never run (neither at load nor live, which is gated by slurpedKeyType), the corpus silently lacks state the table says it keeps", k))
	}
	// (3) W ⊆ keys(M) ∪ N
	type fk struct{ fn, kind string }
	seen := map[fk]bool{}
	for _, w := range writes {
		key := fk{FuncKey(w.fn), w.kind.typ}
		if seen[key] {
			continue
		}
		seen[key] = true
		construct := key.fn + "#row:" + w.kind.typ
		if _, inM := cx.mergeFn[w.kind.typ]; inM {
			r.OKTable(rule, construct, p.Pos(w.pos), "row kind is classified by corpusMergeFunc")
			continue
		}
		if why, ok := c06IndexOnly[w.kind.typ]; ok {
			r.OKTable(rule, construct, p.Pos(w.pos), "index-only row kind: "+why)
			continue
		}
		r.Violation(rule, construct, p.Pos(w.pos), fmt.Sprintf("row kind %q is written by the indexer but is neither a key of corpusMergeFunc nor in the reasoned index-only table: nobody decided whether the corpus must merge it live and scan it at load", w.kind.typ))
	}

	c06ScanSet(cx)
	c06LiveGate(cx)
	c06SlurpedBuild(cx)
	c06ScanDispatch(cx)
	r.Analysed("row_write_sites", len(writes))
	r.Floor(rule, 45)
}

func c06Keys(m map[string]bool) []string {
	var out []string
	for k := range m {
		out = append(out, k)
	}
	sort.Strings(out)
	return out
}

// isLoadOfGlobal: v is (a slice of / element of) a load of global g.
func c06LoadsGlobal(v ssa.Value, g *ssa.Global) bool {
	return DependsOn(v, func(x ssa.Value) bool {
		u, ok := x.(*ssa.UnOp)
		return ok && u.Op == token.MUL && u.X == ssa.Value(g)
	})
}

// c06ScanSet: scanFromStorage must scan exactly slurpPrefixes: explicit constant
// prefixes == slurpPrefixes[:k] and one scan ranged over slurpPrefixes[k:].
func c06ScanSet(cx *c06Ctx) {
	const rule = "K-tables"
	p, r := cx.p, cx.r
	fn := p.Func(c06Rel, "Corpus", "scanFromStorage")
	scanPrefix := p.Func(c06Rel, "Corpus", "scanPrefix")
	construct := FuncKey(fn) + "#prefixes"
	var explicit []string
	low := int64(-1)
	bad := ""
	n := 0
	for _, c := range CallsIn(fn, true) {
		if c.Callee() != scanPrefix {
			continue
		}
		n++
		arg := c.Args()[len(c.Args())-1]
		if pfx, complete := cx.keyPrefix(arg, 0); complete {
			explicit = append(explicit, pfx)
			continue
		}
		// ranged: the prefix value depends on a Slice of a load of slurpPrefixes
		found := false
		DependsOn(arg, func(x ssa.Value) bool {
			if sl, ok := x.(*ssa.Slice); ok && c06LoadsGlobal(sl.X, cx.gSlurp) {
				found = true
				lo := int64(0)
				if sl.Low != nil {
					v, ok := ConstInt(sl.Low)
					if !ok {
						bad = "non-constant lower bound of the slurpPrefixes slice"
					}
					lo = v
				}
				if sl.High != nil {
					bad = "the ranged part of slurpPrefixes has an upper bound"
				}
				if low >= 0 && low != lo {
					bad = "two different ranged scans of slurpPrefixes"
				}
				low = lo
				return true
			}
			return false
		})
		if !found {
			if c06LoadsGlobal(arg, cx.gSlurp) {
				if low > 0 {
					bad = "two different ranged scans of slurpPrefixes"
				}
				low = 0
				continue
			}
			bad = "a scanPrefix call whose prefix is neither a static string nor an element of slurpPrefixes"
		}
	}
	if n == 0 {
		bad = "scanFromStorage no longer calls scanPrefix"
	}
	if bad == "" {
		if low < 0 {
			low = int64(len(explicit))
			if len(explicit) != len(cx.slurp) {
				bad = fmt.Sprintf("only the explicit prefixes %q are scanned, slurpPrefixes has %d entries", explicit, len(cx.slurp))
			}
		}
	}
	if bad == "" {
		if int(low) > len(cx.slurp) || int(low) != len(explicit) {
			bad = fmt.Sprintf("the scan loop starts at slurpPrefixes[%d:] but %d prefixes are scanned explicitly before it: an entry is scanned twice or not at all", low, len(explicit))
		} else {
			got := map[string]bool{}
			for _, e := range explicit {
				got[e] = true
			}
			for _, s := range cx.slurp[:low] {
				if !got[s.String()] {
					bad = fmt.Sprintf("slurpPrefixes[:%d] contains %q which is not among the explicitly scanned prefixes %q: that kind is merged live (slurpedKeyType) but never loaded at restart", low, s.String(), explicit)
				}
			}
		}
	}
	r.Check(bad == "", rule, construct, p.Pos(fn.Pos()),
		fmt.Sprintf("explicit scans %q == slurpPrefixes[:%d]; the rest is scanned by ranging over slurpPrefixes[%d:]", explicit, low, low), bad)
}

// c06LiveGate: the live merge in addBlob.
func c06LiveGate(cx *c06Ctx) {
	const rule = "K-tables"
	p, r := cx.p, cx.r
	fn := p.Func(c06Rel, "Corpus", "addBlob")
	construct := FuncKey(fn) + "#merge"
	n := 0
	for _, c := range CallsIn(fn, false) {
		call := c.Value()
		if call == nil || c.Common().IsInvoke() || c.Callee() != nil {
			continue
		}
		if _, isBuiltin := c.Common().Value.(*ssa.Builtin); isBuiltin {
			continue
		}
		// dynamic call: must be corpusMergeFunc[kt]
		fv := originValue(c.Common().Value)
		lk, ok := fv.(*ssa.Lookup)
		if !ok || !c06LoadsGlobal(lk.X, cx.gMerge) {
			continue
		}
		n++
		bad := ""
		// kt = typeOfKey(k), k ranged from mm.kv
		ktCall, ok := originValue(lk.Index).(*ssa.Call)
		if !ok || (CallSite{fn, ktCall}).Callee() != cx.fnTypeOfKey {
			bad = "the merge function is not looked up by typeOfKey(k)"
		}
		var kVal ssa.Value
		if bad == "" {
			kVal = ktCall.Call.Args[0]
			m, idx, isRange := c06RangeMapOf(originValue(kVal))
			if !isRange || idx != 1 || !cx.isMMKV(m) {
				bad = "the key whose kind selects the merge function does not come from ranging over mm.kv"
			}
		}
		if bad == "" {
			args := c.Args()
			if len(args) != 3 {
				bad = "unexpected merge call shape"
			} else {
				ka, va := c06Unconvert(args[1]), c06Unconvert(args[2])
				mk, ik, okk := c06RangeMapOf(originValue(ka))
				mv, iv, okv := c06RangeMapOf(originValue(va))
				if !okk || !okv || ik != 1 || iv != 2 || originValue(ka) != originValue(kVal) || mk != mv {
					bad = "the merge function is not given the same (k, v) pair of mm.kv whose kind selected it: the corpus would merge something other than the committed row"
				}
			}
		}
		if bad == "" {
			// gate: slurpedKeyType[kt] true, or fn != nil
			gated := false
			for _, f := range FactsAt(c.Block()) {
				cond, val := f.Cond, f.Val
				for {
					if u, ok := cond.(*ssa.UnOp); ok && u.Op == token.NOT {
						cond, val = u.X, !val
						continue
					}
					break
				}
				if g, ok := originValue(cond).(*ssa.Lookup); ok && val && c06LoadsGlobal(g.X, cx.gSlurped) && originValue(g.Index) == ssa.Value(ktCall) {
					gated = true
				}
				if ex, ok := cond.(*ssa.Extract); ok && val && ex.Index == 1 {
					if g, ok := ex.Tuple.(*ssa.Lookup); ok && g.CommaOk && c06LoadsGlobal(g.X, cx.gSlurped) && originValue(g.Index) == ssa.Value(ktCall) {
						gated = true
					}
				}
			}
			if k, isNil := NilFact(c.Block(), fv); k && !isNil {
				gated = true // fn != nil: equals the load set because K-tables (1)+(2) make S == non-nil M
			}
			if !gated {
				bad = "the live merge is not gated by slurpedKeyType[kind] (nor by a non-nil merge function): kinds the restart never scans would be merged live, or a nil function called"
			}
		}
		r.Check(bad == "", rule, construct, p.Pos(c.Pos()),
			"live merge = corpusMergeFunc[typeOfKey(k)](c, k, v) for (k, v) ranged from mm.kv, gated to the load set", bad)
	}
	if n == 0 {
		r.Violation(rule, construct, p.Pos(fn.Pos()), "addBlob no longer dispatches the rows of mm.kv through corpusMergeFunc: the live corpus and the load path (scanPrefix) use different merge code")
	}
}

// c06GuardKey renders the nearest branch condition that selects block b, without positions.
func c06GuardKey(b *ssa.BasicBlock) string {
	for _, f := range FactsAt(b) {
		if ex, ok := f.Cond.(*ssa.Extract); ok {
			if lk, ok := ex.Tuple.(*ssa.Lookup); ok && lk.CommaOk {
				if pth := AccessPath(lk.X); !strings.HasPrefix(pth, "?") {
					return pth + "[]"
				}
			}
		}
		if k := CondKey(f.Cond); k != "" {
			return strings.ReplaceAll(k, " ", "")
		}
		break
	}
	return "other"
}

func c06Unconvert(v ssa.Value) ssa.Value {
	for {
		switch x := v.(type) {
		case *ssa.Convert:
			v = x.X
		case *ssa.ChangeType:
			v = x.X
		default:
			return v
		}
	}
}

// c06SlurpedBuild: slurpedKeyType[typeOfKey(prefix)] = true for prefix ranged over slurpPrefixes, nothing else.
func c06SlurpedBuild(cx *c06Ctx) {
	const rule = "K-tables"
	p, r := cx.p, cx.r
	n := 0
	for _, fn := range cx.fns {
		for _, b := range fn.Blocks {
			for _, in := range b.Instrs {
				switch x := in.(type) {
				case *ssa.Store:
					if x.Addr == ssa.Value(cx.gSlurped) {
						_, isMake := x.Val.(*ssa.MakeMap)
						r.Check(isMake && fn == cx.initFn, rule, FuncKey(fn)+"#slurpedKeyType", p.Pos(x.Pos()),
							"initialised empty in the package initializer", "slurpedKeyType is re-assigned outside its initializer: the live merge gate no longer mirrors slurpPrefixes")
					}
				case *ssa.MapUpdate:
					if !c06LoadsGlobal(x.Map, cx.gSlurped) {
						continue
					}
					n++
					bad := ""
					kc, ok := originValue(x.Key).(*ssa.Call)
					if !ok || (CallSite{fn, kc}).Callee() != cx.fnTypeOfKey || !c06LoadsGlobal(kc.Call.Args[0], cx.gSlurp) {
						bad = "slurpedKeyType gets a key that is not typeOfKey(prefix) of an element of slurpPrefixes"
					} else if c, ok := x.Value.(*ssa.Const); !ok || c.Value == nil || c.Value.String() != "true" {
						bad = "slurpedKeyType gets a value other than true"
					} else {
						// every element: the range must be over the whole slice
						DependsOn(kc.Call.Args[0], func(v ssa.Value) bool {
							if sl, ok := v.(*ssa.Slice); ok && c06LoadsGlobal(sl.X, cx.gSlurp) {
								bad = "slurpedKeyType is built from a sub-slice of slurpPrefixes"
							}
							return false
						})
						for _, f := range FactsAt(x.Block()) {
							if c06IsLoopCond(f.Cond) {
								continue
							}
							bad = "the slurpedKeyType entry is added conditionally: some slurped kinds would be loaded at restart but skipped live"
						}
					}
					r.Check(bad == "", rule, FuncKey(fn)+"#slurpedKeyType", p.Pos(x.Pos()),
						"slurpedKeyType[typeOfKey(prefix)] = true for every prefix of slurpPrefixes", bad)
				}
			}
		}
	}
	if n == 0 {
		r.Violation(rule, "pkg/index.slurpedKeyType#build", p.Pos(cx.gSlurped.Pos()), "slurpedKeyType is never filled: the live corpus merges nothing while a restart loads every slurped kind")
	}
}

// c06IsLoopCond: the controlling condition of a range loop (`i < len(s)` or the ok of a map/string Next).
func c06IsLoopCond(cond ssa.Value) bool {
	if ex, ok := cond.(*ssa.Extract); ok {
		_, isNext := ex.Tuple.(*ssa.Next)
		return isNext
	}
	if bo, ok := cond.(*ssa.BinOp); ok {
		return c06IsLenOf(bo.X) || c06IsLenOf(bo.Y)
	}
	return false
}

func c06IsLenOf(v ssa.Value) bool {
	c, ok := v.(*ssa.Call)
	if !ok {
		return false
	}
	bi, ok := c.Call.Value.(*ssa.Builtin)
	return ok && bi.Name() == "len"
}

// c06ScanDispatch: scanPrefix runs corpusMergeFunc[typeOfKey(prefix)] on the iterator's key/value bytes.
func c06ScanDispatch(cx *c06Ctx) {
	const rule = "K-tables"
	p, r := cx.p, cx.r
	fn := p.Func(c06Rel, "Corpus", "scanPrefix")
	construct := FuncKey(fn) + "#merge"
	prefixParam := fn.Params[len(fn.Params)-1]
	n := 0
	for _, c := range CallsIn(fn, false) {
		if c.Value() == nil || c.Common().IsInvoke() || c.Callee() != nil {
			continue
		}
		fv := originValue(c.Common().Value)
		src := fv
		if ex, ok := fv.(*ssa.Extract); ok {
			src = ex.Tuple
		}
		lk, ok := src.(*ssa.Lookup)
		if !ok || !c06LoadsGlobal(lk.X, cx.gMerge) {
			continue
		}
		n++
		bad := ""
		kc, ok := originValue(lk.Index).(*ssa.Call)
		if !ok || (CallSite{fn, kc}).Callee() != cx.fnTypeOfKey || originValue(kc.Call.Args[0]) != ssa.Value(prefixParam) {
			bad = "the load-time merge function is not corpusMergeFunc[typeOfKey(prefix)] of the scanned prefix"
		}
		if bad == "" {
			args := c.Args()
			isIter := func(v ssa.Value, m string) bool {
				call, ok := originValue(v).(*ssa.Call)
				if !ok {
					return false
				}
				cs := CallSite{fn, call}
				return cs.Common().IsInvoke() && cs.MethodName() == m && IsNamed(cs.RecvType(), "perkeep.org/pkg/sorted", "Iterator")
			}
			if len(args) != 3 || !isIter(args[1], "KeyBytes") && !isIter(args[1], "Key") || !isIter(args[2], "ValueBytes") && !isIter(args[2], "Value") {
				bad = "the load-time merge is not given the iterator's key and value"
			}
		}
		r.Check(bad == "", rule, construct, p.Pos(c.Pos()), "load merge = corpusMergeFunc[typeOfKey(prefix)](c, it.KeyBytes(), it.ValueBytes())", bad)
	}
	if n == 0 {
		r.Violation(rule, construct, p.Pos(fn.Pos()), "scanPrefix no longer dispatches rows through corpusMergeFunc: load and live merge use different code")
	}
}

// ---------------------------------------------------------------------------
// K-owner

// c06NeedsWriters: who may write Index.needs / neededBy / readyReindex.
var c06NeedsWriters = map[string]string{
	"pkg/index.New": "constructor: empty maps on the freshly allocated Index (re-checked: the object is allocated in New)",
	"pkg/index.(*Index).noteNeededMemoryLocked": "the only adder (re-checked: called from the 'missing' row loader, or after the matching 'missing' row was written successfully)",
	"pkg/index.(*Index).noteBlobIndexedLocked":  "a dependency arrived: moves the waiters to readyReindex and drops the edge (rows follow in removeAllMissingEdges when the waiter is re-indexed)",
	"pkg/index.(*Index).indexReadyBlobs":        "re-queues blobs whose out-of-order indexing failed, under the index lock",
	"pkg/index.(*Index).indexReadyBlobs$1":      "pops one entry of the ready queue under the index lock",
}

// c06StoreSwapExceptions: functions that may replace Index.s on a live Index.
var c06StoreSwapExceptions = map[string]string{
	"pkg/index.(*Index).PreventStorageAccessForTesting": "test hook: installs a store whose Get/Find panic, so that search tests prove the corpus alone answers; nothing can be read from the swapped store",
}

// c06CorpusScratch: Corpus fields that carry no query-visible state.
var c06CorpusScratch = map[string]string{
	"strs":      "string interning cache",
	"brOfStr":   "blob.Ref parse cache used while loading",
	"brInterns": "statistics counter",
	"ss":        "scratch slice",
}

// queriesKind: fn (not deep) opens an iterator over rows of key type g via queryPrefix.
func (cx *c06Ctx) queriesKind(fn *ssa.Function, g *ssa.Global) []CallSite {
	var out []CallSite
	for _, c := range CallsIn(fn, false) {
		f := c.Callee()
		if f == nil || f.Pkg != cx.pkg || f.Name() != "queryPrefix" {
			continue
		}
		for _, a := range c.Args() {
			if kg, ok := cx.keyGlobalOf(a); ok && kg == g {
				out = append(out, c)
			}
		}
	}
	return out
}

// afterWipe: w stores a freshly constructed empty cache and is dominated by a
// successful sorted.Wiper.Wipe() in the same function.
func (cx *c06Ctx) afterWipe(fn *ssa.Function, w c06Write, ctors map[*ssa.Function]bool) bool {
	st, ok := w.in.(*ssa.Store)
	if !ok {
		return false
	}
	call, ok := originValue(st.Val).(*ssa.Call)
	if !ok || !ctors[(CallSite{fn, call}).Callee()] {
		return false
	}
	for _, c := range CallsIn(fn, false) {
		cc := c.Common()
		if cc.IsInvoke() && cc.Method.Name() == "Wipe" && IsNamed(c.RecvType(), "perkeep.org/pkg/sorted", "Wiper") && c.Value() != nil {
			if ok, _ := SuccessDominates(c.Value(), w.in); ok {
				return true
			}
		}
	}
	return false
}

func c06LastInstr(b *ssa.BasicBlock) ssa.Instruction { return b.Instrs[len(b.Instrs)-1] }

func c06RuleOwner(cx *c06Ctx) {
	const rule = "K-owner"
	p, r := cx.p, cx.r
	gDeleted := c06Global(cx.pkg, "keyDeleted")
	gMissing := c06Global(cx.pkg, "keyMissing")
	if _, ok := cx.keyName[gDeleted]; !ok {
		brokenf("anchor unresolved: keyDeleted is not a keyType with a constant name")
	}
	ws := c06Writes(cx.fns, map[*types.Named]bool{cx.tIndex: true, cx.tDelCache: true, cx.tCorpus: true, cx.tMM: true})

	// ---- A. Index.deletes and deletionCache.m
	type grp struct {
		assigns, mapw []c06Write
	}
	groups := map[*ssa.Function]*grp{}
	var order []*ssa.Function
	get := func(fn *ssa.Function) *grp {
		if groups[fn] == nil {
			groups[fn] = &grp{}
			order = append(order, fn)
		}
		return groups[fn]
	}
	for _, w := range ws {
		switch {
		case w.typ == cx.tIndex && w.field == "deletes":
			g := get(w.fn)
			g.assigns = append(g.assigns, w)
		case w.typ == cx.tDelCache && w.field == "m":
			g := get(w.fn)
			g.mapw = append(g.mapw, w)
		}
	}
	loaders := map[*ssa.Function]bool{}
	for _, fn := range order {
		if len(cx.queriesKind(fn, gDeleted)) > 0 {
			loaders[fn] = true
		}
	}
	// constructors of the cache object itself (newDeletionCache): write only a fresh deletionCache
	ctors := map[*ssa.Function]bool{}
	for _, fn := range order {
		g := groups[fn]
		if len(g.assigns) > 0 || len(g.mapw) == 0 {
			continue
		}
		fresh := true
		for _, w := range g.mapw {
			if !c06Fresh(w.base, fn) || w.kind != "assign" {
				fresh = false
			}
		}
		if fresh {
			ctors[fn] = true
		}
	}
	nA := 0
	for _, fn := range order {
		g := groups[fn]
		nA++
		construct := FuncKey(fn) + "#deletes"
		site := p.Pos(fn.Pos())
		allFresh := true
		for _, w := range append(append([]c06Write{}, g.assigns...), g.mapw...) {
			if !c06Fresh(w.base, fn) {
				allFresh = false
			}
			if w.kind == "addr-escape" {
				allFresh = false
			}
		}
		switch {
		case allFresh:
			// constructor role: must not wipe what a loader called earlier in the same function filled
			bad := ""
			for _, c := range CallsIn(fn, false) {
				if f := c.Callee(); f != nil && loaders[f] {
					after := ReachableFrom(c.Instr, nil)
					for _, w := range g.assigns {
						if after[w.in] {
							bad = fmt.Sprintf("the deletes cache is re-assigned after %s loaded it from the 'deleted' rows", FuncKey(f))
						}
					}
				}
			}
			r.Check(bad == "", rule, construct, site, "constructor: writes only the object it allocates, never after a loader ran", bad)
		case loaders[fn]:
			bad := ""
			qs := cx.queriesKind(fn, gDeleted)
			for _, w := range g.assigns {
				for _, q := range qs {
					if !Precedes(w.in, q.Instr) {
						bad = "the loader re-assigns x.deletes after (or beside) opening the 'deleted' row iterator: loaded entries can be dropped"
					}
				}
			}
			for _, w := range g.mapw {
				if w.kind != "map-update" {
					bad = "the loader removes entries from the deletes cache"
				}
			}
			r.Check(bad == "", rule, construct, site, "loader: resets the cache before reading the 'deleted' rows, then only adds", bad)
		case len(g.assigns) == 0:
			// live updater: every caller after a successful CommitBatch, with a claim from mm.deletes
			bad := ""
			callers := p.StaticCallers(fn)
			if len(callers) == 0 {
				bad = "no static caller found for this writer of the deletes cache"
			}
			if uses := p.FuncValueUses(fn); len(uses) > 0 {
				bad = "used as a function value: callers cannot be enumerated"
			}
			for _, w := range g.mapw {
				if w.kind != "map-update" {
					bad = "removes entries from the deletes cache; the restart path only ever adds what the rows say"
				}
			}
			for _, c := range callers {
				okCommit := false
				for _, cb := range CallsIn(c.Fn, false) {
					if c06IsKVInvoke(cb, "CommitBatch") && cb.Value() != nil {
						if ok, _ := SuccessDominates(cb.Value(), c.Instr); ok {
							okCommit = true
						}
					}
				}
				if !okCommit {
					bad = fmt.Sprintf("called from %s where no successful CommitBatch dominates the call: the cache would hold deletions whose rows were not persisted", FuncKey(c.Fn))
					continue
				}
				fromMM := false
				for _, a := range c.Args()[1:] {
					if DependsOn(a, func(v ssa.Value) bool {
						n, f, _, ok := c06LoadedField(v)
						return ok && n == cx.tMM && f == "deletes"
					}) {
						fromMM = true
					}
				}
				if !fromMM {
					bad = fmt.Sprintf("called from %s with a claim that is not taken from mm.deletes (the claims whose 'deleted' rows were just committed)", FuncKey(c.Fn))
				}
			}
			r.Check(bad == "", rule, construct, site, "live updater: only adds, every call after a successful CommitBatch with a claim of mm.deletes", bad)
		default:
			// last acceptable role: an empty cache installed right after the rows were wiped
			bad := ""
			var badPos token.Pos
			for _, w := range g.assigns {
				if !cx.afterWipe(fn, w, ctors) {
					bad = "assigns Index.deletes on an existing Index without being the loader of the 'deleted' rows (and not right after a successful Wipe of the rows): a cache that New loaded from the rows is replaced (after a restart IsDeleted forgets every deletion)"
					badPos = w.in.Pos()
				}
			}
			if bad == "" && len(g.mapw) > 0 {
				bad = "both re-assigns and mutates the deletes cache without being its loader"
				badPos = g.mapw[0].in.Pos()
			}
			if bad != "" {
				r.Violation(rule, construct, p.Pos(badPos), bad)
			} else {
				r.OK(rule, construct, site, "installs an empty cache only after the rows were wiped successfully")
			}
		}
	}

	// ---- A'. New: success returns have both caches loaded (or the reindex branch)
	newFn := p.Func(c06Rel, "", "New")
	gReindex := c06Global(cx.pkg, "aboutToReindex")
	needsLoaders := map[*ssa.Function]bool{}
	for _, fn := range cx.fns {
		if len(cx.queriesKind(fn, gMissing)) > 0 && fn.Parent() == nil {
			for _, w := range ws {
				_ = w
			}
			needsLoaders[fn] = true
		}
	}
	adder := p.Func(c06Rel, "Index", "noteNeededMemoryLocked")
	for fn := range needsLoaders {
		calls := false
		for _, c := range CallsIn(fn, true) {
			if c.Callee() == adder {
				calls = true
			}
		}
		if !calls {
			delete(needsLoaders, fn)
		}
	}
	for _, nr := range MaybeNilErrorReturns(newFn) {
		nA++
		site := c06LastInstr(nr.From)
		construct := FuncKey(newFn) + "#open-loads-caches"
		domBy := func(set map[*ssa.Function]bool) bool {
			for _, c := range CallsIn(newFn, false) {
				if f := c.Callee(); f != nil && set[f] && c.Value() != nil {
					if ok, _ := SuccessDominates(c.Value(), site); ok {
						return true
					}
				}
			}
			return false
		}
		if domBy(loaders) && domBy(needsLoaders) {
			r.OK(rule, construct, p.Pos(nr.Ret.Pos()), "success return dominated by successful loads of the 'deleted' rows and of the 'missing' rows")
			continue
		}
		reindex := false
		for _, f := range FactsAt(nr.From) {
			if u, ok := f.Cond.(*ssa.UnOp); ok && u.Op == token.MUL && u.X == ssa.Value(gReindex) && f.Val {
				reindex = true
			}
		}
		if nr.From != nr.Ret.Block() {
			reindex = false
		}
		freshCache := false
		if g := groups[newFn]; g != nil {
			for _, w := range g.assigns {
				if Precedes(w.in, site) || w.in.Block() == site.Block() {
					freshCache = true
				}
			}
		}
		if reindex {
			construct = FuncKey(newFn) + "#open-reindex-branch"
		}
		r.Check(reindex && freshCache, rule, construct, p.Pos(nr.Ret.Pos()),
			"about-to-reindex branch: the rows were wiped, an empty deletes cache is installed",
			"New can return successfully without having loaded the deletes cache and the needs maps from the rows (and not on the about-to-reindex branch): the opened index disagrees with its rows")
	}

	// ---- B. needs / neededBy / readyReindex
	nB := 0
	seenB := map[string]bool{}
	for _, w := range ws {
		if w.typ != cx.tIndex || !(w.field == "needs" || w.field == "neededBy" || w.field == "readyReindex") {
			continue
		}
		key := FuncKey(w.fn)
		construct := key + "#" + w.field
		if seenB[construct] {
			continue
		}
		seenB[construct] = true
		nB++
		why, ok := c06NeedsWriters[key]
		if !ok {
			r.Violation(rule, construct, p.Pos(w.in.Pos()), fmt.Sprintf("writes Index.%s but is not one of the functions that keep it in step with the 'missing' rows (%s)", w.field, strings.Join(c06SortedKeys(c06NeedsWriters), ", ")))
			continue
		}
		if key == "pkg/index.New" && !c06Fresh(w.base, w.fn) {
			r.Violation(rule, construct, p.Pos(w.in.Pos()), "New writes the map of an Index it did not allocate")
			continue
		}
		r.OKTable(rule, construct, p.Pos(w.in.Pos()), why)
	}
	// the adder's callers
	for _, c := range p.StaticCallers(adder) {
		nB++
		construct := FuncKey(c.Fn) + "#noteNeededMemoryLocked"
		if needsLoaders[TopFunc(c.Fn)] {
			r.OK(rule, construct, p.Pos(c.Pos()), "called while iterating the 'missing' rows (loader)")
			continue
		}
		okRow := false
		detail := "no successful write of the matching 'missing' row dominates the in-memory update: after a restart the dependency is forgotten (or remembered only in memory)"
		for _, s := range CallsIn(c.Fn, false) {
			if !c06IsKVInvoke(s, "Set") || s.Value() == nil {
				continue
			}
			kc, ok := originValue(s.Args()[1]).(*ssa.Call)
			if !ok {
				continue
			}
			kcs := CallSite{c.Fn, kc}
			if g, ok := cx.keyGlobalOf(kcs.Args()[0]); !ok || g != gMissing || kcs.Callee() == nil || kcs.Callee().Name() != "Key" {
				continue
			}
			if ok, _ := SuccessDominates(s.Value(), c.Instr); !ok {
				continue
			}
			parts := c06VarargElems(kc.Call.Args[len(kc.Call.Args)-1])
			args := c.Args()
			if len(parts) == 2 && len(args) == 3 && sameOrigin(parts[0], args[1]) && sameOrigin(parts[1], args[2]) {
				okRow = true
			} else {
				detail = "the 'missing' row written before the in-memory update is not keyed by the same (have, missing) pair"
			}
		}
		r.Check(okRow, rule, construct, p.Pos(c.Pos()), "in-memory edge added only after the same 'missing|have|missing' row was written successfully", detail)
	}
	if uses := p.FuncValueUses(adder); len(uses) > 0 {
		r.Undecided(rule, FuncKey(adder)+"#value", p.Pos(uses[0].Pos()), "noteNeededMemoryLocked is used as a function value")
	}

	// ---- C. Corpus fields
	nC := c06CorpusOwner(cx, ws)

	// ---- C'. Corpus.deletes has the same three roles as the index cache
	scanFn := p.Func(c06Rel, "Corpus", "scanFromStorage")
	corpusLoaders := map[*ssa.Function]bool{}
	seenCD := map[*ssa.Function]bool{}
	for _, w := range ws {
		if w.typ != cx.tCorpus || w.field != "deletes" || seenCD[w.fn] {
			continue
		}
		seenCD[w.fn] = true
		fn := w.fn
		construct := FuncKey(fn) + "#corpus.deletes"
		if c06Fresh(w.base, fn) {
			continue // constructor, reported under #corpus
		}
		nC++
		if len(cx.queriesKind(fn, gDeleted)) > 0 {
			corpusLoaders[fn] = true
			r.OK(rule, construct, p.Pos(fn.Pos()), "loader: fills Corpus.deletes from the 'deleted' rows")
			continue
		}
		bad := ""
		callers := p.StaticCallers(fn)
		if len(callers) == 0 || len(p.FuncValueUses(fn)) > 0 {
			bad = "callers of this writer of Corpus.deletes cannot be enumerated"
		}
		for _, c := range callers {
			fromMM := false
			for _, a := range c.Args()[1:] {
				if DependsOn(a, func(v ssa.Value) bool {
					n, f, _, ok := c06LoadedField(v)
					return ok && n == cx.tMM && f == "deletes"
				}) {
					fromMM = true
				}
			}
			if !fromMM {
				bad = fmt.Sprintf("called from %s with a claim that is not taken from mm.deletes (the claims whose 'deleted' rows were committed)", FuncKey(c.Fn))
			}
		}
		r.Check(bad == "", rule, construct, p.Pos(fn.Pos()), "live updater: every caller passes a claim of mm.deletes", bad)
	}
	{
		nC++
		bad := ""
		for _, nr := range MaybeNilErrorReturns(scanFn) {
			dom := false
			for _, c := range CallsIn(scanFn, false) {
				if f := c.Callee(); f != nil && corpusLoaders[f] && c.Value() != nil {
					if ok, _ := SuccessDominates(c.Value(), c06LastInstr(nr.From)); ok {
						dom = true
					}
					if ev, _, _ := ErrValue(c.Value()); ev != nil && sameOrigin(nr.Val, ev) {
						dom = true
					}
				}
			}
			if !dom {
				bad = fmt.Sprintf("scanFromStorage can return nil (line %d) without having loaded Corpus.deletes from the 'deleted' rows: a restarted corpus forgets every deletion the live corpus knows", p.Fset.Position(nr.Ret.Pos()).Line)
			}
		}
		r.Check(bad == "", rule, FuncKey(scanFn)+"#loads-deletes", p.Pos(scanFn.Pos()), "every success return of the corpus load is dominated by a successful load of the 'deleted' rows", bad)
	}

	// ---- C''. Index.corpus and Index.s: the corpus is built from this index's own rows, the store is never swapped
	newCorpusFrom := p.Func(c06Rel, "", "NewCorpusFromStorage")
	for _, w := range ws {
		if w.typ != cx.tIndex || !(w.field == "corpus" || w.field == "s") {
			continue
		}
		nC++
		construct := FuncKey(w.fn) + "#Index." + w.field
		site := p.Pos(w.in.Pos())
		if c06Fresh(w.base, w.fn) {
			r.OK(rule, construct, site, "constructor: field of the Index allocated here")
			continue
		}
		if w.field == "s" {
			if why, ok := c06StoreSwapExceptions[FuncKey(w.fn)]; ok {
				r.OKTable(rule, construct, site, "exception: "+why)
			} else {
				r.Violation(rule, construct, site, "replaces the sorted.KeyValue of an existing Index: the deletes cache, needs maps and corpus were loaded from other rows than the ones now queried")
			}
			continue
		}
		bad := "Index.corpus is set to something other than NewCorpusFromStorage(x.s) of the same index: the corpus answers from rows that are not this index's rows"
		if st, ok := w.in.(*ssa.Store); ok {
			v := originValue(st.Val)
			if ex, isEx := v.(*ssa.Extract); isEx {
				v = ex.Tuple
			}
			if call, isCall := v.(*ssa.Call); isCall && (CallSite{w.fn, call}).Callee() == newCorpusFrom {
				if n2, f, base, ok := c06LoadedField(call.Call.Args[0]); ok && n2 == cx.tIndex && f == "s" && c06SamePlace(base, w.base) {
					bad = ""
				}
			}
		}
		r.Check(bad == "", rule, construct, site, "corpus built by NewCorpusFromStorage from this index's own store", bad)
	}

	// ---- D. mutationMap.deletes
	noteDelete := p.Func(c06Rel, "mutationMap", "noteDelete")
	nD := 0
	for _, w := range ws {
		if w.typ != cx.tMM || w.field != "deletes" {
			continue
		}
		nD++
		r.Check(w.fn == noteDelete || c06Fresh(w.base, w.fn), rule, FuncKey(w.fn)+"#mm.deletes", p.Pos(w.in.Pos()),
			"mutationMap.deletes is appended to only by noteDelete (whose call sites K-delete-row checks)",
			"mutationMap.deletes is written outside noteDelete: deletions reach the live caches without passing the row check of K-delete-row")
	}
	r.Analysed("owner_writer_functions", nA+nB+nC+nD)
	r.Floor(rule, 30)
}

func c06SortedKeys(m map[string]string) []string {
	var out []string
	for k := range m {
		out = append(out, k)
	}
	sort.Strings(out)
	return out
}

// c06VarargElems returns the elements stored into a variadic argument slice, by index.
func c06VarargElems(v ssa.Value) []ssa.Value {
	sl, ok := v.(*ssa.Slice)
	if !ok {
		return nil
	}
	al, ok := sl.X.(*ssa.Alloc)
	if !ok {
		return nil
	}
	m := map[int64]ssa.Value{}
	max := int64(-1)
	for _, ref := range *al.Referrers() {
		ia, ok := ref.(*ssa.IndexAddr)
		if !ok {
			continue
		}
		idx, ok := ConstInt(ia.Index)
		if !ok {
			return nil
		}
		for _, r2 := range *ia.Referrers() {
			if st, ok := r2.(*ssa.Store); ok && st.Addr == ssa.Value(ia) {
				m[idx] = st.Val
				if idx > max {
					max = idx
				}
			}
		}
	}
	out := make([]ssa.Value, max+1)
	for i := range out {
		out[i] = m[int64(i)]
		if out[i] == nil {
			return nil
		}
	}
	return out
}

// c06CorpusOwner: Corpus fields are written only by *Corpus methods (or the
// constructor), and those writers are reachable only from the load entry
// (scanFromStorage) or the live entry (addBlob).
func c06CorpusOwner(cx *c06Ctx, ws []c06Write) int {
	const rule = "K-owner"
	p, r := cx.p, cx.r
	loadEntry := p.Func(c06Rel, "Corpus", "scanFromStorage")
	liveEntry := p.Func(c06Rel, "Corpus", "addBlob")
	mutators := map[*ssa.Function][]string{}
	var order []*ssa.Function
	for _, w := range ws {
		if w.typ != cx.tCorpus {
			continue
		}
		if _, scratch := c06CorpusScratch[w.field]; scratch {
			continue
		}
		top := TopFunc(w.fn)
		if mutators[top] == nil {
			order = append(order, top)
		}
		if !c06Has(mutators[top], w.field) {
			mutators[top] = append(mutators[top], w.field)
		}
	}
	n := 0
	for _, fn := range order {
		n++
		construct := FuncKey(fn) + "#corpus"
		site := p.Pos(fn.Pos())
		fields := strings.Join(mutators[fn], ",")
		// receiver role
		isMethod := fn.Signature.Recv() != nil && NamedOf(fn.Signature.Recv().Type()) == cx.tCorpus
		if !isMethod {
			fresh := true
			for _, w := range ws {
				if w.typ == cx.tCorpus && TopFunc(w.fn) == fn && !c06Fresh(w.base, w.fn) {
					fresh = false
				}
			}
			if fresh {
				r.OK(rule, construct, site, "constructor: initialises the Corpus it allocates ("+fields+")")
			} else {
				r.Violation(rule, construct, site, "writes Corpus state ("+fields+") from outside a *Corpus method: the corpus is changed behind the load/live merge paths")
			}
			continue
		}
		// reachability: walk callers up to the two entries
		bad := ""
		seen := map[*ssa.Function]bool{}
		var up func(f *ssa.Function, chain string, depth int)
		up = func(f *ssa.Function, chain string, depth int) {
			if bad != "" || seen[f] {
				return
			}
			seen[f] = true
			if f == loadEntry || f == liveEntry {
				return
			}
			if depth > 12 {
				bad = "caller chain too deep to follow: " + chain
				return
			}
			viaTable := cx.mergeImpl[f]
			for _, u := range p.FuncValueUses(f) {
				if u.Parent() == cx.initFn || cx.mergeImpl[u.Parent()] {
					continue // corpusMergeFunc table entry / its thunk
				}
				bad = fmt.Sprintf("%s is used as a function value in %s: its callers cannot be enumerated", FuncKey(f), FuncKey(u.Parent()))
				return
			}
			callers := p.StaticCallers(f)
			if len(callers) == 0 && !viaTable {
				bad = fmt.Sprintf("reachable from %s, which is neither the load entry (scanFromStorage) nor the live entry (addBlob): %s", FuncKey(f), chain)
				return
			}
			for _, c := range callers {
				t := TopFunc(c.Fn)
				if cx.mergeImpl[t] && t.Synthetic != "" {
					continue // the method-expression thunk stored in corpusMergeFunc
				}
				up(t, chain+" <- "+FuncKey(t), depth+1)
			}
		}
		up(fn, FuncKey(fn), 0)
		r.Check(bad == "", rule, construct, site,
			"writes "+fields+"; reachable only from scanFromStorage (load) / addBlob (live), directly or through corpusMergeFunc", bad)
	}
	return n
}

func c06Has(s []string, x string) bool {
	for _, e := range s {
		if e == x {
			return true
		}
	}
	return false
}

// ---------------------------------------------------------------------------
// K-delete-row

func c06SamePlace(a, b ssa.Value) bool {
	if sameOrigin(a, b) {
		return true
	}
	pa, pb := AccessPath(a), AccessPath(b)
	return pa == pb && !strings.HasPrefix(pa, "?")
}

// c06MethodCallOn: v is (the result of) a call of method name whose receiver satisfies recv.
func c06MethodCallOn(v ssa.Value, name string, recv func(ssa.Value) bool) bool {
	call, ok := originValue(v).(*ssa.Call)
	if !ok {
		return false
	}
	c := CallSite{call.Parent(), call}
	if c.MethodName() != name || c.RecvType() == nil {
		return false
	}
	return recv(c.Args()[0])
}

func c06RuleDeleteRow(cx *c06Ctx) {
	const rule = "K-delete-row"
	p, r := cx.p, cx.r
	noteDelete := p.Func(c06Rel, "mutationMap", "noteDelete")
	setFn := p.Func(c06Rel, "mutationMap", "Set")
	gDeleted := c06Global(cx.pkg, "keyDeleted")
	delName := cx.keyName[gDeleted]

	isDeletedSet := func(c CallSite) bool {
		if c.Callee() != setFn || c.IsDefer() || c.IsGo() {
			return false
		}
		k, ok := cx.kindOfKey(c.Args()[1])
		return ok && k.typ == delName
	}
	// keyAgrees: the 'deleted' row put by s describes claim cl: parts are
	// cl.Target(), cl.ClaimDateString(), cl.Blob().BlobRef() — the order in which
	// kvDeleted (load) reads target/date/deleter and in which the live updaters
	// take them from the claim.
	keyAgrees := func(s CallSite, cl ssa.Value) (bool, string) {
		kc, ok := originValue(s.Args()[1]).(*ssa.Call)
		if !ok {
			return false, "the 'deleted' key is not built by keyDeleted.Key(...)"
		}
		if g, ok := cx.keyGlobalOf(kc.Call.Args[0]); !ok || g != gDeleted {
			return false, "the 'deleted' key is not built by keyDeleted.Key(...)"
		}
		parts := c06VarargElems(kc.Call.Args[len(kc.Call.Args)-1])
		if len(parts) != 3 {
			return false, "cannot read the three parts of the keyDeleted key"
		}
		onClaim := func(v ssa.Value) bool { return c06SamePlace(v, cl) }
		if !c06MethodCallOn(parts[0], "Target", onClaim) {
			return false, "part 1 of the 'deleted' row (the deleted entity, which a restart reads as the target) is not Target() of the claim handed to noteDelete: the restart path and the live caches record different deletions"
		}
		if !c06MethodCallOn(parts[1], "ClaimDateString", onClaim) {
			return false, "part 2 of the 'deleted' row (the date a restart reads) is not ClaimDateString() of the claim handed to noteDelete"
		}
		if !c06MethodCallOn(parts[2], "BlobRef", func(b ssa.Value) bool { return c06MethodCallOn(b, "Blob", onClaim) }) {
			return false, "part 3 of the 'deleted' row (the deleter a restart reads) is not Blob().BlobRef() of the claim handed to noteDelete"
		}
		return true, ""
	}
	// rowOnAllSuccess: every maybe-nil-error return of f is dominated by a 'deleted' Set on parameter index pi
	rowOnAllSuccess := func(f *ssa.Function, pi int) (bool, string) {
		if f.Blocks == nil || pi >= len(f.Params) {
			return false, "callee has no body"
		}
		var sets []CallSite
		for _, s := range CallsIn(f, false) {
			if isDeletedSet(s) && c06SamePlace(s.Args()[0], f.Params[pi]) {
				sets = append(sets, s)
			}
		}
		if len(sets) == 0 {
			return false, FuncKey(f) + " puts no 'deleted' row into the mutation map"
		}
		rets := MaybeNilErrorReturns(f)
		if ErrResultIndex(f) < 0 {
			for _, ri := range Returns(f) {
				rets = append(rets, NilReturn{Ret: ri.Ret, From: ri.Ret.Block()})
			}
		}
		for _, nr := range rets {
			dom := false
			for _, s := range sets {
				if Precedes(s.Instr, c06LastInstr(nr.From)) {
					dom = true
				}
			}
			if !dom {
				return false, fmt.Sprintf("%s can return successfully (line %d) without having put a 'deleted' row into the mutation map", FuncKey(f), p.Fset.Position(nr.Ret.Pos()).Line)
			}
		}
		return true, ""
	}

	n := 0
	for _, c := range p.StaticCallers(noteDelete) {
		n++
		construct := FuncKey(c.Fn) + "#noteDelete"
		site := p.Pos(c.Pos())
		mm, cl := c.Args()[0], c.Args()[1]
		decided := false
		for _, s := range CallsIn(c.Fn, false) {
			if !isDeletedSet(s) || !Precedes(s.Instr, c.Instr) || !c06SamePlace(s.Args()[0], mm) {
				continue
			}
			ok, why := keyAgrees(s, cl)
			r.Check(ok, rule, construct, site, "dominated by mm.Set(keyDeleted.Key(cl.Target(), cl.ClaimDateString(), cl.Blob().BlobRef())) on the same mutation map", why)
			decided = true
			break
		}
		if decided {
			continue
		}
		// bound-1 summary: a dominating, successful call that always writes the row
		why := "mm.noteDelete runs although no 'deleted' row was put into the same mutation map on this path: the live deletion caches (index and corpus) report a deletion that a restart, which reads only the rows, does not"
		for _, d := range CallsIn(c.Fn, false) {
			f := d.Callee()
			if f == nil || d.Value() == nil || f == setFn || !Precedes(d.Instr, c.Instr) {
				continue
			}
			pi := -1
			for i, a := range d.Args() {
				if c06SamePlace(a, mm) {
					pi = i
				}
			}
			if pi < 0 {
				continue
			}
			if ok, _ := SuccessDominates(d.Value(), c.Instr); !ok {
				continue
			}
			if ok, detail := rowOnAllSuccess(f, pi); ok {
				r.OK(rule, construct, site, "dominated by a successful call of "+FuncKey(f)+", every success return of which has put the 'deleted' row into the same mutation map")
				decided = true
				break
			} else if detail != "" {
				why = "mm.noteDelete runs after " + detail + ": the live deletion caches (index and corpus) then report a deletion that a restart, which reads only the rows, does not"
			}
		}
		if !decided {
			r.Violation(rule, construct, site, why)
		}
	}
	if uses := p.FuncValueUses(noteDelete); len(uses) > 0 {
		r.Undecided(rule, FuncKey(noteDelete)+"#value", p.Pos(uses[0].Pos()), "noteDelete is used as a function value")
	}
	// converse: a 'deleted' row in mm is always followed by noteDelete on the same mm
	for _, fn := range cx.fns {
		for _, s := range CallsIn(fn, false) {
			if !isDeletedSet(s) {
				continue
			}
			n++
			mm := s.Args()[0]
			leaks := LeakingExits(PathQuery{
				Start: s.Instr,
				Stop: func(in ssa.Instruction) bool {
					ci, ok := in.(ssa.CallInstruction)
					if !ok {
						return false
					}
					c := CallSite{fn, ci}
					return c.Callee() == noteDelete && !c.IsGo() && c06SamePlace(c.Args()[0], mm)
				},
				IgnorePanics: true,
			})
			detail := ""
			if len(leaks) > 0 {
				detail = fmt.Sprintf("a 'deleted' row is put into the mutation map but the exit at line %d is reached without mm.noteDelete: the row is committed while the live index/corpus deletion caches never learn of it (a restart does)", p.Fset.Position(leaks[0].Exit.Pos()).Line)
			}
			r.Check(len(leaks) == 0, rule, FuncKey(fn)+"#deleted-row", p.Pos(s.Pos()), "every path from the 'deleted' row to an exit passes mm.noteDelete on the same mutation map", detail)
		}
	}
	r.Analysed("delete_row_sites", n)
	r.Floor(rule, 2)
}

// ---------------------------------------------------------------------------
// K-live

// c06DirectExceptions: functions that write slurped row kinds straight to the
// store. One symbol, one reason; the reason is re-checked structurally.
var c06DirectExceptions = map[string]string{
	"pkg/index.(*Index).fixMissingWholeRef": "offline schema 4->5 upgrade of 'fileinfo' rows; runs on an Index whose New failed with errMissingWholeRef, and every caller re-opens the index with New afterwards (re-checked), so no live cache or corpus has seen the old rows",
}

func c06RuleLive(cx *c06Ctx) {
	const rule = "K-live"
	p, r := cx.p, cx.r
	commit := p.Func(c06Rel, "Index", "commit")
	addBlob := p.Func(c06Rel, "Corpus", "addBlob")
	n := 0

	// (a) callers of addBlob
	for _, c := range p.StaticCallers(addBlob) {
		n++
		construct := FuncKey(c.Fn) + "#addBlob"
		site := p.Pos(c.Pos())
		args := c.Args()
		mm := args[len(args)-1]
		bad := ""
		var commitCall *CallSite
		for _, cc := range CallsIn(c.Fn, false) {
			if cc.Callee() != commit || cc.Value() == nil {
				continue
			}
			if ok, _ := SuccessDominates(cc.Value(), c.Instr); ok && c06SamePlace(cc.Args()[1], mm) {
				cc := cc
				commitCall = &cc
			}
		}
		if commitCall == nil {
			bad = "corpus.addBlob is not dominated by a successful ix.commit of the same mutation map: the corpus merges rows that were not (or not yet, or not these) persisted"
		}
		if bad == "" {
			n2, f, base, ok := c06LoadedField(args[0])
			if !ok || n2 != cx.tIndex || f != "corpus" || !c06SamePlace(base, commitCall.Args()[0]) {
				bad = "the corpus updated is not the corpus field of the index whose rows were committed"
			}
		}
		if bad == "" {
			top := TopFunc(c.Fn)
			if top.Signature.Recv() == nil || len(top.Params) == 0 {
				bad = "caller is not a method: cannot name the index lock"
			} else {
				lock := "&" + top.Params[0].Name() + ".mu"
				li := AnalyzeLocks(top, LockSet{})
				if !li.Holds(c.Instr, lock, 'W') {
					bad = "corpus.addBlob runs without the index write lock " + lock + " (held: " + li.HeldAt(c.Instr).String() + "): readers under RLock can observe a half-merged corpus that no restart would produce"
				} else if !li.Holds(commitCall.Instr, lock, 'W') {
					bad = "ix.commit runs without the index write lock " + lock + ": rows and corpus are not updated atomically with respect to readers"
				}
			}
		}
		r.Check(bad == "", rule, construct, site, "same mutation map as the dominating successful commit, same index's corpus, under the index write lock", bad)
	}
	if uses := p.FuncValueUses(addBlob); len(uses) > 0 {
		r.Undecided(rule, FuncKey(addBlob)+"#value", p.Pos(uses[0].Pos()), "addBlob is used as a function value")
	}

	// (b) callers of commit: success paths reach addBlob unless the corpus is nil
	for _, cc := range p.StaticCallers(commit) {
		n++
		fn := cc.Fn
		construct := FuncKey(fn) + "#commit"
		nilOK := map[*ssa.Return]bool{}
		for _, nr := range MaybeNilErrorReturns(fn) {
			nilOK[nr.Ret] = true
		}
		mm := cc.Args()[1]
		leaks := LeakingExits(PathQuery{
			Start: cc.Instr,
			Stop: func(in ssa.Instruction) bool {
				ci, ok := in.(ssa.CallInstruction)
				if !ok {
					return false
				}
				c := CallSite{fn, ci}
				a := c.Args()
				return c.Callee() == addBlob && len(a) > 0 && c06SamePlace(a[len(a)-1], mm)
			},
			Assume: func(cond ssa.Value) (bool, bool) {
				bo, ok := cond.(*ssa.BinOp)
				if !ok || (bo.Op != token.NEQ && bo.Op != token.EQL) {
					return false, false
				}
				var other ssa.Value
				switch {
				case IsNilConst(bo.Y):
					other = bo.X
				case IsNilConst(bo.X):
					other = bo.Y
				default:
					return false, false
				}
				if n2, f, _, ok := c06LoadedField(other); ok && n2 == cx.tIndex && f == "corpus" {
					return true, bo.Op == token.NEQ // explore the corpus != nil side only
				}
				return false, false
			},
			ExitOK: func(exit ssa.Instruction) bool {
				ret, ok := exit.(*ssa.Return)
				return ok && !nilOK[ret]
			},
			IgnorePanics: true,
		})
		detail := ""
		if len(leaks) > 0 {
			detail = fmt.Sprintf("after ix.commit(mm) the success return at line %d is reachable with a non-nil corpus without corpus.addBlob(mm): committed rows that the live corpus never merges (a restart scans them)", p.Fset.Position(leaks[0].Exit.Pos()).Line)
		}
		r.Check(len(leaks) == 0, rule, construct, p.Pos(cc.Pos()), "every success path after commit passes corpus.addBlob with the same mutation map (corpus != nil)", detail)
	}
	if uses := p.FuncValueUses(commit); len(uses) > 0 {
		r.Undecided(rule, FuncKey(commit)+"#value", p.Pos(uses[0].Pos()), "commit is used as a function value")
	}

	// (c) inside commit: batch carries mm.kv, success only after CommitBatch
	{
		n++
		var cbs, begins []*ssa.Call
		for _, c := range CallsIn(commit, false) {
			if c06IsKVInvoke(c, "CommitBatch") && c.Value() != nil {
				cbs = append(cbs, c.Value())
			}
			if c06IsKVInvoke(c, "BeginBatch") && c.Value() != nil {
				begins = append(begins, c.Value())
			}
		}
		construct := FuncKey(commit) + "#batch"
		if len(cbs) == 0 || len(begins) != 1 {
			r.Violation(rule, construct, p.Pos(commit.Pos()), "commit no longer writes the mutation map through one BeginBatch and CommitBatch")
		} else {
			begin := begins[0]
			bad := ""
			for _, cb := range cbs {
				if !sameOrigin(cb.Call.Args[0], begin) {
					bad = "the batch committed is not the batch begun"
				}
			}
			_, conduits := cx.rowWritesCached()
			found := false
			for _, s := range conduits {
				if s.Fn != commit {
					continue
				}
				a := s.Args()
				km, ik, okk := c06RangeMapOf(originValue(a[1]))
				vm, iv, okv := c06RangeMapOf(originValue(a[2]))
				if !okk || !okv || ik != 1 || iv != 2 || km != vm {
					bad = "the batch does not receive the (k, v) pairs of mm.kv unchanged"
					continue
				}
				if n2, _, base, ok := c06LoadedField(km); !ok || n2 != cx.tMM || !c06SamePlace(base, commit.Params[1]) {
					bad = "the rows put into the batch are not those of the mutation map given to commit"
					continue
				}
				if !sameOrigin(a[0], begin) {
					bad = "the rows are put into a different batch than the one committed"
					continue
				}
				for _, cb := range cbs {
					if ReachableFrom(cb, nil)[s.Instr] {
						bad = "rows are added to the batch after it was committed"
					}
				}
				for _, f := range FactsAt(s.Block()) {
					if !c06IsLoopCond(f.Cond) {
						bad = "rows of mm.kv are put into the batch only conditionally, while corpus.addBlob merges all of them"
					}
				}
				found = true
			}
			if !found && bad == "" {
				bad = "commit does not put the rows of mm.kv into the batch"
			}
			r.Check(bad == "", rule, construct, p.Pos(cbs[0].Pos()), "every (k, v) of mm.kv is put unchanged into the batch that CommitBatch persists", bad)
			n++
			bad = ""
			for _, nr := range MaybeNilErrorReturns(commit) {
				ok := false
				why := ""
				for _, cb := range cbs {
					if ev, _, _ := ErrValue(cb); ev != nil && sameOrigin(nr.Val, ev) {
						ok = true // returns CommitBatch's own error
					}
					var d bool
					if d, why = SuccessDominates(cb, c06LastInstr(nr.From)); d {
						ok = true
					}
				}
				if !ok {
					bad = fmt.Sprintf("commit can return nil (line %d) although CommitBatch did not succeed (%s): ReceiveBlob then feeds the corpus rows that are not persisted", p.Fset.Position(nr.Ret.Pos()).Line, why)
				}
			}
			r.Check(bad == "", rule, FuncKey(commit)+"#success", p.Pos(cbs[0].Pos()), "every nil return of commit is dominated by a successful CommitBatch (or is CommitBatch's own error)", bad)
		}
	}

	// (e) addBlob applies the whole mutation map: no success return bypasses the
	// merge of mm.kv or of mm.deletes
	{
		n++
		construct := FuncKey(addBlob) + "#merges-all"
		mmParam := addBlob.Params[len(addBlob.Params)-1]
		var kvLoop, delLoop ssa.Instruction
		for _, b := range addBlob.Blocks {
			for _, in := range b.Instrs {
				switch x := in.(type) {
				case *ssa.Range:
					if n2, f, base, ok := c06LoadedField(x.X); ok && n2 == cx.tMM && f == "kv" && c06SamePlace(base, mmParam) {
						kvLoop = x
					}
				case *ssa.UnOp:
					if x.Op == token.MUL {
						if n2, f, base, ok := c06FieldOf(x.X); ok && n2 == cx.tMM && f == "deletes" && c06SamePlace(base, mmParam) {
							delLoop = x
						}
					}
				}
			}
		}
		if kvLoop == nil || delLoop == nil {
			r.Violation(rule, construct, p.Pos(addBlob.Pos()), "addBlob does not range over mm.kv and mm.deletes of the mutation map it is given")
		} else {
			nbad := 0
			for _, nr := range MaybeNilErrorReturns(addBlob) {
				last := c06LastInstr(nr.From)
				if Precedes(kvLoop, last) && Precedes(delLoop, last) {
					continue
				}
				nbad++
				// one obligation per bypassing return, keyed by the guard that selects it (no positions)
				r.Violation(rule, construct+"@"+c06GuardKey(nr.From), p.Pos(nr.Ret.Pos()),
					fmt.Sprintf("addBlob can return nil (line %d) without having merged mm.kv and mm.deletes: rows that commit just persisted never reach the live corpus, while a restart scans them", p.Fset.Position(nr.Ret.Pos()).Line))
			}
			if nbad == 0 {
				r.OK(rule, construct, p.Pos(addBlob.Pos()), "every success return of addBlob comes after the merge loops over mm.kv and mm.deletes")
			}
		}
	}

	// (d) no slurped row kind (nor 'deleted') is written to the store behind commit
	writes, _ := cx.rowWritesCached()
	gDeleted := c06Global(cx.pkg, "keyDeleted")
	newFn := p.Func(c06Rel, "", "New")
	seen := map[string]bool{}
	for _, w := range writes {
		if !w.direct {
			continue
		}
		construct := FuncKey(w.fn) + "#direct:" + w.kind.typ
		if seen[construct] {
			continue
		}
		seen[construct] = true
		n++
		_, slurped := cx.slurpSet[w.kind.typ]
		if !slurped && w.kind.typ != cx.keyName[gDeleted] {
			r.OKTable(rule, construct, p.Pos(w.pos), "direct "+w.op+" of an index-only row kind (not merged by the corpus, not cached in Index.deletes)")
			continue
		}
		why, excepted := c06DirectExceptions[FuncKey(w.fn)]
		if !excepted {
			r.Violation(rule, construct, p.Pos(w.pos), fmt.Sprintf("a row of kind %q is written straight to the index's sorted.KeyValue (%s), bypassing commit: the live corpus/caches never merge it while a restart loads it", w.kind.typ, w.op))
			continue
		}
		// re-check the reason: every caller passes index.New on all later success paths
		bad := ""
		callers := p.StaticCallers(w.fn)
		if len(callers) == 0 || len(p.FuncValueUses(w.fn)) > 0 {
			bad = "callers cannot be enumerated"
		}
		for _, c := range callers {
			cfn := c.Fn
			nilOK := map[*ssa.Return]bool{}
			for _, nr := range MaybeNilErrorReturns(cfn) {
				nilOK[nr.Ret] = true
			}
			leaks := LeakingExits(PathQuery{
				Start: c.Instr,
				Stop: func(in ssa.Instruction) bool {
					ci, ok := in.(ssa.CallInstruction)
					return ok && (CallSite{cfn, ci}).Callee() == newFn
				},
				ExitOK: func(exit ssa.Instruction) bool {
					ret, ok := exit.(*ssa.Return)
					return ok && !nilOK[ret]
				},
				IgnorePanics: true,
			})
			if len(leaks) > 0 {
				bad = fmt.Sprintf("%s can return successfully after %s without re-opening the index with New", FuncKey(cfn), FuncKey(w.fn))
			}
		}
		r.Check(bad == "", rule, construct, p.Pos(w.pos), "exception: "+why, "exception no longer justified: "+bad)
	}
	r.Analysed("live_sites", n)
	r.Floor(rule, 10)
}

var c06RowCache struct {
	cx       *c06Ctx
	writes   []c06RowWrite
	conduits []CallSite
}

// rowWritesCached avoids reporting the Undecided obligations of rowWrites twice.
func (cx *c06Ctx) rowWritesCached() ([]c06RowWrite, []CallSite) {
	if c06RowCache.cx != cx {
		w, c := cx.rowWrites()
		c06RowCache.cx, c06RowCache.writes, c06RowCache.conduits = cx, w, c
	}
	return c06RowCache.writes, c06RowCache.conduits
}
