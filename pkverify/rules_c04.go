package main

import (
	"fmt"
	"go/constant"
	"go/token"
	"go/types"
	"sort"
	"strings"

	"golang.org/x/tools/go/ssa"
)

func init() {
	register(&PropSpec{
		ID:    "C04",
		Title: "Packing files into zips is invisible to clients and recoverable from the zips",
		Explanation: "Decided (structural necessary conditions in pkg/blobserver/blobpacked). Every clause that names a function means that function's EFFECTIVE BODY: the function plus, transitively (depth <= 5), the unexported functions/methods of the package and the function literals it calls with a plain call (not go/defer); a helper's parameter stands for the caller's argument, a helper call's result for what the helper returns; 'on the success edge of step P' holds across a call when P lies in a helper all of whose returns (or all of whose possibly-successful returns, the site then being on the err==nil edge of the helper call, also through a panic-unless-nil function such as check(err)) are on P's success edge, or the helper returns P's own error; a branch fact established by a helper on all its successful returns counts at sites on the success edge of that helper call; who-may-call clauses accept a helper all of whose static callers are accepted (recursively; not used as a value or through an interface) and report a helper with any other caller. " +
			"Z-order — in (*packer).writeAZip every removal of loose blobs from 'small' lies on the success edge of a meta CommitBatch, every meta write/commit lies on the success edge of the receive of the zip into 'large', every row put into a batch is put into a batch that is committed afterwards and names (in key or value) the ref under which that zip was received; every source of the refs handed to small.RemoveBlobs there is also a source of the key of a b: row of that batch (local element-flow; same sources, not same run-time sets); the un-suffixed whole-file row 'w:<wholeref>' is written outside reindex only where the MakingZips loop has exited (pk.chunksRemain known empty); small.RemoveBlobs (on s.small, or on a helper parameter every caller binds to s.small) is called only from writeAZip, the client-facing RemoveBlobs and helpers only they call (frame rule: any other removal site is unordered with respect to a committed mapping; a removal that writeAZip runs deferred, spawned or deeper than 5 helpers is undecided). " +
			"Z-size — the bytes received into 'large' come from a bytes.Buffer whose Len() is known <= a bound at the receive, and every value that bound may take (followed through locals, phis, helper parameters and the returns of package functions such as (*storage).maxZipBlobSize, which may also be inlined) is the test override field storage.forceMaxZipBlobSize or a constant in (0, constants.MaxBlobSize]; the override is never assigned in non-test code. " +
			"Z-read — in Fetch, SubFetch and StatBlobs every call into 'small' is unreachable once the getMetaRow row of the same ref is known to exist and be packed, every call into 'large' is unreachable when it is known not packed and takes ref/offset/length from that row (offset also from the caller's offset in SubFetch); the refs StatBlobs forwards to 'small' are exactly those appended after a miss in the meta lookup, and its callback answers from the row only when the row exists and with the row's size; ReceiveBlob acknowledges only when the row exists or small.ReceiveBlob succeeded; EnumerateBlobs merges exactly 'small' and the enumerator over the 'b:' range. " +
			"Z-codec — every meta row writer in the package has a statically known key/value shape; for each kind (b:, w:<ref>:<n>, w:<ref>, z:) the packer-side and the reindex-side writers produce the same field sequence (separators, ref vs. decimal integer), the parsers (parseMetaRow, parseMetaRowSizeOnly, parseZipMetaRow, conv.ParseFields in OpenWholeRef) expect that field count and kinds in base 10 with a bit size not below the narrowest unsigned type any writer renders for that field; every meta.Find range ends at the successor of its prefix/separator; Manifest/BlobAndPos fields read by reindex/foreachZipBlob are written by writeAZip. " +
			"Z-count — the reader of the un-suffixed whole-file row (found structurally: the function that parses the row value into integers and compares one of them with the number of part records collected from the ':<idx>'-suffixed keys; today OpenWholeRef, integer #1) returns success only under the fact 'count == number of w:<ref>:<idx> rows found' (so an interrupted pack, which has part rows and no final row, and a count that disagrees with the part rows are refused); every writer of the w:<ref> row (pack, reindex) computes the integer at that position from the very thing that keys the w:<ref>:<idx> rows written by the same pass (the writing function, its literals and the package functions it calls): the struct field holding each part's index (reindex: zipMetaInfo.wholePartIndex) or the collection whose length is each part's index (packer: packer.zips) — 'computed from' = backward data slice incl. locals, one level of package helper calls on the data path, and branch conditions that select merged values; a count taken from how many zips/attempts were seen (len of another collection, a separately bumped counter) is reported. Recorded as supporting fact, not required: the reader fails on a part whose index differs from its position, i.e. indexes are dense 0..count-1. " +
			"Z-recover — newFromConfig returns a usable store only after checkLargeIntegrity was called and, once reindex was started, only on its success edge; reindex reports success only on the success edge of each of its top-level CommitBatch calls and assigns s.meta the very KeyValue it filled; large.RemoveBlobs (deleting a zip) is only reachable where zipPartsInUse of the same ref succeeded and returned no part in use. " +
			"Z-whole-blob — every description of a packed blob built in (*packer).writeAZip (each b: row of the batch, resolved per element constructor of the slice it is rendered from, and each element appended to a []BlobAndPos field of the Manifest) is a (ref, size) pair with exactly one source each, and the blob is moved WHOLE: (data chunks) the recorded size is the size result of a Fetch/StatBlob of that ref, or a lookup in a map field of the packer that is not modified inside writeAZip and that a dominating == fact (value-preserving integer conversions looked through; <, <=, >, >= and != facts do not count) equates with the size Fetch reported for the same ref at the point where the ref is recorded as written (the append through which it reaches the row); before that point an io.Copy/CopyN of that Fetch's reader into a zip entry writer is passed on every path, uncapped or capped (CopyN / io.LimitReader) at a length that is the fetched size or proven equal to it, or with the copied byte count proven equal to it; (schema blobs) the recorded size is Size() of the *blob.Blob looked up under the recorded ref in a map field every writer of which stores blob.FromFetcher(_, key) under key, and on every path from the description to the receive of the zip into large an io.Copy from ReadAll of that same Blob (uncapped, or capped at its Size()) goes into a zip entry whose name renders exactly that ref (foreachZipBlob/reindex derive ref and size from the entry). " +
			"NOT decided: equality of client-visible bytes/sizes before, during and after a pack (Z-whole-blob decides only that size and bytes recorded for a ref are the stored blob's, not offsets, the position of the bytes in the zip or that copy errors are checked; two different elements of the same local slice are not told apart — reported as undecided; fetch/compare/copy moved into a function outside the effective body (exported, another package, called through a value) is reported as undecided); that the b: rows cover, as run-time sets, exactly the blobs removed from small (only that both are built from the same local sources); zip validity and that the first entry is the contiguous file; accuracy of the size estimate and termination of truncate-and-retry; the arithmetic of the part count (that it is exactly 'highest index + 1' / the number of distinct indexes — only what it is computed from; a separately maintained counter that happens to be right is reported too); any crash schedule or recovery outcome; streaming (StreamBlobs) and whole-file reads beyond the row codec; deletion marks (d: rows). Remaining name anchors (a rename or inlining of these makes the check stop with 'anchor unresolved', exit 2, not a verdict): (*packer).writeAZip, (*packer).pack, (*storage).reindex, newFromConfig, (*storage).checkLargeIntegrity, (*storage).getMetaRow, (*storage).zipPartsInUse, the entry points Fetch/SubFetch/StatBlobs/ReceiveBlob/RemoveBlobs/EnumerateBlobs/OpenWholeRef, the types storage/packer/meta/Manifest/BlobAndPos/enumerator; (*storage).maxZipBlobSize, (*meta).isPacked and the three row parsers may be inlined (the parsers are then found as the value parses of getMetaRow / (enumerator).EnumerateBlobs / checkLargeIntegrity). A getMetaRow lookup wrapped in a further helper that returns the row, a row predicate wrapped in a bool helper, and a stat callback passed as a method value instead of a literal are not followed (reported as violation/undecided).",
		RuleDocs: map[string]string{
			"Z-order":      "dominance on err==nil edges in the effective body of (*packer).writeAZip (receive into large -> CommitBatch -> small.RemoveBlobs; steps and sites may lie in helpers, success is carried across the helper calls), value identity of the zip ref in every batch row (helper parameters mapped to arguments), loop-exit fact for the whole-file row in the effective body of (*packer).pack (also when a helper that runs the loop establishes it on its successful returns), who-may-call for small.RemoveBlobs (helpers accepted when all their static callers are)",
			"Z-size":       "dominating comparison fact zbuf.Len() <= bound at the large receive (in writeAZip's effective body) over the very buffer that is received; every value the bound may take is the test override field or a constant <= constants.MaxBlobSize (maxZipBlobSize followed through its returns, or inlined)",
			"Z-read":       "path pruning (interprocedural over the effective bodies of Fetch/SubFetch/StatBlobs/ReceiveBlob and of their callbacks: helper calls are entered, a helper that can only return an error continues on the caller's error branch) under the assumption 'row exists and is packed' / 'row is not packed' from each getMetaRow lookup; the row may be passed to helpers by value or by pointer; value dependence of the large read on the row; literal structure of the MergedEnumerate sources",
			"Z-recover":    "dominance over effective bodies: start-up (newFromConfig) returns a store only after checkLargeIntegrity ran and, in a recovery mode, after reindex succeeded; reindex returns success only after every top-level CommitBatch on the new index succeeded and installs that same index; a zip is removed from large only where zipPartsInUse of the same ref succeeded with an empty result (checked in the removing function, or, for a helper, in the context of every one of its callers)",
			"Z-count":      "writer/reader agreement by value dependence: the integer of the w:<ref> row that the reader requires to equal the number of w:<ref>:<idx> rows (dominating equality fact on every successful return) must, in each writer, depend on the field / collection that the part indexes of the same pass are formatted from",
			"Z-whole-blob": "value dependence + dominating equality facts in (*packer).writeAZip: for every (ref, size) description that reaches a b: row or the manifest, the size is the store-reported size of that very ref or proven == to it where the ref is recorded (an inequality guard does not count), and the bytes copied into the zip come from the fetch of that ref (data) / the *blob.Blob held for that ref (schema) without a cap below that size; the schema entry's zip name renders the same ref",
			"Z-codec":      "table agreement: statically evaluated Sprintf/concatenation shapes of all meta row writers, compared between sibling writers and with the parse-call chains of the parsers; Find range limits; struct fields read vs. written for the zip manifest",
		},
		Run:       runC04,
		DesignRef: "DESIGN.md §4 C04",
		Technique: "static analysis over effective bodies (a function plus the unexported package functions and literals it calls, arguments mapped to parameters, success and branch facts carried across the calls): dominance on error-success edges, path pruning under row-state assumptions, value identity/dependence over go/ssa, table agreement between row writers and parsers, value dependence of the stored part count on the part-index source, pairing of (ref, size) descriptions by local element flow with dominating == facts between the recorded and the store-reported size",
		LevelText: "Decides structural necessary conditions only (robust to extracting/inlining unexported helpers, closure<->method, if<->switch, loop forms and hoisted locals: sites are looked for in effective bodies, not in named functions): the zip is stored before its rows are committed and the rows before loose copies are removed; stored zips are bounded by the blob size limit; reads pick small vs. large by the meta row of the same ref; packer, reindex and the parsers agree on the meta row codec and reindex reads only manifest fields the packer writes; the part count of the whole-file row is computed from the part indexes that key the part rows and the reader serves a whole file only when both agree; a blob that gets a b: row / manifest entry is recorded with the size the store reports for it (or one proven equal by an == guard) and its bytes are copied uncapped from the fetch of the same ref, so a part that references only a prefix of a longer blob cannot be packed as if it were the blob. Does not decide the arithmetic of that count, byte-level equality of what clients see, crash/recovery outcomes, zip validity or the size estimate (level 'other').",
	})
}

const c04Rel = "pkg/blobserver/blobpacked"
const c04BlobPkg = "perkeep.org/pkg/blob"
const c04SortedPkg = "perkeep.org/pkg/sorted"
const c04BSPkg = "perkeep.org/pkg/blobserver"

func runC04(p *Program, r *Reporter) {
	fns := p.FuncsIn(c04Rel)
	r.Analysed("functions", len(fns))
	writers := c04RowWriters(p, r)
	c04ZOrder(p, r, writers)
	c04ZSize(p, r)
	c04ZRead(p, r)
	c04ZCodec(p, r, writers)
	c04ZCount(p, r, writers)
	c04ZRecover(p, r)
	c04ZWhole(p, r, writers)
}

// ---------------------------------------------------------------------------
// general helpers (c04-prefixed; candidates for helpers.go)

// c04Strip strips interface conversions, type assertions and loads of
// single-store variables.
func c04Strip(v ssa.Value) ssa.Value {
	for i := 0; i < 32 && v != nil; i++ {
		switch x := v.(type) {
		case *ssa.ChangeInterface:
			v = x.X
		case *ssa.MakeInterface:
			v = x.X
		case *ssa.ChangeType:
			v = x.X
		case *ssa.TypeAssert:
			v = x.X
		case *ssa.Extract:
			if ta, ok := x.Tuple.(*ssa.TypeAssert); ok && x.Index == 0 {
				v = ta.X
			} else {
				return v
			}
		case *ssa.UnOp:
			if x.Op != token.MUL {
				return v
			}
			if rv := resolveLoad(x); rv != nil {
				v = rv
			} else {
				return v
			}
		default:
			o := originValue(v)
			if o == v {
				return v
			}
			v = o
		}
	}
	return v
}

// c04Role returns "small", "large" or "meta" (any field name) when v is a
// load of that field of a blobpacked.storage, through interface conversions.
func c04Role(v ssa.Value) string {
	v = c04Strip(v)
	ld, ok := v.(*ssa.UnOp)
	if !ok || ld.Op != token.MUL {
		return ""
	}
	fa, ok := ld.X.(*ssa.FieldAddr)
	if !ok {
		return ""
	}
	n := NamedOf(fa.X.Type())
	if n == nil || n.Obj().Name() != "storage" || RelPkg(n.Obj().Pkg()) != c04Rel {
		return ""
	}
	return fieldName(fa.X.Type(), fa.Field)
}

func c04IsRef(t types.Type) bool { return IsNamed(t, c04BlobPkg, "Ref") && !c04IsPtr(t) }
func c04IsPtr(t types.Type) bool { _, ok := t.(*types.Pointer); return ok }
func c04IsRefSlice(t types.Type) bool {
	s, ok := t.Underlying().(*types.Slice)
	return ok && c04IsRef(s.Elem())
}

// c04ErrAliases returns the values that denote call's error result: the
// extract itself and loads of a variable it was stored to, in the same block,
// with no store to that variable and no call in between (the named-result
// variable captured by a deferred literal cannot be resolved by originValue).
func c04ErrAliases(call *ssa.Call) (vals []ssa.Value, hasErr, discarded bool) {
	ev, hasErr, discarded := ErrValue(call)
	if !hasErr || ev == nil {
		return nil, hasErr, discarded
	}
	vals = append(vals, ev)
	refs := ev.Referrers()
	if refs == nil {
		return vals, hasErr, discarded
	}
	for _, u := range *refs {
		st, ok := u.(*ssa.Store)
		if !ok || st.Val != ev {
			continue
		}
		b := st.Block()
		for _, in := range b.Instrs[instrIndex(st)+1:] {
			if s2, ok := in.(*ssa.Store); ok && s2.Addr == st.Addr {
				break
			}
			if _, ok := in.(ssa.CallInstruction); ok {
				break
			}
			if _, ok := in.(*ssa.RunDefers); ok {
				break
			}
			if ld, ok := in.(*ssa.UnOp); ok && ld.Op == token.MUL && ld.X == st.Addr {
				vals = append(vals, ld)
			}
		}
	}
	return vals, hasErr, discarded
}

// c04SuccessAt is SuccessDominates that also follows the spilled named result.
func c04SuccessAt(call *ssa.Call, site ssa.Instruction) (bool, string) {
	if call.Parent() != site.Parent() || !Precedes(call, site) {
		return false, "the call does not lie on every path to the site"
	}
	vals, hasErr, discarded := c04ErrAliases(call)
	if !hasErr {
		return true, ""
	}
	if discarded {
		return false, "the error result of the call is discarded"
	}
	for _, f := range FactsAt(site.Block()) {
		for _, v := range vals {
			if v == nil {
				continue
			}
			if k, isNil := c04CondSaysNil(f.Cond, f.Val, v); k && isNil {
				return true, ""
			}
		}
	}
	// the error handed to a function that only returns when it is nil
	// (`check(err)`), on every path to the site
	for _, v := range vals {
		if v == nil || v.Referrers() == nil {
			continue
		}
		for _, u := range *v.Referrers() {
			ac, ok := u.(*ssa.Call)
			if !ok || !Precedes(ac, site) {
				continue
			}
			f := ac.Call.StaticCallee()
			if f == nil || !InModule(f) || f.Blocks == nil || len(f.Params) != len(ac.Call.Args) {
				continue
			}
			for i, a := range ac.Call.Args {
				if a == v && c04ReturnsOnlyIfNil(f, f.Params[i]) {
					return true, ""
				}
			}
		}
	}
	return false, "the site is not on the err==nil edge of the call"
}

// c04ReturnsOnlyIfNil: every return of f lies under the fact prm == nil.
func c04ReturnsOnlyIfNil(f *ssa.Function, prm *ssa.Parameter) bool {
	rets := Returns(f)
	if len(rets) == 0 || len(f.AnonFuncs) > 0 {
		return false
	}
	for _, ri := range rets {
		ok := false
		for _, cf := range FactsAt(ri.Ret.Block()) {
			if k, isNil := c04CondSaysNil(cf.Cond, cf.Val, prm); k && isNil {
				ok = true
			}
		}
		if !ok {
			return false
		}
	}
	return true
}

func c04CondSaysNil(cond ssa.Value, val bool, v ssa.Value) (known, isNil bool) {
	switch c := cond.(type) {
	case *ssa.BinOp:
		if c.Op != token.EQL && c.Op != token.NEQ {
			return false, false
		}
		var other ssa.Value
		if IsNilConst(c.Y) {
			other = c.X
		} else if IsNilConst(c.X) {
			other = c.Y
		} else {
			return false, false
		}
		if other != v && !sameOrigin(other, v) {
			return false, false
		}
		return true, (c.Op == token.EQL) == val
	case *ssa.UnOp:
		if c.Op == token.NOT {
			return c04CondSaysNil(c.X, !val, v)
		}
	}
	return false, false
}

// c04RootAlloc follows FieldAddr/IndexAddr chains to the Alloc they are based on.
func c04RootAlloc(addr ssa.Value) *ssa.Alloc {
	for i := 0; i < 16; i++ {
		switch x := addr.(type) {
		case *ssa.Alloc:
			return x
		case *ssa.FieldAddr:
			addr = x.X
		case *ssa.IndexAddr:
			addr = x.X
		case *ssa.Slice:
			addr = x.X
		default:
			return nil
		}
	}
	return nil
}

// c04Depends is DependsOn that additionally follows stores into locals
// addressed through field/index chains (struct literals, varargs arrays,
// locals such as zipSB whose fields are read back).
func c04Depends(v ssa.Value, target func(ssa.Value) bool) bool {
	return c04DependsIn(nil, v, target, false)
}

// c04DependsOpt is c04Depends; with ctl it additionally follows
//   - control dependence of merged values: for a phi, the branch conditions
//     known on each incoming edge (dominating facts of the predecessor and the
//     predecessor's own If); for a store into a followed variable, the facts
//     at the store;
//   - one level of calls on the data path: a call to a module function in the
//     slice depends on everything that function (and its literals) computes
//     with. Calls that are only reached through a branch condition are not
//     entered (a counter bumped under `err == nil` of a call is not "computed
//     from" what the callee reads).
func c04DependsOpt(v ssa.Value, target func(ssa.Value) bool, ctl bool) bool {
	return c04DependsIn(nil, v, target, ctl)
}

// c04DependsIn is c04DependsOpt inside an effective body (nil: one function):
// a helper's parameter depends on the caller's arguments, the result of a
// call that enters a helper on what the helper returns.
func c04DependsIn(body *c04Body, v ssa.Value, target func(ssa.Value) bool, ctl bool) bool {
	seen := [2]map[ssa.Value]bool{{}, {}} // [1]: reached through a branch condition
	storeIdx := map[*ssa.Function]map[*ssa.Alloc][]*ssa.Store{}
	storesUnder := func(al *ssa.Alloc) []*ssa.Store {
		fn := al.Parent()
		idx, ok := storeIdx[fn]
		if !ok {
			idx = map[*ssa.Alloc][]*ssa.Store{}
			for _, b := range fn.Blocks {
				for _, in := range b.Instrs {
					if st, ok := in.(*ssa.Store); ok {
						if ra := c04RootAlloc(st.Addr); ra != nil {
							idx[ra] = append(idx[ra], st)
						}
					}
				}
			}
			storeIdx[fn] = idx
		}
		return idx[al]
	}
	var walk func(v ssa.Value, depth int, inCond bool) bool
	walk = func(v ssa.Value, depth int, inCond bool) bool {
		mode := 0
		if inCond {
			mode = 1
		}
		if v == nil || seen[mode][v] || depth > 80 {
			return false
		}
		seen[mode][v] = true
		if target(v) {
			return true
		}
		if al, ok := v.(*ssa.Alloc); ok {
			for _, sts := range [][]*ssa.Store{storesUnder(al), storesTo(al)} {
				for _, st := range sts {
					if walk(st.Val, depth+1, inCond) {
						return true
					}
					if ctl && st.Block() != nil {
						for _, f := range FactsAt(st.Block()) {
							if walk(f.Cond, depth+1, true) {
								return true
							}
						}
					}
				}
			}
			return false
		}
		if ctl {
			if ph, ok := v.(*ssa.Phi); ok {
				for i := range ph.Edges {
					pred := ph.Block().Preds[i]
					for _, f := range FactsAt(pred) {
						if walk(f.Cond, depth+1, true) {
							return true
						}
					}
					if n := len(pred.Instrs); n > 0 {
						if ifi, ok := pred.Instrs[n-1].(*ssa.If); ok && walk(ifi.Cond, depth+1, true) {
							return true
						}
					}
				}
			}
			if call, ok := v.(*ssa.Call); ok && !inCond {
				if f := (CallSite{call.Parent(), call}).Callee(); f != nil && InModule(f) && f.Blocks != nil && c04BodyHas(f, target, 0) {
					return true
				}
			}
		}
		if fv, ok := v.(*ssa.FreeVar); ok {
			if b := bindingOf(fv); b != nil {
				return walk(b, depth+1, inCond)
			}
			return false
		}
		if prm, ok := v.(*ssa.Parameter); ok {
			for _, a := range body.argsOf(prm) {
				if walk(a, depth+1, inCond) {
					return true
				}
			}
			return false
		}
		if rs, ok := body.resultsOf(v); ok && !inCond {
			// (a helper call that is only reached through a branch condition is not entered:
			// a counter bumped under `err == nil` of a call is not computed from what the callee reads)
			for _, rv := range rs {
				if walk(rv, depth+1, inCond) {
					return true
				}
			}
		}
		if in, ok := v.(ssa.Instruction); ok {
			for _, op := range in.Operands(nil) {
				if *op != nil && walk(*op, depth+1, inCond) {
					return true
				}
			}
		}
		return false
	}
	return walk(v, 0, false)
}

// c04BodyHas: some value computed in f or its literals satisfies target.
func c04BodyHas(f *ssa.Function, target func(ssa.Value) bool, depth int) bool {
	if depth > 4 {
		return false
	}
	for _, b := range f.Blocks {
		for _, in := range b.Instrs {
			if v, ok := in.(ssa.Value); ok && target(v) {
				return true
			}
		}
	}
	for _, a := range f.AnonFuncs {
		if c04BodyHas(a, target, depth+1) {
			return true
		}
	}
	return false
}

// c04VarargElems returns the element values of a `slice (new [N]T)[:]`
// argument built for a variadic call (nil constant = no elements).
func c04VarargElems(v ssa.Value) ([]ssa.Value, bool) {
	if c, ok := v.(*ssa.Const); ok && c.Value == nil {
		return nil, true
	}
	sl, ok := v.(*ssa.Slice)
	if !ok || sl.Low != nil || sl.High != nil {
		return nil, false
	}
	al, ok := sl.X.(*ssa.Alloc)
	if !ok {
		return nil, false
	}
	arr, ok := al.Type().(*types.Pointer).Elem().Underlying().(*types.Array)
	if !ok {
		return nil, false
	}
	out := make([]ssa.Value, arr.Len())
	refs := al.Referrers()
	if refs == nil {
		return nil, false
	}
	for _, u := range *refs {
		ia, ok := u.(*ssa.IndexAddr)
		if !ok {
			continue
		}
		idx, ok := ConstInt(ia.Index)
		if !ok || idx < 0 || idx >= arr.Len() {
			return nil, false
		}
		if ir := ia.Referrers(); ir != nil {
			for _, w := range *ir {
				if st, ok := w.(*ssa.Store); ok && st.Addr == ssa.Value(ia) {
					if out[idx] != nil {
						return nil, false
					}
					out[idx] = st.Val
				}
			}
		}
	}
	for _, e := range out {
		if e == nil {
			return nil, false
		}
	}
	return out, true
}

func c04Line(p *Program, pos token.Pos) int { return p.Fset.Position(pos).Line }

// ---------------------------------------------------------------------------
// effective bodies: a rule that looks for a site "in function F" looks in F's
// effective body — F plus, transitively, the unexported functions/methods of
// the package and the function literals that F calls statically (plain calls,
// not go/defer). Each activation is a frame; a helper called from two places
// has two frames. Sites are (frame, instruction) pairs; ordering facts are
// carried across the calls by lifting both sites to their deepest common
// frame, values by mapping a helper's parameter to the caller's argument and a
// helper call's result to what the helper returns.

const c04MaxFrameDepth = 5

type c04Frame struct {
	fn     *ssa.Function
	call   ssa.CallInstruction // the call in parent.fn that enters fn (nil for the root)
	parent *c04Frame
	kids   map[ssa.CallInstruction]*c04Frame
	depth  int
}

type c04Body struct {
	root   *c04Frame
	frames []*c04Frame // pre-order
}

// c04Site is an instruction in one activation.
type c04Site struct {
	fr *c04Frame
	in ssa.Instruction
}

func (s c04Site) call() CallSite {
	ci, _ := s.in.(ssa.CallInstruction)
	return CallSite{s.fr.fn, ci}
}

// c04IsHelper: a function whose body counts as part of its callers' bodies.
func c04IsHelper(f *ssa.Function) bool {
	if f == nil || f.Blocks == nil {
		return false
	}
	top := TopFunc(f)
	if top.Pkg == nil || RelPkg(top.Pkg.Pkg) != c04Rel {
		return false
	}
	if f.Parent() != nil {
		return true // a function literal that is called directly
	}
	return !token.IsExported(f.Name())
}

// bodies are cached per loaded program (the cache is dropped when a function
// of another program is asked for, so that selftest shards do not retain the
// programs of earlier mutants)
var c04BodyCache = map[*ssa.Function]*c04Body{}
var c04BodyProg *ssa.Program

func c04BodyOf(root *ssa.Function) *c04Body {
	if root.Prog != c04BodyProg {
		c04BodyProg = root.Prog
		c04BodyCache = map[*ssa.Function]*c04Body{}
	}
	if b, ok := c04BodyCache[root]; ok {
		return b
	}
	b := &c04Body{}
	var build func(fn *ssa.Function, call ssa.CallInstruction, parent *c04Frame, depth int) *c04Frame
	build = func(fn *ssa.Function, call ssa.CallInstruction, parent *c04Frame, depth int) *c04Frame {
		fr := &c04Frame{fn: fn, call: call, parent: parent, kids: map[ssa.CallInstruction]*c04Frame{}, depth: depth}
		b.frames = append(b.frames, fr)
		if depth >= c04MaxFrameDepth {
			return fr
		}
		for _, c := range CallsIn(fn, false) {
			if c.Value() == nil {
				continue // go / defer: no ordering carries over
			}
			cal := c.Callee()
			if !c04IsHelper(cal) {
				continue
			}
			rec := false
			for a := fr; a != nil; a = a.parent {
				if a.fn == cal {
					rec = true
				}
			}
			if rec {
				continue
			}
			fr.kids[c.Instr] = build(cal, c.Instr, fr, depth+1)
		}
		return fr
	}
	b.root = build(root, nil, nil, 0)
	c04BodyCache[root] = b
	return b
}

// has: fn runs as part of the body.
func (b *c04Body) has(fn *ssa.Function) bool {
	for _, fr := range b.frames {
		if fr.fn == fn {
			return true
		}
	}
	return false
}

func (b *c04Body) framesOf(fn *ssa.Function) []*c04Frame {
	var out []*c04Frame
	for _, fr := range b.frames {
		if fr.fn == fn {
			out = append(out, fr)
		}
	}
	return out
}

// calls lists every call instruction of every frame that satisfies pred.
func (b *c04Body) calls(pred func(c CallSite) bool) []c04Site {
	var out []c04Site
	for _, fr := range b.frames {
		for _, c := range CallsIn(fr.fn, false) {
			if pred == nil || pred(c) {
				out = append(out, c04Site{fr, c.Instr})
			}
		}
	}
	return out
}

// instrs visits every instruction of every frame.
func (b *c04Body) instrs(visit func(fr *c04Frame, in ssa.Instruction)) {
	for _, fr := range b.frames {
		for _, blk := range fr.fn.Blocks {
			for _, in := range blk.Instrs {
				visit(fr, in)
			}
		}
	}
}

// at lifts the site to ancestor frame anc: the instruction of anc.fn on the
// call chain that leads to the site (the site itself when it is in anc).
func (s c04Site) at(anc *c04Frame) ssa.Instruction {
	in := s.in
	for f := s.fr; f != nil; f = f.parent {
		if f == anc {
			return in
		}
		in = f.call
	}
	return nil
}

func c04CommonFrame(a, b *c04Frame) *c04Frame {
	for a.depth > b.depth {
		a = a.parent
	}
	for b.depth > a.depth {
		b = b.parent
	}
	for a != b {
		a, b = a.parent, b.parent
	}
	return a
}

// guar: what a return of frame f's function guarantees about step a (which
// lies in f or in a helper below it): "all" — every return is reached only
// after a was executed (and, with succ, succeeded); "succ" — every return that
// may report success (error result possibly nil) is; "" — neither.
func (b *c04Body) guar(f *c04Frame, a c04Site, succ bool) string {
	inner := a.at(f)
	below := "self"
	if f != a.fr {
		kid := a.fr
		for kid.parent != f {
			kid = kid.parent
		}
		below = b.guar(kid, a, succ)
		if below == "" {
			return ""
		}
	}
	call, isCall := inner.(*ssa.Call)
	var aliases []ssa.Value
	if isCall {
		aliases, _, _ = c04ErrAliases(call)
	}
	needSucc := below == "succ" || below == "self" && succ
	if needSucc && !isCall {
		return "" // deferred or spawned
	}
	check := func(at ssa.Instruction) bool {
		if needSucc {
			k, _ := c04SuccessAt(call, at)
			return k
		}
		return Precedes(inner, at)
	}
	all := true
	for _, ri := range Returns(f.fn) {
		if !check(ri.Ret) {
			all = false
		}
	}
	if all {
		return "all"
	}
	if ErrResultIndex(f.fn) < 0 {
		return ""
	}
	for _, nr := range MaybeNilErrorReturns(f.fn) {
		own := false
		if needSucc {
			for _, v := range aliases {
				if v != nil && (v == nr.Val || sameOrigin(v, nr.Val)) {
					own = true // returns the step's own error: nil only if it succeeded
				}
			}
		}
		if !own && !check(nr.From.Instrs[len(nr.From.Instrs)-1]) {
			return ""
		}
	}
	return "succ"
}

// ordered: on every path to site s, step p has been executed (succ: and
// succeeded). Both are lifted to their deepest common frame; a step inside a
// helper counts when the helper guarantees it on all its returns, or on its
// successful returns and s is on the success edge of the helper call.
func (b *c04Body) ordered(p, s c04Site, succ bool) (bool, string) {
	anc := c04CommonFrame(p.fr, s.fr)
	pa, sa := p.at(anc), s.at(anc)
	if pa == nil || sa == nil {
		return false, "the two sites are not in one effective body"
	}
	mode := "all"
	if p.fr == anc {
		if succ {
			mode = "succ"
		}
	} else {
		kid := p.fr
		for kid.parent != anc {
			kid = kid.parent
		}
		mode = b.guar(kid, p, succ)
		if mode == "" {
			return false, fmt.Sprintf("%s may return (successfully) where the step has not been executed successfully", FuncKey(kid.fn))
		}
	}
	if mode == "all" {
		if !Precedes(pa, sa) {
			return false, "the call does not lie on every path to the site"
		}
		return true, ""
	}
	call, ok := pa.(*ssa.Call)
	if !ok {
		return false, "the step is deferred or spawned"
	}
	return c04SuccessAt(call, sa)
}

// successAt: on every path to site s, step p has been executed and succeeded.
func (b *c04Body) successAt(p, s c04Site) (bool, string) { return b.ordered(p, s, true) }

// precedes: a executes before s on every path to s.
func (b *c04Body) precedes(a, s c04Site) bool {
	k, _ := b.ordered(a, s, false)
	return k
}

// mayFollow: `to` can execute after `from` (over-approximation).
func (b *c04Body) mayFollow(from, to c04Site) bool {
	anc := c04CommonFrame(from.fr, to.fr)
	fa, ta := from.at(anc), to.at(anc)
	if fa == nil || ta == nil {
		return false
	}
	return ReachableFrom(fa, nil)[ta]
}

// c04Fact is a branch fact with the frame its values live in.
type c04Fact struct {
	CondFact
	fr *c04Frame
}

// factsAt: the branch conditions known at the site: those of its own
// function and those known at each call on the chain that leads to it.
func (b *c04Body) factsAt(s c04Site) []c04Fact {
	var out []c04Fact
	in := s.in
	for f := s.fr; f != nil; f = f.parent {
		for _, cf := range FactsAt(in.Block()) {
			out = append(out, c04Fact{cf, f})
		}
		in = f.call
	}
	return out
}

// factAt: a branch fact accepted by pred is known at the site: among the
// facts of its own function and of the calls on the chain that leads to it, or
// established by a helper called before it that only returns (successfully,
// with the site on the success edge of that call) under the fact.
func (b *c04Body) factAt(at c04Site, pred func(fr *c04Frame, cond ssa.Value, val bool) bool, depth int) bool {
	return b.factAtAbove(at, nil, pred, depth)
}

// factAtAbove: factAt that looks no higher than frame floor (nil: up to the root).
func (b *c04Body) factAtAbove(at c04Site, floor *c04Frame, pred func(fr *c04Frame, cond ssa.Value, val bool) bool, depth int) bool {
	in := at.in
	for f := at.fr; f != nil; f = f.parent {
		for _, cf := range FactsAt(in.Block()) {
			if pred(f, cf.Cond, cf.Val) {
				return true
			}
		}
		if f == floor {
			break
		}
		in = f.call
	}
	if depth > c04MaxFrameDepth {
		return false
	}
	for f := at.fr; f != nil; f = f.parent {
		lifted := at.at(f)
		for ci, kid := range f.kids {
			call, isCall := ci.(*ssa.Call)
			if !isCall || ssa.Instruction(call) == lifted {
				continue
			}
			var rets []ssa.Instruction
			if ErrResultIndex(kid.fn) >= 0 {
				if k, _ := c04SuccessAt(call, lifted); !k {
					continue
				}
				for _, nr := range MaybeNilErrorReturns(kid.fn) {
					rets = append(rets, nr.From.Instrs[len(nr.From.Instrs)-1])
				}
			} else {
				if !Precedes(call, lifted) {
					continue
				}
				for _, ri := range Returns(kid.fn) {
					rets = append(rets, ri.Ret)
				}
			}
			all := len(rets) > 0
			for _, ret := range rets {
				// inside the helper only: what is known where it returns
				if !b.factAtAbove(c04Site{kid, ret}, kid, pred, depth+1) {
					all = false
					break
				}
			}
			if all {
				return true
			}
		}
		if f == floor {
			break
		}
	}
	return false
}

// inLoop: the site, or a call on the chain that leads to it, is in a loop.
func (s c04Site) inLoop() bool {
	in := s.in
	for f := s.fr; f != nil; f = f.parent {
		if inLoop(in.Block()) {
			return true
		}
		in = f.call
	}
	return false
}

// c04Up resolves a value of frame fr to what it denotes further up: a
// parameter of a helper stands for the caller's argument (repeatedly). The
// returned frame is the one the returned value lives in.
func c04Up(fr *c04Frame, v ssa.Value) (*c04Frame, ssa.Value) {
	for i := 0; i < 2*c04MaxFrameDepth && v != nil && fr != nil; i++ {
		prm, ok := originValue(v).(*ssa.Parameter)
		if !ok {
			return fr, v
		}
		// the activation that owns the parameter (the frame itself, or an
		// enclosing function's frame when a literal reads a captured parameter)
		own := fr
		for own != nil && own.fn != prm.Parent() {
			own = own.parent
		}
		if own == nil || own.parent == nil {
			return fr, v
		}
		args := own.call.Common().Args
		idx := -1
		for j, fp := range own.fn.Params {
			if fp == prm {
				idx = j
			}
		}
		if idx < 0 || len(args) != len(own.fn.Params) {
			return fr, v
		}
		fr, v = own.parent, args[idx]
	}
	return fr, v
}

// c04SameIn: the two values (each in its frame) denote the same run-time value.
func c04SameIn(fa *c04Frame, a ssa.Value, fb *c04Frame, b ssa.Value) bool {
	fa, a = c04Up(fa, a)
	fb, b = c04Up(fb, b)
	if !sameOrigin(a, b) {
		return false
	}
	if fa == fb {
		return true
	}
	switch originValue(a).(type) {
	case *ssa.Const, *ssa.Global:
		return true
	}
	return false
}

// argsOf: the caller-side arguments a parameter stands for, over all frames
// of its function in the body (context-insensitive; for may-analyses).
func (b *c04Body) argsOf(prm *ssa.Parameter) []ssa.Value {
	var out []ssa.Value
	if b == nil {
		return nil
	}
	for _, fr := range b.frames {
		if fr.fn != prm.Parent() || fr.parent == nil {
			continue
		}
		args := fr.call.Common().Args
		if len(args) != len(fr.fn.Params) {
			continue
		}
		for j, fp := range fr.fn.Params {
			if fp == prm {
				out = append(out, args[j])
			}
		}
	}
	return out
}

// resultsOf: when v is (a result of) a call that enters a helper of the body,
// the values the helper returns at that position.
func (b *c04Body) resultsOf(v ssa.Value) (vals []ssa.Value, ok bool) {
	if b == nil {
		return nil, false
	}
	idx := 0
	call, isCall := v.(*ssa.Call)
	if ex, isEx := v.(*ssa.Extract); isEx {
		call, isCall = ex.Tuple.(*ssa.Call)
		idx = ex.Index
	}
	if !isCall {
		return nil, false
	}
	var callee *ssa.Function
	for _, fr := range b.frames {
		if k := fr.kids[call]; k != nil {
			callee = k.fn
		}
	}
	if callee == nil {
		return nil, false
	}
	for _, ri := range Returns(callee) {
		if idx < len(ri.Results) {
			vals = append(vals, ri.Results[idx])
		}
	}
	return vals, len(vals) > 0
}

// c04OnlyCalledFrom: every activation of f is (transitively) entered from a
// function accepted by ok: f itself is accepted, or f is a helper that is
// never used through an interface and all of whose static callers are. A use
// of f as a function value disqualifies it, unless valueUses is set, in which
// case the function that takes the value counts as a caller (good enough for
// "on whose behalf does this code run", not for ordering). Returns the
// offending caller otherwise.
func c04OnlyCalledFrom(p *Program, f *ssa.Function, ok func(*ssa.Function) bool, depth int) (bool, string) {
	return c04OnlyCalledFromOpt(p, f, ok, depth, false)
}

func c04OnlyCalledFromOpt(p *Program, f *ssa.Function, ok func(*ssa.Function) bool, depth int, valueUses bool) (bool, string) {
	if ok(f) || ok(TopFunc(f)) {
		return true, ""
	}
	if depth > c04MaxFrameDepth {
		return false, "call chain too deep"
	}
	if f.Parent() != nil {
		// a literal: runs on behalf of the function that declares it
		return c04OnlyCalledFromOpt(p, f.Parent(), ok, depth+1, valueUses)
	}
	if !c04IsHelper(f) {
		return false, FuncKey(f)
	}
	uses := p.FuncValueUses(f)
	if len(uses) > 0 && !valueUses {
		return false, FuncKey(f) + " (also used as a function value)"
	}
	if len(p.InvokeSites(f)) > 0 {
		return false, FuncKey(f) + " (also callable through an interface)"
	}
	callers := p.StaticCallers(f)
	if len(callers)+len(uses) == 0 {
		return false, FuncKey(f) + " (no caller)"
	}
	for _, c := range callers {
		if k, who := c04OnlyCalledFromOpt(p, c.Fn, ok, depth+1, valueUses); !k {
			return false, who
		}
	}
	for _, u := range uses {
		if k, who := c04OnlyCalledFromOpt(p, u.Parent(), ok, depth+1, valueUses); !k {
			return false, who
		}
	}
	return true, ""
}

// c04InAllContexts evaluates a check on a site of function f in every context
// f runs in: in f's own effective body; failing that, if f is a helper (not
// used as a value or through an interface), in the effective body of each of
// its static callers, where facts and steps of the caller count; and so on
// upwards. check gets the body and the frame of f in it.
func c04InAllContexts(p *Program, f *ssa.Function, check func(b *c04Body, fr *c04Frame) (bool, string)) (bool, string) {
	var try func(root *ssa.Function, path []ssa.CallInstruction, depth int) (bool, string)
	try = func(root *ssa.Function, path []ssa.CallInstruction, depth int) (bool, string) {
		b := c04BodyOf(root)
		fr := b.root
		for _, ci := range path {
			if fr = fr.kids[ci]; fr == nil {
				return false, "the call chain from " + FuncKey(root) + " is not followed (deferred, spawned or too deep)"
			}
		}
		ok, why := check(b, fr)
		if ok {
			return true, why
		}
		if depth >= c04MaxFrameDepth-1 || !c04IsHelper(root) || root.Parent() != nil {
			return false, why
		}
		callers := p.StaticCallers(root)
		if len(callers) == 0 || len(p.FuncValueUses(root)) > 0 || len(p.InvokeSites(root)) > 0 {
			return false, why
		}
		for _, c := range callers {
			if k, w := try(c.Fn, append([]ssa.CallInstruction{c.Instr}, path...), depth+1); !k {
				return false, w + " (reached from " + FuncKey(c.Fn) + ")"
			}
		}
		return true, "holds in the context of every caller of " + FuncKey(root)
	}
	return try(f, nil, 0)
}

// ---------------------------------------------------------------------------
// string shapes (H6): what a key/value expression renders to

type c04Tok struct {
	Lit  string // literal text (Hole == false)
	Hole bool
	Verb byte
	Type types.Type
	Val  ssa.Value // nil when the hole comes from an inlined callee
}

func (t c04Tok) class() string {
	if !t.Hole {
		return "lit"
	}
	if c04IsRef(t.Type) {
		return "ref"
	}
	if b, ok := t.Type.Underlying().(*types.Basic); ok {
		if b.Info()&types.IsInteger != 0 {
			return "int"
		}
		if b.Info()&types.IsString != 0 {
			return "str"
		}
	}
	return "other"
}

// c04IntBits: nominal width and signedness of an integer type.
func c04IntBits(t types.Type) (bits int, unsigned bool) {
	b, ok := t.Underlying().(*types.Basic)
	if !ok {
		return 0, false
	}
	unsigned = b.Info()&types.IsUnsigned != 0
	switch b.Kind() {
	case types.Int8, types.Uint8:
		return 8, unsigned
	case types.Int16, types.Uint16:
		return 16, unsigned
	case types.Int32, types.Uint32:
		return 32, unsigned
	case types.Int64, types.Uint64, types.Int, types.Uint, types.Uintptr:
		return 64, unsigned
	}
	return 0, unsigned
}

func c04Sig(toks []c04Tok) string {
	var sb strings.Builder
	for _, t := range toks {
		if t.Hole {
			sb.WriteString("<" + t.class() + ">")
		} else {
			sb.WriteString(t.Lit)
		}
	}
	return sb.String()
}

func c04Merge(toks []c04Tok) []c04Tok {
	var out []c04Tok
	for _, t := range toks {
		if !t.Hole {
			if t.Lit == "" {
				continue
			}
			if n := len(out); n > 0 && !out[n-1].Hole {
				out[n-1].Lit += t.Lit
				continue
			}
		}
		out = append(out, t)
	}
	return out
}

// c04Shape evaluates a string-typed SSA value to a token sequence; err != ""
// when some part cannot be followed.
func c04Shape(v ssa.Value, depth int) (toks []c04Tok, err string) {
	return c04ShapeEnv(v, depth, nil)
}

// c04Prog: the program being analysed (set by c04RowWriters; c04Shape needs the
// static callers of a helper to render a parameter).
var c04Prog *Program

// c04ShapeEnv: env binds parameters of a helper whose result is being rendered
// to the arguments of the call under evaluation. A parameter of a helper that
// is not bound renders as what its static callers pass, when they all pass the
// same shape (the Val of a hole is kept only when there is a single caller).
func c04ShapeEnv(v ssa.Value, depth int, env map[*ssa.Parameter]ssa.Value) (toks []c04Tok, err string) {
	if depth > 5 {
		return nil, "shape nesting too deep"
	}
	v = originValue(v)
	if s, ok := ConstString(v); ok {
		return []c04Tok{{Lit: s}}, ""
	}
	hole := func(verb byte, x ssa.Value) []c04Tok {
		x = c04StripIfaceOnly(x)
		if prm, isPrm := originValue(x).(*ssa.Parameter); isPrm {
			if a, bound := env[prm]; bound {
				x = c04StripIfaceOnly(a)
			}
		}
		if s, ok := ConstString(x); ok && (verb == 's' || verb == 'v') {
			return []c04Tok{{Lit: s}}
		}
		if b, isB := x.Type().Underlying().(*types.Basic); isB && b.Info()&types.IsString != 0 && (verb == 's' || verb == 'v') {
			// a string argument rendered verbatim: its own shape, when it can be followed
			if ts, e := c04ShapeEnv(x, depth+1, env); e == "" {
				return ts
			}
		}
		return []c04Tok{{Hole: true, Verb: verb, Type: x.Type(), Val: x}}
	}
	switch x := v.(type) {
	case *ssa.BinOp:
		if x.Op != token.ADD {
			return nil, "non-concatenation operator " + x.Op.String()
		}
		a, e := c04ShapeEnv(x.X, depth, env)
		if e != "" {
			return nil, e
		}
		b, e := c04ShapeEnv(x.Y, depth, env)
		if e != "" {
			return nil, e
		}
		return c04Merge(append(append([]c04Tok{}, a...), b...)), ""
	case *ssa.Parameter:
		if a, ok := env[x]; ok {
			return c04ShapeEnv(a, depth+1, nil)
		}
		if f := x.Parent(); c04Prog != nil && c04IsHelper(f) && len(c04Prog.FuncValueUses(f)) == 0 {
			callers := c04Prog.StaticCallers(f)
			var first []c04Tok
			ok := len(callers) > 0
			for _, c := range callers {
				args := c.Common().Args
				if len(args) != len(f.Params) {
					ok = false
					break
				}
				for i, fp := range f.Params {
					if fp != x {
						continue
					}
					ts, e := c04ShapeEnv(args[i], depth+1, nil)
					if e != "" || first != nil && c04Sig(ts) != c04Sig(first) {
						ok = false
					} else if first == nil {
						first = ts
					}
				}
			}
			if ok && first != nil {
				if len(callers) > 1 {
					for i := range first {
						first[i].Val = nil
					}
				}
				return first, ""
			}
		}
		return []c04Tok{{Hole: true, Verb: 's', Type: x.Type(), Val: x}}, ""
	case *ssa.Call:
		c := CallSite{x.Parent(), x}
		switch {
		case c.IsStatic("fmt", "", "Sprintf"):
			format, ok := ConstString(x.Call.Args[0])
			if !ok {
				return nil, "Sprintf with a non-constant format"
			}
			elems, ok := c04VarargElems(x.Call.Args[1])
			if !ok {
				return nil, "Sprintf arguments not a literal argument list"
			}
			i := 0
			for pos := 0; pos < len(format); {
				ch := format[pos]
				if ch != '%' {
					toks = append(toks, c04Tok{Lit: string(ch)})
					pos++
					continue
				}
				pos++
				if pos < len(format) && format[pos] == '%' {
					toks = append(toks, c04Tok{Lit: "%"})
					pos++
					continue
				}
				if pos < len(format) && strings.IndexByte("+-# 0123456789.*[", format[pos]) >= 0 {
					// flags/width change the rendering: not a plain field
					return nil, "format verb with flags or width"
				}
				if pos >= len(format) || i >= len(elems) {
					return nil, "format string and argument list disagree"
				}
				toks = append(toks, hole(format[pos], elems[i])...)
				i++
				pos++
			}
			if i != len(elems) {
				return nil, "format string and argument list disagree"
			}
			return c04Merge(toks), ""
		case c.IsStatic("fmt", "", "Sprint"):
			elems, ok := c04VarargElems(x.Call.Args[0])
			if !ok || len(elems) != 1 {
				return nil, "Sprint with other than one argument"
			}
			return c04Merge(hole('v', elems[0])), ""
		case c.IsStatic(c04BlobPkg, "Ref", "String"):
			return []c04Tok{{Hole: true, Verb: 's', Type: x.Call.Args[0].Type(), Val: x.Call.Args[0]}}, ""
		}
		if f := c.Callee(); f != nil && InModule(f) && f.Blocks != nil {
			rets := Returns(f)
			if len(rets) == 1 && len(rets[0].Results) == 1 {
				// parameters of the helper denote this call's arguments; other
				// holes are values of the callee's frame and have no meaning in
				// the caller
				bind := map[*ssa.Parameter]ssa.Value{}
				if !x.Call.IsInvoke() && len(f.Params) == len(x.Call.Args) {
					for pi, fp := range f.Params {
						bind[fp] = c04StripIfaceOnly(x.Call.Args[pi])
					}
				}
				inner, e := c04ShapeEnv(rets[0].Results[0], depth+1, bind)
				if e != "" {
					return nil, e
				}
				for i := range inner {
					if in, isIn := inner[i].Val.(ssa.Instruction); isIn && in.Parent() == f {
						inner[i].Val = nil
					}
					if prm, isPrm := inner[i].Val.(*ssa.Parameter); isPrm && prm.Parent() == f {
						inner[i].Val = nil
					}
				}
				return inner, ""
			}
		}
		return nil, "call to " + c.CalleeKey() + " is not a known string builder"
	}
	return nil, fmt.Sprintf("value %s (%T) is not a constant, concatenation or Sprintf", v.Name(), v)
}

func c04StripIfaceOnly(v ssa.Value) ssa.Value {
	for {
		switch x := v.(type) {
		case *ssa.MakeInterface:
			v = x.X
		case *ssa.ChangeInterface:
			v = x.X
		case *ssa.ChangeType:
			v = x.X
		default:
			return v
		}
	}
}

// c04StrConst returns the string value of a package-level constant.
func c04StrConst(p *Program, name string) string {
	o, _ := p.Pkg(c04Rel).Types.Scope().Lookup(name).(*types.Const)
	if o == nil || o.Val().Kind() != constant.String {
		brokenf("anchor unresolved: string constant %s.%s", c04Rel, name)
	}
	return constant.StringVal(o.Val())
}

func c04Succ(s string) string {
	if s == "" {
		return ""
	}
	b := []byte(s)
	b[len(b)-1]++
	return string(b)
}

// ---------------------------------------------------------------------------
// row writers: every Set on a sorted.KeyValue / sorted.BatchMutation in the package

type c04Writer struct {
	c        CallSite
	key, val []c04Tok
	keyErr   string
	valErr   string
	kind     string // signature of the key, e.g. "w:<ref>:<int>"
	batch    bool   // Set on a BatchMutation (else directly on the KeyValue)
}

func c04IsSortedSet(c CallSite) (batch, ok bool) {
	cc := c.Common()
	if !cc.IsInvoke() || cc.Method.Name() != "Set" || len(cc.Args) != 2 {
		return false, false
	}
	if IsNamed(cc.Value.Type(), c04SortedPkg, "BatchMutation") {
		return true, true
	}
	if IsNamed(cc.Value.Type(), c04SortedPkg, "KeyValue") {
		return false, true
	}
	return false, false
}

func c04RowWriters(p *Program, r *Reporter) []*c04Writer {
	c04Prog = p
	var out []*c04Writer
	for _, fn := range p.FuncsIn(c04Rel) {
		for _, c := range CallsIn(fn, false) {
			batch, ok := c04IsSortedSet(c)
			if !ok {
				continue
			}
			w := &c04Writer{c: c, batch: batch}
			w.key, w.keyErr = c04Shape(c.Common().Args[0], 0)
			w.val, w.valErr = c04Shape(c.Common().Args[1], 0)
			if w.keyErr == "" {
				w.kind = c04Sig(w.key)
			}
			out = append(out, w)
		}
	}
	sort.SliceStable(out, func(i, j int) bool { return FuncKey(out[i].c.Fn) < FuncKey(out[j].c.Fn) })
	r.Analysed("meta_row_writers", len(out))
	return out
}

// ---------------------------------------------------------------------------
// Z-order

// c04LargeReceives lists the calls in the body that store a blob into 'large':
// blobserver.Receive*/ReceiveNoHash with 'large' as destination, or
// large.ReceiveBlob. ref/reader are the blob ref and source arguments.
type c04Recv struct {
	c           CallSite
	ref, reader ssa.Value
	site        c04Site
}

// c04RoleIn is c04Role for a value of a frame: a helper's parameter has the
// role of the caller's argument.
func c04RoleIn(fr *c04Frame, v ssa.Value) string {
	if ro := c04Role(v); ro != "" {
		return ro
	}
	_, u := c04Up(fr, c04Strip(v))
	return c04Role(u)
}

func c04LargeReceives(body *c04Body) []c04Recv {
	var out []c04Recv
	for _, s := range body.calls(nil) {
		c := s.call()
		if c.Value() == nil {
			continue
		}
		cc := c.Common()
		if cc.IsInvoke() {
			if cc.Method.Name() == "ReceiveBlob" && c04RoleIn(s.fr, cc.Value) == "large" && len(cc.Args) == 3 {
				out = append(out, c04Recv{c, cc.Args[1], cc.Args[2], s})
			}
			continue
		}
		f := c.Callee()
		if f == nil || f.Pkg == nil || f.Pkg.Pkg.Path() != c04BSPkg || !strings.HasPrefix(f.Name(), "Receive") {
			continue
		}
		dst := -1
		for i, a := range cc.Args {
			if c04RoleIn(s.fr, a) == "large" {
				dst = i
			}
		}
		if dst < 0 {
			continue
		}
		rc := c04Recv{c: c, site: s}
		for _, a := range cc.Args[dst+1:] {
			if c04IsRef(a.Type()) && rc.ref == nil {
				rc.ref = a
			} else if rc.reader == nil && !c04IsRef(a.Type()) {
				rc.reader = a
			}
		}
		out = append(out, rc)
	}
	return out
}

func c04MetaInvokes(fn *ssa.Function, method string) []CallSite {
	return FindCalls(fn, false, func(c CallSite) bool {
		cc := c.Common()
		return cc.IsInvoke() && cc.Method.Name() == method && c04Role(cc.Value) == "meta"
	})
}

// c04RoleInvokes: the interface calls of `method` on the store of that role, over the body.
func c04RoleInvokes(body *c04Body, role, method string) []c04Site {
	var out []c04Site
	for _, s := range body.calls(nil) {
		cc := s.call().Common()
		if cc.IsInvoke() && cc.Method.Name() == method && c04RoleIn(s.fr, cc.Value) == role {
			out = append(out, s)
		}
	}
	return out
}

// c04RoleAnywhere: the role of the receiver of an interface call in an
// arbitrary function of the package: the field it is loaded from, or, for a
// parameter of a helper, the roles of what its static callers pass.
func c04RoleAnywhere(p *Program, v ssa.Value, depth int) map[string]bool {
	out := map[string]bool{}
	if ro := c04Role(v); ro != "" {
		out[ro] = true
		return out
	}
	prm, ok := originValue(c04Strip(v)).(*ssa.Parameter)
	if !ok || depth > c04MaxFrameDepth || !c04IsHelper(prm.Parent()) {
		return out
	}
	f := prm.Parent()
	for _, c := range p.StaticCallers(f) {
		args := c.Common().Args
		if len(args) != len(f.Params) {
			continue
		}
		for i, fp := range f.Params {
			if fp == prm {
				for ro := range c04RoleAnywhere(p, args[i], depth+1) {
					out[ro] = true
				}
			}
		}
	}
	return out
}

func c04SmallRemoves(p *Program, fn *ssa.Function) []CallSite {
	return FindCalls(fn, false, func(c CallSite) bool {
		cc := c.Common()
		return cc.IsInvoke() && cc.Method.Name() == "RemoveBlobs" && c04RoleAnywhere(p, cc.Value, 0)["small"]
	})
}

func c04ZOrder(p *Program, r *Reporter, writers []*c04Writer) {
	const rule = "Z-order"
	fn := p.Func(c04Rel, "packer", "writeAZip")
	pack := p.Func(c04Rel, "packer", "pack")
	reindex := p.Func(c04Rel, "storage", "reindex")
	clientRemove := p.Func(c04Rel, "storage", "RemoveBlobs")
	key := FuncKey(fn)
	body := c04BodyOf(fn)
	packBody := c04BodyOf(pack)
	r.Analysed("writeAZip_effective_body_frames", len(body.frames))

	recvs := c04LargeReceives(body)
	commits := c04RoleInvokes(body, "meta", "CommitBatch")
	removes := c04RoleInvokes(body, "small", "RemoveBlobs")
	if len(recvs) == 0 {
		r.Violation(rule, key+"#large-receive", p.Pos(fn.Pos()), "writeAZip no longer stores the zip into the 'large' store (no blobserver.Receive*/ReceiveBlob with s.large as destination): rows would point to a zip that was never written")
	}
	if len(commits) == 0 {
		r.Violation(rule, key+"#meta-commit", p.Pos(fn.Pos()), "writeAZip no longer commits a meta batch: packed blobs would be removed from small without any row mapping them")
	}
	where := func(s c04Site) string {
		if s.fr == body.root {
			return fmt.Sprintf("line %d", c04Line(p, s.in.Pos()))
		}
		return fmt.Sprintf("line %d in %s", c04Line(p, s.in.Pos()), FuncKey(s.fr.fn))
	}
	afterRecv := func(site c04Site) (bool, string) {
		why := "no receive into large"
		for _, rc := range recvs {
			ok, w := body.successAt(rc.site, site)
			if ok {
				return true, fmt.Sprintf("on the err==nil edge of %s (%s)", rc.c.CalleeKey(), where(rc.site))
			}
			why = w
		}
		return false, why
	}
	// (a) every removal from small is on the success edge of a meta commit
	for _, rm := range removes {
		ok, why := false, "no meta CommitBatch in the function"
		for _, cm := range commits {
			if cm.call().Value() == nil {
				continue
			}
			if k, w := body.successAt(cm, rm); k {
				ok = true
				why = fmt.Sprintf("small.RemoveBlobs is on the err==nil edge of meta.CommitBatch (%s)", where(cm))
				break
			} else {
				why = w
			}
		}
		r.Check(ok, rule, key+"#small.RemoveBlobs-after-commit", p.Pos(rm.in.Pos()), why,
			"loose blobs are removed from small where the meta batch mapping them into the zip is not known committed ("+why+"): a failed or skipped commit leaves the blobs unreachable")
	}
	// (b) every commit / direct meta write is on the success edge of the large receive
	for _, cm := range commits {
		ok, why := afterRecv(cm)
		r.Check(ok, rule, key+"#meta.CommitBatch-after-large-receive", p.Pos(cm.in.Pos()), "meta.CommitBatch "+why,
			"the meta batch is committed where the zip is not known stored in large ("+why+"): rows would name a zip that does not exist")
	}
	for _, m := range []string{"Set", "Delete"} {
		for _, c := range c04RoleInvokes(body, "meta", m) {
			ok, why := afterRecv(c)
			r.Check(ok, rule, key+"#meta."+m+"-after-large-receive", p.Pos(c.in.Pos()), "direct meta write "+why,
				"a direct meta write happens where the zip is not known stored in large ("+why+")")
		}
	}
	// (c) rows of the batch: put into a batch that is committed afterwards, and naming the received zip ref
	nRows := 0
	for _, w := range writers {
		if !w.batch {
			continue
		}
		for _, fr := range body.framesOf(w.c.Fn) {
			ws := c04Site{fr, w.c.Instr}
			nRows++
			construct := key + "#row " + w.kind
			if w.keyErr != "" || w.valErr != "" {
				r.Undecided(rule, construct, p.Pos(w.c.Pos()), "row shape cannot be followed: "+w.keyErr+" "+w.valErr)
				continue
			}
			committed := false
			for _, cm := range commits {
				args := cm.call().Common().Args
				if len(args) == 1 && c04SameIn(cm.fr, args[0], fr, w.c.Common().Value) && body.mayFollow(ws, cm) {
					committed = true
				}
			}
			if !committed {
				r.Violation(rule, construct, p.Pos(w.c.Pos()), "row is set on a batch that is not passed to meta.CommitBatch afterwards")
				continue
			}
			named := false
			for _, t := range append(append([]c04Tok{}, w.key...), w.val...) {
				if !t.Hole || t.class() != "ref" || t.Val == nil {
					continue
				}
				for _, rc := range recvs {
					if rc.ref != nil && c04SameIn(fr, t.Val, rc.site.fr, rc.ref) {
						named = true
					}
					// the receive itself, or the helper call through which it is performed
					chain := map[ssa.Value]bool{}
					for f := rc.site.fr; f != nil; f = f.parent {
						if v, isV := rc.site.at(f).(ssa.Value); isV {
							chain[v] = true
						}
					}
					if c04DependsIn(body, t.Val, func(x ssa.Value) bool { return chain[x] }, false) {
						named = true
					}
				}
			}
			r.Check(named, rule, construct, p.Pos(w.c.Pos()),
				"row is committed with the batch and names the ref under which the zip was received into large",
				"no blob-ref field of this row is the ref passed to (or returned by) the receive of the zip into large: the row maps to a different blob than the zip just written")
		}
	}
	// (c') the refs removed from small are refs the committed batch maps with b: rows
	bKind := c04StrConst(p, "blobMetaPrefix") + "<ref>"
	mapped := map[string]ssa.Value{}
	for _, w := range writers {
		if !body.has(w.c.Fn) || !w.batch || w.kind != bKind {
			continue
		}
		for _, t := range w.key {
			if t.Hole && t.class() == "ref" && t.Val != nil {
				for k, v := range c04ValueLeaves(body, w.c.Fn, t.Val) {
					mapped[k] = v
				}
			}
		}
	}
	for _, rm := range removes {
		construct := key + "#small.RemoveBlobs-refs-mapped"
		var arg ssa.Value
		for _, a := range rm.call().Common().Args {
			if c04IsRefSlice(a.Type()) {
				arg = a
			}
		}
		if arg == nil {
			r.Undecided(rule, construct, p.Pos(rm.in.Pos()), "no []blob.Ref argument")
			continue
		}
		leaves, ok := c04SliceLeaves(body, rm.fr.fn, arg)
		if !ok {
			r.Violation(rule, construct, p.Pos(rm.in.Pos()), "the removed refs include a whole slice that is not built, element by element, in this function or the helpers it calls (for example a field of the packer): nothing relates them to the b: rows of the committed batch, so blobs without a mapping may be removed")
			continue
		}
		var missing []string
		for k, v := range leaves {
			if _, ok := mapped[k]; !ok {
				missing = append(missing, fmt.Sprintf("%s (line %d)", v.Name(), c04Line(p, v.Pos())))
			}
		}
		sort.Strings(missing)
		r.Check(len(missing) == 0 && len(leaves) > 0, rule, construct, p.Pos(rm.in.Pos()),
			fmt.Sprintf("every ref source of the removed slice (%d) is also a ref source of a b: row key of the committed batch", len(leaves)),
			fmt.Sprintf("removed refs come from %d source(s) that no b: row of the batch is keyed by: %s", len(missing), strings.Join(missing, ", ")))
	}
	// (d) whole-file row: only where the zip loop has exited
	nWhole := 0
	wholeKind := c04StrConst(p, "wholeMetaPrefix") + "<ref>"
	isReindex := func(f *ssa.Function) bool { return f == reindex }
	isPackOrReindex := func(f *ssa.Function) bool { return f == pack || f == reindex }
	loops := false
	for _, s := range packBody.calls(func(c CallSite) bool { return c.Callee() == fn }) {
		if s.inLoop() {
			loops = true
		}
	}
	for _, w := range writers {
		if w.kind != wholeKind {
			continue
		}
		if k, _ := c04OnlyCalledFrom(p, w.c.Fn, isReindex, 0); k {
			continue
		}
		nWhole++
		construct := FuncKey(w.c.Fn) + "#row " + w.kind
		frames := packBody.framesOf(w.c.Fn)
		if k, who := c04OnlyCalledFrom(p, w.c.Fn, isPackOrReindex, 0); !k || len(frames) == 0 {
			if who == "" {
				who = "code that pack does not call directly"
			}
			r.Violation(rule, construct, p.Pos(w.c.Pos()), "the whole-file row w:<wholeref> (which makes OpenWholeRef serve the file) is written outside (*packer).pack and reindex (reachable from "+who+")")
			continue
		}
		for _, fr := range frames {
			ok := packBody.factAt(c04Site{fr, w.c.Instr}, func(_ *c04Frame, cond ssa.Value, val bool) bool { return c04SaysChunksEmpty(cond, val) }, 0)
			// and some writeAZip call must be able to precede it (the loop exists)
			r.Check(ok && loops, rule, construct, p.Pos(w.c.Pos()),
				"whole-file row is written only after the zip loop exited (len(pk.chunksRemain) > 0 known false), every zip of the file having been written by writeAZip",
				"whole-file row is written where it is not known that all chunks have been written into zips (no dominating loop-exit fact on pk.chunksRemain): a partially packed file would be served as whole")
		}
	}
	if nWhole == 0 {
		r.Violation(rule, FuncKey(pack)+"#row "+wholeKind, p.Pos(pack.Pos()), "pack no longer writes the whole-file row")
	}
	// (e) who may remove from small
	n := 0
	isClient := func(f *ssa.Function) bool { return f == clientRemove }
	isEither := func(f *ssa.Function) bool { return f == fn || f == clientRemove }
	for _, f := range p.FuncsIn(c04Rel) {
		for _, c := range c04SmallRemoves(p, f) {
			n++
			construct := FuncKey(f) + "#small.RemoveBlobs"
			kClient, _ := c04OnlyCalledFrom(p, f, isClient, 0)
			kEither, who := c04OnlyCalledFrom(p, f, isEither, 0)
			switch {
			case kClient:
				// client-requested deletion: removing a loose copy on request is always allowed
				r.OKTable(rule, construct, p.Pos(c.Pos()), "client-requested deletion (the caller asked for these refs to go)")
			case kEither && body.has(f):
				r.OKTable(rule, construct, p.Pos(c.Pos()), "packer removal (writeAZip or a helper only it and the client-facing RemoveBlobs call); ordering checked above")
			case kEither:
				r.Undecided(rule, construct, p.Pos(c.Pos()), "small.RemoveBlobs is called in code that writeAZip runs deferred, spawned or through more than "+fmt.Sprint(c04MaxFrameDepth)+" nested helpers: its order after the commit is not followed")
			default:
				r.Violation(rule, construct, p.Pos(c.Pos()), "small.RemoveBlobs is called outside writeAZip and the client-facing RemoveBlobs (reachable from "+who+"): nothing orders this removal after a committed mapping")
			}
		}
	}
	r.Analysed("small_remove_sites", n)
	r.Analysed("writeAZip_batch_rows", nRows)
	r.Floor(rule, 9)
}

// c04SaysChunksEmpty: cond (with value val) implies len(pk.chunksRemain) == 0.
func c04SaysChunksEmpty(cond ssa.Value, val bool) bool {
	return c04SaysEmpty(cond, val, func(v ssa.Value) bool {
		ld, ok := v.(*ssa.UnOp)
		if !ok || ld.Op != token.MUL {
			return false
		}
		fa, ok := ld.X.(*ssa.FieldAddr)
		if !ok {
			return false
		}
		n := NamedOf(fa.X.Type())
		return n != nil && n.Obj().Name() == "packer" && fieldName(fa.X.Type(), fa.Field) == "chunksRemain"
	})
}

// c04SaysEmpty: cond (with value val) implies len(x) == 0 for an x accepted by subject.
func c04SaysEmpty(cond ssa.Value, val bool, subject func(ssa.Value) bool) bool {
	for {
		u, ok := cond.(*ssa.UnOp)
		if !ok || u.Op != token.NOT {
			break
		}
		cond, val = u.X, !val
	}
	bo, ok := cond.(*ssa.BinOp)
	if !ok {
		return false
	}
	isLen := func(v ssa.Value) bool {
		call, ok := v.(*ssa.Call)
		if !ok {
			return false
		}
		b, ok := call.Call.Value.(*ssa.Builtin)
		if !ok || b.Name() != "len" {
			return false
		}
		return subject(call.Call.Args[0])
	}
	eval := func(op token.Token, a, b int64) bool {
		switch op {
		case token.GTR:
			return a > b
		case token.GEQ:
			return a >= b
		case token.LSS:
			return a < b
		case token.LEQ:
			return a <= b
		case token.EQL:
			return a == b
		case token.NEQ:
			return a != b
		}
		return false
	}
	var at func(n int64) (bool, bool)
	if c, ok := ConstInt(bo.Y); ok && isLen(bo.X) {
		at = func(n int64) (bool, bool) { return eval(bo.Op, n, c), true }
	} else if c, ok := ConstInt(bo.X); ok && isLen(bo.Y) {
		at = func(n int64) (bool, bool) { return eval(bo.Op, c, n), true }
	} else {
		return false
	}
	// the fact must hold at len 0 and fail at every len 1..3 (so it means "empty")
	v0, _ := at(0)
	if v0 != val {
		return false
	}
	for n := int64(1); n <= 3; n++ {
		if v, _ := at(n); v == val {
			return false
		}
	}
	return true
}

// ---------------------------------------------------------------------------
// row-state assumptions: what a branch condition says about the row fetched by
// one getMetaRow call

// c04Lookup is one `m, err := s.getMetaRow(ref)` call in an effective body.
type c04Lookup struct {
	body  *c04Body
	site  c04Site
	call  *ssa.Call
	ref   ssa.Value          // the looked-up ref (a value of site.fr)
	row   ssa.Value          // extract #0 (the meta value), may be nil
	cells map[ssa.Value]bool // locals (of any function of the body) that hold the row
}

func c04Lookups(p *Program, body *c04Body) []*c04Lookup {
	gm := p.Func(c04Rel, "storage", "getMetaRow")
	var out []*c04Lookup
	for _, s := range body.calls(func(c CallSite) bool { return c.Callee() == gm && c.Value() != nil }) {
		c := s.call()
		lk := &c04Lookup{body: body, site: s, call: c.Value(), ref: c.Common().Args[1], cells: map[ssa.Value]bool{}}
		lk.row = ResultValue(c.Value(), 0)
		if lk.row != nil {
			if refs := lk.row.Referrers(); refs != nil {
				for _, u := range *refs {
					if st, ok := u.(*ssa.Store); ok && st.Val == lk.row {
						lk.cells[st.Addr] = true
					}
				}
			}
			// copies: a local that is only ever assigned the row (a helper's
			// parameter spilled to a local, `m2 := m`)
			for round := 0; round < c04MaxFrameDepth; round++ {
				grew := false
				byAddr := map[ssa.Value][]*ssa.Store{}
				body.instrs(func(fr *c04Frame, in ssa.Instruction) {
					if st, ok := in.(*ssa.Store); ok {
						if _, isAl := st.Addr.(*ssa.Alloc); isAl {
							byAddr[st.Addr] = append(byAddr[st.Addr], st)
						}
					}
				})
				for addr, sts := range byAddr {
					if lk.cells[addr] {
						continue
					}
					all := true
					for _, st := range sts {
						if !lk.isRowVal(st.Val, 0) {
							all = false
						}
					}
					if all {
						lk.cells[addr] = true
						grew = true
					}
				}
				if !grew {
					break
				}
			}
		}
		out = append(out, lk)
	}
	return out
}

// isCell: addr is the address of a local that holds the row (or a pointer
// parameter of a helper to which every caller passes such an address).
func (lk *c04Lookup) isCell(addr ssa.Value) bool {
	if lk.cells[addr] {
		return true
	}
	if prm, ok := addr.(*ssa.Parameter); ok {
		args := lk.body.argsOf(prm)
		for _, a := range args {
			if !lk.isCell(a) {
				return false
			}
		}
		return len(args) > 0
	}
	return false
}

// isRowVal: v is the row value itself (the lookup's result, a load of a cell,
// or a parameter of a helper to which every caller passes the row).
func (lk *c04Lookup) isRowVal(v ssa.Value, depth int) bool {
	if v == nil || lk.row == nil || depth > c04MaxFrameDepth {
		return false
	}
	if v == lk.row {
		return true
	}
	switch x := v.(type) {
	case *ssa.UnOp:
		if x.Op == token.MUL && lk.isCell(x.X) {
			return true
		}
	case *ssa.Parameter:
		args := lk.body.argsOf(x)
		for _, a := range args {
			if !lk.isRowVal(a, depth+1) {
				return false
			}
		}
		return len(args) > 0
	}
	if o := originValue(v); o != v {
		return lk.isRowVal(o, depth+1)
	}
	return false
}

// rowField reports which field of the looked-up row v reads ("" if none).
func (lk *c04Lookup) rowField(v ssa.Value) string {
	switch x := v.(type) {
	case *ssa.UnOp:
		if x.Op != token.MUL {
			return ""
		}
		fa, ok := x.X.(*ssa.FieldAddr)
		if !ok || !lk.isCell(fa.X) {
			return ""
		}
		return fieldName(fa.X.Type(), fa.Field)
	case *ssa.Field:
		if lk.isRowVal(x.X, 0) {
			return fieldName(x.X.Type(), x.Field)
		}
	}
	return ""
}

// says interprets a branch condition as a statement about the row:
// what == "packed" or "exists"; val is the truth value it has when cond is true.
func (lk *c04Lookup) says(p *Program, cond ssa.Value) (what string, positive bool) {
	positive = true
	for {
		u, ok := cond.(*ssa.UnOp)
		if !ok || u.Op != token.NOT {
			break
		}
		cond, positive = u.X, !positive
	}
	if f := lk.rowField(cond); f == "exists" {
		return "exists", positive
	}
	call, ok := cond.(*ssa.Call)
	if !ok {
		return "", false
	}
	c := CallSite{call.Parent(), call}
	if isp := p.LookupFunc(c04Rel, "meta", "isPacked"); isp != nil && c.Callee() == isp && lk.isCell(call.Call.Args[0]) {
		return "packed", positive
	}
	if c.IsStatic(c04BlobPkg, "Ref", "Valid") && lk.rowField(call.Call.Args[0]) == "largeRef" {
		return "packed", positive
	}
	return "", false
}

// assume returns the pruning function for "the row exists and is packed"
// (packed=true) or "the row is not packed" (packed=false).
func (lk *c04Lookup) assume(p *Program, packed bool) func(ssa.Value) (bool, bool) {
	return func(cond ssa.Value) (bool, bool) {
		what, pos := lk.says(p, cond)
		switch what {
		case "packed":
			return true, pos == packed
		case "exists":
			if packed {
				return true, pos
			}
		}
		return false, false
	}
}

// notExists is the pruning function for "the ref has no meta row".
func (lk *c04Lookup) notExists(p *Program) func(ssa.Value) (bool, bool) {
	return func(cond ssa.Value) (bool, bool) {
		if what, pos := lk.says(p, cond); what == "exists" || what == "packed" {
			return true, !pos
		}
		return false, false
	}
}

// reach: the sites reachable from (after) start in the effective body, with
// branch pruning (assume may decide an If condition) and barriers (a path
// ends at a site accepted by barrier). Helper calls are entered; the walk
// continues after a helper call only if some return of the helper is
// reachable, and, when only returns with a non-nil error are, under the
// assumption that the call's error is non-nil (so the caller's `if err != nil`
// is followed on the error side only and `check(err)` ends the path). When
// the function start lies in returns, the walk continues after its call in
// the caller in the same way.
func (b *c04Body) reach(start c04Site, assume func(cond ssa.Value) (known, val bool), barrier func(s c04Site) bool) map[c04Site]bool {
	out := map[c04Site]bool{}
	type key struct {
		fr   *c04Frame
		b    *ssa.BasicBlock
		mode *ssa.Call
	}
	type kinds struct{ err, maybeOK, done bool }
	seen := map[key]bool{}
	onChain := map[*c04Frame]bool{}
	for f := start.fr; f != nil; f = f.parent {
		onChain[f] = true
	}
	type kidKey struct {
		fr   *c04Frame
		mode *ssa.Call
	}
	reached := map[kidKey]*kinds{}
	errOnly := map[*ssa.Function]map[*ssa.Return]bool{}
	isErrOnly := func(fn *ssa.Function, ret *ssa.Return) bool {
		m, ok := errOnly[fn]
		if !ok {
			m = map[*ssa.Return]bool{}
			if ErrResultIndex(fn) >= 0 {
				maybe := map[*ssa.Return]bool{}
				for _, nr := range MaybeNilErrorReturns(fn) {
					maybe[nr.Ret] = true
				}
				for _, ri := range Returns(fn) {
					if !maybe[ri.Ret] {
						m[ri.Ret] = true
					}
				}
			}
			errOnly[fn] = m
		}
		return m[ret]
	}
	// mode: the call whose error result is assumed non-nil on this path (nil: none)
	var walk func(fr *c04Frame, blk *ssa.BasicBlock, from int, mode *ssa.Call, cur *kinds)
	after := func(fr *c04Frame, ci ssa.CallInstruction, failed bool, cur *kinds) {
		var mode *ssa.Call
		if call, ok := ci.(*ssa.Call); ok && failed {
			mode = call
		}
		walk(fr, ci.Block(), instrIndex(ci)+1, mode, cur)
	}
	walk = func(fr *c04Frame, blk *ssa.BasicBlock, from int, mode *ssa.Call, cur *kinds) {
		var failedVals []ssa.Value
		if mode != nil {
			failedVals, _, _ = c04ErrAliases(mode)
		}
		for i := from; i < len(blk.Instrs); i++ {
			in := blk.Instrs[i]
			s := c04Site{fr, in}
			if barrier != nil && barrier(s) {
				return
			}
			out[s] = true
			if mode != nil && in == ssa.Instruction(mode) {
				// the call is executed again: what was assumed about its previous result no longer holds
				walk(fr, blk, i, nil, cur)
				return
			}
			if ci, ok := in.(*ssa.Call); ok {
				// the failed error handed to a function that returns only when it is nil
				if f := ci.Call.StaticCallee(); f != nil && mode != nil && InModule(f) && f.Blocks != nil && len(f.Params) == len(ci.Call.Args) {
					dead := false
					for ai, a := range ci.Call.Args {
						for _, fv := range failedVals {
							if fv != nil && a == fv && c04ReturnsOnlyIfNil(f, f.Params[ai]) {
								dead = true
							}
						}
					}
					if dead {
						return
					}
				}
				if kid := fr.kids[ci]; kid != nil && len(kid.fn.Blocks) > 0 {
					kk := kidKey{kid, mode}
					k := reached[kk]
					if k == nil {
						k = &kinds{}
						reached[kk] = k
						seen[key{kid, kid.fn.Blocks[0], mode}] = true
						walk(kid, kid.fn.Blocks[0], 0, mode, k)
						k.done = true
					} else if !k.done {
						k = &kinds{err: true, maybeOK: true} // recursion in progress: assume anything
					}
					switch {
					case !k.err && !k.maybeOK:
						return // every path through the helper ends at a barrier, a pruned branch or a panic
					case k.err && !k.maybeOK:
						after(fr, ci, true, cur)
						return
					}
				}
			}
			if ret, ok := in.(*ssa.Return); ok {
				failed := isErrOnly(fr.fn, ret)
				if cur != nil {
					if failed {
						cur.err = true
					} else {
						cur.maybeOK = true
					}
				}
				if onChain[fr] && fr.parent != nil && cur == nil {
					after(fr.parent, fr.call, failed, nil)
				}
			}
		}
		succs := blk.Succs
		if n := len(blk.Instrs); n > 0 {
			if ifi, ok := blk.Instrs[n-1].(*ssa.If); ok && len(blk.Succs) == 2 {
				decided := false
				if assume != nil {
					if k, val := assume(ifi.Cond); k {
						decided = true
						if val {
							succs = blk.Succs[:1]
						} else {
							succs = blk.Succs[1:2]
						}
					}
				}
				if !decided {
					for _, fv := range failedVals {
						if fv == nil {
							continue
						}
						// cond == true would mean "fv is nil" (isNil) or "fv is non-nil": fv is non-nil
						if k, isNil := c04CondSaysNil(ifi.Cond, true, fv); k {
							if isNil {
								succs = blk.Succs[1:2]
							} else {
								succs = blk.Succs[:1]
							}
							break
						}
					}
				}
			}
		}
		for _, sc := range succs {
			k := key{fr, sc, mode}
			if !seen[k] {
				seen[k] = true
				walk(fr, sc, 0, mode, cur)
			}
		}
	}
	walk(start.fr, start.in.Block(), instrIndex(start.in)+1, nil, nil)
	return out
}

// c04CellOfAddr: the variable an address denotes, also through a pointer
// parameter of a helper to which every static caller passes the address of one
// and the same variable.
func c04CellOfAddr(p *Program, addr ssa.Value, depth int) (ssa.Value, bool) {
	if cell, ok := varOf(addr); ok {
		if _, isFV := cell.(*ssa.FreeVar); !isFV {
			return cell, true
		}
	}
	prm, ok := addr.(*ssa.Parameter)
	if !ok || depth > c04MaxFrameDepth || !c04IsHelper(prm.Parent()) || len(p.FuncValueUses(prm.Parent())) > 0 {
		return nil, false
	}
	f := prm.Parent()
	var cell ssa.Value
	for _, c := range p.StaticCallers(f) {
		args := c.Common().Args
		if len(args) != len(f.Params) {
			return nil, false
		}
		for i, fp := range f.Params {
			if fp != prm {
				continue
			}
			c2, ok := c04CellOfAddr(p, args[i], depth+1)
			if !ok || cell != nil && c2 != cell {
				return nil, false
			}
			cell = c2
		}
	}
	return cell, cell != nil
}

// c04StoresToCell: storesTo plus the stores helpers make through a pointer
// parameter that denotes the variable.
func c04StoresToCell(p *Program, cell ssa.Value) []*ssa.Store {
	out := storesTo(cell)
	for _, f := range p.FuncsIn(c04Rel) {
		for _, b := range f.Blocks {
			for _, in := range b.Instrs {
				st, ok := in.(*ssa.Store)
				if !ok {
					continue
				}
				if _, isPrm := st.Addr.(*ssa.Parameter); !isPrm {
					continue
				}
				if c2, ok := c04CellOfAddr(p, st.Addr, 0); ok && c2 == cell {
					out = append(out, st)
				}
			}
		}
	}
	return out
}

// c04FilteredSlice checks that the []blob.Ref value arg (of frame fr) is a
// slice variable all of whose contents are refs appended, in code that looked
// them up with getMetaRow, on paths that are impossible when that row exists
// and is packed. bodies: the effective bodies of the entry point and of its
// function literals (the contexts an append may run in).
func c04FilteredSlice(p *Program, bodies []*c04Body, fr *c04Frame, arg ssa.Value) (bool, string) {
	_, arg = c04Up(fr, arg)
	ld, ok := arg.(*ssa.UnOp)
	if !ok || ld.Op != token.MUL {
		return false, "the refs argument is not a local slice variable filled from meta lookups"
	}
	cell, ok := c04CellOfAddr(p, ld.X, 0)
	if !ok {
		return false, "the refs argument is not a local slice variable filled from meta lookups"
	}
	stores := c04StoresToCell(p, cell)
	if len(stores) == 0 {
		return false, "the slice variable is never appended to"
	}
	for _, st := range stores {
		app, ok := st.Val.(*ssa.Call)
		if !ok {
			return false, fmt.Sprintf("store at line %d is not an append", c04Line(p, st.Pos()))
		}
		if b, ok := app.Call.Value.(*ssa.Builtin); !ok || b.Name() != "append" || len(app.Call.Args) != 2 {
			return false, fmt.Sprintf("store at line %d is not an append", c04Line(p, st.Pos()))
		}
		if base, ok := app.Call.Args[0].(*ssa.UnOp); !ok || base.Op != token.MUL {
			return false, fmt.Sprintf("append at line %d does not extend the variable itself", c04Line(p, st.Pos()))
		} else if bc, ok := c04CellOfAddr(p, base.X, 0); !ok || bc != cell {
			return false, fmt.Sprintf("append at line %d does not extend the variable itself", c04Line(p, st.Pos()))
		}
		elems, ok := c04VarargElems(app.Call.Args[1])
		if !ok {
			return false, fmt.Sprintf("append at line %d adds a whole slice, not individually looked-up refs", c04Line(p, st.Pos()))
		}
		// every context the append runs in
		nCtx := 0
		for _, body := range bodies {
			lks := c04Lookups(p, body)
			for _, sfr := range body.framesOf(st.Parent()) {
				nCtx++
				at := c04Site{sfr, st}
				for _, e := range elems {
					good := false
					for _, lk := range lks {
						if !c04SameIn(sfr, e, lk.site.fr, lk.ref) || !body.precedes(lk.site, at) {
							continue
						}
						if !body.reach(lk.site, lk.assume(p, true), nil)[at] {
							good = true
						}
					}
					if !good {
						return false, fmt.Sprintf("the ref appended at line %d is not one whose meta row was looked up and found absent/not packed on every path to the append", c04Line(p, st.Pos()))
					}
				}
			}
		}
		if nCtx == 0 {
			return false, fmt.Sprintf("the append at line %d is in code the entry point and its callbacks do not call directly", c04Line(p, st.Pos()))
		}
	}
	return true, fmt.Sprintf("%d append site(s), each unreachable once the ref's own row exists and is packed", len(stores))
}

// ---------------------------------------------------------------------------
// Z-read

// c04ReadRoots: the effective bodies in which an entry point's code runs: the
// entry point, and each function literal nested in it that is not called
// directly (a literal that is called directly is part of its caller's body).
func c04ReadRoots(top *ssa.Function) []*c04Body {
	out := []*c04Body{c04BodyOf(top)}
	var collect func(f *ssa.Function)
	collect = func(f *ssa.Function) {
		for _, a := range f.AnonFuncs {
			inSome := false
			for _, b := range out {
				if b.has(a) {
					inSome = true
				}
			}
			if !inSome {
				out = append(out, c04BodyOf(a))
			}
			collect(a)
		}
	}
	collect(top)
	// literals of the helpers that run as part of those bodies
	for i := 0; i < len(out); i++ {
		for _, fr := range out[i].frames {
			if fr.parent == nil {
				continue
			}
			for _, a := range fr.fn.AnonFuncs {
				inSome := false
				for _, b := range out {
					if b.has(a) {
						inSome = true
					}
				}
				if !inSome {
					out = append(out, c04BodyOf(a))
				}
			}
		}
	}
	return out
}

func c04ZRead(p *Program, r *Reporter) {
	const rule = "Z-read"
	nSmall, nLarge := 0, 0
	for _, name := range []string{"Fetch", "SubFetch", "StatBlobs"} {
		top := p.Func(c04Rel, "storage", name)
		bodies := c04ReadRoots(top)
		// the caller-supplied offset of a ranged read: the first integer parameter of the entry point
		var offsetPrm *ssa.Parameter
		if name == "SubFetch" {
			for _, prm := range top.Params {
				if b, isB := prm.Type().Underlying().(*types.Basic); isB && b.Info()&types.IsInteger != 0 {
					offsetPrm = prm
					break
				}
			}
		}
		sawSmall, sawLarge, sawLookup := false, false, false
		for _, body := range bodies {
			fn := body.root.fn
			lks := c04Lookups(p, body)
			if len(lks) > 0 {
				sawLookup = true
			}
			for _, s := range body.calls(nil) {
				c := s.call()
				role := ""
				cc := c.Common()
				if cc.IsInvoke() {
					role = c04RoleIn(s.fr, cc.Value)
				} else {
					if cal := c.Callee(); c04IsHelper(cal) && s.fr.kids[c.Instr] != nil {
						continue // entered: its calls are sites of their own
					}
					for _, a := range cc.Args {
						if ro := c04RoleIn(s.fr, a); ro == "small" || ro == "large" {
							role = ro
						}
					}
				}
				if role != "small" && role != "large" {
					continue
				}
				construct := FuncKey(fn) + "#" + role + "." + c.MethodName()
				site := p.Pos(c.Pos())
				var refArg ssa.Value
				for _, a := range cc.Args {
					if (c04IsRef(a.Type()) || c04IsRefSlice(a.Type())) && refArg == nil {
						refArg = a
					}
				}
				if refArg == nil {
					r.Undecided(rule, construct, site, "call into "+role+" without a blob ref argument: cannot relate it to a meta row")
					continue
				}
				if role == "small" {
					nSmall++
					sawSmall = true
					if c04IsRefSlice(refArg.Type()) {
						ok, detail := c04FilteredSlice(p, bodies, s.fr, refArg)
						r.Check(ok, rule, construct, site, "refs handed to small: "+detail,
							"refs handed to small are not restricted to those missing from the meta index ("+detail+"): a packed blob would be looked up (and reported) a second time in small")
						continue
					}
					ok, detail := false, "no getMetaRow lookup of the same ref precedes the call"
					for _, lk := range lks {
						if !c04SameIn(lk.site.fr, lk.ref, s.fr, refArg) || !body.precedes(lk.site, s) {
							continue
						}
						if body.reach(lk.site, lk.assume(p, true), nil)[s] {
							detail = "the call is reachable although the row of the same ref exists and is packed"
						} else {
							ok, detail = true, "unreachable once getMetaRow of the same ref says the row exists and is packed"
							break
						}
					}
					r.Check(ok, rule, construct, site, detail, "call into small: "+detail+" (after packing the loose copy is gone, so the blob would be reported missing)")
					continue
				}
				// large
				nLarge++
				sawLarge = true
				ok, detail := false, "no getMetaRow lookup precedes the call"
				for _, lk := range lks {
					lk := lk
					if !body.precedes(lk.site, s) {
						continue
					}
					if body.reach(lk.site, lk.assume(p, false), nil)[s] {
						detail = "the call is reachable although the row is not packed"
						continue
					}
					from := func(field string) func(ssa.Value) bool {
						return func(x ssa.Value) bool { return lk.rowField(x) == field }
					}
					if !c04DependsIn(body, refArg, from("largeRef"), false) || c04SameIn(s.fr, refArg, lk.site.fr, lk.ref) {
						detail = "the ref read from large is not the row's zip ref (m.largeRef)"
						continue
					}
					var ints []ssa.Value
					for _, a := range cc.Args {
						if b, isB := a.Type().Underlying().(*types.Basic); isB && b.Info()&types.IsInteger != 0 {
							ints = append(ints, a)
						}
					}
					if len(ints) == 2 {
						if !c04DependsIn(body, ints[0], from("largeOff"), false) {
							detail = "the offset read from large does not depend on the row's offset (m.largeOff)"
							continue
						}
						if !c04DependsIn(body, ints[1], from("size"), false) {
							detail = "the length read from large is not bounded by the row's size (m.size): bytes of neighbouring blobs in the zip would be returned"
							continue
						}
						// a caller-supplied offset must be honoured
						if offsetPrm != nil && !c04DependsIn(body, ints[0], func(x ssa.Value) bool { return x == ssa.Value(offsetPrm) }, false) {
							detail = "the offset read from large ignores the caller's offset parameter"
							continue
						}
					}
					ok, detail = true, "unreachable when the row is not packed; ref, offset and length come from the row of the looked-up ref"
					break
				}
				r.Check(ok, rule, construct, site, detail, "call into large: "+detail)
			}
		}
		if !sawLookup {
			r.Violation(rule, FuncKey(top)+"#getMetaRow", p.Pos(top.Pos()), "no meta lookup: the read path cannot tell packed from loose blobs")
		}
		if !sawSmall {
			r.Violation(rule, FuncKey(top)+"#small", p.Pos(top.Pos()), "the read path never consults small: blobs not yet packed become invisible")
		}
		if !sawLarge && name != "StatBlobs" {
			r.Violation(rule, FuncKey(top)+"#large", p.Pos(top.Pos()), "the read path never consults large: packed blobs become invisible")
		}
	}
	r.Analysed("small_read_calls", nSmall)
	r.Analysed("large_read_calls", nLarge)

	c04StatAnswer(p, r)
	c04RecvAck(p, r)
	c04Enumerate(p, r)
	r.Floor(rule, 9)
}

// c04LeafReturns: the returns of the frame's function, with `return h(...)`
// of a helper of the body replaced by the helper's own returns.
type c04FrameReturn struct {
	fr *c04Frame
	ri ReturnInfo
}

func c04LeafReturns(fr *c04Frame, depth int) []c04FrameReturn {
	var out []c04FrameReturn
	for _, ri := range Returns(fr.fn) {
		var call *ssa.Call
		fwd := len(ri.Results) > 0 && depth < c04MaxFrameDepth
		for i, v := range ri.Results {
			switch x := v.(type) {
			case *ssa.Extract:
				c, isC := x.Tuple.(*ssa.Call)
				if !isC || x.Index != i || call != nil && c != call {
					fwd = false
				}
				call = c
			case *ssa.Call:
				if len(ri.Results) != 1 {
					fwd = false
				}
				call = x
			default:
				fwd = false
			}
		}
		if fwd && call != nil && fr.kids[call] != nil {
			out = append(out, c04LeafReturns(fr.kids[call], depth+1)...)
			continue
		}
		out = append(out, c04FrameReturn{fr, ri})
	}
	return out
}

// c04StatAnswer: the stat callback answers from the row only when it exists,
// with the row's size and the looked-up ref.
func c04StatAnswer(p *Program, r *Reporter) {
	const rule = "Z-read"
	top := p.Func(c04Rel, "storage", "StatBlobs")
	found := false
	for _, body := range c04ReadRoots(top) {
		fn := body.root.fn
		if fn == top {
			continue
		}
		lks := c04Lookups(p, body)
		if len(lks) != 1 {
			continue
		}
		lk := lks[0]
		found = true
		construct := FuncKey(fn) + "#stat-from-row"
		ok, detail := true, ""
		n := 0
		for _, lr := range c04LeafReturns(body.root, 0) {
			ri := lr.ri
			if len(ri.Results) != 2 || !IsNilConst(ri.Results[1]) {
				continue
			}
			if c, isC := ri.Results[0].(*ssa.Const); isC && c.Value == nil {
				continue // zero SizedRef: "not here, try small"
			}
			n++
			if !c04DependsIn(body, ri.Results[0], func(x ssa.Value) bool { return lk.rowField(x) == "size" }, false) {
				ok, detail = false, fmt.Sprintf("the answer returned at line %d does not carry the row's size", c04Line(p, ri.Ret.Pos()))
			}
			// must be impossible when the row does not exist
			if body.reach(lk.site, lk.notExists(p), nil)[c04Site{lr.fr, ri.Ret}] {
				ok, detail = false, fmt.Sprintf("the answer returned at line %d is reachable when the ref has no meta row", c04Line(p, ri.Ret.Pos()))
			}
		}
		if n == 0 {
			ok, detail = false, "the stat callback never answers from the meta row: packed blobs are not stat-able"
		}
		r.Check(ok, rule, construct, p.Pos(fn.Pos()), fmt.Sprintf("%d answer(s) from the meta row, each only when the row exists and with the row's size", n), detail)
	}
	if !found {
		r.Undecided(rule, FuncKey(top)+"#stat-from-row", p.Pos(top.Pos()), "no callback with exactly one getMetaRow lookup found in StatBlobs")
	}
}

// c04RecvAck: ReceiveBlob acknowledges only if the row exists or small.ReceiveBlob succeeded.
func c04RecvAck(p *Program, r *Reporter) {
	const rule = "Z-read"
	fn := p.Func(c04Rel, "storage", "ReceiveBlob")
	body := c04BodyOf(fn)
	lks := c04Lookups(p, body)
	var smallRecv []c04Site
	for _, s := range c04RoleInvokes(body, "small", "ReceiveBlob") {
		if s.call().Value() != nil {
			smallRecv = append(smallRecv, s)
		}
	}
	construct := FuncKey(fn) + "#ack"
	if len(lks) == 0 || len(smallRecv) == 0 {
		r.Violation(rule, construct, p.Pos(fn.Pos()), "ReceiveBlob has no meta lookup or never stores into small")
		return
	}
	lk := lks[0]
	isRecv := func(s c04Site) bool {
		for _, sr := range smallRecv {
			if s == sr {
				return true
			}
		}
		return false
	}
	ok, detail, n := true, "", 0
	for _, nr := range MaybeNilErrorReturns(fn) {
		n++
		good := false
		for _, sr := range smallRecv {
			if sr.fr != body.root {
				continue
			}
			if ev, _, _ := ErrValue(sr.call().Value()); ev != nil && sameOrigin(nr.Val, ev) {
				good = true // returns small's own error
			}
		}
		if good {
			continue
		}
		// under "row does not exist" the return must be unreachable from the lookup without a successful small receive
		last := c04Site{body.root, nr.From.Instrs[len(nr.From.Instrs)-1]}
		if !body.reach(lk.site, lk.notExists(p), nil)[last] {
			continue
		}
		viaSmall := false
		for _, sr := range smallRecv {
			if k, _ := body.successAt(sr, last); k {
				viaSmall = true
			}
		}
		// a path merging "exists" and "received" branches: every predecessor path without a row must pass the receive
		if !viaSmall && !body.reach(lk.site, lk.notExists(p), isRecv)[last] {
			viaSmall = true
		}
		if !viaSmall {
			ok, detail = false, fmt.Sprintf("the success return at line %d is reachable with no meta row and without small.ReceiveBlob having been called", c04Line(p, nr.Ret.Pos()))
		}
	}
	if n == 0 {
		ok, detail = false, "no success return found"
	}
	// the error of small.ReceiveBlob must not be dropped
	for _, sr := range smallRecv {
		if _, _, discarded := ErrValue(sr.call().Value()); discarded {
			ok, detail = false, "the error of small.ReceiveBlob is discarded"
		}
	}
	r.Check(ok, rule, construct, p.Pos(fn.Pos()), fmt.Sprintf("%d possibly-successful return(s): each needs an existing row or passes small.ReceiveBlob whose error is checked", n), detail)
}

// c04Enumerate: EnumerateBlobs merges exactly small and the b: enumerator.
func c04Enumerate(p *Program, r *Reporter) {
	const rule = "Z-read"
	fn := p.Func(c04Rel, "storage", "EnumerateBlobs")
	body := c04BodyOf(fn)
	construct := FuncKey(fn) + "#merged-sources"
	merged := body.calls(func(c CallSite) bool {
		f := c.Callee()
		return f != nil && f.Pkg != nil && f.Pkg.Pkg.Path() == c04BSPkg && strings.HasPrefix(f.Name(), "MergedEnumerate")
	})
	if len(merged) != 1 {
		r.Violation(rule, construct, p.Pos(fn.Pos()), fmt.Sprintf("EnumerateBlobs has %d blobserver.MergedEnumerate* calls, want 1", len(merged)))
		return
	}
	c := merged[0]
	var srcs []ssa.Value
	srcFr := c.fr
	okList := false
	for _, a := range c.call().Common().Args {
		if _, isSl := a.Type().Underlying().(*types.Slice); isSl {
			fr2, v := c04Up(c.fr, a)
			srcFr = fr2
			srcs, okList = c04VarargElems(originValue(v))
		}
	}
	if !okList {
		r.Undecided(rule, construct, p.Pos(c.in.Pos()), "the source list of MergedEnumerate is not a slice literal")
		return
	}
	nSmall, nEnum, other := 0, 0, 0
	enumT := p.NamedType(c04Rel, "enumerator")
	for _, s := range srcs {
		switch {
		case c04RoleIn(srcFr, s) == "small":
			nSmall++
		case types.Identical(c04StripIfaceOnly(s).Type(), enumT):
			nEnum++
		default:
			other++
		}
	}
	r.Check(nSmall == 1 && nEnum == 1 && other == 0, rule, construct, p.Pos(c.in.Pos()),
		"MergedEnumerate over exactly {s.small, enumerator{s}} (loose blobs and the b: rows)",
		fmt.Sprintf("MergedEnumerate sources are small×%d, b:-row enumerator×%d, other×%d; want exactly one of each of the first two: a missing source hides blobs, an extra one (e.g. large) lists zips as if they were logical blobs", nSmall, nEnum, other))
}

// ---------------------------------------------------------------------------
// Z-size

// c04LeqFact: does cond (with truth value val) imply x <= y, where isX
// recognises x? Returns y.
func c04LeqFact(cond ssa.Value, val bool, isX func(ssa.Value) bool) (ssa.Value, bool) {
	for {
		u, ok := cond.(*ssa.UnOp)
		if !ok || u.Op != token.NOT {
			break
		}
		cond, val = u.X, !val
	}
	bo, ok := cond.(*ssa.BinOp)
	if !ok {
		return nil, false
	}
	switch {
	case isX(bo.X):
		// x OP y
		if (bo.Op == token.GTR || bo.Op == token.GEQ) && !val || (bo.Op == token.LEQ || bo.Op == token.LSS) && val {
			return bo.Y, true
		}
	case isX(bo.Y):
		// y OP x
		if (bo.Op == token.LSS || bo.Op == token.LEQ) && !val || (bo.Op == token.GEQ || bo.Op == token.GTR) && val {
			return bo.X, true
		}
	}
	return nil, false
}

// c04FrameNear: the activation a value belongs to: the frame of its function
// on the chain from `near` upwards, else the first frame of that function.
func (b *c04Body) frameNear(v ssa.Value, near *c04Frame) *c04Frame {
	var fn *ssa.Function
	switch x := v.(type) {
	case ssa.Instruction:
		fn = x.Parent()
	case *ssa.Parameter:
		fn = x.Parent()
	case *ssa.FreeVar:
		fn = x.Parent()
	}
	if fn == nil {
		return near
	}
	for f := near; f != nil; f = f.parent {
		if f.fn == fn {
			return f
		}
	}
	if fs := b.framesOf(fn); len(fs) > 0 {
		return fs[0]
	}
	return near
}

// c04BoundLeaves resolves an integer bound to the values it may take:
// constants, loads of struct fields, anything else ("other"); through locals,
// phis, helpers' parameters and the results of package functions.
type c04BoundLeaf struct {
	konst *int64
	field string // "Type.field" for a struct field load
	other ssa.Value
}

func c04BoundLeaves(fr *c04Frame, v ssa.Value, depth int, seen map[ssa.Value]bool) []c04BoundLeaf {
	if v == nil || depth > 12 || seen[v] {
		return nil
	}
	seen[v] = true
	fr, v = c04Up(fr, v)
	o := originValue(v)
	if c, ok := ConstInt(o); ok {
		return []c04BoundLeaf{{konst: &c}}
	}
	switch x := o.(type) {
	case *ssa.Convert:
		return c04BoundLeaves(fr, x.X, depth+1, seen)
	case *ssa.Phi:
		var out []c04BoundLeaf
		for _, e := range x.Edges {
			out = append(out, c04BoundLeaves(fr, e, depth+1, seen)...)
		}
		return out
	case *ssa.UnOp:
		if x.Op == token.MUL {
			if id, ok := c04FieldOf(x.X); ok {
				return []c04BoundLeaf{{field: id.String()}}
			}
			if al, ok := x.X.(*ssa.Alloc); ok && plainVariable(al) {
				var out []c04BoundLeaf
				for _, st := range storesTo(al) {
					out = append(out, c04BoundLeaves(fr, st.Val, depth+1, seen)...)
				}
				if len(out) > 0 {
					return out
				}
			}
		}
	case *ssa.Call:
		if f := (CallSite{x.Parent(), x}).Callee(); f != nil && InModule(f) && f.Blocks != nil && f.Signature.Results().Len() == 1 {
			var out []c04BoundLeaf
			var kid *c04Frame
			if fr != nil {
				kid = fr.kids[x]
			}
			for _, ri := range Returns(f) {
				if kid != nil {
					out = append(out, c04BoundLeaves(kid, ri.Results[0], depth+1, seen)...)
				} else {
					out = append(out, c04BoundLeaves(nil, ri.Results[0], depth+1, seen)...)
				}
			}
			if len(out) > 0 {
				return out
			}
		}
	}
	return []c04BoundLeaf{{other: o}}
}

func c04ZSize(p *Program, r *Reporter) {
	const rule = "Z-size"
	fn := p.Func(c04Rel, "packer", "writeAZip")
	maxFn := p.LookupFunc(c04Rel, "storage", "maxZipBlobSize")
	key := FuncKey(fn)
	body := c04BodyOf(fn)
	capObj, _ := p.Pkg("pkg/constants").Types.Scope().Lookup("MaxBlobSize").(*types.Const)
	if capObj == nil {
		brokenf("anchor unresolved: pkg/constants.MaxBlobSize")
	}
	capV, _ := constant.Int64Val(capObj.Val())
	const overrideField = "storage.forceMaxZipBlobSize"
	n := 0
	for _, rc := range c04LargeReceives(body) {
		n++
		construct := key + "#" + rc.c.CalleeKey() + "#size-bound"
		site := p.Pos(rc.c.Pos())
		if rc.reader == nil {
			r.Undecided(rule, construct, site, "cannot identify the source argument of the receive into large")
			continue
		}
		// the buffers whose Bytes() feed the received reader
		var bufs []ssa.Value
		c04DependsIn(body, rc.reader, func(x ssa.Value) bool {
			if call, ok := x.(*ssa.Call); ok {
				if (CallSite{call.Parent(), call}).IsStatic("bytes", "Buffer", "Bytes") {
					dup := false
					for _, b := range bufs {
						if c04SameIn(body.frameNear(b, rc.site.fr), b, body.frameNear(call, rc.site.fr), call.Call.Args[0]) {
							dup = true
						}
					}
					if !dup {
						bufs = append(bufs, call.Call.Args[0])
					}
				}
			}
			return false
		}, false)
		if len(bufs) != 1 {
			r.Undecided(rule, construct, site, fmt.Sprintf("the bytes received into large come from %d bytes.Buffer values; the rule follows exactly one", len(bufs)))
			continue
		}
		buf := bufs[0]
		bufFr := body.frameNear(buf, rc.site.fr)
		ok, detail := false, "no dominating comparison of the buffer's Len() that bounds it at the receive"
		var cmp c04Site
		bounded := body.factAt(rc.site, func(ffr *c04Frame, cond ssa.Value, val bool) bool {
			isLen := func(x ssa.Value) bool {
				call, ok := x.(*ssa.Call)
				return ok && (CallSite{call.Parent(), call}).IsStatic("bytes", "Buffer", "Len") && c04SameIn(ffr, call.Call.Args[0], bufFr, buf)
			}
			y, is := c04LeqFact(cond, val, isLen)
			if !is {
				return false
			}
			// the bound: every value it may take is the test override or a constant within the blob size limit
			leaves := c04BoundLeaves(ffr, y, 0, map[ssa.Value]bool{})
			bad := ""
			for _, lf := range leaves {
				switch {
				case lf.konst != nil:
					if *lf.konst > capV || *lf.konst <= 0 {
						bad = fmt.Sprintf("the buffer's Len() is bounded by the constant %d, outside (0, constants.MaxBlobSize=%d]", *lf.konst, capV)
					}
				case lf.field == overrideField:
				default:
					bad = "the buffer's Len() is compared, but not against the result of (*storage).maxZipBlobSize (a constant within constants.MaxBlobSize or the test override)"
				}
			}
			if len(leaves) == 0 {
				bad = "the bound of the comparison cannot be followed"
			}
			if bad != "" {
				detail = bad
				return false
			}
			if ci, isIn := cond.(ssa.Instruction); isIn {
				cmp = c04Site{ffr, ci}
			}
			return true
		}, 0)
		if bounded {
			// no write to the buffer between the comparison and the receive
			ok, detail = true, "received buffer's Len() is known <= maxZipBlobSize() (the test override or a constant <= constants.MaxBlobSize) at the receive"
			for _, ws := range body.calls(nil) {
				cs := ws.call()
				if wf := cs.Callee(); cmp.in != nil && wf != nil && wf.Signature.Recv() != nil && len(cs.Common().Args) > 0 && strings.HasPrefix(wf.Name(), "Write") && c04SameIn(ws.fr, cs.Common().Args[0], bufFr, buf) {
					if body.mayFollow(cmp, ws) && body.precedes(ws, rc.site) {
						ok, detail = false, "the buffer is written again between the size comparison and the receive"
					}
				}
			}
		}
		r.Check(ok, rule, construct, site, detail, "zip stored into large without a size bound: "+detail+" (an over-size zip is not a valid blob and is refused or truncated by size-capped stores)")
	}
	if n == 0 {
		r.Violation(rule, key+"#size-bound", p.Pos(fn.Pos()), "no receive into large found in writeAZip")
	}
	// maxZipBlobSize (when it exists as a function): test override or a constant <= constants.MaxBlobSize
	if maxFn != nil {
		construct := FuncKey(maxFn) + "#returns"
		ok, detail, consts := true, "", 0
		for _, ri := range Returns(maxFn) {
			for _, lf := range c04BoundLeaves(nil, ri.Results[0], 0, map[ssa.Value]bool{}) {
				switch {
				case lf.konst != nil:
					consts++
					if *lf.konst > capV || *lf.konst <= 0 {
						ok, detail = false, fmt.Sprintf("returns the constant %d, outside (0, constants.MaxBlobSize=%d]", *lf.konst, capV)
					}
				case lf.field == overrideField:
				default:
					ok, detail = false, fmt.Sprintf("return at line %d is neither the forceMaxZipBlobSize override nor a constant", c04Line(p, ri.Ret.Pos()))
				}
			}
		}
		if consts == 0 && ok {
			ok, detail = false, "no constant default"
		}
		r.Check(ok, rule, construct, p.Pos(maxFn.Pos()), fmt.Sprintf("default is a constant <= constants.MaxBlobSize (%d); the only other return is the test override field", capV), "maxZipBlobSize "+detail)
	} else {
		r.OKTable(rule, c04Rel+"#maxZipBlobSize-inlined", "?", "no (*storage).maxZipBlobSize function: the bound is checked where it is compared (size-bound)")
	}
	// forceMaxZipBlobSize is never assigned in non-test code
	nW := 0
	for _, f := range p.FuncsIn(c04Rel) {
		for _, b := range f.Blocks {
			for _, in := range b.Instrs {
				if st, isSt := in.(*ssa.Store); isSt {
					if fa, isFA := st.Addr.(*ssa.FieldAddr); isFA && fieldName(fa.X.Type(), fa.Field) == "forceMaxZipBlobSize" {
						nW++
						r.Violation(rule, FuncKey(f)+"#forceMaxZipBlobSize", p.Pos(st.Pos()), "non-test code assigns the zip size override: zips may exceed the blob size limit")
					}
				}
			}
		}
	}
	if nW == 0 {
		r.OKTable(rule, c04Rel+"#forceMaxZipBlobSize-unassigned", "?", "no store to storage.forceMaxZipBlobSize in non-test code")
	}
	r.Floor(rule, 3)
}

// ---------------------------------------------------------------------------
// Z-codec

type c04PField struct {
	kind string // "ref" or "int"
	bits int
	base int64
}

func c04PSig(fs []c04PField) string {
	var parts []string
	for _, f := range fs {
		if f.kind == "int" {
			parts = append(parts, fmt.Sprintf("int%d", f.bits))
		} else {
			parts = append(parts, f.kind)
		}
	}
	return strings.Join(parts, " ")
}

// c04ParseChain extracts the sequence of field parsers a hand-written row
// parser applies: integer parses (with base and bit size) and blob-ref parses,
// ordered by dominance (each parse is only reached after the previous one).
func c04ParseChain(fn *ssa.Function) ([]c04PField, string) { return c04ParseChainOpt(fn, false) }

// c04ParseChainOpt: with valueOnly, only the parses whose input comes from a
// row value (the result of ValueBytes/Value/Get on the meta index) count — the
// key parses of a function that reads both are left out.
func c04ParseChainOpt(fn *ssa.Function, valueOnly bool) ([]c04PField, string) {
	type item struct {
		s c04Site
		f c04PField
	}
	body := c04BodyOf(fn)
	fromValue := func(v ssa.Value) bool {
		return c04DependsIn(body, v, func(x ssa.Value) bool {
			call, ok := x.(*ssa.Call)
			if !ok || !call.Call.IsInvoke() {
				return false
			}
			switch call.Call.Method.Name() {
			case "ValueBytes", "Value", "Get":
				return true
			}
			return false
		}, false)
	}
	var items []item
	for _, s := range body.calls(nil) {
		c := s.call()
		if valueOnly && len(c.Common().Args) > 0 && !fromValue(c.Common().Args[0]) {
			continue
		}
		switch {
		case c.IsStatic("go4.org/strutil", "", "ParseUintBytes"), c.IsStatic("strconv", "", "ParseUint"), c.IsStatic("strconv", "", "ParseInt"):
			_, bv := c04Up(s.fr, c.Common().Args[1])
			_, sv := c04Up(s.fr, c.Common().Args[2])
			base, ok1 := ConstInt(bv)
			bits, ok2 := ConstInt(sv)
			if !ok1 || !ok2 {
				return nil, "integer parse with non-constant base or bit size"
			}
			items = append(items, item{s, c04PField{"int", int(bits), base}})
		case c.IsStatic(c04BlobPkg, "", "ParseBytes"), c.IsStatic(c04BlobPkg, "", "Parse"):
			items = append(items, item{s, c04PField{kind: "ref"}})
		}
	}
	sort.SliceStable(items, func(i, j int) bool { return body.precedes(items[i].s, items[j].s) })
	for i := 0; i+1 < len(items); i++ {
		if !body.precedes(items[i].s, items[i+1].s) {
			return nil, "field parses are not in a single dominance chain"
		}
	}
	var out []c04PField
	for _, it := range items {
		out = append(out, it.f)
	}
	return out, ""
}

// c04ParseFieldsCalls lists conv.ParseFields calls in fn with their dst kinds;
// fromValue tells whether the parsed bytes come from the iterator's value.
type c04PFCall struct {
	c         CallSite
	fields    []c04PField
	fromValue bool
	fromKey   bool
}

func c04ParseFieldsCalls(fn *ssa.Function) ([]c04PFCall, string) {
	var out []c04PFCall
	body := c04BodyOf(fn)
	for _, s := range body.calls(nil) {
		c := s.call()
		if !c.IsStatic("perkeep.org/pkg/conv", "", "ParseFields") {
			continue
		}
		elems, ok := c04VarargElems(c.Common().Args[1])
		if !ok {
			return nil, "ParseFields destinations are not a literal argument list"
		}
		pc := c04PFCall{c: c}
		for _, e := range elems {
			pt, ok := c04StripIfaceOnly(e).Type().(*types.Pointer)
			if !ok {
				return nil, "ParseFields destination is not a pointer"
			}
			if c04IsRef(pt.Elem()) {
				pc.fields = append(pc.fields, c04PField{kind: "ref"})
			} else if bits, _ := c04IntBits(pt.Elem()); bits > 0 {
				pc.fields = append(pc.fields, c04PField{"int", bits, 10})
			} else {
				return nil, "ParseFields destination of unsupported type " + pt.Elem().String()
			}
		}
		src := c.Common().Args[0]
		c04DependsIn(body, src, func(x ssa.Value) bool {
			if call, ok := x.(*ssa.Call); ok && call.Call.IsInvoke() {
				switch call.Call.Method.Name() {
				case "ValueBytes", "Value":
					pc.fromValue = true
				case "KeyBytes", "Key":
					pc.fromKey = true
				}
			}
			return false
		}, false)
		out = append(out, pc)
	}
	return out, ""
}

// c04Fields splits a value shape into its space-separated fields.
func c04Fields(toks []c04Tok) ([]c04Tok, bool) {
	var out []c04Tok
	for i, t := range toks {
		if i%2 == 0 {
			if !t.Hole {
				return nil, false
			}
			out = append(out, t)
		} else if t.Hole || t.Lit != " " {
			return nil, false
		}
	}
	return out, len(toks)%2 == 1
}

// c04Agree compares the fields rendered by all writers of a row kind with what
// a parser expects: same count (or a prefix), same kinds, base 10, and a bit
// size not below the narrowest unsigned type any writer declares for the field
// (that type documents the field's domain; wider writer types such as
// zip.File.UncompressedSize64 are bounded by the blob size limit, not by type).
func c04Agree(ws [][]c04Tok, ps []c04PField, prefixOnly bool) string {
	for _, w := range ws {
		if len(w) != len(ps) && !(prefixOnly && len(ps) <= len(w)) {
			return fmt.Sprintf("a writer renders %d fields, parser expects %d", len(w), len(ps))
		}
	}
	for i, pf := range ps {
		minU := 0
		for _, w := range ws {
			wf := w[i]
			if wf.class() != pf.kind {
				return fmt.Sprintf("field %d: a writer renders a %s, parser expects a %s", i, wf.class(), pf.kind)
			}
			if bits, unsigned := c04IntBits(wf.Type); pf.kind == "int" && unsigned && (minU == 0 || bits < minU) {
				minU = bits
			}
		}
		if pf.kind == "int" {
			if pf.base != 10 {
				return fmt.Sprintf("field %d: parser uses base %d, writers render decimal", i, pf.base)
			}
			if minU > pf.bits {
				return fmt.Sprintf("field %d: every unsigned writer renders at least a uint%d, parser accepts only %d bits", i, minU, pf.bits)
			}
		}
	}
	return ""
}

func c04VerbsOK(toks []c04Tok) string {
	for _, t := range toks {
		if !t.Hole {
			continue
		}
		switch t.class() {
		case "ref":
			if t.Verb != 's' && t.Verb != 'v' {
				return fmt.Sprintf("blob ref rendered with %%%c", t.Verb)
			}
		case "int":
			if t.Verb != 'd' && t.Verb != 'v' {
				return fmt.Sprintf("integer rendered with %%%c (parsers read base 10)", t.Verb)
			}
		default:
			return fmt.Sprintf("field of type %s is neither a blob ref nor an integer", t.Type)
		}
	}
	return ""
}

func c04ZCodec(p *Program, r *Reporter, writers []*c04Writer) {
	const rule = "Z-codec"
	bP, wP, zP := c04StrConst(p, "blobMetaPrefix"), c04StrConst(p, "wholeMetaPrefix"), c04StrConst(p, "zipMetaPrefix")
	kinds := []string{bP + "<ref>", wP + "<ref>:<int>", wP + "<ref>", zP + "<ref>"}
	// kind d: — deletion marks: written only by the client-facing RemoveBlobs, never parsed
	// (only their presence matters) and not rebuilt by reindex (documented TODO in reindex).
	exceptKinds := map[string]string{"d:<ref>": "deletion mark: single writer (RemoveBlobs), value never parsed, not rebuildable from zips (documented in reindex)"}
	reindex := p.Func(c04Rel, "storage", "reindex")
	packerT := p.NamedType(c04Rel, "packer")

	byKind := map[string][]*c04Writer{}
	for _, w := range writers {
		construct := FuncKey(w.c.Fn) + "#Set " + w.kind
		site := p.Pos(w.c.Pos())
		if w.keyErr != "" {
			r.Undecided(rule, FuncKey(w.c.Fn)+"#Set ?", site, "meta row key cannot be evaluated: "+w.keyErr)
			continue
		}
		if w.valErr != "" {
			r.Undecided(rule, construct, site, "meta row value cannot be evaluated: "+w.valErr)
			continue
		}
		if why, ok := exceptKinds[w.kind]; ok {
			r.OKTable(rule, construct, site, "exception: "+why)
			continue
		}
		known := false
		for _, k := range kinds {
			if k == w.kind {
				known = true
			}
		}
		if !known {
			r.Violation(rule, construct, site, "meta row of a kind no reader of the package knows (key shape "+w.kind+")")
			continue
		}
		if bad := c04VerbsOK(append(append([]c04Tok{}, w.key...), w.val...)); bad != "" {
			r.Violation(rule, construct, site, bad)
			continue
		}
		if _, ok := c04Fields(w.val); !ok {
			r.Violation(rule, construct, site, "row value "+c04Sig(w.val)+" is not a sequence of fields separated by single spaces")
			continue
		}
		r.OK(rule, construct, site, "key "+w.kind+" value "+c04Sig(w.val))
		byKind[w.kind] = append(byKind[w.kind], w)
	}

	// parsers
	// a row parser: the package function of that name; when it no longer exists (inlined into
	// its user), the value parses of the effective body of the function that plays its role
	chain := func(name string, users ...*ssa.Function) []c04PField {
		fn := p.LookupFunc(c04Rel, "", name)
		valueOnly := false
		if fn == nil {
			valueOnly = true
			for _, u := range users {
				var cands []*ssa.Function
				var collect func(f *ssa.Function)
				collect = func(f *ssa.Function) {
					cands = append(cands, f)
					for _, a := range f.AnonFuncs {
						collect(a)
					}
				}
				if u != nil {
					collect(u)
				}
				for _, c := range cands {
					if fs, err := c04ParseChainOpt(c, true); err == "" && len(fs) > 0 {
						fn = c
					}
				}
			}
		}
		if fn == nil {
			brokenf("anchor unresolved: row parser %s.%s (and no value parse in the functions that use it)", c04Rel, name)
		}
		fs, err := c04ParseChainOpt(fn, valueOnly)
		if err != "" {
			r.Undecided(rule, FuncKey(fn)+"#parse-chain", p.Pos(fn.Pos()), err)
			return nil
		}
		return fs
	}
	gm := p.Func(c04Rel, "storage", "getMetaRow")
	enumFn := p.LookupFunc(c04Rel, "enumerator", "EnumerateBlobs")
	integ := p.Func(c04Rel, "storage", "checkLargeIntegrity")
	open := p.Func(c04Rel, "storage", "OpenWholeRef")
	pfs, pfErr := c04ParseFieldsCalls(open)
	if pfErr != "" {
		r.Undecided(rule, FuncKey(open)+"#ParseFields", p.Pos(open.Pos()), pfErr)
	}
	type parser struct {
		name   string
		fields []c04PField
		prefix bool
	}
	parsersOf := map[string][]parser{
		kinds[0]: {{"parseMetaRow", chain("parseMetaRow", gm), false}, {"parseMetaRowSizeOnly", chain("parseMetaRowSizeOnly", enumFn), true}},
		kinds[3]: {{"parseZipMetaRow", chain("parseZipMetaRow", integ), false}},
	}
	for _, k := range kinds {
		ws := byKind[k]
		construct := c04Rel + "#kind " + k
		var packSide, reSide []*c04Writer
		for _, w := range ws {
			// on whose behalf the writer runs: reindex, or a method of the packer — directly, as one
			// of their literals, or as a helper only they (transitively) call or hand out as a value
			isReindex := func(f *ssa.Function) bool { return f == reindex }
			isPacker := func(f *ssa.Function) bool {
				recv := f.Signature.Recv()
				return recv != nil && NamedOf(recv.Type()) == packerT
			}
			if is, _ := c04OnlyCalledFromOpt(p, w.c.Fn, isReindex, 0, true); is {
				reSide = append(reSide, w)
			} else if is, _ := c04OnlyCalledFromOpt(p, w.c.Fn, isPacker, 0, true); is {
				packSide = append(packSide, w)
			} else {
				r.Violation(rule, FuncKey(w.c.Fn)+"#Set "+w.kind+"#owner", p.Pos(w.c.Pos()), "row of kind "+k+" written outside the packer and reindex")
			}
		}
		if len(packSide) == 0 || len(reSide) == 0 {
			r.Violation(rule, construct+"#writers", "?", fmt.Sprintf("kind %s has %d packer-side and %d reindex-side writers; both are needed (rows must be rebuildable from the zips)", k, len(packSide), len(reSide)))
			continue
		}
		ref := c04Sig(packSide[0].val)
		agree, detail := true, ""
		for _, w := range ws {
			if s := c04Sig(w.val); s != ref {
				agree, detail = false, fmt.Sprintf("%s (line %d) renders %q but %s (line %d) renders %q", FuncKey(w.c.Fn), c04Line(p, w.c.Pos()), s, FuncKey(packSide[0].c.Fn), c04Line(p, packSide[0].c.Pos()), ref)
			}
		}
		r.Check(agree, rule, construct+"#writers", p.Pos(packSide[0].c.Pos()), fmt.Sprintf("%d writers (packer %d, reindex %d) all render %q", len(ws), len(packSide), len(reSide), ref), "sibling writers disagree: "+detail)

		// parser agreement
		var ps []parser
		if pl, ok := parsersOf[k]; ok {
			ps = pl
		} else {
			// w: rows: the ParseFields call in OpenWholeRef reading the value with the same field count
			nf, _ := c04Fields(packSide[0].val)
			for _, pc := range pfs {
				if pc.fromValue && len(pc.fields) == len(nf) {
					ps = append(ps, parser{fmt.Sprintf("OpenWholeRef ParseFields/%d", len(pc.fields)), pc.fields, false})
				}
			}
			if len(ps) != 1 {
				r.Violation(rule, construct+"#parser", p.Pos(open.Pos()), fmt.Sprintf("OpenWholeRef has %d conv.ParseFields calls on the row value with %d destinations; want exactly 1", len(ps), len(nf)))
				continue
			}
		}
		for _, ps1 := range ps {
			if ps1.fields == nil {
				continue
			}
			var all [][]c04Tok
			for _, w := range ws {
				fs, _ := c04Fields(w.val)
				all = append(all, fs)
			}
			bad := c04Agree(all, ps1.fields, ps1.prefix)
			r.Check(bad == "", rule, construct+"#parser "+ps1.name, "?", "parser expects ["+c04PSig(ps1.fields)+"], all writers conform", "writer/parser disagreement: "+bad)
		}
	}
	// the part index in the w:<ref>:<n> key is read back by a ParseFields on the key
	okKey := false
	for _, pc := range pfs {
		if pc.fromKey && len(pc.fields) == 1 && pc.fields[0].kind == "int" {
			okKey = true
		}
	}
	r.Check(okKey, rule, FuncKey(open)+"#part-index-from-key", p.Pos(open.Pos()), "the part index is parsed from the key suffix as one integer", "OpenWholeRef no longer parses the part index from the w:<ref>:<n> key")

	// parser <-> reader links: getMetaRow reads b: keys and parses the value (in its effective body) as the b: parser does
	linkOK, linkDetail := false, "getMetaRow has no meta.Get"
	for _, cs := range c04RoleInvokes(c04BodyOf(gm), "meta", "Get") {
		sh, e := c04Shape(cs.call().Common().Args[0], 0)
		if e != "" {
			linkDetail = "key of meta.Get cannot be evaluated: " + e
			continue
		}
		if c04Sig(sh) != kinds[0] {
			linkDetail = "getMetaRow reads key " + c04Sig(sh) + ", writers use " + kinds[0]
			continue
		}
		own, err := c04ParseChainOpt(gm, true)
		if want := parsersOf[kinds[0]][0].fields; err == "" && len(own) > 0 && c04PSig(own) == c04PSig(want) {
			linkOK, linkDetail = true, "getMetaRow reads "+kinds[0]+" and parses it with parseMetaRow"
		} else {
			linkDetail = "getMetaRow does not parse the value with parseMetaRow"
		}
	}
	r.Check(linkOK, rule, FuncKey(gm)+"#key", p.Pos(gm.Pos()), linkDetail, linkDetail)

	c04FindRanges(p, r, writers, bP, wP, zP)
	c04ManifestFields(p, r)
	r.Floor(rule, 28)
}

// c04FindRanges: every meta.Find in the package scans [prefix..., successor).
func c04FindRanges(p *Program, r *Reporter, writers []*c04Writer, bP, wP, zP string) {
	const rule = "Z-codec"
	n := 0
	for _, fn := range p.FuncsIn(c04Rel) {
		for _, c := range c04MetaInvokes(fn, "Find") {
			n++
			site := p.Pos(c.Pos())
			start, e1 := c04Shape(c.Common().Args[0], 0)
			end, e2 := c04Shape(c.Common().Args[1], 0)
			construct := FuncKey(fn) + "#meta.Find"
			if e1 != "" || e2 != "" {
				r.Undecided(rule, construct, site, "range bounds cannot be evaluated: "+e1+" "+e2)
				continue
			}
			construct += " " + c04Sig(start)
			if len(start) == 0 || start[0].Hole {
				r.Undecided(rule, construct, site, "range start does not begin with a literal prefix")
				continue
			}
			pre := ""
			for _, k := range []string{bP, wP, zP} {
				if strings.HasPrefix(start[0].Lit, k) {
					pre = k
				}
			}
			if pre == "" {
				r.Violation(rule, construct, site, "range start "+c04Sig(start)+" begins with none of the row prefixes")
				continue
			}
			if len(end) == 1 && !end[0].Hole {
				r.Check(end[0].Lit == c04Succ(pre) && start[0].Lit == pre, rule, construct, site,
					fmt.Sprintf("scans [%s, %q): all keys of prefix %q", c04Sig(start), end[0].Lit, pre),
					fmt.Sprintf("range end %q is not the successor %q of prefix %q: rows are skipped or foreign rows included", end[0].Lit, c04Succ(pre), pre))
				continue
			}
			// end = start + literal: must be the successor of the separator that follows the start in longer keys
			okShape := len(end) == len(start)+1 && !end[len(end)-1].Hole && c04Sig(end[:len(start)]) == c04Sig(start)
			if okShape {
				for i := range start {
					if start[i].Hole && start[i].Val != nil && end[i].Val != nil && !sameOrigin(start[i].Val, end[i].Val) {
						okShape = false
					}
				}
			}
			if !okShape {
				r.Undecided(rule, construct, site, "range end "+c04Sig(end)+" is neither a constant nor the start plus a literal")
				continue
			}
			// separator used by writers whose key extends this start
			sep := ""
			for _, w := range writers {
				if w.keyErr == "" && len(w.key) > len(start) && c04Sig(w.key[:len(start)]) == c04Sig(start) && !w.key[len(start)].Hole {
					sep = w.key[len(start)].Lit
				}
			}
			lit := end[len(end)-1].Lit
			r.Check(sep != "" && lit == c04Succ(sep), rule, construct, site,
				fmt.Sprintf("scans [%s, %s): the row itself and all its %q-suffixed part rows", c04Sig(start), c04Sig(end), sep),
				fmt.Sprintf("range end suffix %q is not the successor of the separator %q that writers put after %s", lit, sep, c04Sig(start)))
		}
	}
	r.Analysed("meta_find_sites", n)
}

// c04ManifestFields: fields of Manifest / BlobAndPos read by reindex and
// foreachZipBlob must be written by writeAZip.
func c04ManifestFields(p *Program, r *Reporter) {
	const rule = "Z-codec"
	types_ := map[*types.Named]bool{p.NamedType(c04Rel, "Manifest"): true, p.NamedType(c04Rel, "BlobAndPos"): true}
	fieldOf := func(v ssa.Value) (string, bool) {
		switch x := v.(type) {
		case *ssa.FieldAddr:
			if n := NamedOf(x.X.Type()); n != nil && types_[n] {
				return n.Obj().Name() + "." + fieldName(x.X.Type(), x.Field), true
			}
		case *ssa.Field:
			if n := NamedOf(x.X.Type()); n != nil && types_[n] {
				return n.Obj().Name() + "." + fieldName(x.X.Type(), x.Field), true
			}
		}
		return "", false
	}
	// deep: the function, its literals, and the helpers (with their literals) they call
	deep := func(f *ssa.Function, visit func(ssa.Instruction)) {
		seen := map[*ssa.Function]bool{}
		var add func(g *ssa.Function)
		add = func(g *ssa.Function) {
			if g == nil || seen[g] {
				return
			}
			seen[g] = true
			for _, b := range g.Blocks {
				for _, in := range b.Instrs {
					visit(in)
				}
			}
			for _, a := range g.AnonFuncs {
				add(a)
			}
			for _, fr := range c04BodyOf(g).frames {
				add(fr.fn)
			}
		}
		add(f)
	}
	// written: a store whose address is (under) the field
	written := map[string]bool{}
	wfn := p.Func(c04Rel, "packer", "writeAZip")
	deep(wfn, func(in ssa.Instruction) {
		st, ok := in.(*ssa.Store)
		if !ok {
			return
		}
		addr := st.Addr
		for i := 0; i < 8; i++ {
			if f, ok := fieldOf(addr); ok {
				written[f] = true
			}
			switch x := addr.(type) {
			case *ssa.FieldAddr:
				addr = x.X
			case *ssa.IndexAddr:
				addr = x.X
			default:
				return
			}
		}
	})
	// read: the field (address) is loaded, or used by anything but a store to it
	type rd struct {
		fn  *ssa.Function
		pos token.Pos
	}
	reads := map[string]rd{}
	var isRead func(v ssa.Value, depth int) bool
	isRead = func(v ssa.Value, depth int) bool {
		refs := v.Referrers()
		if refs == nil || depth > 6 {
			return false
		}
		for _, u := range *refs {
			switch x := u.(type) {
			case *ssa.Store:
				if x.Addr != v {
					return true
				}
			case *ssa.FieldAddr:
				if isRead(x, depth+1) {
					return true
				}
			case *ssa.DebugRef:
			default:
				return true
			}
		}
		return false
	}
	for _, name := range []string{"reindex", "foreachZipBlob"} {
		fn := p.Func(c04Rel, "storage", name)
		deep(fn, func(in ssa.Instruction) {
			v, ok := in.(ssa.Value)
			if !ok {
				return
			}
			f, ok := fieldOf(v)
			if !ok {
				return
			}
			if _, isAddr := v.(*ssa.FieldAddr); isAddr && !isRead(v, 0) {
				return
			}
			if _, seen := reads[f]; !seen {
				reads[f] = rd{in.Parent(), in.Pos()}
			}
		})
	}
	var names []string
	for f := range reads {
		names = append(names, f)
	}
	sort.Strings(names)
	for _, f := range names {
		r.Check(written[f], rule, FuncKey(wfn)+"#manifest-field "+f, p.Pos(reads[f].pos),
			"read by "+FuncKey(reads[f].fn)+" and written by writeAZip",
			"manifest field "+f+" is read by "+FuncKey(reads[f].fn)+" (recovery/streaming) but never written by writeAZip: every zip produced is rejected or mis-indexed on reindex")
	}
	r.Analysed("manifest_fields_read", len(names))
}

// ---------------------------------------------------------------------------
// Z-count: the part count stored in the w:<ref> row is computed from the part
// indexes that key the w:<ref>:<idx> rows (H7, writer/reader agreement by
// value dependence)

// c04FieldID names a struct field at type level.
type c04FieldID struct {
	named *types.Named
	idx   int
}

func (f c04FieldID) String() string {
	return f.named.Obj().Name() + "." + fieldName(f.named, f.idx)
}

// c04FieldOf: v is the address or the value of a field of a named struct.
func c04FieldOf(v ssa.Value) (c04FieldID, bool) {
	switch x := v.(type) {
	case *ssa.FieldAddr:
		if n := NamedOf(x.X.Type()); n != nil {
			return c04FieldID{n, x.Field}, true
		}
	case *ssa.Field:
		if n := NamedOf(x.X.Type()); n != nil {
			return c04FieldID{n, x.Field}, true
		}
	}
	return c04FieldID{}, false
}

func c04StripConv(v ssa.Value) ssa.Value {
	for {
		switch x := v.(type) {
		case *ssa.Convert:
			v = x.X
		case *ssa.ChangeType:
			v = x.X
		case *ssa.MakeInterface:
			v = x.X
		default:
			return v
		}
	}
}

func c04IsLenCall(v ssa.Value) (arg ssa.Value, ok bool) {
	call, isCall := v.(*ssa.Call)
	if !isCall {
		return nil, false
	}
	if b, isB := call.Call.Value.(*ssa.Builtin); !isB || b.Name() != "len" || len(call.Call.Args) != 1 {
		return nil, false
	}
	return call.Call.Args[0], true
}

// c04KeySource names what a part index (the <idx> of a w:<ref>:<idx> key) is
// immediately computed from: a struct field read ("field": the index is stored
// in the element, e.g. zipMetaInfo.wholePartIndex), or the length of a
// collection held in a struct field ("len": the index is the position in that
// collection, e.g. len(pk.zips)). Offsets by constants and single-store locals
// are looked through; anything else is not named (ok == false).
func c04KeySource(v ssa.Value) (src c04FieldID, how string, ok bool) {
	fieldRead := func(v ssa.Value) (c04FieldID, bool) {
		v = c04StripConv(v)
		if ld, isLd := v.(*ssa.UnOp); isLd && ld.Op == token.MUL {
			return c04FieldOf(ld.X)
		}
		return c04FieldOf(v)
	}
	for i := 0; i < 16 && v != nil; i++ {
		v = c04StripConv(v)
		if id, isF := fieldRead(v); isF {
			return id, "field", true
		}
		switch x := v.(type) {
		case *ssa.UnOp:
			if x.Op != token.MUL {
				return src, "", false
			}
			rv := resolveLoad(x)
			if rv == nil {
				return src, "", false
			}
			v = rv
		case *ssa.BinOp:
			if x.Op != token.ADD && x.Op != token.SUB {
				return src, "", false
			}
			if _, isC := x.Y.(*ssa.Const); isC {
				v = x.X
			} else if _, isC := x.X.(*ssa.Const); isC && x.Op == token.ADD {
				v = x.Y
			} else {
				return src, "", false
			}
		case *ssa.Call:
			arg, isLen := c04IsLenCall(x)
			if !isLen {
				return src, "", false
			}
			if id, isF := fieldRead(arg); isF {
				return id, "len", true
			}
			return src, "", false
		default:
			return src, "", false
		}
	}
	return src, "", false
}

// c04PassFuncs: top, its literals, and the functions of the package they call
// statically (two levels): the code that runs as one pack / one reindex pass.
func c04PassFuncs(top *ssa.Function) map[*ssa.Function]bool {
	set := map[*ssa.Function]bool{}
	var add func(f *ssa.Function, depth int)
	add = func(f *ssa.Function, depth int) {
		if f == nil || set[f] || f.Blocks == nil {
			return
		}
		set[f] = true
		for _, a := range f.AnonFuncs {
			add(a, depth)
		}
		if depth >= 3 {
			return
		}
		for _, c := range CallsIn(f, false) {
			if cal := c.Callee(); cal != nil && cal.Pkg != nil && RelPkg(cal.Pkg.Pkg) == c04Rel {
				add(cal, depth+1)
			}
		}
	}
	add(top, 0)
	return set
}

// c04CountConsumer finds, in one function that parses the value of the
// un-suffixed whole-file row into nf integers, which of them is compared with
// the number of part rows collected from the suffixed keys. Returns the
// position of that integer in the row value (-1 if the function does not parse
// such a row).
func c04CountConsumer(p *Program, r *Reporter, fn *ssa.Function, nf int) int {
	const rule = "Z-count"
	pfs, err := c04ParseFieldsCalls(fn)
	if err != "" || len(pfs) == 0 {
		return -1 // Z-codec reports an unreadable ParseFields
	}
	var valuePF, keyPF []c04PFCall
	for _, pc := range pfs {
		allInt := true
		for _, f := range pc.fields {
			if f.kind != "int" {
				allInt = false
			}
		}
		switch {
		case pc.fromValue && allInt && len(pc.fields) == nf:
			valuePF = append(valuePF, pc)
		case pc.fromKey && allInt && len(pc.fields) == 1:
			keyPF = append(keyPF, pc)
		}
	}
	if len(valuePF) == 0 {
		return -1
	}
	key := FuncKey(fn)
	site := p.Pos(valuePF[0].c.Pos())
	if len(valuePF) != 1 || len(keyPF) != 1 {
		r.Undecided(rule, key+"#count-consumer", site, fmt.Sprintf("%d parses of a %d-integer row value and %d parses of a part index from a key; the rule follows exactly one of each", len(valuePF), nf, len(keyPF)))
		return -1
	}
	// destinations of the row value
	dests, _ := c04VarargElems(valuePF[0].c.Common().Args[1])
	for i := range dests {
		dests[i] = c04StripIfaceOnly(dests[i])
	}
	// the struct the part index is parsed into
	kd, _ := c04VarargElems(keyPF[0].c.Common().Args[1])
	var partVar ssa.Value
	var idxField c04FieldID
	if len(kd) == 1 {
		if fa, ok := c04StripIfaceOnly(kd[0]).(*ssa.FieldAddr); ok {
			partVar = fa.X
			idxField, _ = c04FieldOf(fa)
		}
	}
	if partVar == nil {
		r.Undecided(rule, key+"#count-consumer", site, "the part index parsed from the key is not stored into a field of a part record: cannot find the collection of part rows")
		return -1
	}
	// the appends that collect part records
	body := c04BodyOf(fn)
	dep := func(v ssa.Value, target func(ssa.Value) bool) bool { return c04DependsIn(body, v, target, false) }
	var appends []*ssa.Call
	for _, cs := range body.calls(nil) {
		call := cs.call().Value()
		if call == nil {
			continue
		}
		if b, ok := call.Call.Value.(*ssa.Builtin); !ok || b.Name() != "append" || len(call.Call.Args) != 2 {
			continue
		}
		elems, ok := c04VarargElems(call.Call.Args[1])
		if !ok {
			continue
		}
		for _, e := range elems {
			if dep(e, func(x ssa.Value) bool { return x == partVar }) {
				appends = append(appends, call)
				break
			}
		}
	}
	isPartsLen := func(v ssa.Value) bool {
		arg, ok := c04IsLenCall(v)
		if !ok {
			return false
		}
		return dep(arg, func(x ssa.Value) bool {
			for _, a := range appends {
				if x == ssa.Value(a) {
					return true
				}
			}
			return false
		})
	}
	destOf := func(v ssa.Value) int {
		for i, d := range dests {
			d := d
			if dep(v, func(x ssa.Value) bool {
				ld, ok := x.(*ssa.UnOp)
				return ok && ld.Op == token.MUL && ld.X == d
			}) {
				return i
			}
		}
		return -1
	}
	// comparisons count <-> len(parts)
	type cmp struct {
		bo  *ssa.BinOp
		pos int
	}
	var cmps []cmp
	body.instrs(func(_ *c04Frame, in ssa.Instruction) {
		bo, ok := in.(*ssa.BinOp)
		if !ok {
			return
		}
		switch bo.Op {
		case token.EQL, token.NEQ, token.LSS, token.LEQ, token.GTR, token.GEQ:
		default:
			return
		}
		if _, isC := bo.X.(*ssa.Const); isC {
			return
		}
		if _, isC := bo.Y.(*ssa.Const); isC {
			return
		}
		for _, c := range cmps {
			if c.bo == bo {
				return // the same helper in a second frame
			}
		}
		for _, sides := range [][2]ssa.Value{{bo.X, bo.Y}, {bo.Y, bo.X}} {
			if !dep(sides[0], isPartsLen) || dep(sides[1], isPartsLen) {
				continue
			}
			if i := destOf(sides[1]); i >= 0 && destOf(sides[0]) < 0 {
				cmps = append(cmps, cmp{bo, i})
			}
		}
	})
	if len(cmps) == 0 {
		r.Undecided(rule, key+"#count-consumer", site, fmt.Sprintf("the %d integers of the whole-file row are parsed, but none is compared with the number of part rows collected from the suffixed keys: cannot tell which one is the part count, nor that a file whose final row is missing or disagrees with its part rows is refused", nf))
		return -1
	}
	pos := cmps[0].pos
	for _, c := range cmps {
		if c.pos != pos {
			r.Undecided(rule, key+"#count-consumer", site, "different integers of the row are compared with the number of part rows")
			return -1
		}
	}
	// every possibly-successful return lies under "count == number of part rows"
	bad := ""
	nSucc := 0
	for _, nr := range MaybeNilErrorReturns(fn) {
		nSucc++
		guarded := body.factAt(c04Site{body.root, nr.From.Instrs[len(nr.From.Instrs)-1]}, func(_ *c04Frame, cond ssa.Value, val bool) bool {
			for _, c := range cmps {
				if cond == ssa.Value(c.bo) && (c.bo.Op == token.EQL && val || c.bo.Op == token.NEQ && !val) {
					return true
				}
			}
			return false
		}, 0)
		if !guarded {
			bad = fmt.Sprintf("the return at line %d serves the file although the number of part rows found is not known equal to the count of the w:<ref> row (an interrupted pack has part rows and no final row; a stale or inflated count has fewer part rows than it announces)", c04Line(p, nr.Ret.Pos()))
		}
	}
	if nSucc == 0 {
		bad = "no successful return found"
	}
	r.Check(bad == "", rule, key+"#count-consumer", p.Pos(cmps[0].bo.Pos()),
		fmt.Sprintf("integer #%d of the w:<ref> value is the part count: every successful return (%d) is under the fact that it equals the number of w:<ref>:<idx> rows collected", pos, nSucc), bad)

	// supporting fact (recorded, not required): the part indexes are demanded dense, 0..count-1
	dense := false
	for _, b := range fn.Blocks {
		for _, in := range b.Instrs {
			bo, ok := in.(*ssa.BinOp)
			if !ok || (bo.Op != token.EQL && bo.Op != token.NEQ) || len(b.Succs) != 2 {
				continue
			}
			ifi, ok := b.Instrs[len(b.Instrs)-1].(*ssa.If)
			if !ok || ifi.Cond != ssa.Value(bo) {
				continue
			}
			for _, sides := range [][2]ssa.Value{{bo.X, bo.Y}, {bo.Y, bo.X}} {
				iv := c04StripConv(sides[1])
				if _, isC := iv.(*ssa.Const); isC {
					continue
				}
				// sides[0]: the idx field of the element at position iv of the collected parts
				var elemAt *ssa.IndexAddr
				readsIdx := c04Depends(sides[0], func(x ssa.Value) bool {
					id, ok := c04FieldOf(x)
					return ok && id == idxField
				})
				c04Depends(sides[0], func(x ssa.Value) bool {
					if ia, ok := x.(*ssa.IndexAddr); ok && ia.Index == iv {
						elemAt = ia
					}
					return false
				})
				if !readsIdx || elemAt == nil {
					continue
				}
				// on the mismatch edge no successful return is reachable
				mis := b.Succs[0]
				if bo.Op == token.EQL {
					mis = b.Succs[1]
				}
				reach := BlocksFrom(mis)
				leak := false
				for _, nr := range MaybeNilErrorReturns(fn) {
					if reach[nr.Ret.Block()] {
						leak = true
					}
				}
				if !leak {
					dense = true
				}
			}
		}
	}
	if dense {
		r.OKTable(rule, key+"#part-indexes-dense", site, "supporting fact: a part whose index differs from its position among the sorted part rows makes the read fail, so the indexes served are exactly 0..count-1 (hence 'highest index + 1' is the count a writer must store)")
	} else {
		r.Note("Z-count: %s does not visibly demand dense part indexes (supporting fact only, not required)", key)
	}
	return pos
}

func c04ZCount(p *Program, r *Reporter, writers []*c04Writer) {
	const rule = "Z-count"
	wP := c04StrConst(p, "wholeMetaPrefix")
	wholeKind, partKind := wP+"<ref>", wP+"<ref>:<int>"
	// number of fields of the whole-file row, from its writers
	nf := 0
	for _, w := range writers {
		if w.kind == wholeKind && w.valErr == "" {
			if fs, ok := c04Fields(w.val); ok && len(fs) > nf {
				nf = len(fs)
			}
		}
	}
	if nf == 0 {
		r.Undecided(rule, c04Rel+"#kind "+wholeKind, "?", "no writer of the whole-file row with a readable value shape")
		r.Floor(rule, 3)
		return
	}
	// readers
	pos, nReaders := -1, 0
	for _, fn := range p.FuncsIn(c04Rel) {
		// a helper (or a directly called literal) is examined as part of its callers' effective bodies
		if fn.Parent() == nil && c04IsHelper(fn) && len(p.StaticCallers(fn)) > 0 && len(p.FuncValueUses(fn)) == 0 {
			continue
		}
		if fn.Parent() != nil && c04BodyOf(fn.Parent()).has(fn) {
			continue
		}
		if i := c04CountConsumer(p, r, fn, nf); i >= 0 {
			nReaders++
			if pos >= 0 && pos != i {
				r.Undecided(rule, FuncKey(fn)+"#count-consumer", p.Pos(fn.Pos()), "two readers take different integers of the row for the part count")
			}
			pos = i
		}
	}
	r.Analysed("whole_row_count_readers", nReaders)
	if pos < 0 {
		if nReaders == 0 {
			r.Undecided(rule, c04Rel+"#count-consumer", "?", "no function of the package compares an integer of the w:<ref> row with the number of part rows: the writer-side clause has nothing to agree with")
		}
		r.Floor(rule, 3)
		return
	}
	// writers
	for _, w := range writers {
		if w.kind != wholeKind {
			continue
		}
		construct := FuncKey(w.c.Fn) + "#count-of " + w.kind
		site := p.Pos(w.c.Pos())
		if w.valErr != "" {
			r.Undecided(rule, construct, site, "row value cannot be evaluated: "+w.valErr)
			continue
		}
		fs, ok := c04Fields(w.val)
		if !ok || pos >= len(fs) {
			r.Undecided(rule, construct, site, fmt.Sprintf("row value %s has no field #%d (the part count the reader compares)", c04Sig(w.val), pos))
			continue
		}
		cnt := fs[pos]
		if cnt.Val == nil {
			r.Undecided(rule, construct, site, "the part count is rendered inside a helper; the rule follows counts computed in the writing function")
			continue
		}
		// the pass: the writing function, the functions it is (as a helper) called from, and
		// the package functions those call
		top := TopFunc(w.c.Fn)
		tops := []*ssa.Function{top}
		for i := 0; i < len(tops) && len(tops) < 8; i++ {
			g := tops[i]
			if !c04IsHelper(g) {
				continue
			}
			for _, c := range p.StaticCallers(g) {
				ct := TopFunc(c.Fn)
				dup := false
				for _, t := range tops {
					if t == ct {
						dup = true
					}
				}
				if !dup {
					tops = append(tops, ct)
				}
			}
		}
		pass := map[*ssa.Function]bool{}
		for _, t := range tops {
			for f := range c04PassFuncs(t) {
				pass[f] = true
			}
		}
		var refTok *c04Tok
		for i := range w.key {
			if w.key[i].Hole && w.key[i].class() == "ref" {
				refTok = &w.key[i]
			}
		}
		type keySrc struct {
			src c04FieldID
			how string
			by  *c04Writer
		}
		var srcs []keySrc
		undec := ""
		nPart := 0
		for _, pw := range writers {
			if pw.kind != partKind || !pass[pw.c.Fn] {
				continue
			}
			var k, kref *c04Tok
			for i := range pw.key {
				if pw.key[i].Hole && pw.key[i].class() == "int" {
					k = &pw.key[i]
				}
				if pw.key[i].Hole && pw.key[i].class() == "ref" {
					kref = &pw.key[i]
				}
			}
			// rows of another whole ref written by the same function are not this file's parts
			if pw.c.Fn == w.c.Fn && refTok != nil && kref != nil && refTok.Val != nil && kref.Val != nil && !sameOrigin(refTok.Val, kref.Val) {
				continue
			}
			nPart++
			if k == nil || k.Val == nil {
				undec = fmt.Sprintf("the part index of the %s row written by %s (line %d) is rendered inside a helper", partKind, FuncKey(pw.c.Fn), c04Line(p, pw.c.Pos()))
				continue
			}
			src, how, ok := c04KeySource(k.Val)
			if !ok {
				undec = fmt.Sprintf("the part index of the %s row written by %s (line %d) is neither a struct field nor the length of a collection held in a struct field (offsets by constants allowed): the rule cannot name what the count has to be computed from", partKind, FuncKey(pw.c.Fn), c04Line(p, pw.c.Pos()))
				continue
			}
			srcs = append(srcs, keySrc{src, how, pw})
		}
		if nPart == 0 {
			r.Undecided(rule, construct, site, "the pass that writes this whole-file row ("+FuncKey(top)+", its callers and the package functions they call) writes no "+partKind+" row: nothing to relate the count to")
			continue
		}
		if undec != "" {
			r.Undecided(rule, construct, site, undec)
			continue
		}
		bad, good := "", ""
		for _, ks := range srcs {
			ks := ks
			dep := false
			for _, t := range tops {
				if c04DependsIn(c04BodyOf(t), cnt.Val, func(x ssa.Value) bool {
					id, ok := c04FieldOf(x)
					return ok && id == ks.src
				}, true) {
					dep = true
				}
			}
			what := "the field " + ks.src.String() + " that holds each part's index"
			if ks.how == "len" {
				what = "the collection " + ks.src.String() + " whose length is each part's index"
			}
			if dep {
				good = fmt.Sprintf("the part count is computed from %s in the %s rows of the same pass (%s, line %d)", what, partKind, FuncKey(ks.by.c.Fn), c04Line(p, ks.by.c.Pos()))
			} else {
				bad = fmt.Sprintf("the part count written to %s does not depend on %s, which keys the %s rows of the same pass (%s, line %d): it is derived from something else (e.g. how many zips were seen), so zips that share a part index, or attempts that wrote no part row, make the count differ from the number of part rows and %s refuses the file for good", wholeKind, what, partKind, FuncKey(ks.by.c.Fn), c04Line(p, ks.by.c.Pos()), "the reader")
			}
		}
		r.Check(bad == "", rule, construct, site, good, bad)
	}
	r.Floor(rule, 3)
}

// ---------------------------------------------------------------------------
// Z-recover (additional rule: start-up check, reindex, zip deletion)

func c04ZRecover(p *Program, r *Reporter) {
	const rule = "Z-recover"
	ctor := p.Func(c04Rel, "", "newFromConfig")
	reindex := p.Func(c04Rel, "storage", "reindex")
	integ := p.Func(c04Rel, "storage", "checkLargeIntegrity")
	lastOf := func(b *ssa.BasicBlock) ssa.Instruction { return b.Instrs[len(b.Instrs)-1] }

	// (i)/(ii) constructor (and the helpers it calls)
	cbody := c04BodyOf(ctor)
	reCalls := cbody.calls(func(c CallSite) bool { return c.Callee() == reindex })
	ckCalls := cbody.calls(func(c CallSite) bool { return c.Callee() == integ })
	if len(reCalls) == 0 {
		r.Violation(rule, FuncKey(ctor)+"#reindex", p.Pos(ctor.Pos()), "the constructor no longer calls reindex in recovery mode: the meta index cannot be rebuilt from the zips")
	}
	for _, nr := range MaybeNilErrorReturns(ctor) {
		at := c04Site{cbody.root, lastOf(nr.From)}
		construct := fmt.Sprintf("%s#success-return", FuncKey(ctor))
		checked := false
		for _, ck := range ckCalls {
			if cbody.precedes(ck, at) {
				checked = true
			}
		}
		bad := ""
		if !checked {
			bad = "a store is returned without checkLargeIntegrity having compared large with the z: rows"
		}
		for _, rc := range reCalls {
			if rc.call().Value() == nil {
				bad = "reindex result dropped"
				continue
			}
			if cbody.mayFollow(rc, at) {
				if ok, why := cbody.successAt(rc, at); !ok {
					bad = "a store is returned after reindex was started but not on its success edge (" + why + "): a half-built index would serve reads"
				}
			}
		}
		r.Check(bad == "", rule, construct, p.Pos(nr.Ret.Pos()), "preceded by checkLargeIntegrity; on the success edge of reindex where reindex ran", bad)
	}
	// (iii) reindex: success only after every top-level CommitBatch succeeded; installs the index it filled
	rbody := c04BodyOf(reindex)
	commits := rbody.calls(func(c CallSite) bool {
		cc := c.Common()
		return cc.IsInvoke() && cc.Method.Name() == "CommitBatch" && IsNamed(cc.Value.Type(), c04SortedPkg, "KeyValue")
	})
	var newMeta ssa.Value
	var newMetaFr *c04Frame
	for _, cm := range commits {
		newMetaFr, newMeta = c04Up(cm.fr, cm.call().Common().Value)
	}
	if len(commits) == 0 {
		r.Violation(rule, FuncKey(reindex)+"#commit", p.Pos(reindex.Pos()), "reindex commits nothing at top level")
	}
	for _, nr := range MaybeNilErrorReturns(reindex) {
		at := c04Site{rbody.root, lastOf(nr.From)}
		bad := ""
		for _, cm := range commits {
			if cm.call().Value() == nil {
				bad = "CommitBatch result dropped"
				continue
			}
			if ok, why := rbody.successAt(cm, at); !ok {
				bad = fmt.Sprintf("reindex reports success although the CommitBatch at line %d is not known to have succeeded (%s)", c04Line(p, cm.in.Pos()), why)
			}
		}
		r.Check(bad == "", rule, FuncKey(reindex)+"#success-return", p.Pos(nr.Ret.Pos()), fmt.Sprintf("on the success edge of %d top-level CommitBatch call(s)", len(commits)), bad)
	}
	nInstall := 0
	rbody.instrs(func(fr *c04Frame, in ssa.Instruction) {
		st, ok := in.(*ssa.Store)
		if !ok {
			return
		}
		fa, ok := st.Addr.(*ssa.FieldAddr)
		if !ok || fieldName(fa.X.Type(), fa.Field) != "meta" {
			return
		}
		if n := NamedOf(fa.X.Type()); n == nil || n.Obj().Name() != "storage" {
			return
		}
		nInstall++
		ok2 := newMeta != nil && c04SameIn(fr, st.Val, newMetaFr, newMeta)
		for _, cm := range commits {
			if cm.call().Value() != nil {
				if k, _ := rbody.successAt(cm, c04Site{fr, st}); !k {
					ok2 = false
				}
			}
		}
		r.Check(ok2, rule, FuncKey(reindex)+"#install-meta", p.Pos(st.Pos()), "s.meta is replaced by the KeyValue the rows were committed to, after the commits succeeded", "s.meta is replaced by something other than the KeyValue reindex filled, or before its commits succeeded")
	})
	if nInstall == 0 {
		r.Violation(rule, FuncKey(reindex)+"#install-meta", p.Pos(reindex.Pos()), "reindex never installs the rebuilt index as s.meta")
	}
	// (iv) deleting a zip from large
	n := 0
	inUseFn := p.Func(c04Rel, "storage", "zipPartsInUse")
	for _, fn := range p.FuncsIn(c04Rel) {
		for _, c := range CallsIn(fn, false) {
			c := c
			cc := c.Common()
			if !cc.IsInvoke() || cc.Method.Name() != "RemoveBlobs" || !c04RoleAnywhere(p, cc.Value, 0)["large"] {
				continue
			}
			n++
			construct := FuncKey(fn) + "#large.RemoveBlobs"
			good, detail := c04InAllContexts(p, fn, func(body *c04Body, fr *c04Frame) (bool, string) {
				site := c04Site{fr, c.Instr}
				efr, ev := c04Up(fr, cc.Args[1])
				elems, okE := c04VarargElems(originValue(ev))
				detail := "no zipPartsInUse call of the same ref guards the removal"
				for _, g := range body.calls(func(x CallSite) bool { return x.Callee() == inUseFn && x.Value() != nil }) {
					gc := g.call()
					if k, why := body.successAt(g, site); !k {
						detail = "zipPartsInUse: " + why
						continue
					}
					if !okE || len(elems) != 1 || !c04SameIn(efr, elems[0], g.fr, gc.Common().Args[2]) {
						detail = "the removed refs are not exactly the ref whose parts were checked"
						continue
					}
					res := ResultValue(gc.Value(), 0)
					empty := body.factAt(site, func(ffr *c04Frame, cond ssa.Value, val bool) bool {
						return c04SaysEmpty(cond, val, func(v ssa.Value) bool { return res != nil && c04SameIn(ffr, v, g.fr, res) })
					}, 0)
					if !empty {
						detail = "the removal is not under the fact that zipPartsInUse returned no part in use"
						continue
					}
					return true, "guarded by zipPartsInUse(same ref) == nil error and empty result"
				}
				return false, detail
			})
			r.Check(good, rule, construct, p.Pos(c.Pos()), detail, "a zip is removed from large: "+detail+" (logical blobs still mapped into it become unreadable)")
		}
	}
	r.Analysed("large_remove_sites", n)
	r.Floor(rule, 5)
}

// ---------------------------------------------------------------------------
// element flow: which blob refs may a slice / a struct field hold (local,
// field-sensitive may-analysis used by Z-order "removed refs are mapped refs")

type c04Flow struct {
	leaves   map[string]ssa.Value // key -> representative value
	seenEl   map[ssa.Value]bool
	seenLoad map[string]bool
	stores   map[*ssa.Alloc][]c04PathStore
	fn       *ssa.Function
	body     *c04Body
}

type c04PathStore struct {
	path []int
	st   *ssa.Store
}

func c04NewFlow(fn *ssa.Function) *c04Flow { return c04NewFlowIn(nil, fn) }

// c04NewFlowIn: element flow over an effective body (parameters of helpers
// hold what the callers pass, helper calls yield what the helpers return).
func c04NewFlowIn(body *c04Body, fn *ssa.Function) *c04Flow {
	fl := &c04Flow{leaves: map[string]ssa.Value{}, seenEl: map[ssa.Value]bool{}, seenLoad: map[string]bool{}, stores: map[*ssa.Alloc][]c04PathStore{}, fn: fn, body: body}
	fns := []*ssa.Function{fn}
	if body != nil {
		seen := map[*ssa.Function]bool{fn: true}
		for _, fr := range body.frames {
			if !seen[fr.fn] {
				seen[fr.fn] = true
				fns = append(fns, fr.fn)
			}
		}
	}
	for _, f := range fns {
		for _, b := range f.Blocks {
			for _, in := range b.Instrs {
				st, ok := in.(*ssa.Store)
				if !ok {
					continue
				}
				var path []int
				addr := st.Addr
				for {
					if fa, ok := addr.(*ssa.FieldAddr); ok {
						path = append([]int{fa.Field}, path...)
						addr = fa.X
						continue
					}
					break
				}
				if al, ok := addr.(*ssa.Alloc); ok {
					fl.stores[al] = append(fl.stores[al], c04PathStore{path, st})
				}
			}
		}
	}
	return fl
}

func (fl *c04Flow) leaf(v ssa.Value, path []int) {
	fl.leaves[fmt.Sprintf("%p%v", v, path)] = v
}

// elems returns the values that may be elements of slice s; resolvable=false
// when some contributor is opaque (field load, call result, parameter).
func (fl *c04Flow) elems(s ssa.Value, seen map[ssa.Value]bool) (vals []ssa.Value, resolvable bool) {
	if seen[s] {
		return nil, true
	}
	seen[s] = true
	switch x := s.(type) {
	case *ssa.Const:
		return nil, x.Value == nil
	case *ssa.MakeSlice:
		return nil, true
	case *ssa.Convert:
		return fl.elems(x.X, seen)
	case *ssa.ChangeType:
		return fl.elems(x.X, seen)
	case *ssa.Phi:
		resolvable = true
		for _, e := range x.Edges {
			v, r := fl.elems(e, seen)
			vals = append(vals, v...)
			resolvable = resolvable && r
		}
		return vals, resolvable
	case *ssa.Parameter:
		args := fl.body.argsOf(x)
		resolvable = len(args) > 0
		for _, a := range args {
			v, r := fl.elems(a, seen)
			vals = append(vals, v...)
			resolvable = resolvable && r
		}
		return vals, resolvable
	case *ssa.Extract:
		if rs, ok := fl.body.resultsOf(x); ok {
			resolvable = true
			for _, rv := range rs {
				v, r := fl.elems(rv, seen)
				vals = append(vals, v...)
				resolvable = resolvable && r
			}
			return vals, resolvable
		}
	case *ssa.Call:
		if b, ok := x.Call.Value.(*ssa.Builtin); ok && b.Name() == "append" && len(x.Call.Args) == 2 {
			a, r1 := fl.elems(x.Call.Args[0], seen)
			c, r2 := fl.elems(x.Call.Args[1], seen)
			return append(a, c...), r1 && r2
		}
		if rs, ok := fl.body.resultsOf(x); ok {
			resolvable = true
			for _, rv := range rs {
				v, r := fl.elems(rv, seen)
				vals = append(vals, v...)
				resolvable = resolvable && r
			}
			return vals, resolvable
		}
	case *ssa.Slice:
		if al, ok := x.X.(*ssa.Alloc); ok {
			if _, isArr := al.Type().(*types.Pointer).Elem().Underlying().(*types.Array); isArr {
				if refs := al.Referrers(); refs != nil {
					for _, u := range *refs {
						if ia, ok := u.(*ssa.IndexAddr); ok {
							if ir := ia.Referrers(); ir != nil {
								for _, w := range *ir {
									if st, ok := w.(*ssa.Store); ok && st.Addr == ssa.Value(ia) {
										vals = append(vals, st.Val)
									}
								}
							}
						}
					}
				}
				return vals, true
			}
		}
		return fl.elems(x.X, seen)
	case *ssa.UnOp:
		if x.Op == token.MUL {
			if al, ok := x.X.(*ssa.Alloc); ok && plainVariable(al) {
				sts := storesTo(al)
				resolvable = len(sts) > 0
				for _, st := range sts {
					v, r := fl.elems(st.Val, seen)
					vals = append(vals, v...)
					resolvable = resolvable && r
				}
				return vals, resolvable
			}
		}
	}
	return nil, false
}

// field collects the leaves of field path P of struct-or-ref value w.
func (fl *c04Flow) field(w ssa.Value, path []int, depth int) {
	if depth > 40 {
		fl.leaf(w, path)
		return
	}
	switch x := w.(type) {
	case *ssa.UnOp:
		if x.Op == token.MUL {
			fl.load(x.X, path, x, depth+1)
			return
		}
	case *ssa.Field:
		fl.field(x.X, append([]int{x.Field}, path...), depth+1)
		return
	case *ssa.Phi:
		key := fmt.Sprintf("phi%p%v", x, path)
		if fl.seenLoad[key] {
			return
		}
		fl.seenLoad[key] = true
		for _, e := range x.Edges {
			fl.field(e, path, depth+1)
		}
		return
	case *ssa.ChangeType:
		fl.field(x.X, path, depth+1)
		return
	case *ssa.Parameter:
		if args := fl.body.argsOf(x); len(args) > 0 {
			key := fmt.Sprintf("prm%p%v", x, path)
			if fl.seenLoad[key] {
				return
			}
			fl.seenLoad[key] = true
			for _, a := range args {
				fl.field(a, path, depth+1)
			}
			return
		}
	case *ssa.Call, *ssa.Extract:
		if rs, ok := fl.body.resultsOf(w); ok {
			key := fmt.Sprintf("res%p%v", w, path)
			if fl.seenLoad[key] {
				return
			}
			fl.seenLoad[key] = true
			for _, rv := range rs {
				fl.field(rv, path, depth+1)
			}
			return
		}
	}
	fl.leaf(w, path)
}

func (fl *c04Flow) load(addr ssa.Value, path []int, self ssa.Value, depth int) {
	key := fmt.Sprintf("ld%p%v", addr, path)
	if fl.seenLoad[key] {
		return
	}
	fl.seenLoad[key] = true
	switch a := addr.(type) {
	case *ssa.FieldAddr:
		fl.load(a.X, append([]int{a.Field}, path...), self, depth+1)
		return
	case *ssa.IndexAddr:
		es, ok := fl.elems(a.X, map[ssa.Value]bool{})
		if ok && len(es) > 0 {
			for _, e := range es {
				fl.field(e, path, depth+1)
			}
			return
		}
	case *ssa.Alloc:
		n := 0
		for _, ps := range fl.stores[a] {
			if len(ps.path) <= len(path) && fmt.Sprint(ps.path) == fmt.Sprint(path[:len(ps.path)]) {
				n++
				fl.field(ps.st.Val, path[len(ps.path):], depth+1)
			}
		}
		if n > 0 {
			return
		}
	}
	fl.leaf(self, path)
}

// c04RefLeaves: leaves of all elements of slice s.
func c04SliceLeaves(body *c04Body, fn *ssa.Function, s ssa.Value) (map[string]ssa.Value, bool) {
	fl := c04NewFlowIn(body, fn)
	es, ok := fl.elems(s, map[ssa.Value]bool{})
	if !ok {
		return nil, false
	}
	for _, e := range es {
		fl.field(e, nil, 0)
	}
	return fl.leaves, true
}

func c04ValueLeaves(body *c04Body, fn *ssa.Function, v ssa.Value) map[string]ssa.Value {
	fl := c04NewFlowIn(body, fn)
	fl.field(v, nil, 0)
	return fl.leaves
}

// ---------------------------------------------------------------------------
// Z-whole-blob: a blob that gets a b: row (and a manifest entry) is moved into
// the zip WHOLE — the recorded size is the size the store reports for that
// ref (or a value proven equal to it by a dominating == fact) and the bytes
// copied into the zip are the uncapped content of the fetch of that very ref.

// c04ValuePreserving: converting an integer of type src to dst keeps its
// mathematical value (sizes from the build configuration that was loaded).
func c04ValuePreserving(p *Program, src, dst types.Type) bool {
	sb, ok1 := src.Underlying().(*types.Basic)
	db, ok2 := dst.Underlying().(*types.Basic)
	if !ok1 || !ok2 || sb.Info()&types.IsInteger == 0 || db.Info()&types.IsInteger == 0 {
		return false
	}
	sizes := p.Pkg(c04Rel).TypesSizes
	if sizes == nil {
		return false
	}
	sw, dw := sizes.Sizeof(sb), sizes.Sizeof(db)
	su, du := sb.Info()&types.IsUnsigned != 0, db.Info()&types.IsUnsigned != 0
	switch {
	case su == du:
		return dw >= sw
	case su && !du:
		return dw > sw
	}
	return false
}

// c04StripWiden strips value-preserving integer conversions, interface
// conversions and loads of single-store locals.
func c04StripWiden(p *Program, v ssa.Value) ssa.Value {
	for i := 0; i < 32 && v != nil; i++ {
		if cv, ok := v.(*ssa.Convert); ok {
			if !c04ValuePreserving(p, cv.X.Type(), cv.Type()) {
				return v
			}
			v = cv.X
			continue
		}
		o := originValue(v)
		if o == v {
			return v
		}
		v = o
	}
	return v
}

// c04CmpFact normalises a branch fact to the relation that holds between two
// operands (NOT and a false outcome are folded into the operator).
func c04CmpFact(cond ssa.Value, val bool) (x, y ssa.Value, op token.Token, ok bool) {
	for {
		u, isU := cond.(*ssa.UnOp)
		if !isU || u.Op != token.NOT {
			break
		}
		cond, val = u.X, !val
	}
	bo, isB := cond.(*ssa.BinOp)
	if !isB {
		return nil, nil, 0, false
	}
	neg := map[token.Token]token.Token{token.EQL: token.NEQ, token.NEQ: token.EQL, token.LSS: token.GEQ, token.GEQ: token.LSS, token.GTR: token.LEQ, token.LEQ: token.GTR}
	op = bo.Op
	if _, known := neg[op]; !known {
		return nil, nil, 0, false
	}
	if !val {
		op = neg[op]
	}
	return bo.X, bo.Y, op, true
}

// c04RefSrc: a value a blob ref may come from, and the innermost append through
// which it entered a slice on the way to the use (nil: used directly).
type c04RefSrc struct {
	val ssa.Value
	app *ssa.Call
}

// c04WB: the effective body the Z-whole-blob element flow runs in (set by c04ZWhole).
var c04WB *c04Body

// c04AppendElems lists the values a locally built slice may hold, each with
// the append call that put it there; ok=false when some contributor is opaque
// (field load, call result, parameter, map lookup).
func c04AppendElems(s ssa.Value, seen map[ssa.Value]bool) (out []c04RefSrc, ok bool) {
	if seen[s] {
		return nil, true
	}
	seen[s] = true
	// across helpers of the body under analysis: a parameter holds what the
	// callers pass, a helper call yields what the helper returns
	if prm, isPrm := s.(*ssa.Parameter); isPrm {
		args := c04WB.argsOf(prm)
		ok = len(args) > 0
		for _, a := range args {
			v, r := c04AppendElems(a, seen)
			out = append(out, v...)
			ok = ok && r
		}
		return out, ok
	}
	if rs, isRes := c04WB.resultsOf(s); isRes {
		ok = true
		for _, rv := range rs {
			v, r := c04AppendElems(rv, seen)
			out = append(out, v...)
			ok = ok && r
		}
		return out, ok
	}
	switch x := s.(type) {
	case *ssa.Const:
		return nil, x.Value == nil
	case *ssa.MakeSlice:
		return nil, true
	case *ssa.Convert:
		return c04AppendElems(x.X, seen)
	case *ssa.ChangeType:
		return c04AppendElems(x.X, seen)
	case *ssa.Phi:
		ok = true
		for _, e := range x.Edges {
			v, r := c04AppendElems(e, seen)
			out = append(out, v...)
			ok = ok && r
		}
		return out, ok
	case *ssa.Call:
		b, isB := x.Call.Value.(*ssa.Builtin)
		if !isB || b.Name() != "append" || len(x.Call.Args) != 2 {
			return nil, false
		}
		a, r1 := c04AppendElems(x.Call.Args[0], seen)
		if elems, lit := c04VarargElems(x.Call.Args[1]); lit {
			for _, e := range elems {
				a = append(a, c04RefSrc{e, x})
			}
			return a, r1
		}
		c, r2 := c04AppendElems(x.Call.Args[1], seen)
		return append(a, c...), r1 && r2
	case *ssa.Slice:
		if _, isAlloc := x.X.(*ssa.Alloc); isAlloc {
			if elems, lit := c04VarargElems(x); lit {
				for _, e := range elems {
					out = append(out, c04RefSrc{e, nil})
				}
				return out, true
			}
			return nil, false
		}
		return c04AppendElems(x.X, seen)
	case *ssa.UnOp:
		if x.Op == token.MUL {
			if al, isAl := x.X.(*ssa.Alloc); isAl && plainVariable(al) {
				sts := storesTo(al)
				ok = len(sts) > 0
				for _, st := range sts {
					v, r := c04AppendElems(st.Val, seen)
					out = append(out, v...)
					ok = ok && r
				}
				return out, ok
			}
		}
	}
	return nil, false
}

// c04RefSrcs resolves a ref-typed value through range loops over locally
// built slices to the values that were appended to them.
func c04RefSrcs(v ssa.Value) []c04RefSrc {
	var out []c04RefSrc
	seen := map[ssa.Value]bool{}
	var walk func(v ssa.Value, app *ssa.Call, depth int)
	walk = func(v ssa.Value, app *ssa.Call, depth int) {
		if ct, ok := v.(*ssa.ChangeType); ok {
			v = ct.X
		}
		if seen[v] {
			return
		}
		seen[v] = true
		if depth < 24 {
			switch x := v.(type) {
			case *ssa.Phi:
				for _, e := range x.Edges {
					walk(e, app, depth+1)
				}
				return
			case *ssa.Parameter:
				if args := c04WB.argsOf(x); len(args) > 0 {
					for _, a := range args {
						walk(a, app, depth+1)
					}
					return
				}
			case *ssa.UnOp:
				if x.Op == token.MUL {
					switch a := x.X.(type) {
					case *ssa.IndexAddr:
						if elems, ok := c04AppendElems(a.X, map[ssa.Value]bool{}); ok && len(elems) > 0 {
							for _, e := range elems {
								ap := e.app
								if ap == nil {
									ap = app
								}
								walk(e.val, ap, depth+1)
							}
							return
						}
					case *ssa.Alloc:
						if plainVariable(a) {
							if sts := storesTo(a); len(sts) > 0 {
								for _, st := range sts {
									walk(st.Val, app, depth+1)
								}
								return
							}
						}
					}
				}
			}
		}
		out = append(out, c04RefSrc{v, app})
	}
	walk(v, nil, 0)
	return out
}

// c04ResolveArg: a helper's parameter stands for the caller's argument when
// every activation in the Z-whole body is passed the same value.
func c04ResolveArg(v ssa.Value, depth int) ssa.Value {
	prm, ok := originValue(v).(*ssa.Parameter)
	if !ok || depth > c04MaxFrameDepth {
		return v
	}
	args := c04WB.argsOf(prm)
	if len(args) == 0 {
		return v
	}
	for _, a := range args[1:] {
		if !sameOrigin(a, args[0]) {
			return v
		}
	}
	return c04ResolveArg(args[0], depth+1)
}

// c04SameRef: a and b denote the same blob ref: the same value, or two loads
// of the same element (same slice value, same index value) of a slice.
func c04SameRef(a, b ssa.Value) bool {
	a, b = c04ResolveArg(a, 0), c04ResolveArg(b, 0)
	if sameOrigin(a, b) {
		return true
	}
	la, ok1 := originValue(a).(*ssa.UnOp)
	lb, ok2 := originValue(b).(*ssa.UnOp)
	if !ok1 || !ok2 || la.Op != token.MUL || lb.Op != token.MUL {
		return false
	}
	ia, ok1 := la.X.(*ssa.IndexAddr)
	ib, ok2 := lb.X.(*ssa.IndexAddr)
	if !ok1 || !ok2 || !sameOrigin(ia.X, ib.X) {
		return false
	}
	if sameOrigin(ia.Index, ib.Index) {
		return true
	}
	ca, ok1 := ConstInt(ia.Index)
	cb, ok2 := ConstInt(ib.Index)
	return ok1 && ok2 && ca == cb
}

// c04MaybeSameRef: not the same value, but both resolve through local element
// flow to exactly the same sources (e.g. two different elements of one slice):
// the rule cannot tell whether they are the same element.
func c04MaybeSameRef(a, b ssa.Value) bool {
	sa, sb := c04RefSrcs(a), c04RefSrcs(b)
	if len(sa) == 0 || len(sa) != len(sb) {
		return false
	}
	for _, x := range sa {
		found := false
		for _, y := range sb {
			if x.val == y.val || sameOrigin(x.val, y.val) {
				found = true
			}
		}
		if !found {
			return false
		}
	}
	return true
}

// c04FieldVals: the values that may have been stored into field path `path`
// of struct value w, following local composite literals, copies of locals and
// (at the top only, via c04FieldLoad) elements of locally built slices.
func c04FieldVals(fl *c04Flow, w ssa.Value, path []int, depth int) ([]ssa.Value, bool) {
	if len(path) == 0 {
		return []ssa.Value{w}, true
	}
	if depth > 24 {
		return nil, false
	}
	switch x := w.(type) {
	case *ssa.UnOp:
		if x.Op == token.MUL {
			return c04FieldLoad(fl, x.X, path, depth+1)
		}
	case *ssa.Field:
		return c04FieldVals(fl, x.X, append([]int{x.Field}, path...), depth+1)
	case *ssa.ChangeType:
		return c04FieldVals(fl, x.X, path, depth+1)
	case *ssa.Phi:
		var out []ssa.Value
		for _, e := range x.Edges {
			v, ok := c04FieldVals(fl, e, path, depth+1)
			if !ok {
				return nil, false
			}
			out = append(out, v...)
		}
		return out, true
	case *ssa.Parameter:
		args := c04WB.argsOf(x)
		if len(args) == 0 {
			return nil, false
		}
		var out []ssa.Value
		for _, a := range args {
			v, ok := c04FieldVals(fl, a, path, depth+1)
			if !ok {
				return nil, false
			}
			out = append(out, v...)
		}
		return out, true
	}
	return nil, false
}

func c04FieldLoad(fl *c04Flow, addr ssa.Value, path []int, depth int) ([]ssa.Value, bool) {
	switch a := addr.(type) {
	case *ssa.FieldAddr:
		return c04FieldLoad(fl, a.X, append([]int{a.Field}, path...), depth+1)
	case *ssa.Alloc:
		var out []ssa.Value
		for _, ps := range fl.stores[a] {
			n := len(ps.path)
			if n > len(path) {
				n = len(path)
			}
			if fmt.Sprint(ps.path[:n]) != fmt.Sprint(path[:n]) {
				continue
			}
			if len(ps.path) > len(path) {
				return nil, false // the field is assembled piecewise below the path asked for
			}
			v, ok := c04FieldVals(fl, ps.st.Val, path[len(ps.path):], depth+1)
			if !ok {
				return nil, false
			}
			out = append(out, v...)
		}
		return out, true
	case *ssa.IndexAddr:
		elems, ok := c04AppendElems(a.X, map[ssa.Value]bool{})
		if !ok {
			return nil, false
		}
		var out []ssa.Value
		for _, e := range elems {
			v, ok := c04FieldVals(fl, e.val, path, depth+1)
			if !ok {
				return nil, false
			}
			out = append(out, v...)
		}
		return out, true
	}
	return nil, false
}

// c04SizedRefPath: field path from struct type t to its blob.SizedRef part
// (the type itself, or a unique field / embedded field of that type), and the
// indexes of Ref and Size in blob.SizedRef.
func c04SizedRefPath(t types.Type) (path []int, refIdx, sizeIdx int, ok bool) {
	find := func(st *types.Struct) (int, int, bool) {
		ri, si := -1, -1
		for i := 0; i < st.NumFields(); i++ {
			switch st.Field(i).Name() {
			case "Ref":
				ri = i
			case "Size":
				si = i
			}
		}
		return ri, si, ri >= 0 && si >= 0
	}
	if IsNamed(t, c04BlobPkg, "SizedRef") {
		st, isSt := t.Underlying().(*types.Struct)
		if !isSt {
			return nil, 0, 0, false
		}
		ri, si, k := find(st)
		return nil, ri, si, k
	}
	st, isSt := t.Underlying().(*types.Struct)
	if !isSt {
		return nil, 0, 0, false
	}
	n := 0
	for i := 0; i < st.NumFields(); i++ {
		if IsNamed(st.Field(i).Type(), c04BlobPkg, "SizedRef") {
			if sst, isS := st.Field(i).Type().Underlying().(*types.Struct); isS {
				if ri, si, k := find(sst); k {
					path, refIdx, sizeIdx, ok = []int{i}, ri, si, true
					n++
				}
			}
		}
	}
	return path, refIdx, sizeIdx, ok && n == 1
}

// c04AddrChain decomposes a load `*(&(&base.f).g)` into base and [f g].
func c04AddrChain(v ssa.Value) (base ssa.Value, path []int, ok bool) {
	ld, isLd := v.(*ssa.UnOp)
	if !isLd || ld.Op != token.MUL {
		return nil, nil, false
	}
	addr := ld.X
	for {
		fa, isFA := addr.(*ssa.FieldAddr)
		if !isFA {
			break
		}
		path = append([]int{fa.Field}, path...)
		addr = fa.X
	}
	return addr, path, len(path) > 0
}

// c04WholeEntry: one (ref, size) description of a packed blob.
type c04WholeEntry struct {
	kind  string          // "b:-row" / "manifest <field>"
	site  ssa.Instruction // where the description is built (element value) or used
	ref   ssa.Value
	size  ssa.Value
	undec string
	fr    *c04Frame // the activation site belongs to (set by c04ZWhole)
}

// c04PairUp splits the (ref, size) operands of a row writer into one pair per
// element constructor when both are read from the same element of a locally
// built slice of structs.
func c04PairUp(fn *ssa.Function, kind string, at ssa.Instruction, vr, vs ssa.Value) []c04WholeEntry {
	fl := c04NewFlowIn(c04WB, fn)
	single := func(why string) []c04WholeEntry {
		return []c04WholeEntry{{kind: kind, site: at, ref: vr, size: vs, undec: why}}
	}
	br, pr, ok1 := c04AddrChain(vr)
	bs, ps, ok2 := c04AddrChain(c04StripConv(vs))
	if !ok1 || !ok2 || br != bs {
		return single("")
	}
	var elems []c04RefSrc
	switch b := br.(type) {
	case *ssa.IndexAddr:
		es, ok := c04AppendElems(b.X, map[ssa.Value]bool{})
		if !ok {
			return single("the slice the row is built from is not assembled in this function")
		}
		elems = es
	case *ssa.Alloc:
		for _, pst := range fl.stores[b] {
			if len(pst.path) != 0 {
				return single("")
			}
			w := pst.st.Val
			if ld, isLd := w.(*ssa.UnOp); isLd && ld.Op == token.MUL {
				if ia, isIA := ld.X.(*ssa.IndexAddr); isIA {
					es, ok := c04AppendElems(ia.X, map[ssa.Value]bool{})
					if !ok {
						return single("the slice the row is built from is not assembled in this function")
					}
					elems = append(elems, es...)
					continue
				}
			}
			elems = append(elems, c04RefSrc{w, nil})
		}
	default:
		return single("")
	}
	if len(elems) == 0 {
		return single("")
	}
	var out []c04WholeEntry
	for _, e := range elems {
		ent := c04WholeEntry{kind: kind, site: at}
		if in, isIn := e.val.(ssa.Instruction); isIn {
			ent.site = in
		}
		rv, okr := c04FieldVals(fl, e.val, pr, 0)
		sv, oks := c04FieldVals(fl, e.val, ps, 0)
		switch {
		case !okr || !oks:
			ent.undec = "a field of the element cannot be followed to the value stored in it"
		case len(rv) != 1 || len(sv) != 1:
			ent.undec = fmt.Sprintf("the element has %d ref and %d size candidates; the rule pairs exactly one with one", len(rv), len(sv))
		default:
			ent.ref, ent.size = rv[0], sv[0]
		}
		out = append(out, ent)
	}
	return out
}

// c04SizeTerm classifies what a recorded size is.
type c04SizeTerm struct {
	kind string     // "store": size result of a Fetch/StatBlob of ref; "map": m[ref] of a struct-field map; "blob": (*blob.Blob).Size() of blob; "other"
	call *ssa.Call  // store: the fetch/stat call
	ref  ssa.Value  // store: its ref argument; map: the key; blob: the key/ref the blob was obtained for (nil if unknown)
	fid  c04FieldID // map / blob-from-map: the map field
	blob ssa.Value  // blob: the *blob.Blob value
	desc string
}

func c04RefArg(call *ssa.Call) ssa.Value {
	for _, a := range call.Call.Args {
		if c04IsRef(a.Type()) {
			return a
		}
	}
	return nil
}

// c04IsFetchCall: a call named Fetch returning (reader, uint32 size, error)
// for a blob.Ref argument (blob.Fetcher and every implementation of it).
func c04IsFetchCall(call *ssa.Call) bool {
	if (CallSite{call.Parent(), call}).MethodName() != "Fetch" || c04RefArg(call) == nil {
		return false
	}
	tup, ok := call.Type().(*types.Tuple)
	if !ok || tup.Len() != 3 || !isErrorType(tup.At(2).Type()) {
		return false
	}
	b, ok := tup.At(1).Type().Underlying().(*types.Basic)
	return ok && b.Info()&types.IsInteger != 0
}

func c04IsStatCall(call *ssa.Call) bool {
	c := CallSite{call.Parent(), call}
	return c.IsStatic(c04BSPkg, "", "StatBlob") && c04RefArg(call) != nil
}

// c04MapLookup: v is m[k] (plain or comma-ok) where m is loaded from a field
// of a named struct.
func c04MapLookup(v ssa.Value) (fid c04FieldID, key ssa.Value, ok bool) {
	if ex, isEx := v.(*ssa.Extract); isEx && ex.Index == 0 {
		v = ex.Tuple
	}
	lk, isLk := v.(*ssa.Lookup)
	if !isLk {
		return fid, nil, false
	}
	if _, isMap := lk.X.Type().Underlying().(*types.Map); !isMap {
		return fid, nil, false
	}
	m := originValue(lk.X)
	ld, isLd := m.(*ssa.UnOp)
	if !isLd || ld.Op != token.MUL {
		return fid, nil, false
	}
	fid, ok = c04FieldOf(ld.X)
	return fid, lk.Index, ok
}

func c04IsBlobMethod(call *ssa.Call, names ...string) bool {
	c := CallSite{call.Parent(), call}
	for _, n := range names {
		if c.IsStatic(c04BlobPkg, "Blob", n) {
			return true
		}
	}
	return false
}

func c04ClassifySize(p *Program, v ssa.Value) c04SizeTerm {
	v = c04StripWiden(p, v)
	if ex, ok := v.(*ssa.Extract); ok {
		if call, isC := ex.Tuple.(*ssa.Call); isC && ex.Index == 1 && c04IsFetchCall(call) {
			return c04SizeTerm{kind: "store", call: call, ref: c04RefArg(call), desc: "size<-Fetch(ref)"}
		}
	}
	// .Size of the SizedRef returned by blobserver.StatBlob
	if f, ok := v.(*ssa.Field); ok && IsNamed(f.X.Type(), c04BlobPkg, "SizedRef") && fieldName(f.X.Type(), f.Field) == "Size" {
		if ex, isEx := originValue(f.X).(*ssa.Extract); isEx && ex.Index == 0 {
			if call, isC := ex.Tuple.(*ssa.Call); isC && c04IsStatCall(call) {
				return c04SizeTerm{kind: "store", call: call, ref: c04RefArg(call), desc: "size<-StatBlob(ref)"}
			}
		}
	}
	if fid, key, ok := c04MapLookup(v); ok {
		return c04SizeTerm{kind: "map", fid: fid, ref: key, desc: "size<-" + fid.String() + "[ref]"}
	}
	if call, ok := v.(*ssa.Call); ok && c04IsBlobMethod(call, "Size") && len(call.Call.Args) == 1 {
		t := c04SizeTerm{kind: "blob", blob: call.Call.Args[0], desc: "size<-Blob.Size()"}
		b := originValue(t.blob)
		if fid, key, isLk := c04MapLookup(b); isLk {
			t.fid, t.ref = fid, key
			t.desc = "size<-Blob.Size(" + fid.String() + "[ref])"
		} else if ex, isEx := b.(*ssa.Extract); isEx && ex.Index == 0 {
			if fc, isC := ex.Tuple.(*ssa.Call); isC && (CallSite{fc.Parent(), fc}).IsStatic(c04BlobPkg, "", "FromFetcher") {
				t.ref = c04RefArg(fc)
				t.desc = "size<-Blob.Size(FromFetcher(ref))"
			}
		}
		return t
	}
	return c04SizeTerm{kind: "other", desc: "size<-?"}
}

// c04SameBlob: two *blob.Blob values denote the same blob object (same value,
// or lookups of the same struct-field map under the same ref).
func c04SameBlob(a, b ssa.Value) bool {
	if sameOrigin(a, b) {
		return true
	}
	fa, ka, ok1 := c04MapLookup(originValue(a))
	fb, kb, ok2 := c04MapLookup(originValue(b))
	return ok1 && ok2 && fa == fb && c04SameRef(ka, kb)
}

// c04FieldWrites lists, package wide, the instructions that change a map held
// in struct field fid: map updates through a load of the field, and stores to
// the field itself (other than the initial composite literal of the struct).
func c04FieldWrites(fns []*ssa.Function, fid c04FieldID) (updates []*ssa.MapUpdate, assigns []*ssa.Store) {
	var visit func(f *ssa.Function)
	visit = func(f *ssa.Function) {
		for _, b := range f.Blocks {
			for _, in := range b.Instrs {
				switch x := in.(type) {
				case *ssa.MapUpdate:
					if ld, ok := originValue(x.Map).(*ssa.UnOp); ok && ld.Op == token.MUL {
						if id, isF := c04FieldOf(ld.X); isF && id == fid {
							updates = append(updates, x)
						}
					}
				case *ssa.Store:
					if id, isF := c04FieldOf(x.Addr); isF && id == fid {
						assigns = append(assigns, x)
					}
				}
			}
		}
		for _, a := range f.AnonFuncs {
			visit(a)
		}
	}
	for _, f := range fns {
		if f.Parent() == nil {
			visit(f)
		}
	}
	return updates, assigns
}

// c04ZipEntryWriter: v is the io.Writer returned by (*zip.Writer).Create*;
// returns the creating call.
func c04ZipEntryWriter(v ssa.Value) *ssa.Call {
	ex, ok := v.(*ssa.Extract)
	if !ok || ex.Index != 0 {
		return nil
	}
	call, ok := ex.Tuple.(*ssa.Call)
	if !ok {
		return nil
	}
	c := CallSite{call.Parent(), call}
	for _, n := range []string{"Create", "CreateHeader", "CreateRaw"} {
		if c.IsStatic("archive/zip", "Writer", n) {
			return call
		}
	}
	return nil
}

// c04Copy: one io.Copy-family call with its classified source.
type c04Copy struct {
	site    c04Site
	call    *ssa.Call
	src     ssa.Value   // innermost reader reached through known wrappers
	caps    []ssa.Value // CopyN length / LimitReader limits on the way
	entries []*ssa.Call // zip entry writers the destination depends on
}

func c04Copies(body *c04Body) []c04Copy {
	var out []c04Copy
	for _, s := range body.calls(nil) {
		c := s.call()
		call := c.Value()
		if call == nil {
			continue
		}
		cp := c04Copy{site: s}
		switch {
		case c.IsStatic("io", "", "Copy"), c.IsStatic("io", "", "CopyBuffer"):
		case c.IsStatic("io", "", "CopyN"):
			cp.caps = append(cp.caps, call.Call.Args[2])
		default:
			continue
		}
		cp.call = call
		v := call.Call.Args[1]
		for i := 0; i < 16; i++ {
			v = originValue(c04ResolveArg(v, 0))
			inner, isCall := v.(*ssa.Call)
			if !isCall {
				break
			}
			ic := CallSite{inner.Parent(), inner}
			switch {
			case ic.IsStatic("io", "", "LimitReader"):
				cp.caps = append(cp.caps, inner.Call.Args[1])
				v = inner.Call.Args[0]
				continue
			case ic.IsStatic("io", "", "TeeReader"), ic.IsStatic("bufio", "", "NewReader"), ic.IsStatic("bufio", "", "NewReaderSize"), ic.IsStatic("io", "", "NopCloser"):
				v = inner.Call.Args[0]
				continue
			}
			break
		}
		cp.src = originValue(c04ResolveArg(v, 0))
		seenEntry := map[*ssa.Call]bool{}
		c04DependsIn(body, call.Call.Args[0], func(x ssa.Value) bool {
			if zc := c04ZipEntryWriter(x); zc != nil && !seenEntry[zc] {
				seenEntry[zc] = true
				cp.entries = append(cp.entries, zc)
			}
			return false
		}, false)
		out = append(out, cp)
	}
	return out
}

// c04EntryNameRefs: the blob-ref holes of the name of the zip entry created by
// call (Create(name) / CreateHeader(&FileHeader{Name: ...})).
func c04EntryNameRefs(create *ssa.Call) (refs []ssa.Value, err string) {
	arg := create.Call.Args[1]
	var name ssa.Value
	if b, ok := arg.Type().Underlying().(*types.Basic); ok && b.Info()&types.IsString != 0 {
		name = arg
	} else {
		al, isAl := originValue(arg).(*ssa.Alloc)
		if !isAl {
			return nil, "the zip entry header is not a local composite literal"
		}
		for _, b := range al.Parent().Blocks {
			for _, in := range b.Instrs {
				st, isSt := in.(*ssa.Store)
				if !isSt {
					continue
				}
				if fa, isFA := st.Addr.(*ssa.FieldAddr); isFA && fa.X == ssa.Value(al) && fieldName(fa.X.Type(), fa.Field) == "Name" {
					if name != nil {
						return nil, "the zip entry name is assigned more than once"
					}
					name = st.Val
				}
			}
		}
		if name == nil {
			return nil, "the zip entry header has no Name"
		}
	}
	toks, e := c04Shape(name, 0)
	if e != "" {
		return nil, "the zip entry name cannot be evaluated: " + e
	}
	for _, t := range toks {
		if t.Hole && t.class() == "ref" {
			if t.Val == nil {
				return nil, "the zip entry name renders a ref inside a helper"
			}
			refs = append(refs, t.Val)
		}
	}
	return refs, ""
}

func c04ZWhole(p *Program, r *Reporter, writers []*c04Writer) {
	const rule = "Z-whole-blob"
	fn := p.Func(c04Rel, "packer", "writeAZip")
	key := FuncKey(fn)
	pkgFns := p.FuncsIn(c04Rel)
	body := c04BodyOf(fn)
	c04WB = body
	defer func() { c04WB = nil }()
	recvs := c04LargeReceives(body)
	copies := c04Copies(body)
	r.Analysed("writeAZip_copy_calls", len(copies))
	siteOf := func(in ssa.Instruction, near *c04Frame) c04Site {
		v, _ := in.(ssa.Value)
		if v == nil {
			for _, fr := range body.framesOf(in.Parent()) {
				return c04Site{fr, in}
			}
			return c04Site{body.root, in}
		}
		return c04Site{body.frameNear(v, near), in}
	}

	// every path from `from` to a receive of the zip into large passes `via`
	covers := func(via, from c04Site) bool {
		if body.precedes(via, from) {
			return true
		}
		if len(recvs) == 0 {
			return false
		}
		reach := body.reach(from, nil, func(s c04Site) bool { return s == via })
		for _, rc := range recvs {
			if reach[rc.site] {
				return false
			}
		}
		return true
	}
	// provenEq: a fact known at the site says that value a equals a value accepted by
	// isB (frame-aware c04ProvenEqual; also facts a helper establishes on its success returns)
	provenEq := func(at c04Site, a ssa.Value, isB func(fr *c04Frame, v ssa.Value) bool) (bool, string) {
		weaker := ""
		eq := body.factAt(at, func(fr *c04Frame, cond ssa.Value, val bool) bool {
			x, y, op, ok := c04CmpFact(cond, val)
			if !ok {
				return false
			}
			sx, sy := c04StripWiden(p, x), c04StripWiden(p, y)
			if !(sx == a && isB(fr, sy)) && !(sy == a && isB(fr, sx)) {
				return false
			}
			if op == token.EQL {
				return true
			}
			if sy == a {
				op = map[token.Token]token.Token{token.LSS: token.GTR, token.GTR: token.LSS, token.LEQ: token.GEQ, token.GEQ: token.LEQ, token.NEQ: token.NEQ}[op]
			}
			weaker = op.String()
			return false
		}, 0)
		return eq, weaker
	}

	// ---- the descriptions: b: rows of the batch and manifest entries
	var entries []c04WholeEntry
	bKind := c04StrConst(p, "blobMetaPrefix") + "<ref>"
	for _, w := range writers {
		if !body.has(w.c.Fn) || w.kind != bKind {
			continue
		}
		ent := c04WholeEntry{kind: "b:-row", site: w.c.Instr}
		if w.keyErr != "" || w.valErr != "" {
			ent.undec = "row shape cannot be followed: " + w.keyErr + " " + w.valErr
			entries = append(entries, ent)
			continue
		}
		var vr, vs ssa.Value
		for _, t := range w.key {
			if t.Hole && t.class() == "ref" {
				vr = t.Val
			}
		}
		if fs, ok := c04Fields(w.val); ok && len(fs) > 0 && fs[0].class() == "int" {
			vs = fs[0].Val
		}
		if vr == nil || vs == nil {
			ent.undec = "the ref of the key or the size field (#0 of the value, as parseMetaRow reads it) is rendered inside a helper"
			entries = append(entries, ent)
			continue
		}
		entries = append(entries, c04PairUp(w.c.Fn, "b:-row", w.c.Instr, vr, vs)...)
	}
	maniT := p.NamedType(c04Rel, "Manifest")
	var bodyFns []*ssa.Function
	for _, fr := range body.frames {
		dup := false
		for _, f := range bodyFns {
			if f == fr.fn {
				dup = true
			}
		}
		if !dup {
			bodyFns = append(bodyFns, fr.fn)
		}
	}
	for _, bfn := range bodyFns {
		for _, b := range bfn.Blocks {
			for _, in := range b.Instrs {
				st, ok := in.(*ssa.Store)
				if !ok {
					continue
				}
				fa, ok := st.Addr.(*ssa.FieldAddr)
				if !ok || NamedOf(fa.X.Type()) != maniT {
					continue
				}
				sl, ok := st.Val.Type().Underlying().(*types.Slice)
				if !ok {
					continue
				}
				path, ri, si, ok := c04SizedRefPath(sl.Elem())
				if !ok {
					continue
				}
				kind := "manifest." + fieldName(fa.X.Type(), fa.Field)
				// new elements: literal arguments of the append; the base must be the field itself or a locally built slice
				var elems []c04RefSrc
				resolved := false
				if app, isApp := st.Val.(*ssa.Call); isApp {
					if bi, isB := app.Call.Value.(*ssa.Builtin); isB && bi.Name() == "append" && len(app.Call.Args) == 2 {
						selfBase := false
						if ld, isLd := app.Call.Args[0].(*ssa.UnOp); isLd && ld.Op == token.MUL {
							if fa2, isFA := ld.X.(*ssa.FieldAddr); isFA && fa2.X == fa.X && fa2.Field == fa.Field {
								selfBase = true
							}
						}
						if lit, isLit := c04VarargElems(app.Call.Args[1]); isLit && selfBase {
							for _, e := range lit {
								elems = append(elems, c04RefSrc{e, app})
							}
							resolved = true
						}
					}
				}
				if !resolved {
					es, ok := c04AppendElems(st.Val, map[ssa.Value]bool{})
					if !ok {
						entries = append(entries, c04WholeEntry{kind: kind, site: st, undec: "the manifest entries are not assembled element by element in this function"})
						continue
					}
					elems = es
				}
				fl := c04NewFlowIn(body, bfn)
				for _, e := range elems {
					ent := c04WholeEntry{kind: kind, site: st}
					if ein, isIn := e.val.(ssa.Instruction); isIn {
						ent.site = ein
					}
					rv, okr := c04FieldVals(fl, e.val, append(append([]int{}, path...), ri), 0)
					sv, oks := c04FieldVals(fl, e.val, append(append([]int{}, path...), si), 0)
					switch {
					case !okr || !oks:
						ent.undec = "a field of the manifest entry cannot be followed to the value stored in it"
					case len(rv) != 1 || len(sv) != 1:
						ent.undec = fmt.Sprintf("the manifest entry has %d ref and %d size candidates; the rule pairs exactly one with one", len(rv), len(sv))
					default:
						ent.ref, ent.size = rv[0], sv[0]
					}
					entries = append(entries, ent)
				}
			}
		}
	}
	r.Analysed("whole_blob_descriptions", len(entries))
	if len(entries) == 0 {
		r.Violation(rule, key+"#descriptions", p.Pos(fn.Pos()), "writeAZip builds no b: row and no manifest entry the rule can find")
	}

	isSizeOf := func(f *ssa.Call) func(ssa.Value) bool {
		return func(x ssa.Value) bool {
			t := c04ClassifySize(p, x)
			return t.kind == "store" && t.call == f
		}
	}
	// sizeEq: value v is the size reported by fetch f, or proven equal to it at the site
	sizeEq := func(v ssa.Value, f *ssa.Call, at c04Site) bool {
		sv := c04StripWiden(p, c04ResolveArg(v, 0))
		if isSizeOf(f)(sv) {
			return true
		}
		eq, _ := provenEq(at, sv, func(_ *c04Frame, x ssa.Value) bool { return isSizeOf(f)(c04StripWiden(p, c04ResolveArg(x, 0))) })
		return eq
	}

	seenConstruct := map[string]int{}
	for _, ent := range entries {
		site := p.Pos(ent.site.Pos())
		entSite := siteOf(ent.site, body.root)
		if ent.undec != "" {
			r.Undecided(rule, key+"#"+ent.kind+" ?", site, ent.undec)
			continue
		}
		term := c04ClassifySize(p, c04ResolveArg(ent.size, 0))
		base := key + "#" + ent.kind + " " + term.desc
		if n := seenConstruct[base]; n > 0 {
			base = fmt.Sprintf("%s/%d", base, n+1)
		}
		seenConstruct[key+"#"+ent.kind+" "+term.desc]++
		cSize, cBytes := base+"#size", base+"#bytes"
		srcs := c04RefSrcs(ent.ref)

		switch term.kind {
		case "other":
			r.Undecided(rule, cSize, site, "the recorded size is neither the size result of a Fetch/StatBlob, nor a lookup in a map field of the packer, nor the Size() of a *blob.Blob: the rule cannot relate it to the blob's real size")
			continue

		case "blob":
			// (iii) schema blobs: the *blob.Blob object is the whole blob of that ref
			okKey := term.ref != nil && c04SameRef(term.ref, ent.ref)
			switch {
			case term.ref == nil:
				r.Undecided(rule, cSize, site, "the *blob.Blob whose Size() is recorded is neither looked up in a map field of the packer nor obtained from blob.FromFetcher here")
			case !okKey && c04MaybeSameRef(term.ref, ent.ref):
				r.Undecided(rule, cSize, site, "the recorded size is the Size() of the Blob held for a ref that comes from the same collection as the recorded ref but is not the same value: the rule cannot tell that it is the same element")
			case !okKey:
				r.Violation(rule, cSize, site, "packed size may differ from the blob's size: the recorded size is the Size() of the Blob held for a different ref than the one recorded")
			case term.fid.named == nil:
				r.OK(rule, cSize, site, "recorded size is Size() of blob.FromFetcher(<the recorded ref>): FromFetcher reads exactly the size the store reports and refuses longer or shorter content")
			default:
				ups, assigns := c04FieldWrites(pkgFns, term.fid)
				bad := ""
				for _, u := range ups {
					good := false
					if ex, isEx := originValue(u.Value).(*ssa.Extract); isEx && ex.Index == 0 {
						if fc, isC := ex.Tuple.(*ssa.Call); isC && (CallSite{fc.Parent(), fc}).IsStatic(c04BlobPkg, "", "FromFetcher") {
							if ra := c04RefArg(fc); ra != nil && sameOrigin(ra, u.Key) {
								good = true
							}
						}
					}
					if !good {
						bad = fmt.Sprintf("%s (line %d) stores under a ref a Blob that is not blob.FromFetcher of that same ref", FuncKey(u.Parent()), c04Line(p, u.Pos()))
					}
				}
				for _, a := range assigns {
					if _, isMk := originValue(a.Val).(*ssa.MakeMap); !isMk {
						bad = fmt.Sprintf("%s (line %d) replaces the map %s", FuncKey(a.Parent()), c04Line(p, a.Pos()), term.fid)
					}
				}
				if len(ups) == 0 && bad == "" {
					bad = "no writer of " + term.fid.String() + " found"
				}
				if bad != "" {
					r.Undecided(rule, cSize, site, "cannot tell that the Blob held in "+term.fid.String()+" under a ref is that ref's whole blob: "+bad)
				} else {
					r.OK(rule, cSize, site, fmt.Sprintf("recorded size is Size() of %s[<the recorded ref>]; every writer of that map (%d) stores blob.FromFetcher(_, key) under key (FromFetcher reads exactly the size the store reports and refuses longer or shorter content)", term.fid, len(ups)))
				}
			}
			// bytes: a copy from a reader of the same Blob into a zip entry named after the same ref, on every path to the receive
			nGood, bad, undec := 0, "", ""
			for _, cp := range copies {
				ex, isEx := cp.src.(*ssa.Extract)
				var rd *ssa.Call
				if isEx && ex.Index == 0 {
					rd, _ = ex.Tuple.(*ssa.Call)
				} else {
					rd, _ = cp.src.(*ssa.Call)
				}
				if rd == nil || !c04IsBlobMethod(rd, "ReadAll") || !c04SameBlob(rd.Call.Args[0], term.blob) {
					if c04Depends(cp.call.Call.Args[1], func(x ssa.Value) bool {
						xc, isC := x.(*ssa.Call)
						return isC && c04IsBlobMethod(xc, "ReadAll") && c04SameBlob(xc.Call.Args[0], term.blob)
					}) {
						undec = fmt.Sprintf("the copy at line %d reads the Blob through a wrapper the rule does not know", c04Line(p, cp.call.Pos()))
					}
					continue
				}
				if len(cp.entries) == 0 || !covers(cp.site, entSite) {
					continue
				}
				capOK := true
				for _, n := range cp.caps {
					sn := c04StripWiden(p, n)
					sc, isC := sn.(*ssa.Call)
					if !isC || !c04IsBlobMethod(sc, "Size") || !c04SameBlob(sc.Call.Args[0], term.blob) {
						capOK = false
					}
				}
				if !capOK {
					bad = fmt.Sprintf("the copy at line %d is capped at a length that is not the Blob's Size(): only a prefix of the blob may reach the zip while the row/manifest/zip header describe it as the blob", c04Line(p, cp.call.Pos()))
					continue
				}
				for _, zc := range cp.entries {
					refs, e := c04EntryNameRefs(zc)
					switch {
					case e != "":
						undec = e
					case len(refs) != 1:
						undec = fmt.Sprintf("the zip entry the blob is copied into is named with %d blob refs; foreachZipBlob/reindex derive the blob's ref from that name", len(refs))
					case !c04SameRef(refs[0], ent.ref) && c04MaybeSameRef(refs[0], ent.ref):
						undec = "the zip entry is named after a ref that comes from the same collection as the recorded ref but is not the same value"
					case !c04SameRef(refs[0], ent.ref):
						bad = fmt.Sprintf("the blob is copied into a zip entry (line %d) named after a different ref than the one recorded: reindex, which derives ref and size from the entry, maps the bytes to the wrong blob", c04Line(p, zc.Pos()))
					default:
						nGood++
					}
				}
			}
			switch {
			case bad != "":
				r.Violation(rule, cBytes, site, bad)
			case undec != "":
				r.Undecided(rule, cBytes, site, undec)
			case nGood == 0:
				r.Violation(rule, cBytes, site, "no io.Copy from ReadAll of the Blob whose Size() is recorded into a zip entry lies on every path from this description to the receive of the zip into large: the described bytes may not be in the zip")
			default:
				r.OK(rule, cBytes, site, "on every path to the receive of the zip: io.Copy of the uncapped reader of the same Blob into the zip entry named after the recorded ref")
			}
			continue
		}

		// "store" / "map": data chunks. For every source of the ref: a fetch of that ref before the
		// point where it is recorded, the recorded size equal to the fetch's, the fetch's reader copied whole.
		if term.ref == nil || !c04SameRef(term.ref, ent.ref) {
			if term.ref != nil && c04MaybeSameRef(term.ref, ent.ref) {
				r.Undecided(rule, cSize, site, "the size is obtained for a ref that comes from the same collection as the recorded ref but is not the same value: the rule cannot tell that it is the same element")
			} else {
				r.Violation(rule, cSize, site, "packed size may differ from the blob's size: the size is obtained for a different ref than the one it is recorded with")
			}
			continue
		}
		frozen := ""
		if term.kind == "map" {
			ups, assigns := c04FieldWrites([]*ssa.Function{fn}, term.fid)
			if len(ups)+len(assigns) > 0 {
				frozen = fmt.Sprintf("%s is modified inside writeAZip (%d site(s)): a comparison made at one point says nothing about the value read at another", term.fid, len(ups)+len(assigns))
			}
		}
		sizeBad, sizeUndec, sizeGood := "", frozen, ""
		bytesBad, bytesUndec, bytesGood := "", "", ""
		if len(srcs) == 0 {
			sizeUndec = "the recorded ref has no source the rule can find"
		}
		for _, src := range srcs {
			gate := entSite
			if src.app != nil {
				gate = siteOf(src.app, entSite.fr)
			}
			gline := c04Line(p, gate.in.Pos())
			// the fetches of this ref that precede the gate
			var fetches []*ssa.Call
			fetchSite := map[*ssa.Call]c04Site{}
			if term.kind == "store" && src.app == nil {
				fetches = []*ssa.Call{term.call}
				fetchSite[term.call] = siteOf(term.call, entSite.fr)
			} else {
				for _, cs := range body.calls(nil) {
					call := cs.call().Value()
					if call == nil || !(c04IsFetchCall(call) || c04IsStatCall(call)) {
						continue
					}
					if c04SameRef(c04RefArg(call), src.val) && body.precedes(cs, gate) {
						fetches = append(fetches, call)
						fetchSite[call] = cs
					}
				}
			}
			if len(fetches) == 0 {
				// the ref handed to a function outside the effective body: the fetch/compare/copy may live there
				helper := ""
				for _, cs := range body.calls(nil) {
					c := cs.call()
					f := c.Callee()
					if f == nil || !InModule(f) || f.Blocks == nil || cs.fr.kids[c.Instr] != nil || !body.precedes(cs, gate) {
						continue
					}
					for _, a := range c.Common().Args {
						if c04IsRef(a.Type()) && c04SameRef(a, src.val) {
							helper = FuncKey(f)
						}
					}
				}
				if helper != "" {
					sizeUndec = fmt.Sprintf("no Fetch/StatBlob of the ref in writeAZip or the package helpers it calls precedes the point where it is recorded (line %d), but the ref is handed to %s: the rule does not follow the fetch, the size comparison and the copy into that function", gline, helper)
					bytesUndec = sizeUndec
					continue
				}
				sizeBad = fmt.Sprintf("packed size may differ from the blob's size: the recorded size (%s) is never related to what the store reports for the blob — no Fetch/StatBlob of the ref precedes the point where the ref is recorded (line %d)", term.desc, gline)
				bytesBad = fmt.Sprintf("no Fetch of the ref precedes the point where it is recorded as written (line %d): nothing shows its bytes were copied into the zip", gline)
				continue
			}
			// (i) size
			okSize, weaker := false, ""
			for _, f := range fetches {
				switch term.kind {
				case "store":
					if src.app == nil {
						okSize = true
					} else {
						// the recorded size is a fetch size obtained in another iteration context: must be this fetch's
						okSize = okSize || term.call == f
					}
				case "map":
					fsz := ssa.Value(nil)
					if c04IsFetchCall(f) {
						fsz = ResultValue(f, 1)
					}
					if fsz == nil {
						continue
					}
					eq, wk := provenEq(gate, fsz, func(_ *c04Frame, x ssa.Value) bool {
						fid, k, ok := c04MapLookup(c04StripWiden(p, c04ResolveArg(x, 0)))
						return ok && fid == term.fid && c04SameRef(k, src.val)
					})
					if eq {
						okSize = true
					} else if wk != "" {
						weaker = wk
					}
				}
			}
			switch {
			case okSize:
				sizeGood = fmt.Sprintf("where the ref is recorded (line %d) the size the store's Fetch reported for it is known == %s, the value recorded in the row/manifest", gline, strings.TrimPrefix(term.desc, "size<-"))
				if term.kind == "store" {
					sizeGood = "the recorded size is the size result of the Fetch/StatBlob of the recorded ref"
				}
			case weaker != "":
				sizeBad = fmt.Sprintf("packed size may differ from the blob's size: where the ref is recorded (line %d) the only dominating fact is fetchedSize %s %s, which does not establish equality — a part that references a prefix (or claims more than) the stored blob is packed with the part's size, the b: row/manifest then describe the blob with that size and its loose copy is removed", gline, weaker, strings.TrimPrefix(term.desc, "size<-"))
			default:
				sizeBad = fmt.Sprintf("packed size may differ from the blob's size: where the ref is recorded (line %d) no dominating == fact relates the size Fetch reported for the blob to %s, the value recorded in the row/manifest", gline, strings.TrimPrefix(term.desc, "size<-"))
			}
			// (ii) bytes
			nGood := 0
			for _, f := range fetches {
				if !c04IsFetchCall(f) {
					continue
				}
				rc := ResultValue(f, 0)
				if rc == nil {
					continue
				}
				for _, cp := range copies {
					derived := cp.src == rc || sameOrigin(cp.src, rc)
					if !derived {
						if c04Depends(cp.call.Call.Args[1], func(x ssa.Value) bool { return x == rc }) {
							bytesUndec = fmt.Sprintf("the copy at line %d reads the fetched blob through a wrapper the rule does not know", c04Line(p, cp.call.Pos()))
						}
						continue
					}
					if len(cp.entries) == 0 || !covers(cp.site, gate) {
						continue
					}
					capOK := true
					for _, n := range cp.caps {
						if !sizeEq(n, f, cp.site) {
							capOK = false
						}
					}
					if !capOK {
						// a capped copy is still whole when the number of bytes copied is proven equal to the blob's size
						cnt := ResultValue(cp.call, 0)
						if cnt != nil {
							if eq, _ := provenEq(gate, cnt, func(_ *c04Frame, x ssa.Value) bool { return sizeEq(x, f, gate) }); eq {
								capOK = true
							}
						}
					}
					if !capOK {
						bytesBad = fmt.Sprintf("the copy of the fetched blob into the zip (line %d) is capped (CopyN/LimitReader) at a length that is not proven equal to the size the store reported, and the copied count is not proven equal to it either: only a prefix of the blob reaches the zip, while its b: row makes the zip the only copy", c04Line(p, cp.call.Pos()))
						continue
					}
					nGood++
				}
			}
			if nGood > 0 {
				bytesGood = fmt.Sprintf("before the ref is recorded (line %d) the reader of the Fetch of the same ref is copied into a zip entry, uncapped or capped at a length proven equal to the fetched size", gline)
			} else if bytesBad == "" && bytesUndec == "" {
				bytesBad = fmt.Sprintf("no io.Copy of the reader returned by the Fetch of the ref into a zip entry precedes the point where the ref is recorded as written (line %d)", gline)
			}
		}
		switch {
		case sizeBad != "":
			r.Violation(rule, cSize, site, sizeBad)
		case sizeUndec != "":
			r.Undecided(rule, cSize, site, sizeUndec)
		default:
			r.OK(rule, cSize, site, sizeGood)
		}
		switch {
		case bytesBad != "":
			r.Violation(rule, cBytes, site, bytesBad)
		case bytesUndec != "":
			r.Undecided(rule, cBytes, site, bytesUndec)
		default:
			r.OK(rule, cBytes, site, bytesGood)
		}
	}
	r.Floor(rule, 6)
}
