package main

import (
	"fmt"
	"go/constant"
	"go/token"
	"go/types"
	"sort"
	"strings"

	"golang.org/x/tools/go/ssa"
)

func init() {
	register(&PropSpec{
		ID:    "C04",
		Title: "Packing files into zips is invisible to clients and recoverable from the zips",
		Explanation: "Decided (structural necessary conditions in pkg/blobserver/blobpacked): " +
			"Z-order — in (*packer).writeAZip every removal of loose blobs from 'small' lies on the success edge of a meta CommitBatch, every meta write/commit lies on the success edge of the receive of the zip into 'large', every row put into a batch is put into a batch that is committed afterwards and names (in key or value) the ref under which that zip was received; every source of the refs handed to small.RemoveBlobs there is also a source of the key of a b: row of that batch (local element-flow; same sources, not same run-time sets); the un-suffixed whole-file row 'w:<wholeref>' is written outside reindex only where the MakingZips loop has exited (pk.chunksRemain known empty); small.RemoveBlobs is called only from writeAZip and the client-facing RemoveBlobs (frame rule: any other removal site is unordered with respect to a committed mapping). " +
			"Z-size — the bytes received into 'large' come from a bytes.Buffer whose Len() is known <= the result of (*storage).maxZipBlobSize at the receive, and every return of maxZipBlobSize is the test override field or a constant <= constants.MaxBlobSize. " +
			"Z-read — in Fetch, SubFetch and StatBlobs every call into 'small' is unreachable once the getMetaRow row of the same ref is known to exist and be packed, every call into 'large' is unreachable when it is known not packed and takes ref/offset/length from that row (offset also from the caller's offset in SubFetch); the refs StatBlobs forwards to 'small' are exactly those appended after a miss in the meta lookup, and its callback answers from the row only when the row exists and with the row's size; ReceiveBlob acknowledges only when the row exists or small.ReceiveBlob succeeded; EnumerateBlobs merges exactly 'small' and the enumerator over the 'b:' range. " +
			"Z-codec — every meta row writer in the package has a statically known key/value shape; for each kind (b:, w:<ref>:<n>, w:<ref>, z:) the packer-side and the reindex-side writers produce the same field sequence (separators, ref vs. decimal integer), the parsers (parseMetaRow, parseMetaRowSizeOnly, parseZipMetaRow, conv.ParseFields in OpenWholeRef) expect that field count and kinds in base 10 with a bit size not below the narrowest unsigned type any writer renders for that field; every meta.Find range ends at the successor of its prefix/separator; Manifest/BlobAndPos fields read by reindex/foreachZipBlob are written by writeAZip. " +
			"Z-count — the reader of the un-suffixed whole-file row (found structurally: the function that parses the row value into integers and compares one of them with the number of part records collected from the ':<idx>'-suffixed keys; today OpenWholeRef, integer #1) returns success only under the fact 'count == number of w:<ref>:<idx> rows found' (so an interrupted pack, which has part rows and no final row, and a count that disagrees with the part rows are refused); every writer of the w:<ref> row (pack, reindex) computes the integer at that position from the very thing that keys the w:<ref>:<idx> rows written by the same pass (the writing function, its literals and the package functions it calls): the struct field holding each part's index (reindex: zipMetaInfo.wholePartIndex) or the collection whose length is each part's index (packer: packer.zips) — 'computed from' = backward data slice incl. locals, one level of package helper calls on the data path, and branch conditions that select merged values; a count taken from how many zips/attempts were seen (len of another collection, a separately bumped counter) is reported. Recorded as supporting fact, not required: the reader fails on a part whose index differs from its position, i.e. indexes are dense 0..count-1. " +
			"Z-recover — newFromConfig returns a usable store only after checkLargeIntegrity was called and, once reindex was started, only on its success edge; reindex reports success only on the success edge of each of its top-level CommitBatch calls and assigns s.meta the very KeyValue it filled; large.RemoveBlobs (deleting a zip) is only reachable where zipPartsInUse of the same ref succeeded and returned no part in use. " +
			"Z-whole-blob — every description of a packed blob built in (*packer).writeAZip (each b: row of the batch, resolved per element constructor of the slice it is rendered from, and each element appended to a []BlobAndPos field of the Manifest) is a (ref, size) pair with exactly one source each, and the blob is moved WHOLE: (data chunks) the recorded size is the size result of a Fetch/StatBlob of that ref, or a lookup in a map field of the packer that is not modified inside writeAZip and that a dominating == fact (value-preserving integer conversions looked through; <, <=, >, >= and != facts do not count) equates with the size Fetch reported for the same ref at the point where the ref is recorded as written (the append through which it reaches the row); before that point an io.Copy/CopyN of that Fetch's reader into a zip entry writer is passed on every path, uncapped or capped (CopyN / io.LimitReader) at a length that is the fetched size or proven equal to it, or with the copied byte count proven equal to it; (schema blobs) the recorded size is Size() of the *blob.Blob looked up under the recorded ref in a map field every writer of which stores blob.FromFetcher(_, key) under key, and on every path from the description to the receive of the zip into large an io.Copy from ReadAll of that same Blob (uncapped, or capped at its Size()) goes into a zip entry whose name renders exactly that ref (foreachZipBlob/reindex derive ref and size from the entry). " +
			"NOT decided: equality of client-visible bytes/sizes before, during and after a pack (Z-whole-blob decides only that size and bytes recorded for a ref are the stored blob's, not offsets, the position of the bytes in the zip or that copy errors are checked; two different elements of the same local slice are not told apart — reported as undecided; fetch/compare/copy moved into a helper is reported as undecided); that the b: rows cover, as run-time sets, exactly the blobs removed from small (only that both are built from the same local sources); zip validity and that the first entry is the contiguous file; accuracy of the size estimate and termination of truncate-and-retry; the arithmetic of the part count (that it is exactly 'highest index + 1' / the number of distinct indexes — only what it is computed from; a separately maintained counter that happens to be right is reported too); any crash schedule or recovery outcome; streaming (StreamBlobs) and whole-file reads beyond the row codec; deletion marks (d: rows).",
		RuleDocs: map[string]string{
			"Z-order":      "dominance on err==nil edges in (*packer).writeAZip (receive into large -> CommitBatch -> small.RemoveBlobs), value identity of the zip ref in every batch row, loop-exit fact for the whole-file row in (*packer).pack, who-may-call for small.RemoveBlobs",
			"Z-size":       "dominating comparison fact zbuf.Len() <= maxZipBlobSize() at the large receive over the very buffer that is received; constant bound of maxZipBlobSize against constants.MaxBlobSize",
			"Z-read":       "path pruning under the assumption 'row exists and is packed' / 'row is not packed' from each getMetaRow lookup in Fetch/SubFetch/StatBlobs/ReceiveBlob; value dependence of the large read on the row; literal structure of the MergedEnumerate sources",
			"Z-recover":    "dominance: start-up (newFromConfig) returns a store only after checkLargeIntegrity ran and, in a recovery mode, after reindex succeeded; reindex returns success only after every top-level CommitBatch on the new index succeeded and installs that same index; a zip is removed from large only where zipPartsInUse of the same ref succeeded with an empty result",
			"Z-count":      "writer/reader agreement by value dependence: the integer of the w:<ref> row that the reader requires to equal the number of w:<ref>:<idx> rows (dominating equality fact on every successful return) must, in each writer, depend on the field / collection that the part indexes of the same pass are formatted from",
			"Z-whole-blob": "value dependence + dominating equality facts in (*packer).writeAZip: for every (ref, size) description that reaches a b: row or the manifest, the size is the store-reported size of that very ref or proven == to it where the ref is recorded (an inequality guard does not count), and the bytes copied into the zip come from the fetch of that ref (data) / the *blob.Blob held for that ref (schema) without a cap below that size; the schema entry's zip name renders the same ref",
			"Z-codec":      "table agreement: statically evaluated Sprintf/concatenation shapes of all meta row writers, compared between sibling writers and with the parse-call chains of the parsers; Find range limits; struct fields read vs. written for the zip manifest",
		},
		Run:       runC04,
		DesignRef: "DESIGN.md §4 C04",
		Technique: "static analysis: dominance on error-success edges, path pruning under row-state assumptions, value identity/dependence over go/ssa, table agreement between row writers and parsers, value dependence of the stored part count on the part-index source, pairing of (ref, size) descriptions by local element flow with dominating == facts between the recorded and the store-reported size",
		LevelText: "Decides structural necessary conditions only: the zip is stored before its rows are committed and the rows before loose copies are removed; stored zips are bounded by the blob size limit; reads pick small vs. large by the meta row of the same ref; packer, reindex and the parsers agree on the meta row codec and reindex reads only manifest fields the packer writes; the part count of the whole-file row is computed from the part indexes that key the part rows and the reader serves a whole file only when both agree; a blob that gets a b: row / manifest entry is recorded with the size the store reports for it (or one proven equal by an == guard) and its bytes are copied uncapped from the fetch of the same ref, so a part that references only a prefix of a longer blob cannot be packed as if it were the blob. Does not decide the arithmetic of that count, byte-level equality of what clients see, crash/recovery outcomes, zip validity or the size estimate (level 'other').",
	})
}

const c04Rel = "pkg/blobserver/blobpacked"
const c04BlobPkg = "perkeep.org/pkg/blob"
const c04SortedPkg = "perkeep.org/pkg/sorted"
const c04BSPkg = "perkeep.org/pkg/blobserver"

func runC04(p *Program, r *Reporter) {
	fns := p.FuncsIn(c04Rel)
	r.Analysed("functions", len(fns))
	writers := c04RowWriters(p, r)
	c04ZOrder(p, r, writers)
	c04ZSize(p, r)
	c04ZRead(p, r)
	c04ZCodec(p, r, writers)
	c04ZCount(p, r, writers)
	c04ZRecover(p, r)
	c04ZWhole(p, r, writers)
}

// ---------------------------------------------------------------------------
// general helpers (c04-prefixed; candidates for helpers.go)

// c04Strip strips interface conversions, type assertions and loads of
// single-store variables.
func c04Strip(v ssa.Value) ssa.Value {
	for i := 0; i < 32 && v != nil; i++ {
		switch x := v.(type) {
		case *ssa.ChangeInterface:
			v = x.X
		case *ssa.MakeInterface:
			v = x.X
		case *ssa.ChangeType:
			v = x.X
		case *ssa.TypeAssert:
			v = x.X
		case *ssa.Extract:
			if ta, ok := x.Tuple.(*ssa.TypeAssert); ok && x.Index == 0 {
				v = ta.X
			} else {
				return v
			}
		case *ssa.UnOp:
			if x.Op != token.MUL {
				return v
			}
			if rv := resolveLoad(x); rv != nil {
				v = rv
			} else {
				return v
			}
		default:
			o := originValue(v)
			if o == v {
				return v
			}
			v = o
		}
	}
	return v
}

// c04Role returns "small", "large" or "meta" (any field name) when v is a
// load of that field of a blobpacked.storage, through interface conversions.
func c04Role(v ssa.Value) string {
	v = c04Strip(v)
	ld, ok := v.(*ssa.UnOp)
	if !ok || ld.Op != token.MUL {
		return ""
	}
	fa, ok := ld.X.(*ssa.FieldAddr)
	if !ok {
		return ""
	}
	n := NamedOf(fa.X.Type())
	if n == nil || n.Obj().Name() != "storage" || RelPkg(n.Obj().Pkg()) != c04Rel {
		return ""
	}
	return fieldName(fa.X.Type(), fa.Field)
}

func c04IsRef(t types.Type) bool { return IsNamed(t, c04BlobPkg, "Ref") && !c04IsPtr(t) }
func c04IsPtr(t types.Type) bool { _, ok := t.(*types.Pointer); return ok }
func c04IsRefSlice(t types.Type) bool {
	s, ok := t.Underlying().(*types.Slice)
	return ok && c04IsRef(s.Elem())
}

// c04ErrAliases returns the values that denote call's error result: the
// extract itself and loads of a variable it was stored to, in the same block,
// with no store to that variable and no call in between (the named-result
// variable captured by a deferred literal cannot be resolved by originValue).
func c04ErrAliases(call *ssa.Call) (vals []ssa.Value, hasErr, discarded bool) {
	ev, hasErr, discarded := ErrValue(call)
	if !hasErr || ev == nil {
		return nil, hasErr, discarded
	}
	vals = append(vals, ev)
	refs := ev.Referrers()
	if refs == nil {
		return vals, hasErr, discarded
	}
	for _, u := range *refs {
		st, ok := u.(*ssa.Store)
		if !ok || st.Val != ev {
			continue
		}
		b := st.Block()
		for _, in := range b.Instrs[instrIndex(st)+1:] {
			if s2, ok := in.(*ssa.Store); ok && s2.Addr == st.Addr {
				break
			}
			if _, ok := in.(ssa.CallInstruction); ok {
				break
			}
			if _, ok := in.(*ssa.RunDefers); ok {
				break
			}
			if ld, ok := in.(*ssa.UnOp); ok && ld.Op == token.MUL && ld.X == st.Addr {
				vals = append(vals, ld)
			}
		}
	}
	return vals, hasErr, discarded
}

// c04SuccessAt is SuccessDominates that also follows the spilled named result.
func c04SuccessAt(call *ssa.Call, site ssa.Instruction) (bool, string) {
	if call.Parent() != site.Parent() || !Precedes(call, site) {
		return false, "the call does not lie on every path to the site"
	}
	vals, hasErr, discarded := c04ErrAliases(call)
	if !hasErr {
		return true, ""
	}
	if discarded {
		return false, "the error result of the call is discarded"
	}
	for _, f := range FactsAt(site.Block()) {
		for _, v := range vals {
			if v == nil {
				continue
			}
			if k, isNil := c04CondSaysNil(f.Cond, f.Val, v); k && isNil {
				return true, ""
			}
		}
	}
	return false, "the site is not on the err==nil edge of the call"
}

func c04CondSaysNil(cond ssa.Value, val bool, v ssa.Value) (known, isNil bool) {
	switch c := cond.(type) {
	case *ssa.BinOp:
		if c.Op != token.EQL && c.Op != token.NEQ {
			return false, false
		}
		var other ssa.Value
		if IsNilConst(c.Y) {
			other = c.X
		} else if IsNilConst(c.X) {
			other = c.Y
		} else {
			return false, false
		}
		if other != v && !sameOrigin(other, v) {
			return false, false
		}
		return true, (c.Op == token.EQL) == val
	case *ssa.UnOp:
		if c.Op == token.NOT {
			return c04CondSaysNil(c.X, !val, v)
		}
	}
	return false, false
}

// c04RootAlloc follows FieldAddr/IndexAddr chains to the Alloc they are based on.
func c04RootAlloc(addr ssa.Value) *ssa.Alloc {
	for i := 0; i < 16; i++ {
		switch x := addr.(type) {
		case *ssa.Alloc:
			return x
		case *ssa.FieldAddr:
			addr = x.X
		case *ssa.IndexAddr:
			addr = x.X
		case *ssa.Slice:
			addr = x.X
		default:
			return nil
		}
	}
	return nil
}

// c04Depends is DependsOn that additionally follows stores into locals
// addressed through field/index chains (struct literals, varargs arrays,
// locals such as zipSB whose fields are read back).
func c04Depends(v ssa.Value, target func(ssa.Value) bool) bool {
	return c04DependsOpt(v, target, false)
}

// c04DependsOpt is c04Depends; with ctl it additionally follows
//   - control dependence of merged values: for a phi, the branch conditions
//     known on each incoming edge (dominating facts of the predecessor and the
//     predecessor's own If); for a store into a followed variable, the facts
//     at the store;
//   - one level of calls on the data path: a call to a module function in the
//     slice depends on everything that function (and its literals) computes
//     with. Calls that are only reached through a branch condition are not
//     entered (a counter bumped under `err == nil` of a call is not "computed
//     from" what the callee reads).
func c04DependsOpt(v ssa.Value, target func(ssa.Value) bool, ctl bool) bool {
	seen := [2]map[ssa.Value]bool{{}, {}} // [1]: reached through a branch condition
	storeIdx := map[*ssa.Function]map[*ssa.Alloc][]*ssa.Store{}
	storesUnder := func(al *ssa.Alloc) []*ssa.Store {
		fn := al.Parent()
		idx, ok := storeIdx[fn]
		if !ok {
			idx = map[*ssa.Alloc][]*ssa.Store{}
			for _, b := range fn.Blocks {
				for _, in := range b.Instrs {
					if st, ok := in.(*ssa.Store); ok {
						if ra := c04RootAlloc(st.Addr); ra != nil {
							idx[ra] = append(idx[ra], st)
						}
					}
				}
			}
			storeIdx[fn] = idx
		}
		return idx[al]
	}
	var walk func(v ssa.Value, depth int, inCond bool) bool
	walk = func(v ssa.Value, depth int, inCond bool) bool {
		mode := 0
		if inCond {
			mode = 1
		}
		if v == nil || seen[mode][v] || depth > 80 {
			return false
		}
		seen[mode][v] = true
		if target(v) {
			return true
		}
		if al, ok := v.(*ssa.Alloc); ok {
			for _, sts := range [][]*ssa.Store{storesUnder(al), storesTo(al)} {
				for _, st := range sts {
					if walk(st.Val, depth+1, inCond) {
						return true
					}
					if ctl && st.Block() != nil {
						for _, f := range FactsAt(st.Block()) {
							if walk(f.Cond, depth+1, true) {
								return true
							}
						}
					}
				}
			}
			return false
		}
		if ctl {
			if ph, ok := v.(*ssa.Phi); ok {
				for i := range ph.Edges {
					pred := ph.Block().Preds[i]
					for _, f := range FactsAt(pred) {
						if walk(f.Cond, depth+1, true) {
							return true
						}
					}
					if n := len(pred.Instrs); n > 0 {
						if ifi, ok := pred.Instrs[n-1].(*ssa.If); ok && walk(ifi.Cond, depth+1, true) {
							return true
						}
					}
				}
			}
			if call, ok := v.(*ssa.Call); ok && !inCond {
				if f := (CallSite{call.Parent(), call}).Callee(); f != nil && InModule(f) && f.Blocks != nil && c04BodyHas(f, target, 0) {
					return true
				}
			}
		}
		if fv, ok := v.(*ssa.FreeVar); ok {
			if b := bindingOf(fv); b != nil {
				return walk(b, depth+1, inCond)
			}
			return false
		}
		if in, ok := v.(ssa.Instruction); ok {
			for _, op := range in.Operands(nil) {
				if *op != nil && walk(*op, depth+1, inCond) {
					return true
				}
			}
		}
		return false
	}
	return walk(v, 0, false)
}

// c04BodyHas: some value computed in f or its literals satisfies target.
func c04BodyHas(f *ssa.Function, target func(ssa.Value) bool, depth int) bool {
	if depth > 4 {
		return false
	}
	for _, b := range f.Blocks {
		for _, in := range b.Instrs {
			if v, ok := in.(ssa.Value); ok && target(v) {
				return true
			}
		}
	}
	for _, a := range f.AnonFuncs {
		if c04BodyHas(a, target, depth+1) {
			return true
		}
	}
	return false
}

// c04ReachAssuming is ReachableFrom with branch pruning: assume may decide an
// If condition, in which case only that successor is followed.
func c04ReachAssuming(start ssa.Instruction, assume func(cond ssa.Value) (known, val bool)) map[ssa.Instruction]bool {
	out := map[ssa.Instruction]bool{}
	seen := map[*ssa.BasicBlock]bool{}
	var walk func(b *ssa.BasicBlock, from int)
	walk = func(b *ssa.BasicBlock, from int) {
		for i := from; i < len(b.Instrs); i++ {
			out[b.Instrs[i]] = true
		}
		succs := b.Succs
		if len(b.Instrs) > 0 {
			if ifi, ok := b.Instrs[len(b.Instrs)-1].(*ssa.If); ok && len(b.Succs) == 2 && assume != nil {
				if k, val := assume(ifi.Cond); k {
					if val {
						succs = b.Succs[:1]
					} else {
						succs = b.Succs[1:2]
					}
				}
			}
		}
		for _, s := range succs {
			if !seen[s] {
				seen[s] = true
				walk(s, 0)
			}
		}
	}
	walk(start.Block(), instrIndex(start)+1)
	return out
}

// c04VarargElems returns the element values of a `slice (new [N]T)[:]`
// argument built for a variadic call (nil constant = no elements).
func c04VarargElems(v ssa.Value) ([]ssa.Value, bool) {
	if c, ok := v.(*ssa.Const); ok && c.Value == nil {
		return nil, true
	}
	sl, ok := v.(*ssa.Slice)
	if !ok || sl.Low != nil || sl.High != nil {
		return nil, false
	}
	al, ok := sl.X.(*ssa.Alloc)
	if !ok {
		return nil, false
	}
	arr, ok := al.Type().(*types.Pointer).Elem().Underlying().(*types.Array)
	if !ok {
		return nil, false
	}
	out := make([]ssa.Value, arr.Len())
	refs := al.Referrers()
	if refs == nil {
		return nil, false
	}
	for _, u := range *refs {
		ia, ok := u.(*ssa.IndexAddr)
		if !ok {
			continue
		}
		idx, ok := ConstInt(ia.Index)
		if !ok || idx < 0 || idx >= arr.Len() {
			return nil, false
		}
		if ir := ia.Referrers(); ir != nil {
			for _, w := range *ir {
				if st, ok := w.(*ssa.Store); ok && st.Addr == ssa.Value(ia) {
					if out[idx] != nil {
						return nil, false
					}
					out[idx] = st.Val
				}
			}
		}
	}
	for _, e := range out {
		if e == nil {
			return nil, false
		}
	}
	return out, true
}

func c04Line(p *Program, pos token.Pos) int { return p.Fset.Position(pos).Line }

// ---------------------------------------------------------------------------
// string shapes (H6): what a key/value expression renders to

type c04Tok struct {
	Lit  string // literal text (Hole == false)
	Hole bool
	Verb byte
	Type types.Type
	Val  ssa.Value // nil when the hole comes from an inlined callee
}

func (t c04Tok) class() string {
	if !t.Hole {
		return "lit"
	}
	if c04IsRef(t.Type) {
		return "ref"
	}
	if b, ok := t.Type.Underlying().(*types.Basic); ok {
		if b.Info()&types.IsInteger != 0 {
			return "int"
		}
		if b.Info()&types.IsString != 0 {
			return "str"
		}
	}
	return "other"
}

// c04IntBits: nominal width and signedness of an integer type.
func c04IntBits(t types.Type) (bits int, unsigned bool) {
	b, ok := t.Underlying().(*types.Basic)
	if !ok {
		return 0, false
	}
	unsigned = b.Info()&types.IsUnsigned != 0
	switch b.Kind() {
	case types.Int8, types.Uint8:
		return 8, unsigned
	case types.Int16, types.Uint16:
		return 16, unsigned
	case types.Int32, types.Uint32:
		return 32, unsigned
	case types.Int64, types.Uint64, types.Int, types.Uint, types.Uintptr:
		return 64, unsigned
	}
	return 0, unsigned
}

func c04Sig(toks []c04Tok) string {
	var sb strings.Builder
	for _, t := range toks {
		if t.Hole {
			sb.WriteString("<" + t.class() + ">")
		} else {
			sb.WriteString(t.Lit)
		}
	}
	return sb.String()
}

func c04Merge(toks []c04Tok) []c04Tok {
	var out []c04Tok
	for _, t := range toks {
		if !t.Hole {
			if t.Lit == "" {
				continue
			}
			if n := len(out); n > 0 && !out[n-1].Hole {
				out[n-1].Lit += t.Lit
				continue
			}
		}
		out = append(out, t)
	}
	return out
}

// c04Shape evaluates a string-typed SSA value to a token sequence; err != ""
// when some part cannot be followed.
func c04Shape(v ssa.Value, depth int) (toks []c04Tok, err string) {
	if depth > 4 {
		return nil, "shape nesting too deep"
	}
	v = originValue(v)
	if s, ok := ConstString(v); ok {
		return []c04Tok{{Lit: s}}, ""
	}
	hole := func(verb byte, x ssa.Value) []c04Tok {
		x = c04StripIfaceOnly(x)
		if s, ok := ConstString(x); ok && (verb == 's' || verb == 'v') {
			return []c04Tok{{Lit: s}}
		}
		return []c04Tok{{Hole: true, Verb: verb, Type: x.Type(), Val: x}}
	}
	switch x := v.(type) {
	case *ssa.BinOp:
		if x.Op != token.ADD {
			return nil, "non-concatenation operator " + x.Op.String()
		}
		a, e := c04Shape(x.X, depth)
		if e != "" {
			return nil, e
		}
		b, e := c04Shape(x.Y, depth)
		if e != "" {
			return nil, e
		}
		return c04Merge(append(append([]c04Tok{}, a...), b...)), ""
	case *ssa.Parameter:
		return []c04Tok{{Hole: true, Verb: 's', Type: x.Type(), Val: x}}, ""
	case *ssa.Call:
		c := CallSite{x.Parent(), x}
		switch {
		case c.IsStatic("fmt", "", "Sprintf"):
			format, ok := ConstString(x.Call.Args[0])
			if !ok {
				return nil, "Sprintf with a non-constant format"
			}
			elems, ok := c04VarargElems(x.Call.Args[1])
			if !ok {
				return nil, "Sprintf arguments not a literal argument list"
			}
			i := 0
			for pos := 0; pos < len(format); {
				ch := format[pos]
				if ch != '%' {
					toks = append(toks, c04Tok{Lit: string(ch)})
					pos++
					continue
				}
				pos++
				if pos < len(format) && format[pos] == '%' {
					toks = append(toks, c04Tok{Lit: "%"})
					pos++
					continue
				}
				if pos < len(format) && strings.IndexByte("+-# 0123456789.*[", format[pos]) >= 0 {
					// flags/width change the rendering: not a plain field
					return nil, "format verb with flags or width"
				}
				if pos >= len(format) || i >= len(elems) {
					return nil, "format string and argument list disagree"
				}
				toks = append(toks, hole(format[pos], elems[i])...)
				i++
				pos++
			}
			if i != len(elems) {
				return nil, "format string and argument list disagree"
			}
			return c04Merge(toks), ""
		case c.IsStatic("fmt", "", "Sprint"):
			elems, ok := c04VarargElems(x.Call.Args[0])
			if !ok || len(elems) != 1 {
				return nil, "Sprint with other than one argument"
			}
			return c04Merge(hole('v', elems[0])), ""
		case c.IsStatic(c04BlobPkg, "Ref", "String"):
			return []c04Tok{{Hole: true, Verb: 's', Type: x.Call.Args[0].Type(), Val: x.Call.Args[0]}}, ""
		}
		if f := c.Callee(); f != nil && InModule(f) && f.Blocks != nil {
			rets := Returns(f)
			if len(rets) == 1 && len(rets[0].Results) == 1 {
				inner, e := c04Shape(rets[0].Results[0], depth+1)
				if e != "" {
					return nil, e
				}
				// holes that render a parameter of the helper denote the
				// caller's argument; other holes are values of the callee's
				// frame and have no meaning in the caller
				for i := range inner {
					var mapped ssa.Value
					if prm, isPrm := inner[i].Val.(*ssa.Parameter); isPrm && !x.Call.IsInvoke() && len(f.Params) == len(x.Call.Args) {
						for pi, fp := range f.Params {
							if fp == prm {
								mapped = c04StripIfaceOnly(x.Call.Args[pi])
							}
						}
					}
					inner[i].Val = mapped
				}
				return inner, ""
			}
		}
		return nil, "call to " + c.CalleeKey() + " is not a known string builder"
	}
	return nil, fmt.Sprintf("value %s (%T) is not a constant, concatenation or Sprintf", v.Name(), v)
}

func c04StripIfaceOnly(v ssa.Value) ssa.Value {
	for {
		switch x := v.(type) {
		case *ssa.MakeInterface:
			v = x.X
		case *ssa.ChangeInterface:
			v = x.X
		case *ssa.ChangeType:
			v = x.X
		default:
			return v
		}
	}
}

// c04StrConst returns the string value of a package-level constant.
func c04StrConst(p *Program, name string) string {
	o, _ := p.Pkg(c04Rel).Types.Scope().Lookup(name).(*types.Const)
	if o == nil || o.Val().Kind() != constant.String {
		brokenf("anchor unresolved: string constant %s.%s", c04Rel, name)
	}
	return constant.StringVal(o.Val())
}

func c04Succ(s string) string {
	if s == "" {
		return ""
	}
	b := []byte(s)
	b[len(b)-1]++
	return string(b)
}

// ---------------------------------------------------------------------------
// row writers: every Set on a sorted.KeyValue / sorted.BatchMutation in the package

type c04Writer struct {
	c        CallSite
	key, val []c04Tok
	keyErr   string
	valErr   string
	kind     string // signature of the key, e.g. "w:<ref>:<int>"
	batch    bool   // Set on a BatchMutation (else directly on the KeyValue)
}

func c04IsSortedSet(c CallSite) (batch, ok bool) {
	cc := c.Common()
	if !cc.IsInvoke() || cc.Method.Name() != "Set" || len(cc.Args) != 2 {
		return false, false
	}
	if IsNamed(cc.Value.Type(), c04SortedPkg, "BatchMutation") {
		return true, true
	}
	if IsNamed(cc.Value.Type(), c04SortedPkg, "KeyValue") {
		return false, true
	}
	return false, false
}

func c04RowWriters(p *Program, r *Reporter) []*c04Writer {
	var out []*c04Writer
	for _, fn := range p.FuncsIn(c04Rel) {
		for _, c := range CallsIn(fn, false) {
			batch, ok := c04IsSortedSet(c)
			if !ok {
				continue
			}
			w := &c04Writer{c: c, batch: batch}
			w.key, w.keyErr = c04Shape(c.Common().Args[0], 0)
			w.val, w.valErr = c04Shape(c.Common().Args[1], 0)
			if w.keyErr == "" {
				w.kind = c04Sig(w.key)
			}
			out = append(out, w)
		}
	}
	sort.SliceStable(out, func(i, j int) bool { return FuncKey(out[i].c.Fn) < FuncKey(out[j].c.Fn) })
	r.Analysed("meta_row_writers", len(out))
	return out
}

// ---------------------------------------------------------------------------
// Z-order

// c04LargeReceives lists the calls in fn that store a blob into 'large':
// blobserver.Receive*/ReceiveNoHash with 'large' as destination, or
// large.ReceiveBlob. ref/reader are the blob ref and source arguments.
type c04Recv struct {
	c           CallSite
	ref, reader ssa.Value
}

func c04LargeReceives(fn *ssa.Function) []c04Recv {
	var out []c04Recv
	for _, c := range CallsIn(fn, false) {
		if c.Value() == nil {
			continue
		}
		cc := c.Common()
		if cc.IsInvoke() {
			if cc.Method.Name() == "ReceiveBlob" && c04Role(cc.Value) == "large" && len(cc.Args) == 3 {
				out = append(out, c04Recv{c, cc.Args[1], cc.Args[2]})
			}
			continue
		}
		f := c.Callee()
		if f == nil || f.Pkg == nil || f.Pkg.Pkg.Path() != c04BSPkg || !strings.HasPrefix(f.Name(), "Receive") {
			continue
		}
		dst := -1
		for i, a := range cc.Args {
			if c04Role(a) == "large" {
				dst = i
			}
		}
		if dst < 0 {
			continue
		}
		rc := c04Recv{c: c}
		for _, a := range cc.Args[dst+1:] {
			if c04IsRef(a.Type()) && rc.ref == nil {
				rc.ref = a
			} else if rc.reader == nil && !c04IsRef(a.Type()) {
				rc.reader = a
			}
		}
		out = append(out, rc)
	}
	return out
}

func c04MetaInvokes(fn *ssa.Function, method string) []CallSite {
	return FindCalls(fn, false, func(c CallSite) bool {
		cc := c.Common()
		return cc.IsInvoke() && cc.Method.Name() == method && c04Role(cc.Value) == "meta"
	})
}

func c04SmallRemoves(fn *ssa.Function) []CallSite {
	return FindCalls(fn, false, func(c CallSite) bool {
		cc := c.Common()
		return cc.IsInvoke() && cc.Method.Name() == "RemoveBlobs" && c04Role(cc.Value) == "small"
	})
}

func c04ZOrder(p *Program, r *Reporter, writers []*c04Writer) {
	const rule = "Z-order"
	fn := p.Func(c04Rel, "packer", "writeAZip")
	pack := p.Func(c04Rel, "packer", "pack")
	reindex := p.Func(c04Rel, "storage", "reindex")
	clientRemove := p.Func(c04Rel, "storage", "RemoveBlobs")
	key := FuncKey(fn)

	recvs := c04LargeReceives(fn)
	commits := c04MetaInvokes(fn, "CommitBatch")
	removes := c04SmallRemoves(fn)
	if len(recvs) == 0 {
		r.Violation(rule, key+"#large-receive", p.Pos(fn.Pos()), "writeAZip no longer stores the zip into the 'large' store (no blobserver.Receive*/ReceiveBlob with s.large as destination): rows would point to a zip that was never written")
	}
	if len(commits) == 0 {
		r.Violation(rule, key+"#meta-commit", p.Pos(fn.Pos()), "writeAZip no longer commits a meta batch: packed blobs would be removed from small without any row mapping them")
	}
	afterRecv := func(site ssa.Instruction) (bool, string) {
		why := "no receive into large"
		for _, rc := range recvs {
			ok, w := c04SuccessAt(rc.c.Value(), site)
			if ok {
				return true, fmt.Sprintf("on the err==nil edge of %s (line %d)", rc.c.CalleeKey(), c04Line(p, rc.c.Pos()))
			}
			why = w
		}
		return false, why
	}
	// (a) every removal from small is on the success edge of a meta commit
	for _, rm := range removes {
		ok, why := false, "no meta CommitBatch in the function"
		for _, cm := range commits {
			if cm.Value() == nil {
				continue
			}
			if k, w := c04SuccessAt(cm.Value(), rm.Instr); k {
				ok = true
				why = fmt.Sprintf("small.RemoveBlobs is on the err==nil edge of meta.CommitBatch (line %d)", c04Line(p, cm.Pos()))
				break
			} else {
				why = w
			}
		}
		r.Check(ok, rule, key+"#small.RemoveBlobs-after-commit", p.Pos(rm.Pos()), why,
			"loose blobs are removed from small where the meta batch mapping them into the zip is not known committed ("+why+"): a failed or skipped commit leaves the blobs unreachable")
	}
	// (b) every commit / direct meta write is on the success edge of the large receive
	for _, cm := range commits {
		ok, why := afterRecv(cm.Instr)
		r.Check(ok, rule, key+"#meta.CommitBatch-after-large-receive", p.Pos(cm.Pos()), "meta.CommitBatch "+why,
			"the meta batch is committed where the zip is not known stored in large ("+why+"): rows would name a zip that does not exist")
	}
	for _, m := range []string{"Set", "Delete"} {
		for _, c := range c04MetaInvokes(fn, m) {
			ok, why := afterRecv(c.Instr)
			r.Check(ok, rule, key+"#meta."+m+"-after-large-receive", p.Pos(c.Pos()), "direct meta write "+why,
				"a direct meta write happens where the zip is not known stored in large ("+why+")")
		}
	}
	// (c) rows of the batch: put into a batch that is committed afterwards, and naming the received zip ref
	nRows := 0
	for _, w := range writers {
		if w.c.Fn != fn || !w.batch {
			continue
		}
		nRows++
		construct := key + "#row " + w.kind
		if w.keyErr != "" || w.valErr != "" {
			r.Undecided(rule, construct, p.Pos(w.c.Pos()), "row shape cannot be followed: "+w.keyErr+" "+w.valErr)
			continue
		}
		committed := false
		for _, cm := range commits {
			if len(cm.Common().Args) == 1 && sameOrigin(cm.Common().Args[0], w.c.Common().Value) && ReachableFrom(w.c.Instr, nil)[cm.Instr] {
				committed = true
			}
		}
		if !committed {
			r.Violation(rule, construct, p.Pos(w.c.Pos()), "row is set on a batch that is not passed to meta.CommitBatch afterwards")
			continue
		}
		named := false
		for _, t := range append(append([]c04Tok{}, w.key...), w.val...) {
			if !t.Hole || t.class() != "ref" || t.Val == nil {
				continue
			}
			for _, rc := range recvs {
				if rc.ref != nil && sameOrigin(t.Val, rc.ref) {
					named = true
				}
				call := rc.c.Value()
				if c04Depends(t.Val, func(x ssa.Value) bool { return x == ssa.Value(call) }) {
					named = true
				}
			}
		}
		r.Check(named, rule, construct, p.Pos(w.c.Pos()),
			"row is committed with the batch and names the ref under which the zip was received into large",
			"no blob-ref field of this row is the ref passed to (or returned by) the receive of the zip into large: the row maps to a different blob than the zip just written")
	}
	// (c') the refs removed from small are refs the committed batch maps with b: rows
	bKind := c04StrConst(p, "blobMetaPrefix") + "<ref>"
	mapped := map[string]ssa.Value{}
	for _, w := range writers {
		if w.c.Fn != fn || !w.batch || w.kind != bKind {
			continue
		}
		for _, t := range w.key {
			if t.Hole && t.class() == "ref" && t.Val != nil {
				for k, v := range c04ValueLeaves(fn, t.Val) {
					mapped[k] = v
				}
			}
		}
	}
	for _, rm := range removes {
		construct := key + "#small.RemoveBlobs-refs-mapped"
		var arg ssa.Value
		for _, a := range rm.Common().Args {
			if c04IsRefSlice(a.Type()) {
				arg = a
			}
		}
		if arg == nil {
			r.Undecided(rule, construct, p.Pos(rm.Pos()), "no []blob.Ref argument")
			continue
		}
		leaves, ok := c04SliceLeaves(fn, arg)
		if !ok {
			r.Violation(rule, construct, p.Pos(rm.Pos()), "the removed refs include a whole slice that is not built, element by element, in this function (for example a field of the packer): nothing relates them to the b: rows of the committed batch, so blobs without a mapping may be removed")
			continue
		}
		var missing []string
		for k, v := range leaves {
			if _, ok := mapped[k]; !ok {
				missing = append(missing, fmt.Sprintf("%s (line %d)", v.Name(), c04Line(p, v.Pos())))
			}
		}
		sort.Strings(missing)
		r.Check(len(missing) == 0 && len(leaves) > 0, rule, construct, p.Pos(rm.Pos()),
			fmt.Sprintf("every ref source of the removed slice (%d) is also a ref source of a b: row key of the committed batch", len(leaves)),
			fmt.Sprintf("removed refs come from %d source(s) that no b: row of the batch is keyed by: %s", len(missing), strings.Join(missing, ", ")))
	}
	// (d) whole-file row: only where the zip loop has exited
	nWhole := 0
	wholeKind := c04StrConst(p, "wholeMetaPrefix") + "<ref>"
	for _, w := range writers {
		if w.kind != wholeKind {
			continue
		}
		top := TopFunc(w.c.Fn)
		if top == reindex {
			continue
		}
		nWhole++
		construct := FuncKey(w.c.Fn) + "#row " + w.kind
		if top != pack {
			r.Violation(rule, construct, p.Pos(w.c.Pos()), "the whole-file row w:<wholeref> (which makes OpenWholeRef serve the file) is written outside (*packer).pack and reindex")
			continue
		}
		ok := false
		for _, f := range FactsAt(w.c.Block()) {
			if c04SaysChunksEmpty(f.Cond, f.Val) {
				ok = true
			}
		}
		// and some writeAZip call must be able to precede it (the loop exists)
		loops := len(FindCalls(pack, false, func(c CallSite) bool { return c.Callee() == fn && inLoop(c.Block()) })) > 0
		r.Check(ok && loops, rule, construct, p.Pos(w.c.Pos()),
			"whole-file row is written only after the zip loop exited (len(pk.chunksRemain) > 0 known false), every zip of the file having been written by writeAZip",
			"whole-file row is written where it is not known that all chunks have been written into zips (no dominating loop-exit fact on pk.chunksRemain): a partially packed file would be served as whole")
	}
	if nWhole == 0 {
		r.Violation(rule, FuncKey(pack)+"#row "+wholeKind, p.Pos(pack.Pos()), "pack no longer writes the whole-file row")
	}
	// (e) who may remove from small
	n := 0
	for _, f := range p.FuncsIn(c04Rel) {
		for _, c := range c04SmallRemoves(f) {
			n++
			top := TopFunc(f)
			construct := FuncKey(f) + "#small.RemoveBlobs"
			switch top {
			case fn:
				r.OKTable(rule, construct, p.Pos(c.Pos()), "packer removal; ordering checked above")
			case clientRemove:
				// client-requested deletion: removing a loose copy on request is always allowed
				r.OKTable(rule, construct, p.Pos(c.Pos()), "client-requested deletion (the caller asked for these refs to go)")
			default:
				r.Violation(rule, construct, p.Pos(c.Pos()), "small.RemoveBlobs is called outside writeAZip and the client-facing RemoveBlobs: nothing orders this removal after a committed mapping")
			}
		}
	}
	r.Analysed("small_remove_sites", n)
	r.Analysed("writeAZip_batch_rows", nRows)
	r.Floor(rule, 9)
}

// c04SaysChunksEmpty: cond (with value val) implies len(pk.chunksRemain) == 0.
func c04SaysChunksEmpty(cond ssa.Value, val bool) bool {
	return c04SaysEmpty(cond, val, func(v ssa.Value) bool {
		ld, ok := v.(*ssa.UnOp)
		if !ok || ld.Op != token.MUL {
			return false
		}
		fa, ok := ld.X.(*ssa.FieldAddr)
		if !ok {
			return false
		}
		n := NamedOf(fa.X.Type())
		return n != nil && n.Obj().Name() == "packer" && fieldName(fa.X.Type(), fa.Field) == "chunksRemain"
	})
}

// c04SaysEmpty: cond (with value val) implies len(x) == 0 for an x accepted by subject.
func c04SaysEmpty(cond ssa.Value, val bool, subject func(ssa.Value) bool) bool {
	for {
		u, ok := cond.(*ssa.UnOp)
		if !ok || u.Op != token.NOT {
			break
		}
		cond, val = u.X, !val
	}
	bo, ok := cond.(*ssa.BinOp)
	if !ok {
		return false
	}
	isLen := func(v ssa.Value) bool {
		call, ok := v.(*ssa.Call)
		if !ok {
			return false
		}
		b, ok := call.Call.Value.(*ssa.Builtin)
		if !ok || b.Name() != "len" {
			return false
		}
		return subject(call.Call.Args[0])
	}
	eval := func(op token.Token, a, b int64) bool {
		switch op {
		case token.GTR:
			return a > b
		case token.GEQ:
			return a >= b
		case token.LSS:
			return a < b
		case token.LEQ:
			return a <= b
		case token.EQL:
			return a == b
		case token.NEQ:
			return a != b
		}
		return false
	}
	var at func(n int64) (bool, bool)
	if c, ok := ConstInt(bo.Y); ok && isLen(bo.X) {
		at = func(n int64) (bool, bool) { return eval(bo.Op, n, c), true }
	} else if c, ok := ConstInt(bo.X); ok && isLen(bo.Y) {
		at = func(n int64) (bool, bool) { return eval(bo.Op, c, n), true }
	} else {
		return false
	}
	// the fact must hold at len 0 and fail at every len 1..3 (so it means "empty")
	v0, _ := at(0)
	if v0 != val {
		return false
	}
	for n := int64(1); n <= 3; n++ {
		if v, _ := at(n); v == val {
			return false
		}
	}
	return true
}

// ---------------------------------------------------------------------------
// row-state assumptions: what a branch condition says about the row fetched by
// one getMetaRow call

// c04Lookup is one `m, err := s.getMetaRow(ref)` call.
type c04Lookup struct {
	call  *ssa.Call
	ref   ssa.Value   // the looked-up ref
	row   ssa.Value   // extract #0 (the meta value), may be nil
	cells []ssa.Value // locals the row is stored to
}

func c04Lookups(p *Program, fn *ssa.Function) []*c04Lookup {
	gm := p.Func(c04Rel, "storage", "getMetaRow")
	var out []*c04Lookup
	for _, c := range CallsIn(fn, false) {
		if c.Callee() != gm || c.Value() == nil {
			continue
		}
		lk := &c04Lookup{call: c.Value(), ref: c.Common().Args[1]}
		lk.row = ResultValue(c.Value(), 0)
		if lk.row != nil {
			if refs := lk.row.Referrers(); refs != nil {
				for _, u := range *refs {
					if st, ok := u.(*ssa.Store); ok && st.Val == lk.row {
						lk.cells = append(lk.cells, st.Addr)
					}
				}
			}
		}
		out = append(out, lk)
	}
	return out
}

// rowField reports which field of the looked-up row v reads ("" if none).
func (lk *c04Lookup) rowField(v ssa.Value) string {
	switch x := v.(type) {
	case *ssa.UnOp:
		if x.Op != token.MUL {
			return ""
		}
		fa, ok := x.X.(*ssa.FieldAddr)
		if !ok || !lk.isCell(fa.X) {
			return ""
		}
		return fieldName(fa.X.Type(), fa.Field)
	case *ssa.Field:
		if lk.row != nil && (x.X == lk.row || sameOrigin(x.X, lk.row)) {
			return fieldName(x.X.Type(), x.Field)
		}
	}
	return ""
}

func (lk *c04Lookup) isCell(addr ssa.Value) bool {
	for _, c := range lk.cells {
		if c == addr {
			return true
		}
	}
	return false
}

// says interprets a branch condition as a statement about the row:
// what == "packed" or "exists"; val is the truth value it has when cond is true.
func (lk *c04Lookup) says(p *Program, cond ssa.Value) (what string, positive bool) {
	positive = true
	for {
		u, ok := cond.(*ssa.UnOp)
		if !ok || u.Op != token.NOT {
			break
		}
		cond, positive = u.X, !positive
	}
	if f := lk.rowField(cond); f == "exists" {
		return "exists", positive
	}
	call, ok := cond.(*ssa.Call)
	if !ok {
		return "", false
	}
	c := CallSite{call.Parent(), call}
	if c.Callee() == p.Func(c04Rel, "meta", "isPacked") && lk.isCell(call.Call.Args[0]) {
		return "packed", positive
	}
	if c.IsStatic(c04BlobPkg, "Ref", "Valid") && lk.rowField(call.Call.Args[0]) == "largeRef" {
		return "packed", positive
	}
	return "", false
}

// assume returns the pruning function for "the row exists and is packed"
// (packed=true) or "the row is not packed" (packed=false).
func (lk *c04Lookup) assume(p *Program, packed bool) func(ssa.Value) (bool, bool) {
	return func(cond ssa.Value) (bool, bool) {
		what, pos := lk.says(p, cond)
		switch what {
		case "packed":
			return true, pos == packed
		case "exists":
			if packed {
				return true, pos
			}
		}
		return false, false
	}
}

// c04FilteredSlice checks that the []blob.Ref value arg is a slice variable
// all of whose contents are refs appended, in the function that looked them up
// with getMetaRow, on paths that are impossible when that row exists and is packed.
func c04FilteredSlice(p *Program, arg ssa.Value) (bool, string) {
	ld, ok := arg.(*ssa.UnOp)
	if !ok || ld.Op != token.MUL {
		return false, "the refs argument is not a local slice variable filled from meta lookups"
	}
	cell, ok := varOf(ld.X)
	if !ok {
		return false, "the refs argument is not a local slice variable filled from meta lookups"
	}
	stores := storesTo(cell)
	if len(stores) == 0 {
		return false, "the slice variable is never appended to"
	}
	for _, st := range stores {
		app, ok := st.Val.(*ssa.Call)
		if !ok {
			return false, fmt.Sprintf("store at line %d is not an append", c04Line(p, st.Pos()))
		}
		if b, ok := app.Call.Value.(*ssa.Builtin); !ok || b.Name() != "append" || len(app.Call.Args) != 2 {
			return false, fmt.Sprintf("store at line %d is not an append", c04Line(p, st.Pos()))
		}
		if base, ok := app.Call.Args[0].(*ssa.UnOp); !ok || base.Op != token.MUL {
			return false, fmt.Sprintf("append at line %d does not extend the variable itself", c04Line(p, st.Pos()))
		} else if bc, ok := varOf(base.X); !ok || bc != cell {
			return false, fmt.Sprintf("append at line %d does not extend the variable itself", c04Line(p, st.Pos()))
		}
		elems, ok := c04VarargElems(app.Call.Args[1])
		if !ok {
			return false, fmt.Sprintf("append at line %d adds a whole slice, not individually looked-up refs", c04Line(p, st.Pos()))
		}
		lks := c04Lookups(p, st.Parent())
		for _, e := range elems {
			good := false
			for _, lk := range lks {
				if !sameOrigin(e, lk.ref) || !Precedes(lk.call, st) {
					continue
				}
				if !c04ReachAssuming(lk.call, lk.assume(p, true))[st] {
					good = true
				}
			}
			if !good {
				return false, fmt.Sprintf("the ref appended at line %d is not one whose meta row was looked up and found absent/not packed on every path to the append", c04Line(p, st.Pos()))
			}
		}
	}
	return true, fmt.Sprintf("%d append site(s), each unreachable once the ref's own row exists and is packed", len(stores))
}

// ---------------------------------------------------------------------------
// Z-read

func c04ZRead(p *Program, r *Reporter) {
	const rule = "Z-read"
	nSmall, nLarge := 0, 0
	for _, name := range []string{"Fetch", "SubFetch", "StatBlobs"} {
		top := p.Func(c04Rel, "storage", name)
		var fns []*ssa.Function
		var collect func(f *ssa.Function)
		collect = func(f *ssa.Function) {
			fns = append(fns, f)
			for _, a := range f.AnonFuncs {
				collect(a)
			}
		}
		collect(top)
		sawSmall, sawLarge, sawLookup := false, false, false
		for _, fn := range fns {
			lks := c04Lookups(p, fn)
			if len(lks) > 0 {
				sawLookup = true
			}
			for _, c := range CallsIn(fn, false) {
				role := ""
				cc := c.Common()
				if cc.IsInvoke() {
					role = c04Role(cc.Value)
				} else {
					for _, a := range cc.Args {
						if ro := c04Role(a); ro == "small" || ro == "large" {
							role = ro
						}
					}
				}
				if role != "small" && role != "large" {
					continue
				}
				construct := FuncKey(fn) + "#" + role + "." + c.MethodName()
				site := p.Pos(c.Pos())
				var refArg ssa.Value
				for _, a := range cc.Args {
					if (c04IsRef(a.Type()) || c04IsRefSlice(a.Type())) && refArg == nil {
						refArg = a
					}
				}
				if refArg == nil {
					r.Undecided(rule, construct, site, "call into "+role+" without a blob ref argument: cannot relate it to a meta row")
					continue
				}
				if role == "small" {
					nSmall++
					sawSmall = true
					if c04IsRefSlice(refArg.Type()) {
						ok, detail := c04FilteredSlice(p, refArg)
						r.Check(ok, rule, construct, site, "refs handed to small: "+detail,
							"refs handed to small are not restricted to those missing from the meta index ("+detail+"): a packed blob would be looked up (and reported) a second time in small")
						continue
					}
					ok, detail := false, "no getMetaRow lookup of the same ref precedes the call"
					for _, lk := range lks {
						if !sameOrigin(lk.ref, refArg) || !Precedes(lk.call, c.Instr) {
							continue
						}
						if c04ReachAssuming(lk.call, lk.assume(p, true))[c.Instr] {
							detail = "the call is reachable although the row of the same ref exists and is packed"
						} else {
							ok, detail = true, "unreachable once getMetaRow of the same ref says the row exists and is packed"
							break
						}
					}
					r.Check(ok, rule, construct, site, detail, "call into small: "+detail+" (after packing the loose copy is gone, so the blob would be reported missing)")
					continue
				}
				// large
				nLarge++
				sawLarge = true
				ok, detail := false, "no getMetaRow lookup precedes the call"
				for _, lk := range lks {
					if !Precedes(lk.call, c.Instr) {
						continue
					}
					if c04ReachAssuming(lk.call, lk.assume(p, false))[c.Instr] {
						detail = "the call is reachable although the row is not packed"
						continue
					}
					from := func(field string) func(ssa.Value) bool {
						return func(x ssa.Value) bool { return lk.rowField(x) == field }
					}
					if !c04Depends(refArg, from("largeRef")) || sameOrigin(refArg, lk.ref) {
						detail = "the ref read from large is not the row's zip ref (m.largeRef)"
						continue
					}
					var ints []ssa.Value
					for _, a := range cc.Args {
						if b, isB := a.Type().Underlying().(*types.Basic); isB && b.Info()&types.IsInteger != 0 {
							ints = append(ints, a)
						}
					}
					if len(ints) == 2 {
						if !c04Depends(ints[0], from("largeOff")) {
							detail = "the offset read from large does not depend on the row's offset (m.largeOff)"
							continue
						}
						if !c04Depends(ints[1], from("size")) {
							detail = "the length read from large is not bounded by the row's size (m.size): bytes of neighbouring blobs in the zip would be returned"
							continue
						}
						// a caller-supplied offset must be honoured
						miss := ""
						for _, prm := range fn.Params {
							if prm.Name() == "offset" && !c04Depends(ints[0], func(x ssa.Value) bool { return x == ssa.Value(prm) }) {
								miss = "the offset read from large ignores the caller's offset parameter"
							}
						}
						if miss != "" {
							detail = miss
							continue
						}
					}
					ok, detail = true, "unreachable when the row is not packed; ref, offset and length come from the row of the looked-up ref"
					break
				}
				r.Check(ok, rule, construct, site, detail, "call into large: "+detail)
			}
		}
		if !sawLookup {
			r.Violation(rule, FuncKey(top)+"#getMetaRow", p.Pos(top.Pos()), "no meta lookup: the read path cannot tell packed from loose blobs")
		}
		if !sawSmall {
			r.Violation(rule, FuncKey(top)+"#small", p.Pos(top.Pos()), "the read path never consults small: blobs not yet packed become invisible")
		}
		if !sawLarge && name != "StatBlobs" {
			r.Violation(rule, FuncKey(top)+"#large", p.Pos(top.Pos()), "the read path never consults large: packed blobs become invisible")
		}
	}
	r.Analysed("small_read_calls", nSmall)
	r.Analysed("large_read_calls", nLarge)

	c04StatAnswer(p, r)
	c04RecvAck(p, r)
	c04Enumerate(p, r)
	r.Floor(rule, 9)
}

// c04StatAnswer: the stat callback answers from the row only when it exists,
// with the row's size and the looked-up ref.
func c04StatAnswer(p *Program, r *Reporter) {
	const rule = "Z-read"
	top := p.Func(c04Rel, "storage", "StatBlobs")
	found := false
	for _, fn := range top.AnonFuncs {
		lks := c04Lookups(p, fn)
		if len(lks) != 1 {
			continue
		}
		lk := lks[0]
		found = true
		construct := FuncKey(fn) + "#stat-from-row"
		ok, detail := true, ""
		n := 0
		for _, ri := range Returns(fn) {
			if len(ri.Results) != 2 || !IsNilConst(ri.Results[1]) {
				continue
			}
			if c, isC := ri.Results[0].(*ssa.Const); isC && c.Value == nil {
				continue // zero SizedRef: "not here, try small"
			}
			n++
			if !c04Depends(ri.Results[0], func(x ssa.Value) bool { return lk.rowField(x) == "size" }) {
				ok, detail = false, fmt.Sprintf("the answer returned at line %d does not carry the row's size", c04Line(p, ri.Ret.Pos()))
			}
			// must be impossible when the row does not exist
			notExists := func(cond ssa.Value) (bool, bool) {
				if what, pos := lk.says(p, cond); what == "exists" {
					return true, !pos
				} else if what == "packed" {
					return true, !pos
				}
				return false, false
			}
			if c04ReachAssuming(lk.call, notExists)[ri.Ret] {
				ok, detail = false, fmt.Sprintf("the answer returned at line %d is reachable when the ref has no meta row", c04Line(p, ri.Ret.Pos()))
			}
		}
		if n == 0 {
			ok, detail = false, "the stat callback never answers from the meta row: packed blobs are not stat-able"
		}
		r.Check(ok, rule, construct, p.Pos(fn.Pos()), fmt.Sprintf("%d answer(s) from the meta row, each only when the row exists and with the row's size", n), detail)
	}
	if !found {
		r.Undecided(rule, FuncKey(top)+"#stat-from-row", p.Pos(top.Pos()), "no callback with exactly one getMetaRow lookup found in StatBlobs")
	}
}

// c04RecvAck: ReceiveBlob acknowledges only if the row exists or small.ReceiveBlob succeeded.
func c04RecvAck(p *Program, r *Reporter) {
	const rule = "Z-read"
	fn := p.Func(c04Rel, "storage", "ReceiveBlob")
	lks := c04Lookups(p, fn)
	var smallRecv []*ssa.Call
	for _, c := range CallsIn(fn, false) {
		cc := c.Common()
		if cc.IsInvoke() && cc.Method.Name() == "ReceiveBlob" && c04Role(cc.Value) == "small" && c.Value() != nil {
			smallRecv = append(smallRecv, c.Value())
		}
	}
	construct := FuncKey(fn) + "#ack"
	if len(lks) == 0 || len(smallRecv) == 0 {
		r.Violation(rule, construct, p.Pos(fn.Pos()), "ReceiveBlob has no meta lookup or never stores into small")
		return
	}
	lk := lks[0]
	ok, detail, n := true, "", 0
	for _, nr := range MaybeNilErrorReturns(fn) {
		n++
		good := false
		for _, sr := range smallRecv {
			if ev, _, _ := ErrValue(sr); ev != nil && sameOrigin(nr.Val, ev) {
				good = true // returns small's own error
			}
		}
		if good {
			continue
		}
		// under "row does not exist" the return must be unreachable from the lookup without a successful small receive
		notExists := func(cond ssa.Value) (bool, bool) {
			if what, pos := lk.says(p, cond); what == "exists" || what == "packed" {
				return true, !pos
			}
			return false, false
		}
		last := nr.From.Instrs[len(nr.From.Instrs)-1]
		if !c04ReachAssuming(lk.call, notExists)[last] {
			continue
		}
		viaSmall := false
		for _, sr := range smallRecv {
			if k, _ := c04SuccessAt(sr, last); k {
				viaSmall = true
			}
		}
		// a path merging "exists" and "received" branches: every predecessor path without a row must pass the receive
		if !viaSmall {
			leaks := c04ReachAssumingBarrier(lk.call, notExists, func(in ssa.Instruction) bool {
				for _, sr := range smallRecv {
					if in == ssa.Instruction(sr) {
						return true
					}
				}
				return false
			})
			if !leaks[last] {
				viaSmall = true
			}
		}
		if !viaSmall {
			ok, detail = false, fmt.Sprintf("the success return at line %d is reachable with no meta row and without small.ReceiveBlob having been called", c04Line(p, nr.Ret.Pos()))
		}
	}
	if n == 0 {
		ok, detail = false, "no success return found"
	}
	// the error of small.ReceiveBlob must not be dropped
	for _, sr := range smallRecv {
		if _, _, discarded := ErrValue(sr); discarded {
			ok, detail = false, "the error of small.ReceiveBlob is discarded"
		}
	}
	r.Check(ok, rule, construct, p.Pos(fn.Pos()), fmt.Sprintf("%d possibly-successful return(s): each needs an existing row or passes small.ReceiveBlob whose error is checked", n), detail)
}

// c04ReachAssumingBarrier: like c04ReachAssuming but paths stop at barrier instructions.
func c04ReachAssumingBarrier(start ssa.Instruction, assume func(ssa.Value) (bool, bool), barrier func(ssa.Instruction) bool) map[ssa.Instruction]bool {
	out := map[ssa.Instruction]bool{}
	seen := map[*ssa.BasicBlock]bool{}
	var walk func(b *ssa.BasicBlock, from int)
	walk = func(b *ssa.BasicBlock, from int) {
		for i := from; i < len(b.Instrs); i++ {
			if barrier(b.Instrs[i]) {
				return
			}
			out[b.Instrs[i]] = true
		}
		succs := b.Succs
		if ifi, ok := b.Instrs[len(b.Instrs)-1].(*ssa.If); ok && len(b.Succs) == 2 {
			if k, val := assume(ifi.Cond); k {
				if val {
					succs = b.Succs[:1]
				} else {
					succs = b.Succs[1:2]
				}
			}
		}
		for _, s := range succs {
			if !seen[s] {
				seen[s] = true
				walk(s, 0)
			}
		}
	}
	walk(start.Block(), instrIndex(start)+1)
	return out
}

// c04Enumerate: EnumerateBlobs merges exactly small and the b: enumerator.
func c04Enumerate(p *Program, r *Reporter) {
	const rule = "Z-read"
	fn := p.Func(c04Rel, "storage", "EnumerateBlobs")
	construct := FuncKey(fn) + "#merged-sources"
	var merged []CallSite
	for _, c := range CallsIn(fn, false) {
		if f := c.Callee(); f != nil && f.Pkg != nil && f.Pkg.Pkg.Path() == c04BSPkg && strings.HasPrefix(f.Name(), "MergedEnumerate") {
			merged = append(merged, c)
		}
	}
	if len(merged) != 1 {
		r.Violation(rule, construct, p.Pos(fn.Pos()), fmt.Sprintf("EnumerateBlobs has %d blobserver.MergedEnumerate* calls, want 1", len(merged)))
		return
	}
	c := merged[0]
	var srcs []ssa.Value
	okList := false
	for _, a := range c.Common().Args {
		if _, isSl := a.Type().Underlying().(*types.Slice); isSl {
			srcs, okList = c04VarargElems(a)
		}
	}
	if !okList {
		r.Undecided(rule, construct, p.Pos(c.Pos()), "the source list of MergedEnumerate is not a slice literal")
		return
	}
	nSmall, nEnum, other := 0, 0, 0
	enumT := p.NamedType(c04Rel, "enumerator")
	for _, s := range srcs {
		switch {
		case c04Role(s) == "small":
			nSmall++
		case types.Identical(c04StripIfaceOnly(s).Type(), enumT):
			nEnum++
		default:
			other++
		}
	}
	r.Check(nSmall == 1 && nEnum == 1 && other == 0, rule, construct, p.Pos(c.Pos()),
		"MergedEnumerate over exactly {s.small, enumerator{s}} (loose blobs and the b: rows)",
		fmt.Sprintf("MergedEnumerate sources are small×%d, b:-row enumerator×%d, other×%d; want exactly one of each of the first two: a missing source hides blobs, an extra one (e.g. large) lists zips as if they were logical blobs", nSmall, nEnum, other))
}

// ---------------------------------------------------------------------------
// Z-size

// c04LeqFact: does cond (with truth value val) imply x <= y, where isX
// recognises x? Returns y.
func c04LeqFact(cond ssa.Value, val bool, isX func(ssa.Value) bool) (ssa.Value, bool) {
	for {
		u, ok := cond.(*ssa.UnOp)
		if !ok || u.Op != token.NOT {
			break
		}
		cond, val = u.X, !val
	}
	bo, ok := cond.(*ssa.BinOp)
	if !ok {
		return nil, false
	}
	switch {
	case isX(bo.X):
		// x OP y
		if (bo.Op == token.GTR || bo.Op == token.GEQ) && !val || (bo.Op == token.LEQ || bo.Op == token.LSS) && val {
			return bo.Y, true
		}
	case isX(bo.Y):
		// y OP x
		if (bo.Op == token.LSS || bo.Op == token.LEQ) && !val || (bo.Op == token.GEQ || bo.Op == token.GTR) && val {
			return bo.X, true
		}
	}
	return nil, false
}

func c04ZSize(p *Program, r *Reporter) {
	const rule = "Z-size"
	fn := p.Func(c04Rel, "packer", "writeAZip")
	maxFn := p.Func(c04Rel, "storage", "maxZipBlobSize")
	key := FuncKey(fn)
	n := 0
	for _, rc := range c04LargeReceives(fn) {
		n++
		construct := key + "#" + rc.c.CalleeKey() + "#size-bound"
		site := p.Pos(rc.c.Pos())
		if rc.reader == nil {
			r.Undecided(rule, construct, site, "cannot identify the source argument of the receive into large")
			continue
		}
		// the buffers whose Bytes() feed the received reader
		var bufs []ssa.Value
		c04Depends(rc.reader, func(x ssa.Value) bool {
			if call, ok := x.(*ssa.Call); ok {
				if (CallSite{call.Parent(), call}).IsStatic("bytes", "Buffer", "Bytes") {
					bufs = append(bufs, call.Call.Args[0])
				}
			}
			return false
		})
		if len(bufs) != 1 {
			r.Undecided(rule, construct, site, fmt.Sprintf("the bytes received into large come from %d bytes.Buffer values; the rule follows exactly one", len(bufs)))
			continue
		}
		buf := bufs[0]
		isLen := func(x ssa.Value) bool {
			call, ok := x.(*ssa.Call)
			return ok && (CallSite{call.Parent(), call}).IsStatic("bytes", "Buffer", "Len") && (call.Call.Args[0] == buf || sameOrigin(call.Call.Args[0], buf))
		}
		ok, detail := false, "no dominating comparison of the buffer's Len() that bounds it at the receive"
		for _, f := range FactsAt(rc.c.Block()) {
			y, is := c04LeqFact(f.Cond, f.Val, isLen)
			if !is {
				continue
			}
			yc, isCall := originValue(y).(*ssa.Call)
			if isCall && (CallSite{yc.Parent(), yc}).Callee() == maxFn {
				// no write to the buffer between the comparison and the receive
				ok, detail = true, "received buffer's Len() is known <= maxZipBlobSize() at the receive"
				cmpInstr := f.At.Instrs[len(f.At.Instrs)-1]
				for in := range ReachableFrom(cmpInstr, func(in ssa.Instruction) bool { return in == rc.c.Instr }) {
					if ci, isCI := in.(ssa.CallInstruction); isCI {
						cs := CallSite{in.Parent(), ci}
						if f := cs.Callee(); f != nil && f.Signature.Recv() != nil && len(cs.Common().Args) > 0 && sameOrigin(cs.Common().Args[0], buf) && strings.HasPrefix(f.Name(), "Write") && Precedes(in, rc.c.Instr) {
							ok, detail = false, "the buffer is written again between the size comparison and the receive"
						}
					}
				}
				break
			}
			detail = "the buffer's Len() is compared, but not against the result of (*storage).maxZipBlobSize"
		}
		r.Check(ok, rule, construct, site, detail, "zip stored into large without a size bound: "+detail+" (an over-size zip is not a valid blob and is refused or truncated by size-capped stores)")
	}
	if n == 0 {
		r.Violation(rule, key+"#size-bound", p.Pos(fn.Pos()), "no receive into large found in writeAZip")
	}
	// maxZipBlobSize: test override or a constant <= constants.MaxBlobSize
	capObj, _ := p.Pkg("pkg/constants").Types.Scope().Lookup("MaxBlobSize").(*types.Const)
	if capObj == nil {
		brokenf("anchor unresolved: pkg/constants.MaxBlobSize")
	}
	capV, _ := constant.Int64Val(capObj.Val())
	construct := FuncKey(maxFn) + "#returns"
	ok, detail, consts := true, "", 0
	for _, ri := range Returns(maxFn) {
		v := ri.Results[0]
		if c, isC := ConstInt(v); isC {
			consts++
			if c > capV || c <= 0 {
				ok, detail = false, fmt.Sprintf("returns the constant %d, outside (0, constants.MaxBlobSize=%d]", c, capV)
			}
			continue
		}
		if ld, isLd := originValue(v).(*ssa.UnOp); isLd && ld.Op == token.MUL {
			if fa, isFA := ld.X.(*ssa.FieldAddr); isFA && fieldName(fa.X.Type(), fa.Field) == "forceMaxZipBlobSize" {
				continue
			}
		}
		ok, detail = false, fmt.Sprintf("return at line %d is neither the forceMaxZipBlobSize override nor a constant", c04Line(p, ri.Ret.Pos()))
	}
	if consts == 0 && ok {
		ok, detail = false, "no constant default"
	}
	r.Check(ok, rule, construct, p.Pos(maxFn.Pos()), fmt.Sprintf("default is a constant <= constants.MaxBlobSize (%d); the only other return is the test override field", capV), "maxZipBlobSize "+detail)
	// forceMaxZipBlobSize is never assigned in non-test code
	nW := 0
	for _, f := range p.FuncsIn(c04Rel) {
		for _, b := range f.Blocks {
			for _, in := range b.Instrs {
				if st, isSt := in.(*ssa.Store); isSt {
					if fa, isFA := st.Addr.(*ssa.FieldAddr); isFA && fieldName(fa.X.Type(), fa.Field) == "forceMaxZipBlobSize" {
						nW++
						r.Violation(rule, FuncKey(f)+"#forceMaxZipBlobSize", p.Pos(st.Pos()), "non-test code assigns the zip size override: zips may exceed the blob size limit")
					}
				}
			}
		}
	}
	if nW == 0 {
		r.OKTable(rule, c04Rel+"#forceMaxZipBlobSize-unassigned", "?", "no store to storage.forceMaxZipBlobSize in non-test code")
	}
	r.Floor(rule, 3)
}

// ---------------------------------------------------------------------------
// Z-codec

type c04PField struct {
	kind string // "ref" or "int"
	bits int
	base int64
}

func c04PSig(fs []c04PField) string {
	var parts []string
	for _, f := range fs {
		if f.kind == "int" {
			parts = append(parts, fmt.Sprintf("int%d", f.bits))
		} else {
			parts = append(parts, f.kind)
		}
	}
	return strings.Join(parts, " ")
}

// c04ParseChain extracts the sequence of field parsers a hand-written row
// parser applies: integer parses (with base and bit size) and blob-ref parses,
// ordered by dominance (each parse is only reached after the previous one).
func c04ParseChain(fn *ssa.Function) ([]c04PField, string) {
	type item struct {
		c CallSite
		f c04PField
	}
	var items []item
	for _, c := range CallsIn(fn, false) {
		switch {
		case c.IsStatic("go4.org/strutil", "", "ParseUintBytes"), c.IsStatic("strconv", "", "ParseUint"), c.IsStatic("strconv", "", "ParseInt"):
			base, ok1 := ConstInt(c.Common().Args[1])
			bits, ok2 := ConstInt(c.Common().Args[2])
			if !ok1 || !ok2 {
				return nil, "integer parse with non-constant base or bit size"
			}
			items = append(items, item{c, c04PField{"int", int(bits), base}})
		case c.IsStatic(c04BlobPkg, "", "ParseBytes"), c.IsStatic(c04BlobPkg, "", "Parse"):
			items = append(items, item{c, c04PField{kind: "ref"}})
		}
	}
	sort.SliceStable(items, func(i, j int) bool { return Precedes(items[i].c.Instr, items[j].c.Instr) })
	for i := 0; i+1 < len(items); i++ {
		if !Precedes(items[i].c.Instr, items[i+1].c.Instr) {
			return nil, "field parses are not in a single dominance chain"
		}
	}
	var out []c04PField
	for _, it := range items {
		out = append(out, it.f)
	}
	return out, ""
}

// c04ParseFieldsCalls lists conv.ParseFields calls in fn with their dst kinds;
// fromValue tells whether the parsed bytes come from the iterator's value.
type c04PFCall struct {
	c         CallSite
	fields    []c04PField
	fromValue bool
	fromKey   bool
}

func c04ParseFieldsCalls(fn *ssa.Function) ([]c04PFCall, string) {
	var out []c04PFCall
	for _, c := range CallsIn(fn, false) {
		if !c.IsStatic("perkeep.org/pkg/conv", "", "ParseFields") {
			continue
		}
		elems, ok := c04VarargElems(c.Common().Args[1])
		if !ok {
			return nil, "ParseFields destinations are not a literal argument list"
		}
		pc := c04PFCall{c: c}
		for _, e := range elems {
			pt, ok := c04StripIfaceOnly(e).Type().(*types.Pointer)
			if !ok {
				return nil, "ParseFields destination is not a pointer"
			}
			if c04IsRef(pt.Elem()) {
				pc.fields = append(pc.fields, c04PField{kind: "ref"})
			} else if bits, _ := c04IntBits(pt.Elem()); bits > 0 {
				pc.fields = append(pc.fields, c04PField{"int", bits, 10})
			} else {
				return nil, "ParseFields destination of unsupported type " + pt.Elem().String()
			}
		}
		src := c.Common().Args[0]
		c04Depends(src, func(x ssa.Value) bool {
			if call, ok := x.(*ssa.Call); ok && call.Call.IsInvoke() {
				switch call.Call.Method.Name() {
				case "ValueBytes", "Value":
					pc.fromValue = true
				case "KeyBytes", "Key":
					pc.fromKey = true
				}
			}
			return false
		})
		out = append(out, pc)
	}
	return out, ""
}

// c04Fields splits a value shape into its space-separated fields.
func c04Fields(toks []c04Tok) ([]c04Tok, bool) {
	var out []c04Tok
	for i, t := range toks {
		if i%2 == 0 {
			if !t.Hole {
				return nil, false
			}
			out = append(out, t)
		} else if t.Hole || t.Lit != " " {
			return nil, false
		}
	}
	return out, len(toks)%2 == 1
}

// c04Agree compares the fields rendered by all writers of a row kind with what
// a parser expects: same count (or a prefix), same kinds, base 10, and a bit
// size not below the narrowest unsigned type any writer declares for the field
// (that type documents the field's domain; wider writer types such as
// zip.File.UncompressedSize64 are bounded by the blob size limit, not by type).
func c04Agree(ws [][]c04Tok, ps []c04PField, prefixOnly bool) string {
	for _, w := range ws {
		if len(w) != len(ps) && !(prefixOnly && len(ps) <= len(w)) {
			return fmt.Sprintf("a writer renders %d fields, parser expects %d", len(w), len(ps))
		}
	}
	for i, pf := range ps {
		minU := 0
		for _, w := range ws {
			wf := w[i]
			if wf.class() != pf.kind {
				return fmt.Sprintf("field %d: a writer renders a %s, parser expects a %s", i, wf.class(), pf.kind)
			}
			if bits, unsigned := c04IntBits(wf.Type); pf.kind == "int" && unsigned && (minU == 0 || bits < minU) {
				minU = bits
			}
		}
		if pf.kind == "int" {
			if pf.base != 10 {
				return fmt.Sprintf("field %d: parser uses base %d, writers render decimal", i, pf.base)
			}
			if minU > pf.bits {
				return fmt.Sprintf("field %d: every unsigned writer renders at least a uint%d, parser accepts only %d bits", i, minU, pf.bits)
			}
		}
	}
	return ""
}

func c04VerbsOK(toks []c04Tok) string {
	for _, t := range toks {
		if !t.Hole {
			continue
		}
		switch t.class() {
		case "ref":
			if t.Verb != 's' && t.Verb != 'v' {
				return fmt.Sprintf("blob ref rendered with %%%c", t.Verb)
			}
		case "int":
			if t.Verb != 'd' && t.Verb != 'v' {
				return fmt.Sprintf("integer rendered with %%%c (parsers read base 10)", t.Verb)
			}
		default:
			return fmt.Sprintf("field of type %s is neither a blob ref nor an integer", t.Type)
		}
	}
	return ""
}

func c04ZCodec(p *Program, r *Reporter, writers []*c04Writer) {
	const rule = "Z-codec"
	bP, wP, zP := c04StrConst(p, "blobMetaPrefix"), c04StrConst(p, "wholeMetaPrefix"), c04StrConst(p, "zipMetaPrefix")
	kinds := []string{bP + "<ref>", wP + "<ref>:<int>", wP + "<ref>", zP + "<ref>"}
	// kind d: — deletion marks: written only by the client-facing RemoveBlobs, never parsed
	// (only their presence matters) and not rebuilt by reindex (documented TODO in reindex).
	exceptKinds := map[string]string{"d:<ref>": "deletion mark: single writer (RemoveBlobs), value never parsed, not rebuildable from zips (documented in reindex)"}
	reindex := p.Func(c04Rel, "storage", "reindex")
	packerT := p.NamedType(c04Rel, "packer")

	byKind := map[string][]*c04Writer{}
	for _, w := range writers {
		construct := FuncKey(w.c.Fn) + "#Set " + w.kind
		site := p.Pos(w.c.Pos())
		if w.keyErr != "" {
			r.Undecided(rule, FuncKey(w.c.Fn)+"#Set ?", site, "meta row key cannot be evaluated: "+w.keyErr)
			continue
		}
		if w.valErr != "" {
			r.Undecided(rule, construct, site, "meta row value cannot be evaluated: "+w.valErr)
			continue
		}
		if why, ok := exceptKinds[w.kind]; ok {
			r.OKTable(rule, construct, site, "exception: "+why)
			continue
		}
		known := false
		for _, k := range kinds {
			if k == w.kind {
				known = true
			}
		}
		if !known {
			r.Violation(rule, construct, site, "meta row of a kind no reader of the package knows (key shape "+w.kind+")")
			continue
		}
		if bad := c04VerbsOK(append(append([]c04Tok{}, w.key...), w.val...)); bad != "" {
			r.Violation(rule, construct, site, bad)
			continue
		}
		if _, ok := c04Fields(w.val); !ok {
			r.Violation(rule, construct, site, "row value "+c04Sig(w.val)+" is not a sequence of fields separated by single spaces")
			continue
		}
		r.OK(rule, construct, site, "key "+w.kind+" value "+c04Sig(w.val))
		byKind[w.kind] = append(byKind[w.kind], w)
	}

	// parsers
	chain := func(name string) []c04PField {
		fn := p.Func(c04Rel, "", name)
		fs, err := c04ParseChain(fn)
		if err != "" {
			r.Undecided(rule, FuncKey(fn)+"#parse-chain", p.Pos(fn.Pos()), err)
			return nil
		}
		return fs
	}
	open := p.Func(c04Rel, "storage", "OpenWholeRef")
	pfs, pfErr := c04ParseFieldsCalls(open)
	if pfErr != "" {
		r.Undecided(rule, FuncKey(open)+"#ParseFields", p.Pos(open.Pos()), pfErr)
	}
	type parser struct {
		name   string
		fields []c04PField
		prefix bool
	}
	parsersOf := map[string][]parser{
		kinds[0]: {{"parseMetaRow", chain("parseMetaRow"), false}, {"parseMetaRowSizeOnly", chain("parseMetaRowSizeOnly"), true}},
		kinds[3]: {{"parseZipMetaRow", chain("parseZipMetaRow"), false}},
	}
	for _, k := range kinds {
		ws := byKind[k]
		construct := c04Rel + "#kind " + k
		var packSide, reSide []*c04Writer
		for _, w := range ws {
			top := TopFunc(w.c.Fn)
			if top == reindex {
				reSide = append(reSide, w)
			} else if recv := top.Signature.Recv(); recv != nil && NamedOf(recv.Type()) == packerT {
				packSide = append(packSide, w)
			} else {
				r.Violation(rule, FuncKey(w.c.Fn)+"#Set "+w.kind+"#owner", p.Pos(w.c.Pos()), "row of kind "+k+" written outside the packer and reindex")
			}
		}
		if len(packSide) == 0 || len(reSide) == 0 {
			r.Violation(rule, construct+"#writers", "?", fmt.Sprintf("kind %s has %d packer-side and %d reindex-side writers; both are needed (rows must be rebuildable from the zips)", k, len(packSide), len(reSide)))
			continue
		}
		ref := c04Sig(packSide[0].val)
		agree, detail := true, ""
		for _, w := range ws {
			if s := c04Sig(w.val); s != ref {
				agree, detail = false, fmt.Sprintf("%s (line %d) renders %q but %s (line %d) renders %q", FuncKey(w.c.Fn), c04Line(p, w.c.Pos()), s, FuncKey(packSide[0].c.Fn), c04Line(p, packSide[0].c.Pos()), ref)
			}
		}
		r.Check(agree, rule, construct+"#writers", p.Pos(packSide[0].c.Pos()), fmt.Sprintf("%d writers (packer %d, reindex %d) all render %q", len(ws), len(packSide), len(reSide), ref), "sibling writers disagree: "+detail)

		// parser agreement
		var ps []parser
		if pl, ok := parsersOf[k]; ok {
			ps = pl
		} else {
			// w: rows: the ParseFields call in OpenWholeRef reading the value with the same field count
			nf, _ := c04Fields(packSide[0].val)
			for _, pc := range pfs {
				if pc.fromValue && len(pc.fields) == len(nf) {
					ps = append(ps, parser{fmt.Sprintf("OpenWholeRef ParseFields/%d", len(pc.fields)), pc.fields, false})
				}
			}
			if len(ps) != 1 {
				r.Violation(rule, construct+"#parser", p.Pos(open.Pos()), fmt.Sprintf("OpenWholeRef has %d conv.ParseFields calls on the row value with %d destinations; want exactly 1", len(ps), len(nf)))
				continue
			}
		}
		for _, ps1 := range ps {
			if ps1.fields == nil {
				continue
			}
			var all [][]c04Tok
			for _, w := range ws {
				fs, _ := c04Fields(w.val)
				all = append(all, fs)
			}
			bad := c04Agree(all, ps1.fields, ps1.prefix)
			r.Check(bad == "", rule, construct+"#parser "+ps1.name, "?", "parser expects ["+c04PSig(ps1.fields)+"], all writers conform", "writer/parser disagreement: "+bad)
		}
	}
	// the part index in the w:<ref>:<n> key is read back by a ParseFields on the key
	okKey := false
	for _, pc := range pfs {
		if pc.fromKey && len(pc.fields) == 1 && pc.fields[0].kind == "int" {
			okKey = true
		}
	}
	r.Check(okKey, rule, FuncKey(open)+"#part-index-from-key", p.Pos(open.Pos()), "the part index is parsed from the key suffix as one integer", "OpenWholeRef no longer parses the part index from the w:<ref>:<n> key")

	// parser <-> reader links: getMetaRow reads b: keys and hands the value to parseMetaRow
	gm := p.Func(c04Rel, "storage", "getMetaRow")
	linkOK, linkDetail := false, "getMetaRow has no meta.Get"
	for _, c := range c04MetaInvokes(gm, "Get") {
		sh, e := c04Shape(c.Common().Args[0], 0)
		if e != "" {
			linkDetail = "key of meta.Get cannot be evaluated: " + e
			continue
		}
		if c04Sig(sh) != kinds[0] {
			linkDetail = "getMetaRow reads key " + c04Sig(sh) + ", writers use " + kinds[0]
			continue
		}
		if len(FindCalls(gm, false, func(x CallSite) bool { return x.Callee() == p.Func(c04Rel, "", "parseMetaRow") })) > 0 {
			linkOK, linkDetail = true, "getMetaRow reads "+kinds[0]+" and parses it with parseMetaRow"
		} else {
			linkDetail = "getMetaRow does not parse the value with parseMetaRow"
		}
	}
	r.Check(linkOK, rule, FuncKey(gm)+"#key", p.Pos(gm.Pos()), linkDetail, linkDetail)

	c04FindRanges(p, r, writers, bP, wP, zP)
	c04ManifestFields(p, r)
	r.Floor(rule, 28)
}

// c04FindRanges: every meta.Find in the package scans [prefix..., successor).
func c04FindRanges(p *Program, r *Reporter, writers []*c04Writer, bP, wP, zP string) {
	const rule = "Z-codec"
	n := 0
	for _, fn := range p.FuncsIn(c04Rel) {
		for _, c := range c04MetaInvokes(fn, "Find") {
			n++
			site := p.Pos(c.Pos())
			start, e1 := c04Shape(c.Common().Args[0], 0)
			end, e2 := c04Shape(c.Common().Args[1], 0)
			construct := FuncKey(fn) + "#meta.Find"
			if e1 != "" || e2 != "" {
				r.Undecided(rule, construct, site, "range bounds cannot be evaluated: "+e1+" "+e2)
				continue
			}
			construct += " " + c04Sig(start)
			if len(start) == 0 || start[0].Hole {
				r.Undecided(rule, construct, site, "range start does not begin with a literal prefix")
				continue
			}
			pre := ""
			for _, k := range []string{bP, wP, zP} {
				if strings.HasPrefix(start[0].Lit, k) {
					pre = k
				}
			}
			if pre == "" {
				r.Violation(rule, construct, site, "range start "+c04Sig(start)+" begins with none of the row prefixes")
				continue
			}
			if len(end) == 1 && !end[0].Hole {
				r.Check(end[0].Lit == c04Succ(pre) && start[0].Lit == pre, rule, construct, site,
					fmt.Sprintf("scans [%s, %q): all keys of prefix %q", c04Sig(start), end[0].Lit, pre),
					fmt.Sprintf("range end %q is not the successor %q of prefix %q: rows are skipped or foreign rows included", end[0].Lit, c04Succ(pre), pre))
				continue
			}
			// end = start + literal: must be the successor of the separator that follows the start in longer keys
			okShape := len(end) == len(start)+1 && !end[len(end)-1].Hole && c04Sig(end[:len(start)]) == c04Sig(start)
			if okShape {
				for i := range start {
					if start[i].Hole && start[i].Val != nil && end[i].Val != nil && !sameOrigin(start[i].Val, end[i].Val) {
						okShape = false
					}
				}
			}
			if !okShape {
				r.Undecided(rule, construct, site, "range end "+c04Sig(end)+" is neither a constant nor the start plus a literal")
				continue
			}
			// separator used by writers whose key extends this start
			sep := ""
			for _, w := range writers {
				if w.keyErr == "" && len(w.key) > len(start) && c04Sig(w.key[:len(start)]) == c04Sig(start) && !w.key[len(start)].Hole {
					sep = w.key[len(start)].Lit
				}
			}
			lit := end[len(end)-1].Lit
			r.Check(sep != "" && lit == c04Succ(sep), rule, construct, site,
				fmt.Sprintf("scans [%s, %s): the row itself and all its %q-suffixed part rows", c04Sig(start), c04Sig(end), sep),
				fmt.Sprintf("range end suffix %q is not the successor of the separator %q that writers put after %s", lit, sep, c04Sig(start)))
		}
	}
	r.Analysed("meta_find_sites", n)
}

// c04ManifestFields: fields of Manifest / BlobAndPos read by reindex and
// foreachZipBlob must be written by writeAZip.
func c04ManifestFields(p *Program, r *Reporter) {
	const rule = "Z-codec"
	types_ := map[*types.Named]bool{p.NamedType(c04Rel, "Manifest"): true, p.NamedType(c04Rel, "BlobAndPos"): true}
	fieldOf := func(v ssa.Value) (string, bool) {
		switch x := v.(type) {
		case *ssa.FieldAddr:
			if n := NamedOf(x.X.Type()); n != nil && types_[n] {
				return n.Obj().Name() + "." + fieldName(x.X.Type(), x.Field), true
			}
		case *ssa.Field:
			if n := NamedOf(x.X.Type()); n != nil && types_[n] {
				return n.Obj().Name() + "." + fieldName(x.X.Type(), x.Field), true
			}
		}
		return "", false
	}
	var deep func(f *ssa.Function, visit func(ssa.Instruction))
	deep = func(f *ssa.Function, visit func(ssa.Instruction)) {
		for _, b := range f.Blocks {
			for _, in := range b.Instrs {
				visit(in)
			}
		}
		for _, a := range f.AnonFuncs {
			deep(a, visit)
		}
	}
	// written: a store whose address is (under) the field
	written := map[string]bool{}
	wfn := p.Func(c04Rel, "packer", "writeAZip")
	deep(wfn, func(in ssa.Instruction) {
		st, ok := in.(*ssa.Store)
		if !ok {
			return
		}
		addr := st.Addr
		for i := 0; i < 8; i++ {
			if f, ok := fieldOf(addr); ok {
				written[f] = true
			}
			switch x := addr.(type) {
			case *ssa.FieldAddr:
				addr = x.X
			case *ssa.IndexAddr:
				addr = x.X
			default:
				return
			}
		}
	})
	// read: the field (address) is loaded, or used by anything but a store to it
	type rd struct {
		fn  *ssa.Function
		pos token.Pos
	}
	reads := map[string]rd{}
	var isRead func(v ssa.Value, depth int) bool
	isRead = func(v ssa.Value, depth int) bool {
		refs := v.Referrers()
		if refs == nil || depth > 6 {
			return false
		}
		for _, u := range *refs {
			switch x := u.(type) {
			case *ssa.Store:
				if x.Addr != v {
					return true
				}
			case *ssa.FieldAddr:
				if isRead(x, depth+1) {
					return true
				}
			case *ssa.DebugRef:
			default:
				return true
			}
		}
		return false
	}
	for _, name := range []string{"reindex", "foreachZipBlob"} {
		fn := p.Func(c04Rel, "storage", name)
		deep(fn, func(in ssa.Instruction) {
			v, ok := in.(ssa.Value)
			if !ok {
				return
			}
			f, ok := fieldOf(v)
			if !ok {
				return
			}
			if _, isAddr := v.(*ssa.FieldAddr); isAddr && !isRead(v, 0) {
				return
			}
			if _, seen := reads[f]; !seen {
				reads[f] = rd{in.Parent(), in.Pos()}
			}
		})
	}
	var names []string
	for f := range reads {
		names = append(names, f)
	}
	sort.Strings(names)
	for _, f := range names {
		r.Check(written[f], rule, FuncKey(wfn)+"#manifest-field "+f, p.Pos(reads[f].pos),
			"read by "+FuncKey(reads[f].fn)+" and written by writeAZip",
			"manifest field "+f+" is read by "+FuncKey(reads[f].fn)+" (recovery/streaming) but never written by writeAZip: every zip produced is rejected or mis-indexed on reindex")
	}
	r.Analysed("manifest_fields_read", len(names))
}

// ---------------------------------------------------------------------------
// Z-count: the part count stored in the w:<ref> row is computed from the part
// indexes that key the w:<ref>:<idx> rows (H7, writer/reader agreement by
// value dependence)

// c04FieldID names a struct field at type level.
type c04FieldID struct {
	named *types.Named
	idx   int
}

func (f c04FieldID) String() string {
	return f.named.Obj().Name() + "." + fieldName(f.named, f.idx)
}

// c04FieldOf: v is the address or the value of a field of a named struct.
func c04FieldOf(v ssa.Value) (c04FieldID, bool) {
	switch x := v.(type) {
	case *ssa.FieldAddr:
		if n := NamedOf(x.X.Type()); n != nil {
			return c04FieldID{n, x.Field}, true
		}
	case *ssa.Field:
		if n := NamedOf(x.X.Type()); n != nil {
			return c04FieldID{n, x.Field}, true
		}
	}
	return c04FieldID{}, false
}

func c04StripConv(v ssa.Value) ssa.Value {
	for {
		switch x := v.(type) {
		case *ssa.Convert:
			v = x.X
		case *ssa.ChangeType:
			v = x.X
		case *ssa.MakeInterface:
			v = x.X
		default:
			return v
		}
	}
}

func c04IsLenCall(v ssa.Value) (arg ssa.Value, ok bool) {
	call, isCall := v.(*ssa.Call)
	if !isCall {
		return nil, false
	}
	if b, isB := call.Call.Value.(*ssa.Builtin); !isB || b.Name() != "len" || len(call.Call.Args) != 1 {
		return nil, false
	}
	return call.Call.Args[0], true
}

// c04KeySource names what a part index (the <idx> of a w:<ref>:<idx> key) is
// immediately computed from: a struct field read ("field": the index is stored
// in the element, e.g. zipMetaInfo.wholePartIndex), or the length of a
// collection held in a struct field ("len": the index is the position in that
// collection, e.g. len(pk.zips)). Offsets by constants and single-store locals
// are looked through; anything else is not named (ok == false).
func c04KeySource(v ssa.Value) (src c04FieldID, how string, ok bool) {
	fieldRead := func(v ssa.Value) (c04FieldID, bool) {
		v = c04StripConv(v)
		if ld, isLd := v.(*ssa.UnOp); isLd && ld.Op == token.MUL {
			return c04FieldOf(ld.X)
		}
		return c04FieldOf(v)
	}
	for i := 0; i < 16 && v != nil; i++ {
		v = c04StripConv(v)
		if id, isF := fieldRead(v); isF {
			return id, "field", true
		}
		switch x := v.(type) {
		case *ssa.UnOp:
			if x.Op != token.MUL {
				return src, "", false
			}
			rv := resolveLoad(x)
			if rv == nil {
				return src, "", false
			}
			v = rv
		case *ssa.BinOp:
			if x.Op != token.ADD && x.Op != token.SUB {
				return src, "", false
			}
			if _, isC := x.Y.(*ssa.Const); isC {
				v = x.X
			} else if _, isC := x.X.(*ssa.Const); isC && x.Op == token.ADD {
				v = x.Y
			} else {
				return src, "", false
			}
		case *ssa.Call:
			arg, isLen := c04IsLenCall(x)
			if !isLen {
				return src, "", false
			}
			if id, isF := fieldRead(arg); isF {
				return id, "len", true
			}
			return src, "", false
		default:
			return src, "", false
		}
	}
	return src, "", false
}

// c04PassFuncs: top, its literals, and the functions of the package they call
// statically (two levels): the code that runs as one pack / one reindex pass.
func c04PassFuncs(top *ssa.Function) map[*ssa.Function]bool {
	set := map[*ssa.Function]bool{}
	var add func(f *ssa.Function, depth int)
	add = func(f *ssa.Function, depth int) {
		if f == nil || set[f] || f.Blocks == nil {
			return
		}
		set[f] = true
		for _, a := range f.AnonFuncs {
			add(a, depth)
		}
		if depth >= 2 {
			return
		}
		for _, c := range CallsIn(f, false) {
			if cal := c.Callee(); cal != nil && cal.Pkg != nil && RelPkg(cal.Pkg.Pkg) == c04Rel {
				add(cal, depth+1)
			}
		}
	}
	add(top, 0)
	return set
}

// c04CountConsumer finds, in one function that parses the value of the
// un-suffixed whole-file row into nf integers, which of them is compared with
// the number of part rows collected from the suffixed keys. Returns the
// position of that integer in the row value (-1 if the function does not parse
// such a row).
func c04CountConsumer(p *Program, r *Reporter, fn *ssa.Function, nf int) int {
	const rule = "Z-count"
	pfs, err := c04ParseFieldsCalls(fn)
	if err != "" || len(pfs) == 0 {
		return -1 // Z-codec reports an unreadable ParseFields
	}
	var valuePF, keyPF []c04PFCall
	for _, pc := range pfs {
		allInt := true
		for _, f := range pc.fields {
			if f.kind != "int" {
				allInt = false
			}
		}
		switch {
		case pc.fromValue && allInt && len(pc.fields) == nf:
			valuePF = append(valuePF, pc)
		case pc.fromKey && allInt && len(pc.fields) == 1:
			keyPF = append(keyPF, pc)
		}
	}
	if len(valuePF) == 0 {
		return -1
	}
	key := FuncKey(fn)
	site := p.Pos(valuePF[0].c.Pos())
	if len(valuePF) != 1 || len(keyPF) != 1 {
		r.Undecided(rule, key+"#count-consumer", site, fmt.Sprintf("%d parses of a %d-integer row value and %d parses of a part index from a key; the rule follows exactly one of each", len(valuePF), nf, len(keyPF)))
		return -1
	}
	// destinations of the row value
	dests, _ := c04VarargElems(valuePF[0].c.Common().Args[1])
	for i := range dests {
		dests[i] = c04StripIfaceOnly(dests[i])
	}
	// the struct the part index is parsed into
	kd, _ := c04VarargElems(keyPF[0].c.Common().Args[1])
	var partVar ssa.Value
	var idxField c04FieldID
	if len(kd) == 1 {
		if fa, ok := c04StripIfaceOnly(kd[0]).(*ssa.FieldAddr); ok {
			partVar = fa.X
			idxField, _ = c04FieldOf(fa)
		}
	}
	if partVar == nil {
		r.Undecided(rule, key+"#count-consumer", site, "the part index parsed from the key is not stored into a field of a part record: cannot find the collection of part rows")
		return -1
	}
	// the appends that collect part records
	var appends []*ssa.Call
	for _, c := range CallsIn(fn, false) {
		call := c.Value()
		if call == nil {
			continue
		}
		if b, ok := call.Call.Value.(*ssa.Builtin); !ok || b.Name() != "append" || len(call.Call.Args) != 2 {
			continue
		}
		elems, ok := c04VarargElems(call.Call.Args[1])
		if !ok {
			continue
		}
		for _, e := range elems {
			if c04Depends(e, func(x ssa.Value) bool { return x == partVar }) {
				appends = append(appends, call)
				break
			}
		}
	}
	isPartsLen := func(v ssa.Value) bool {
		arg, ok := c04IsLenCall(v)
		if !ok {
			return false
		}
		return c04Depends(arg, func(x ssa.Value) bool {
			for _, a := range appends {
				if x == ssa.Value(a) {
					return true
				}
			}
			return false
		})
	}
	destOf := func(v ssa.Value) int {
		for i, d := range dests {
			d := d
			if c04Depends(v, func(x ssa.Value) bool {
				ld, ok := x.(*ssa.UnOp)
				return ok && ld.Op == token.MUL && ld.X == d
			}) {
				return i
			}
		}
		return -1
	}
	// comparisons count <-> len(parts)
	type cmp struct {
		bo  *ssa.BinOp
		pos int
	}
	var cmps []cmp
	for _, b := range fn.Blocks {
		for _, in := range b.Instrs {
			bo, ok := in.(*ssa.BinOp)
			if !ok {
				continue
			}
			switch bo.Op {
			case token.EQL, token.NEQ, token.LSS, token.LEQ, token.GTR, token.GEQ:
			default:
				continue
			}
			if _, isC := bo.X.(*ssa.Const); isC {
				continue
			}
			if _, isC := bo.Y.(*ssa.Const); isC {
				continue
			}
			for _, sides := range [][2]ssa.Value{{bo.X, bo.Y}, {bo.Y, bo.X}} {
				if !c04Depends(sides[0], isPartsLen) || c04Depends(sides[1], isPartsLen) {
					continue
				}
				if i := destOf(sides[1]); i >= 0 && destOf(sides[0]) < 0 {
					cmps = append(cmps, cmp{bo, i})
				}
			}
		}
	}
	if len(cmps) == 0 {
		r.Undecided(rule, key+"#count-consumer", site, fmt.Sprintf("the %d integers of the whole-file row are parsed, but none is compared with the number of part rows collected from the suffixed keys: cannot tell which one is the part count, nor that a file whose final row is missing or disagrees with its part rows is refused", nf))
		return -1
	}
	pos := cmps[0].pos
	for _, c := range cmps {
		if c.pos != pos {
			r.Undecided(rule, key+"#count-consumer", site, "different integers of the row are compared with the number of part rows")
			return -1
		}
	}
	// every possibly-successful return lies under "count == number of part rows"
	bad := ""
	nSucc := 0
	for _, nr := range MaybeNilErrorReturns(fn) {
		nSucc++
		guarded := false
		for _, f := range FactsAt(nr.From) {
			for _, c := range cmps {
				if f.Cond == ssa.Value(c.bo) && (c.bo.Op == token.EQL && f.Val || c.bo.Op == token.NEQ && !f.Val) {
					guarded = true
				}
			}
		}
		if !guarded {
			bad = fmt.Sprintf("the return at line %d serves the file although the number of part rows found is not known equal to the count of the w:<ref> row (an interrupted pack has part rows and no final row; a stale or inflated count has fewer part rows than it announces)", c04Line(p, nr.Ret.Pos()))
		}
	}
	if nSucc == 0 {
		bad = "no successful return found"
	}
	r.Check(bad == "", rule, key+"#count-consumer", p.Pos(cmps[0].bo.Pos()),
		fmt.Sprintf("integer #%d of the w:<ref> value is the part count: every successful return (%d) is under the fact that it equals the number of w:<ref>:<idx> rows collected", pos, nSucc), bad)

	// supporting fact (recorded, not required): the part indexes are demanded dense, 0..count-1
	dense := false
	for _, b := range fn.Blocks {
		for _, in := range b.Instrs {
			bo, ok := in.(*ssa.BinOp)
			if !ok || (bo.Op != token.EQL && bo.Op != token.NEQ) || len(b.Succs) != 2 {
				continue
			}
			ifi, ok := b.Instrs[len(b.Instrs)-1].(*ssa.If)
			if !ok || ifi.Cond != ssa.Value(bo) {
				continue
			}
			for _, sides := range [][2]ssa.Value{{bo.X, bo.Y}, {bo.Y, bo.X}} {
				iv := c04StripConv(sides[1])
				if _, isC := iv.(*ssa.Const); isC {
					continue
				}
				// sides[0]: the idx field of the element at position iv of the collected parts
				var elemAt *ssa.IndexAddr
				readsIdx := c04Depends(sides[0], func(x ssa.Value) bool {
					id, ok := c04FieldOf(x)
					return ok && id == idxField
				})
				c04Depends(sides[0], func(x ssa.Value) bool {
					if ia, ok := x.(*ssa.IndexAddr); ok && ia.Index == iv {
						elemAt = ia
					}
					return false
				})
				if !readsIdx || elemAt == nil {
					continue
				}
				// on the mismatch edge no successful return is reachable
				mis := b.Succs[0]
				if bo.Op == token.EQL {
					mis = b.Succs[1]
				}
				reach := BlocksFrom(mis)
				leak := false
				for _, nr := range MaybeNilErrorReturns(fn) {
					if reach[nr.Ret.Block()] {
						leak = true
					}
				}
				if !leak {
					dense = true
				}
			}
		}
	}
	if dense {
		r.OKTable(rule, key+"#part-indexes-dense", site, "supporting fact: a part whose index differs from its position among the sorted part rows makes the read fail, so the indexes served are exactly 0..count-1 (hence 'highest index + 1' is the count a writer must store)")
	} else {
		r.Note("Z-count: %s does not visibly demand dense part indexes (supporting fact only, not required)", key)
	}
	return pos
}

func c04ZCount(p *Program, r *Reporter, writers []*c04Writer) {
	const rule = "Z-count"
	wP := c04StrConst(p, "wholeMetaPrefix")
	wholeKind, partKind := wP+"<ref>", wP+"<ref>:<int>"
	// number of fields of the whole-file row, from its writers
	nf := 0
	for _, w := range writers {
		if w.kind == wholeKind && w.valErr == "" {
			if fs, ok := c04Fields(w.val); ok && len(fs) > nf {
				nf = len(fs)
			}
		}
	}
	if nf == 0 {
		r.Undecided(rule, c04Rel+"#kind "+wholeKind, "?", "no writer of the whole-file row with a readable value shape")
		r.Floor(rule, 3)
		return
	}
	// readers
	pos, nReaders := -1, 0
	for _, fn := range p.FuncsIn(c04Rel) {
		if i := c04CountConsumer(p, r, fn, nf); i >= 0 {
			nReaders++
			if pos >= 0 && pos != i {
				r.Undecided(rule, FuncKey(fn)+"#count-consumer", p.Pos(fn.Pos()), "two readers take different integers of the row for the part count")
			}
			pos = i
		}
	}
	r.Analysed("whole_row_count_readers", nReaders)
	if pos < 0 {
		if nReaders == 0 {
			r.Undecided(rule, c04Rel+"#count-consumer", "?", "no function of the package compares an integer of the w:<ref> row with the number of part rows: the writer-side clause has nothing to agree with")
		}
		r.Floor(rule, 3)
		return
	}
	// writers
	for _, w := range writers {
		if w.kind != wholeKind {
			continue
		}
		construct := FuncKey(w.c.Fn) + "#count-of " + w.kind
		site := p.Pos(w.c.Pos())
		if w.valErr != "" {
			r.Undecided(rule, construct, site, "row value cannot be evaluated: "+w.valErr)
			continue
		}
		fs, ok := c04Fields(w.val)
		if !ok || pos >= len(fs) {
			r.Undecided(rule, construct, site, fmt.Sprintf("row value %s has no field #%d (the part count the reader compares)", c04Sig(w.val), pos))
			continue
		}
		cnt := fs[pos]
		if cnt.Val == nil {
			r.Undecided(rule, construct, site, "the part count is rendered inside a helper; the rule follows counts computed in the writing function")
			continue
		}
		top := TopFunc(w.c.Fn)
		pass := c04PassFuncs(top)
		var refTok *c04Tok
		for i := range w.key {
			if w.key[i].Hole && w.key[i].class() == "ref" {
				refTok = &w.key[i]
			}
		}
		type keySrc struct {
			src c04FieldID
			how string
			by  *c04Writer
		}
		var srcs []keySrc
		undec := ""
		nPart := 0
		for _, pw := range writers {
			if pw.kind != partKind || !pass[pw.c.Fn] {
				continue
			}
			var k, kref *c04Tok
			for i := range pw.key {
				if pw.key[i].Hole && pw.key[i].class() == "int" {
					k = &pw.key[i]
				}
				if pw.key[i].Hole && pw.key[i].class() == "ref" {
					kref = &pw.key[i]
				}
			}
			// rows of another whole ref written by the same function are not this file's parts
			if pw.c.Fn == w.c.Fn && refTok != nil && kref != nil && refTok.Val != nil && kref.Val != nil && !sameOrigin(refTok.Val, kref.Val) {
				continue
			}
			nPart++
			if k == nil || k.Val == nil {
				undec = fmt.Sprintf("the part index of the %s row written by %s (line %d) is rendered inside a helper", partKind, FuncKey(pw.c.Fn), c04Line(p, pw.c.Pos()))
				continue
			}
			src, how, ok := c04KeySource(k.Val)
			if !ok {
				undec = fmt.Sprintf("the part index of the %s row written by %s (line %d) is neither a struct field nor the length of a collection held in a struct field (offsets by constants allowed): the rule cannot name what the count has to be computed from", partKind, FuncKey(pw.c.Fn), c04Line(p, pw.c.Pos()))
				continue
			}
			srcs = append(srcs, keySrc{src, how, pw})
		}
		if nPart == 0 {
			r.Undecided(rule, construct, site, "the pass that writes this whole-file row ("+FuncKey(top)+" and the package functions it calls) writes no "+partKind+" row: nothing to relate the count to")
			continue
		}
		if undec != "" {
			r.Undecided(rule, construct, site, undec)
			continue
		}
		bad, good := "", ""
		for _, ks := range srcs {
			ks := ks
			dep := c04DependsOpt(cnt.Val, func(x ssa.Value) bool {
				id, ok := c04FieldOf(x)
				return ok && id == ks.src
			}, true)
			what := "the field " + ks.src.String() + " that holds each part's index"
			if ks.how == "len" {
				what = "the collection " + ks.src.String() + " whose length is each part's index"
			}
			if dep {
				good = fmt.Sprintf("the part count is computed from %s in the %s rows of the same pass (%s, line %d)", what, partKind, FuncKey(ks.by.c.Fn), c04Line(p, ks.by.c.Pos()))
			} else {
				bad = fmt.Sprintf("the part count written to %s does not depend on %s, which keys the %s rows of the same pass (%s, line %d): it is derived from something else (e.g. how many zips were seen), so zips that share a part index, or attempts that wrote no part row, make the count differ from the number of part rows and %s refuses the file for good", wholeKind, what, partKind, FuncKey(ks.by.c.Fn), c04Line(p, ks.by.c.Pos()), "the reader")
			}
		}
		r.Check(bad == "", rule, construct, site, good, bad)
	}
	r.Floor(rule, 3)
}

// ---------------------------------------------------------------------------
// Z-recover (additional rule: start-up check, reindex, zip deletion)

func c04ZRecover(p *Program, r *Reporter) {
	const rule = "Z-recover"
	ctor := p.Func(c04Rel, "", "newFromConfig")
	reindex := p.Func(c04Rel, "storage", "reindex")
	integ := p.Func(c04Rel, "storage", "checkLargeIntegrity")
	lastOf := func(b *ssa.BasicBlock) ssa.Instruction { return b.Instrs[len(b.Instrs)-1] }

	// (i)/(ii) constructor
	var reCalls, ckCalls []CallSite
	for _, c := range CallsIn(ctor, false) {
		switch c.Callee() {
		case reindex:
			reCalls = append(reCalls, c)
		case integ:
			ckCalls = append(ckCalls, c)
		}
	}
	if len(reCalls) == 0 {
		r.Violation(rule, FuncKey(ctor)+"#reindex", p.Pos(ctor.Pos()), "the constructor no longer calls reindex in recovery mode: the meta index cannot be rebuilt from the zips")
	}
	for i, nr := range MaybeNilErrorReturns(ctor) {
		at := lastOf(nr.From)
		construct := fmt.Sprintf("%s#success-return", FuncKey(ctor))
		_ = i
		checked := false
		for _, ck := range ckCalls {
			if Precedes(ck.Instr, at) {
				checked = true
			}
		}
		bad := ""
		if !checked {
			bad = "a store is returned without checkLargeIntegrity having compared large with the z: rows"
		}
		for _, rc := range reCalls {
			if rc.Value() == nil {
				bad = "reindex result dropped"
				continue
			}
			if ReachableFrom(rc.Instr, nil)[at] {
				if ok, why := c04SuccessAt(rc.Value(), at); !ok {
					bad = "a store is returned after reindex was started but not on its success edge (" + why + "): a half-built index would serve reads"
				}
			}
		}
		r.Check(bad == "", rule, construct, p.Pos(nr.Ret.Pos()), "preceded by checkLargeIntegrity; on the success edge of reindex where reindex ran", bad)
	}
	// (iii) reindex: success only after every top-level CommitBatch succeeded; installs the index it filled
	var commits []CallSite
	var newMeta ssa.Value
	for _, c := range CallsIn(reindex, false) {
		cc := c.Common()
		if cc.IsInvoke() && cc.Method.Name() == "CommitBatch" && IsNamed(cc.Value.Type(), c04SortedPkg, "KeyValue") {
			commits = append(commits, c)
			newMeta = cc.Value
		}
	}
	if len(commits) == 0 {
		r.Violation(rule, FuncKey(reindex)+"#commit", p.Pos(reindex.Pos()), "reindex commits nothing at top level")
	}
	for _, nr := range MaybeNilErrorReturns(reindex) {
		at := lastOf(nr.From)
		bad := ""
		for _, cm := range commits {
			if cm.Value() == nil {
				bad = "CommitBatch result dropped"
				continue
			}
			if ok, why := c04SuccessAt(cm.Value(), at); !ok {
				bad = fmt.Sprintf("reindex reports success although the CommitBatch at line %d is not known to have succeeded (%s)", c04Line(p, cm.Pos()), why)
			}
		}
		r.Check(bad == "", rule, FuncKey(reindex)+"#success-return", p.Pos(nr.Ret.Pos()), fmt.Sprintf("on the success edge of %d top-level CommitBatch call(s)", len(commits)), bad)
	}
	nInstall := 0
	for _, b := range reindex.Blocks {
		for _, in := range b.Instrs {
			st, ok := in.(*ssa.Store)
			if !ok {
				continue
			}
			fa, ok := st.Addr.(*ssa.FieldAddr)
			if !ok || fieldName(fa.X.Type(), fa.Field) != "meta" {
				continue
			}
			if n := NamedOf(fa.X.Type()); n == nil || n.Obj().Name() != "storage" {
				continue
			}
			nInstall++
			ok2 := newMeta != nil && sameOrigin(st.Val, newMeta)
			for _, cm := range commits {
				if cm.Value() != nil {
					if k, _ := c04SuccessAt(cm.Value(), st); !k {
						ok2 = false
					}
				}
			}
			r.Check(ok2, rule, FuncKey(reindex)+"#install-meta", p.Pos(st.Pos()), "s.meta is replaced by the KeyValue the rows were committed to, after the commits succeeded", "s.meta is replaced by something other than the KeyValue reindex filled, or before its commits succeeded")
		}
	}
	if nInstall == 0 {
		r.Violation(rule, FuncKey(reindex)+"#install-meta", p.Pos(reindex.Pos()), "reindex never installs the rebuilt index as s.meta")
	}
	// (iv) deleting a zip from large
	n := 0
	for _, fn := range p.FuncsIn(c04Rel) {
		for _, c := range CallsIn(fn, false) {
			cc := c.Common()
			if !cc.IsInvoke() || cc.Method.Name() != "RemoveBlobs" || c04Role(cc.Value) != "large" {
				continue
			}
			n++
			construct := FuncKey(fn) + "#large.RemoveBlobs"
			inUseFn := p.Func(c04Rel, "storage", "zipPartsInUse")
			elems, okE := c04VarargElems(cc.Args[1])
			good, detail := false, "no zipPartsInUse call of the same ref guards the removal"
			for _, g := range CallsIn(fn, false) {
				if g.Callee() != inUseFn || g.Value() == nil {
					continue
				}
				if k, why := c04SuccessAt(g.Value(), c.Instr); !k {
					detail = "zipPartsInUse: " + why
					continue
				}
				if !okE || len(elems) != 1 || !sameOrigin(elems[0], g.Common().Args[2]) {
					detail = "the removed refs are not exactly the ref whose parts were checked"
					continue
				}
				res := ResultValue(g.Value(), 0)
				empty := false
				for _, f := range FactsAt(c.Block()) {
					if c04SaysEmpty(f.Cond, f.Val, func(v ssa.Value) bool { return res != nil && sameOrigin(v, res) }) {
						empty = true
					}
				}
				if !empty {
					detail = "the removal is not under the fact that zipPartsInUse returned no part in use"
					continue
				}
				good, detail = true, "guarded by zipPartsInUse(same ref) == nil error and empty result"
			}
			r.Check(good, rule, construct, p.Pos(c.Pos()), detail, "a zip is removed from large: "+detail+" (logical blobs still mapped into it become unreadable)")
		}
	}
	r.Analysed("large_remove_sites", n)
	r.Floor(rule, 5)
}

// ---------------------------------------------------------------------------
// element flow: which blob refs may a slice / a struct field hold (local,
// field-sensitive may-analysis used by Z-order "removed refs are mapped refs")

type c04Flow struct {
	leaves   map[string]ssa.Value // key -> representative value
	seenEl   map[ssa.Value]bool
	seenLoad map[string]bool
	stores   map[*ssa.Alloc][]c04PathStore
	fn       *ssa.Function
}

type c04PathStore struct {
	path []int
	st   *ssa.Store
}

func c04NewFlow(fn *ssa.Function) *c04Flow {
	fl := &c04Flow{leaves: map[string]ssa.Value{}, seenEl: map[ssa.Value]bool{}, seenLoad: map[string]bool{}, stores: map[*ssa.Alloc][]c04PathStore{}, fn: fn}
	for _, b := range fn.Blocks {
		for _, in := range b.Instrs {
			st, ok := in.(*ssa.Store)
			if !ok {
				continue
			}
			var path []int
			addr := st.Addr
			for {
				if fa, ok := addr.(*ssa.FieldAddr); ok {
					path = append([]int{fa.Field}, path...)
					addr = fa.X
					continue
				}
				break
			}
			if al, ok := addr.(*ssa.Alloc); ok {
				fl.stores[al] = append(fl.stores[al], c04PathStore{path, st})
			}
		}
	}
	return fl
}

func (fl *c04Flow) leaf(v ssa.Value, path []int) {
	fl.leaves[fmt.Sprintf("%p%v", v, path)] = v
}

// elems returns the values that may be elements of slice s; resolvable=false
// when some contributor is opaque (field load, call result, parameter).
func (fl *c04Flow) elems(s ssa.Value, seen map[ssa.Value]bool) (vals []ssa.Value, resolvable bool) {
	if seen[s] {
		return nil, true
	}
	seen[s] = true
	switch x := s.(type) {
	case *ssa.Const:
		return nil, x.Value == nil
	case *ssa.MakeSlice:
		return nil, true
	case *ssa.Convert:
		return fl.elems(x.X, seen)
	case *ssa.ChangeType:
		return fl.elems(x.X, seen)
	case *ssa.Phi:
		resolvable = true
		for _, e := range x.Edges {
			v, r := fl.elems(e, seen)
			vals = append(vals, v...)
			resolvable = resolvable && r
		}
		return vals, resolvable
	case *ssa.Call:
		if b, ok := x.Call.Value.(*ssa.Builtin); ok && b.Name() == "append" && len(x.Call.Args) == 2 {
			a, r1 := fl.elems(x.Call.Args[0], seen)
			c, r2 := fl.elems(x.Call.Args[1], seen)
			return append(a, c...), r1 && r2
		}
	case *ssa.Slice:
		if al, ok := x.X.(*ssa.Alloc); ok {
			if _, isArr := al.Type().(*types.Pointer).Elem().Underlying().(*types.Array); isArr {
				if refs := al.Referrers(); refs != nil {
					for _, u := range *refs {
						if ia, ok := u.(*ssa.IndexAddr); ok {
							if ir := ia.Referrers(); ir != nil {
								for _, w := range *ir {
									if st, ok := w.(*ssa.Store); ok && st.Addr == ssa.Value(ia) {
										vals = append(vals, st.Val)
									}
								}
							}
						}
					}
				}
				return vals, true
			}
		}
		return fl.elems(x.X, seen)
	case *ssa.UnOp:
		if x.Op == token.MUL {
			if al, ok := x.X.(*ssa.Alloc); ok && plainVariable(al) {
				sts := storesTo(al)
				resolvable = len(sts) > 0
				for _, st := range sts {
					v, r := fl.elems(st.Val, seen)
					vals = append(vals, v...)
					resolvable = resolvable && r
				}
				return vals, resolvable
			}
		}
	}
	return nil, false
}

// field collects the leaves of field path P of struct-or-ref value w.
func (fl *c04Flow) field(w ssa.Value, path []int, depth int) {
	if depth > 40 {
		fl.leaf(w, path)
		return
	}
	switch x := w.(type) {
	case *ssa.UnOp:
		if x.Op == token.MUL {
			fl.load(x.X, path, x, depth+1)
			return
		}
	case *ssa.Field:
		fl.field(x.X, append([]int{x.Field}, path...), depth+1)
		return
	case *ssa.Phi:
		key := fmt.Sprintf("phi%p%v", x, path)
		if fl.seenLoad[key] {
			return
		}
		fl.seenLoad[key] = true
		for _, e := range x.Edges {
			fl.field(e, path, depth+1)
		}
		return
	case *ssa.ChangeType:
		fl.field(x.X, path, depth+1)
		return
	}
	fl.leaf(w, path)
}

func (fl *c04Flow) load(addr ssa.Value, path []int, self ssa.Value, depth int) {
	key := fmt.Sprintf("ld%p%v", addr, path)
	if fl.seenLoad[key] {
		return
	}
	fl.seenLoad[key] = true
	switch a := addr.(type) {
	case *ssa.FieldAddr:
		fl.load(a.X, append([]int{a.Field}, path...), self, depth+1)
		return
	case *ssa.IndexAddr:
		es, ok := fl.elems(a.X, map[ssa.Value]bool{})
		if ok && len(es) > 0 {
			for _, e := range es {
				fl.field(e, path, depth+1)
			}
			return
		}
	case *ssa.Alloc:
		n := 0
		for _, ps := range fl.stores[a] {
			if len(ps.path) <= len(path) && fmt.Sprint(ps.path) == fmt.Sprint(path[:len(ps.path)]) {
				n++
				fl.field(ps.st.Val, path[len(ps.path):], depth+1)
			}
		}
		if n > 0 {
			return
		}
	}
	fl.leaf(self, path)
}

// c04RefLeaves: leaves of all elements of slice s.
func c04SliceLeaves(fn *ssa.Function, s ssa.Value) (map[string]ssa.Value, bool) {
	fl := c04NewFlow(fn)
	es, ok := fl.elems(s, map[ssa.Value]bool{})
	if !ok {
		return nil, false
	}
	for _, e := range es {
		fl.field(e, nil, 0)
	}
	return fl.leaves, true
}

func c04ValueLeaves(fn *ssa.Function, v ssa.Value) map[string]ssa.Value {
	fl := c04NewFlow(fn)
	fl.field(v, nil, 0)
	return fl.leaves
}

// ---------------------------------------------------------------------------
// Z-whole-blob: a blob that gets a b: row (and a manifest entry) is moved into
// the zip WHOLE — the recorded size is the size the store reports for that
// ref (or a value proven equal to it by a dominating == fact) and the bytes
// copied into the zip are the uncapped content of the fetch of that very ref.

// c04ValuePreserving: converting an integer of type src to dst keeps its
// mathematical value (sizes from the build configuration that was loaded).
func c04ValuePreserving(p *Program, src, dst types.Type) bool {
	sb, ok1 := src.Underlying().(*types.Basic)
	db, ok2 := dst.Underlying().(*types.Basic)
	if !ok1 || !ok2 || sb.Info()&types.IsInteger == 0 || db.Info()&types.IsInteger == 0 {
		return false
	}
	sizes := p.Pkg(c04Rel).TypesSizes
	if sizes == nil {
		return false
	}
	sw, dw := sizes.Sizeof(sb), sizes.Sizeof(db)
	su, du := sb.Info()&types.IsUnsigned != 0, db.Info()&types.IsUnsigned != 0
	switch {
	case su == du:
		return dw >= sw
	case su && !du:
		return dw > sw
	}
	return false
}

// c04StripWiden strips value-preserving integer conversions, interface
// conversions and loads of single-store locals.
func c04StripWiden(p *Program, v ssa.Value) ssa.Value {
	for i := 0; i < 32 && v != nil; i++ {
		if cv, ok := v.(*ssa.Convert); ok {
			if !c04ValuePreserving(p, cv.X.Type(), cv.Type()) {
				return v
			}
			v = cv.X
			continue
		}
		o := originValue(v)
		if o == v {
			return v
		}
		v = o
	}
	return v
}

// c04CmpFact normalises a branch fact to the relation that holds between two
// operands (NOT and a false outcome are folded into the operator).
func c04CmpFact(cond ssa.Value, val bool) (x, y ssa.Value, op token.Token, ok bool) {
	for {
		u, isU := cond.(*ssa.UnOp)
		if !isU || u.Op != token.NOT {
			break
		}
		cond, val = u.X, !val
	}
	bo, isB := cond.(*ssa.BinOp)
	if !isB {
		return nil, nil, 0, false
	}
	neg := map[token.Token]token.Token{token.EQL: token.NEQ, token.NEQ: token.EQL, token.LSS: token.GEQ, token.GEQ: token.LSS, token.GTR: token.LEQ, token.LEQ: token.GTR}
	op = bo.Op
	if _, known := neg[op]; !known {
		return nil, nil, 0, false
	}
	if !val {
		op = neg[op]
	}
	return bo.X, bo.Y, op, true
}

// c04ProvenEqual: do the facts at block b say that value a (already stripped)
// equals a value accepted by isB? weaker names an ordering / inequality fact
// between the two when that is all there is.
func c04ProvenEqual(p *Program, b *ssa.BasicBlock, a ssa.Value, isB func(ssa.Value) bool) (eq bool, weaker string) {
	for _, f := range FactsAt(b) {
		x, y, op, ok := c04CmpFact(f.Cond, f.Val)
		if !ok {
			continue
		}
		sx, sy := c04StripWiden(p, x), c04StripWiden(p, y)
		if !(sx == a && isB(sy)) && !(sy == a && isB(sx)) {
			continue
		}
		if op == token.EQL {
			return true, ""
		}
		if sy == a {
			// render as "a OP other"
			op = map[token.Token]token.Token{token.LSS: token.GTR, token.GTR: token.LSS, token.LEQ: token.GEQ, token.GEQ: token.LEQ, token.NEQ: token.NEQ}[op]
		}
		weaker = op.String()
	}
	return false, weaker
}

// c04RefSrc: a value a blob ref may come from, and the innermost append through
// which it entered a slice on the way to the use (nil: used directly).
type c04RefSrc struct {
	val ssa.Value
	app *ssa.Call
}

// c04AppendElems lists the values a locally built slice may hold, each with
// the append call that put it there; ok=false when some contributor is opaque
// (field load, call result, parameter, map lookup).
func c04AppendElems(s ssa.Value, seen map[ssa.Value]bool) (out []c04RefSrc, ok bool) {
	if seen[s] {
		return nil, true
	}
	seen[s] = true
	switch x := s.(type) {
	case *ssa.Const:
		return nil, x.Value == nil
	case *ssa.MakeSlice:
		return nil, true
	case *ssa.Convert:
		return c04AppendElems(x.X, seen)
	case *ssa.ChangeType:
		return c04AppendElems(x.X, seen)
	case *ssa.Phi:
		ok = true
		for _, e := range x.Edges {
			v, r := c04AppendElems(e, seen)
			out = append(out, v...)
			ok = ok && r
		}
		return out, ok
	case *ssa.Call:
		b, isB := x.Call.Value.(*ssa.Builtin)
		if !isB || b.Name() != "append" || len(x.Call.Args) != 2 {
			return nil, false
		}
		a, r1 := c04AppendElems(x.Call.Args[0], seen)
		if elems, lit := c04VarargElems(x.Call.Args[1]); lit {
			for _, e := range elems {
				a = append(a, c04RefSrc{e, x})
			}
			return a, r1
		}
		c, r2 := c04AppendElems(x.Call.Args[1], seen)
		return append(a, c...), r1 && r2
	case *ssa.Slice:
		if _, isAlloc := x.X.(*ssa.Alloc); isAlloc {
			if elems, lit := c04VarargElems(x); lit {
				for _, e := range elems {
					out = append(out, c04RefSrc{e, nil})
				}
				return out, true
			}
			return nil, false
		}
		return c04AppendElems(x.X, seen)
	case *ssa.UnOp:
		if x.Op == token.MUL {
			if al, isAl := x.X.(*ssa.Alloc); isAl && plainVariable(al) {
				sts := storesTo(al)
				ok = len(sts) > 0
				for _, st := range sts {
					v, r := c04AppendElems(st.Val, seen)
					out = append(out, v...)
					ok = ok && r
				}
				return out, ok
			}
		}
	}
	return nil, false
}

// c04RefSrcs resolves a ref-typed value through range loops over locally
// built slices to the values that were appended to them.
func c04RefSrcs(v ssa.Value) []c04RefSrc {
	var out []c04RefSrc
	seen := map[ssa.Value]bool{}
	var walk func(v ssa.Value, app *ssa.Call, depth int)
	walk = func(v ssa.Value, app *ssa.Call, depth int) {
		if ct, ok := v.(*ssa.ChangeType); ok {
			v = ct.X
		}
		if seen[v] {
			return
		}
		seen[v] = true
		if depth < 24 {
			switch x := v.(type) {
			case *ssa.Phi:
				for _, e := range x.Edges {
					walk(e, app, depth+1)
				}
				return
			case *ssa.UnOp:
				if x.Op == token.MUL {
					switch a := x.X.(type) {
					case *ssa.IndexAddr:
						if elems, ok := c04AppendElems(a.X, map[ssa.Value]bool{}); ok && len(elems) > 0 {
							for _, e := range elems {
								ap := e.app
								if ap == nil {
									ap = app
								}
								walk(e.val, ap, depth+1)
							}
							return
						}
					case *ssa.Alloc:
						if plainVariable(a) {
							if sts := storesTo(a); len(sts) > 0 {
								for _, st := range sts {
									walk(st.Val, app, depth+1)
								}
								return
							}
						}
					}
				}
			}
		}
		out = append(out, c04RefSrc{v, app})
	}
	walk(v, nil, 0)
	return out
}

// c04SameRef: a and b denote the same blob ref: the same value, or two loads
// of the same element (same slice value, same index value) of a slice.
func c04SameRef(a, b ssa.Value) bool {
	if sameOrigin(a, b) {
		return true
	}
	la, ok1 := originValue(a).(*ssa.UnOp)
	lb, ok2 := originValue(b).(*ssa.UnOp)
	if !ok1 || !ok2 || la.Op != token.MUL || lb.Op != token.MUL {
		return false
	}
	ia, ok1 := la.X.(*ssa.IndexAddr)
	ib, ok2 := lb.X.(*ssa.IndexAddr)
	if !ok1 || !ok2 || !sameOrigin(ia.X, ib.X) {
		return false
	}
	if sameOrigin(ia.Index, ib.Index) {
		return true
	}
	ca, ok1 := ConstInt(ia.Index)
	cb, ok2 := ConstInt(ib.Index)
	return ok1 && ok2 && ca == cb
}

// c04MaybeSameRef: not the same value, but both resolve through local element
// flow to exactly the same sources (e.g. two different elements of one slice):
// the rule cannot tell whether they are the same element.
func c04MaybeSameRef(a, b ssa.Value) bool {
	sa, sb := c04RefSrcs(a), c04RefSrcs(b)
	if len(sa) == 0 || len(sa) != len(sb) {
		return false
	}
	for _, x := range sa {
		found := false
		for _, y := range sb {
			if x.val == y.val || sameOrigin(x.val, y.val) {
				found = true
			}
		}
		if !found {
			return false
		}
	}
	return true
}

// c04FieldVals: the values that may have been stored into field path `path`
// of struct value w, following local composite literals, copies of locals and
// (at the top only, via c04FieldLoad) elements of locally built slices.
func c04FieldVals(fl *c04Flow, w ssa.Value, path []int, depth int) ([]ssa.Value, bool) {
	if len(path) == 0 {
		return []ssa.Value{w}, true
	}
	if depth > 24 {
		return nil, false
	}
	switch x := w.(type) {
	case *ssa.UnOp:
		if x.Op == token.MUL {
			return c04FieldLoad(fl, x.X, path, depth+1)
		}
	case *ssa.Field:
		return c04FieldVals(fl, x.X, append([]int{x.Field}, path...), depth+1)
	case *ssa.ChangeType:
		return c04FieldVals(fl, x.X, path, depth+1)
	case *ssa.Phi:
		var out []ssa.Value
		for _, e := range x.Edges {
			v, ok := c04FieldVals(fl, e, path, depth+1)
			if !ok {
				return nil, false
			}
			out = append(out, v...)
		}
		return out, true
	}
	return nil, false
}

func c04FieldLoad(fl *c04Flow, addr ssa.Value, path []int, depth int) ([]ssa.Value, bool) {
	switch a := addr.(type) {
	case *ssa.FieldAddr:
		return c04FieldLoad(fl, a.X, append([]int{a.Field}, path...), depth+1)
	case *ssa.Alloc:
		var out []ssa.Value
		for _, ps := range fl.stores[a] {
			n := len(ps.path)
			if n > len(path) {
				n = len(path)
			}
			if fmt.Sprint(ps.path[:n]) != fmt.Sprint(path[:n]) {
				continue
			}
			if len(ps.path) > len(path) {
				return nil, false // the field is assembled piecewise below the path asked for
			}
			v, ok := c04FieldVals(fl, ps.st.Val, path[len(ps.path):], depth+1)
			if !ok {
				return nil, false
			}
			out = append(out, v...)
		}
		return out, true
	case *ssa.IndexAddr:
		elems, ok := c04AppendElems(a.X, map[ssa.Value]bool{})
		if !ok {
			return nil, false
		}
		var out []ssa.Value
		for _, e := range elems {
			v, ok := c04FieldVals(fl, e.val, path, depth+1)
			if !ok {
				return nil, false
			}
			out = append(out, v...)
		}
		return out, true
	}
	return nil, false
}

// c04SizedRefPath: field path from struct type t to its blob.SizedRef part
// (the type itself, or a unique field / embedded field of that type), and the
// indexes of Ref and Size in blob.SizedRef.
func c04SizedRefPath(t types.Type) (path []int, refIdx, sizeIdx int, ok bool) {
	find := func(st *types.Struct) (int, int, bool) {
		ri, si := -1, -1
		for i := 0; i < st.NumFields(); i++ {
			switch st.Field(i).Name() {
			case "Ref":
				ri = i
			case "Size":
				si = i
			}
		}
		return ri, si, ri >= 0 && si >= 0
	}
	if IsNamed(t, c04BlobPkg, "SizedRef") {
		st, isSt := t.Underlying().(*types.Struct)
		if !isSt {
			return nil, 0, 0, false
		}
		ri, si, k := find(st)
		return nil, ri, si, k
	}
	st, isSt := t.Underlying().(*types.Struct)
	if !isSt {
		return nil, 0, 0, false
	}
	n := 0
	for i := 0; i < st.NumFields(); i++ {
		if IsNamed(st.Field(i).Type(), c04BlobPkg, "SizedRef") {
			if sst, isS := st.Field(i).Type().Underlying().(*types.Struct); isS {
				if ri, si, k := find(sst); k {
					path, refIdx, sizeIdx, ok = []int{i}, ri, si, true
					n++
				}
			}
		}
	}
	return path, refIdx, sizeIdx, ok && n == 1
}

// c04AddrChain decomposes a load `*(&(&base.f).g)` into base and [f g].
func c04AddrChain(v ssa.Value) (base ssa.Value, path []int, ok bool) {
	ld, isLd := v.(*ssa.UnOp)
	if !isLd || ld.Op != token.MUL {
		return nil, nil, false
	}
	addr := ld.X
	for {
		fa, isFA := addr.(*ssa.FieldAddr)
		if !isFA {
			break
		}
		path = append([]int{fa.Field}, path...)
		addr = fa.X
	}
	return addr, path, len(path) > 0
}

// c04WholeEntry: one (ref, size) description of a packed blob.
type c04WholeEntry struct {
	kind  string          // "b:-row" / "manifest <field>"
	site  ssa.Instruction // where the description is built (element value) or used
	ref   ssa.Value
	size  ssa.Value
	undec string
}

// c04PairUp splits the (ref, size) operands of a row writer into one pair per
// element constructor when both are read from the same element of a locally
// built slice of structs.
func c04PairUp(fn *ssa.Function, kind string, at ssa.Instruction, vr, vs ssa.Value) []c04WholeEntry {
	fl := c04NewFlow(fn)
	single := func(why string) []c04WholeEntry {
		return []c04WholeEntry{{kind: kind, site: at, ref: vr, size: vs, undec: why}}
	}
	br, pr, ok1 := c04AddrChain(vr)
	bs, ps, ok2 := c04AddrChain(c04StripConv(vs))
	if !ok1 || !ok2 || br != bs {
		return single("")
	}
	var elems []c04RefSrc
	switch b := br.(type) {
	case *ssa.IndexAddr:
		es, ok := c04AppendElems(b.X, map[ssa.Value]bool{})
		if !ok {
			return single("the slice the row is built from is not assembled in this function")
		}
		elems = es
	case *ssa.Alloc:
		for _, pst := range fl.stores[b] {
			if len(pst.path) != 0 {
				return single("")
			}
			w := pst.st.Val
			if ld, isLd := w.(*ssa.UnOp); isLd && ld.Op == token.MUL {
				if ia, isIA := ld.X.(*ssa.IndexAddr); isIA {
					es, ok := c04AppendElems(ia.X, map[ssa.Value]bool{})
					if !ok {
						return single("the slice the row is built from is not assembled in this function")
					}
					elems = append(elems, es...)
					continue
				}
			}
			elems = append(elems, c04RefSrc{w, nil})
		}
	default:
		return single("")
	}
	if len(elems) == 0 {
		return single("")
	}
	var out []c04WholeEntry
	for _, e := range elems {
		ent := c04WholeEntry{kind: kind, site: at}
		if in, isIn := e.val.(ssa.Instruction); isIn {
			ent.site = in
		}
		rv, okr := c04FieldVals(fl, e.val, pr, 0)
		sv, oks := c04FieldVals(fl, e.val, ps, 0)
		switch {
		case !okr || !oks:
			ent.undec = "a field of the element cannot be followed to the value stored in it"
		case len(rv) != 1 || len(sv) != 1:
			ent.undec = fmt.Sprintf("the element has %d ref and %d size candidates; the rule pairs exactly one with one", len(rv), len(sv))
		default:
			ent.ref, ent.size = rv[0], sv[0]
		}
		out = append(out, ent)
	}
	return out
}

// c04SizeTerm classifies what a recorded size is.
type c04SizeTerm struct {
	kind string     // "store": size result of a Fetch/StatBlob of ref; "map": m[ref] of a struct-field map; "blob": (*blob.Blob).Size() of blob; "other"
	call *ssa.Call  // store: the fetch/stat call
	ref  ssa.Value  // store: its ref argument; map: the key; blob: the key/ref the blob was obtained for (nil if unknown)
	fid  c04FieldID // map / blob-from-map: the map field
	blob ssa.Value  // blob: the *blob.Blob value
	desc string
}

func c04RefArg(call *ssa.Call) ssa.Value {
	for _, a := range call.Call.Args {
		if c04IsRef(a.Type()) {
			return a
		}
	}
	return nil
}

// c04IsFetchCall: a call named Fetch returning (reader, uint32 size, error)
// for a blob.Ref argument (blob.Fetcher and every implementation of it).
func c04IsFetchCall(call *ssa.Call) bool {
	if (CallSite{call.Parent(), call}).MethodName() != "Fetch" || c04RefArg(call) == nil {
		return false
	}
	tup, ok := call.Type().(*types.Tuple)
	if !ok || tup.Len() != 3 || !isErrorType(tup.At(2).Type()) {
		return false
	}
	b, ok := tup.At(1).Type().Underlying().(*types.Basic)
	return ok && b.Info()&types.IsInteger != 0
}

func c04IsStatCall(call *ssa.Call) bool {
	c := CallSite{call.Parent(), call}
	return c.IsStatic(c04BSPkg, "", "StatBlob") && c04RefArg(call) != nil
}

// c04MapLookup: v is m[k] (plain or comma-ok) where m is loaded from a field
// of a named struct.
func c04MapLookup(v ssa.Value) (fid c04FieldID, key ssa.Value, ok bool) {
	if ex, isEx := v.(*ssa.Extract); isEx && ex.Index == 0 {
		v = ex.Tuple
	}
	lk, isLk := v.(*ssa.Lookup)
	if !isLk {
		return fid, nil, false
	}
	if _, isMap := lk.X.Type().Underlying().(*types.Map); !isMap {
		return fid, nil, false
	}
	m := originValue(lk.X)
	ld, isLd := m.(*ssa.UnOp)
	if !isLd || ld.Op != token.MUL {
		return fid, nil, false
	}
	fid, ok = c04FieldOf(ld.X)
	return fid, lk.Index, ok
}

func c04IsBlobMethod(call *ssa.Call, names ...string) bool {
	c := CallSite{call.Parent(), call}
	for _, n := range names {
		if c.IsStatic(c04BlobPkg, "Blob", n) {
			return true
		}
	}
	return false
}

func c04ClassifySize(p *Program, v ssa.Value) c04SizeTerm {
	v = c04StripWiden(p, v)
	if ex, ok := v.(*ssa.Extract); ok {
		if call, isC := ex.Tuple.(*ssa.Call); isC && ex.Index == 1 && c04IsFetchCall(call) {
			return c04SizeTerm{kind: "store", call: call, ref: c04RefArg(call), desc: "size<-Fetch(ref)"}
		}
	}
	// .Size of the SizedRef returned by blobserver.StatBlob
	if f, ok := v.(*ssa.Field); ok && IsNamed(f.X.Type(), c04BlobPkg, "SizedRef") && fieldName(f.X.Type(), f.Field) == "Size" {
		if ex, isEx := originValue(f.X).(*ssa.Extract); isEx && ex.Index == 0 {
			if call, isC := ex.Tuple.(*ssa.Call); isC && c04IsStatCall(call) {
				return c04SizeTerm{kind: "store", call: call, ref: c04RefArg(call), desc: "size<-StatBlob(ref)"}
			}
		}
	}
	if fid, key, ok := c04MapLookup(v); ok {
		return c04SizeTerm{kind: "map", fid: fid, ref: key, desc: "size<-" + fid.String() + "[ref]"}
	}
	if call, ok := v.(*ssa.Call); ok && c04IsBlobMethod(call, "Size") && len(call.Call.Args) == 1 {
		t := c04SizeTerm{kind: "blob", blob: call.Call.Args[0], desc: "size<-Blob.Size()"}
		b := originValue(t.blob)
		if fid, key, isLk := c04MapLookup(b); isLk {
			t.fid, t.ref = fid, key
			t.desc = "size<-Blob.Size(" + fid.String() + "[ref])"
		} else if ex, isEx := b.(*ssa.Extract); isEx && ex.Index == 0 {
			if fc, isC := ex.Tuple.(*ssa.Call); isC && (CallSite{fc.Parent(), fc}).IsStatic(c04BlobPkg, "", "FromFetcher") {
				t.ref = c04RefArg(fc)
				t.desc = "size<-Blob.Size(FromFetcher(ref))"
			}
		}
		return t
	}
	return c04SizeTerm{kind: "other", desc: "size<-?"}
}

// c04SameBlob: two *blob.Blob values denote the same blob object (same value,
// or lookups of the same struct-field map under the same ref).
func c04SameBlob(a, b ssa.Value) bool {
	if sameOrigin(a, b) {
		return true
	}
	fa, ka, ok1 := c04MapLookup(originValue(a))
	fb, kb, ok2 := c04MapLookup(originValue(b))
	return ok1 && ok2 && fa == fb && c04SameRef(ka, kb)
}

// c04FieldWrites lists, package wide, the instructions that change a map held
// in struct field fid: map updates through a load of the field, and stores to
// the field itself (other than the initial composite literal of the struct).
func c04FieldWrites(fns []*ssa.Function, fid c04FieldID) (updates []*ssa.MapUpdate, assigns []*ssa.Store) {
	var visit func(f *ssa.Function)
	visit = func(f *ssa.Function) {
		for _, b := range f.Blocks {
			for _, in := range b.Instrs {
				switch x := in.(type) {
				case *ssa.MapUpdate:
					if ld, ok := originValue(x.Map).(*ssa.UnOp); ok && ld.Op == token.MUL {
						if id, isF := c04FieldOf(ld.X); isF && id == fid {
							updates = append(updates, x)
						}
					}
				case *ssa.Store:
					if id, isF := c04FieldOf(x.Addr); isF && id == fid {
						assigns = append(assigns, x)
					}
				}
			}
		}
		for _, a := range f.AnonFuncs {
			visit(a)
		}
	}
	for _, f := range fns {
		if f.Parent() == nil {
			visit(f)
		}
	}
	return updates, assigns
}

// c04ZipEntryWriter: v is the io.Writer returned by (*zip.Writer).Create*;
// returns the creating call.
func c04ZipEntryWriter(v ssa.Value) *ssa.Call {
	ex, ok := v.(*ssa.Extract)
	if !ok || ex.Index != 0 {
		return nil
	}
	call, ok := ex.Tuple.(*ssa.Call)
	if !ok {
		return nil
	}
	c := CallSite{call.Parent(), call}
	for _, n := range []string{"Create", "CreateHeader", "CreateRaw"} {
		if c.IsStatic("archive/zip", "Writer", n) {
			return call
		}
	}
	return nil
}

// c04Copy: one io.Copy-family call with its classified source.
type c04Copy struct {
	call    *ssa.Call
	src     ssa.Value   // innermost reader reached through known wrappers
	caps    []ssa.Value // CopyN length / LimitReader limits on the way
	entries []*ssa.Call // zip entry writers the destination depends on
}

func c04Copies(fn *ssa.Function) []c04Copy {
	var out []c04Copy
	for _, c := range CallsIn(fn, false) {
		call := c.Value()
		if call == nil {
			continue
		}
		var cp c04Copy
		switch {
		case c.IsStatic("io", "", "Copy"), c.IsStatic("io", "", "CopyBuffer"):
		case c.IsStatic("io", "", "CopyN"):
			cp.caps = append(cp.caps, call.Call.Args[2])
		default:
			continue
		}
		cp.call = call
		v := call.Call.Args[1]
		for i := 0; i < 16; i++ {
			v = originValue(v)
			inner, isCall := v.(*ssa.Call)
			if !isCall {
				break
			}
			ic := CallSite{inner.Parent(), inner}
			switch {
			case ic.IsStatic("io", "", "LimitReader"):
				cp.caps = append(cp.caps, inner.Call.Args[1])
				v = inner.Call.Args[0]
				continue
			case ic.IsStatic("io", "", "TeeReader"), ic.IsStatic("bufio", "", "NewReader"), ic.IsStatic("bufio", "", "NewReaderSize"), ic.IsStatic("io", "", "NopCloser"):
				v = inner.Call.Args[0]
				continue
			}
			break
		}
		cp.src = originValue(v)
		seenEntry := map[*ssa.Call]bool{}
		c04Depends(call.Call.Args[0], func(x ssa.Value) bool {
			if zc := c04ZipEntryWriter(x); zc != nil && !seenEntry[zc] {
				seenEntry[zc] = true
				cp.entries = append(cp.entries, zc)
			}
			return false
		})
		out = append(out, cp)
	}
	return out
}

// c04EntryNameRefs: the blob-ref holes of the name of the zip entry created by
// call (Create(name) / CreateHeader(&FileHeader{Name: ...})).
func c04EntryNameRefs(create *ssa.Call) (refs []ssa.Value, err string) {
	arg := create.Call.Args[1]
	var name ssa.Value
	if b, ok := arg.Type().Underlying().(*types.Basic); ok && b.Info()&types.IsString != 0 {
		name = arg
	} else {
		al, isAl := originValue(arg).(*ssa.Alloc)
		if !isAl {
			return nil, "the zip entry header is not a local composite literal"
		}
		for _, b := range al.Parent().Blocks {
			for _, in := range b.Instrs {
				st, isSt := in.(*ssa.Store)
				if !isSt {
					continue
				}
				if fa, isFA := st.Addr.(*ssa.FieldAddr); isFA && fa.X == ssa.Value(al) && fieldName(fa.X.Type(), fa.Field) == "Name" {
					if name != nil {
						return nil, "the zip entry name is assigned more than once"
					}
					name = st.Val
				}
			}
		}
		if name == nil {
			return nil, "the zip entry header has no Name"
		}
	}
	toks, e := c04Shape(name, 0)
	if e != "" {
		return nil, "the zip entry name cannot be evaluated: " + e
	}
	for _, t := range toks {
		if t.Hole && t.class() == "ref" {
			if t.Val == nil {
				return nil, "the zip entry name renders a ref inside a helper"
			}
			refs = append(refs, t.Val)
		}
	}
	return refs, ""
}

func c04ZWhole(p *Program, r *Reporter, writers []*c04Writer) {
	const rule = "Z-whole-blob"
	fn := p.Func(c04Rel, "packer", "writeAZip")
	key := FuncKey(fn)
	pkgFns := p.FuncsIn(c04Rel)
	recvs := c04LargeReceives(fn)
	copies := c04Copies(fn)
	r.Analysed("writeAZip_copy_calls", len(copies))

	// every path from `from` to a receive of the zip into large passes `via`
	covers := func(via, from ssa.Instruction) bool {
		if Precedes(via, from) {
			return true
		}
		if via.Parent() != from.Parent() || len(recvs) == 0 {
			return false
		}
		reach := ReachableFrom(from, func(in ssa.Instruction) bool { return in == via })
		for _, rc := range recvs {
			if reach[rc.c.Instr] {
				return false
			}
		}
		return true
	}

	// ---- the descriptions: b: rows of the batch and manifest entries
	var entries []c04WholeEntry
	bKind := c04StrConst(p, "blobMetaPrefix") + "<ref>"
	for _, w := range writers {
		if w.c.Fn != fn || w.kind != bKind {
			continue
		}
		ent := c04WholeEntry{kind: "b:-row", site: w.c.Instr}
		if w.keyErr != "" || w.valErr != "" {
			ent.undec = "row shape cannot be followed: " + w.keyErr + " " + w.valErr
			entries = append(entries, ent)
			continue
		}
		var vr, vs ssa.Value
		for _, t := range w.key {
			if t.Hole && t.class() == "ref" {
				vr = t.Val
			}
		}
		if fs, ok := c04Fields(w.val); ok && len(fs) > 0 && fs[0].class() == "int" {
			vs = fs[0].Val
		}
		if vr == nil || vs == nil {
			ent.undec = "the ref of the key or the size field (#0 of the value, as parseMetaRow reads it) is rendered inside a helper"
			entries = append(entries, ent)
			continue
		}
		entries = append(entries, c04PairUp(fn, "b:-row", w.c.Instr, vr, vs)...)
	}
	maniT := p.NamedType(c04Rel, "Manifest")
	for _, b := range fn.Blocks {
		for _, in := range b.Instrs {
			st, ok := in.(*ssa.Store)
			if !ok {
				continue
			}
			fa, ok := st.Addr.(*ssa.FieldAddr)
			if !ok || NamedOf(fa.X.Type()) != maniT {
				continue
			}
			sl, ok := st.Val.Type().Underlying().(*types.Slice)
			if !ok {
				continue
			}
			path, ri, si, ok := c04SizedRefPath(sl.Elem())
			if !ok {
				continue
			}
			kind := "manifest." + fieldName(fa.X.Type(), fa.Field)
			// new elements: literal arguments of the append; the base must be the field itself or a locally built slice
			var elems []c04RefSrc
			resolved := false
			if app, isApp := st.Val.(*ssa.Call); isApp {
				if bi, isB := app.Call.Value.(*ssa.Builtin); isB && bi.Name() == "append" && len(app.Call.Args) == 2 {
					selfBase := false
					if ld, isLd := app.Call.Args[0].(*ssa.UnOp); isLd && ld.Op == token.MUL {
						if fa2, isFA := ld.X.(*ssa.FieldAddr); isFA && fa2.X == fa.X && fa2.Field == fa.Field {
							selfBase = true
						}
					}
					if lit, isLit := c04VarargElems(app.Call.Args[1]); isLit && selfBase {
						for _, e := range lit {
							elems = append(elems, c04RefSrc{e, app})
						}
						resolved = true
					}
				}
			}
			if !resolved {
				es, ok := c04AppendElems(st.Val, map[ssa.Value]bool{})
				if !ok {
					entries = append(entries, c04WholeEntry{kind: kind, site: st, undec: "the manifest entries are not assembled element by element in this function"})
					continue
				}
				elems = es
			}
			fl := c04NewFlow(fn)
			for _, e := range elems {
				ent := c04WholeEntry{kind: kind, site: st}
				if ein, isIn := e.val.(ssa.Instruction); isIn {
					ent.site = ein
				}
				rv, okr := c04FieldVals(fl, e.val, append(append([]int{}, path...), ri), 0)
				sv, oks := c04FieldVals(fl, e.val, append(append([]int{}, path...), si), 0)
				switch {
				case !okr || !oks:
					ent.undec = "a field of the manifest entry cannot be followed to the value stored in it"
				case len(rv) != 1 || len(sv) != 1:
					ent.undec = fmt.Sprintf("the manifest entry has %d ref and %d size candidates; the rule pairs exactly one with one", len(rv), len(sv))
				default:
					ent.ref, ent.size = rv[0], sv[0]
				}
				entries = append(entries, ent)
			}
		}
	}
	r.Analysed("whole_blob_descriptions", len(entries))
	if len(entries) == 0 {
		r.Violation(rule, key+"#descriptions", p.Pos(fn.Pos()), "writeAZip builds no b: row and no manifest entry the rule can find")
	}

	isSizeOf := func(f *ssa.Call) func(ssa.Value) bool {
		return func(x ssa.Value) bool {
			t := c04ClassifySize(p, x)
			return t.kind == "store" && t.call == f
		}
	}
	// sizeEq: value v is the size reported by fetch f, or proven equal to it at block b
	sizeEq := func(v ssa.Value, f *ssa.Call, b *ssa.BasicBlock) bool {
		sv := c04StripWiden(p, v)
		if isSizeOf(f)(sv) {
			return true
		}
		eq, _ := c04ProvenEqual(p, b, sv, isSizeOf(f))
		return eq
	}

	seenConstruct := map[string]int{}
	for _, ent := range entries {
		site := p.Pos(ent.site.Pos())
		if ent.undec != "" {
			r.Undecided(rule, key+"#"+ent.kind+" ?", site, ent.undec)
			continue
		}
		term := c04ClassifySize(p, ent.size)
		base := key + "#" + ent.kind + " " + term.desc
		if n := seenConstruct[base]; n > 0 {
			base = fmt.Sprintf("%s/%d", base, n+1)
		}
		seenConstruct[key+"#"+ent.kind+" "+term.desc]++
		cSize, cBytes := base+"#size", base+"#bytes"
		srcs := c04RefSrcs(ent.ref)

		switch term.kind {
		case "other":
			r.Undecided(rule, cSize, site, "the recorded size is neither the size result of a Fetch/StatBlob, nor a lookup in a map field of the packer, nor the Size() of a *blob.Blob: the rule cannot relate it to the blob's real size")
			continue

		case "blob":
			// (iii) schema blobs: the *blob.Blob object is the whole blob of that ref
			okKey := term.ref != nil && c04SameRef(term.ref, ent.ref)
			switch {
			case term.ref == nil:
				r.Undecided(rule, cSize, site, "the *blob.Blob whose Size() is recorded is neither looked up in a map field of the packer nor obtained from blob.FromFetcher here")
			case !okKey && c04MaybeSameRef(term.ref, ent.ref):
				r.Undecided(rule, cSize, site, "the recorded size is the Size() of the Blob held for a ref that comes from the same collection as the recorded ref but is not the same value: the rule cannot tell that it is the same element")
			case !okKey:
				r.Violation(rule, cSize, site, "packed size may differ from the blob's size: the recorded size is the Size() of the Blob held for a different ref than the one recorded")
			case term.fid.named == nil:
				r.OK(rule, cSize, site, "recorded size is Size() of blob.FromFetcher(<the recorded ref>): FromFetcher reads exactly the size the store reports and refuses longer or shorter content")
			default:
				ups, assigns := c04FieldWrites(pkgFns, term.fid)
				bad := ""
				for _, u := range ups {
					good := false
					if ex, isEx := originValue(u.Value).(*ssa.Extract); isEx && ex.Index == 0 {
						if fc, isC := ex.Tuple.(*ssa.Call); isC && (CallSite{fc.Parent(), fc}).IsStatic(c04BlobPkg, "", "FromFetcher") {
							if ra := c04RefArg(fc); ra != nil && sameOrigin(ra, u.Key) {
								good = true
							}
						}
					}
					if !good {
						bad = fmt.Sprintf("%s (line %d) stores under a ref a Blob that is not blob.FromFetcher of that same ref", FuncKey(u.Parent()), c04Line(p, u.Pos()))
					}
				}
				for _, a := range assigns {
					if _, isMk := originValue(a.Val).(*ssa.MakeMap); !isMk {
						bad = fmt.Sprintf("%s (line %d) replaces the map %s", FuncKey(a.Parent()), c04Line(p, a.Pos()), term.fid)
					}
				}
				if len(ups) == 0 && bad == "" {
					bad = "no writer of " + term.fid.String() + " found"
				}
				if bad != "" {
					r.Undecided(rule, cSize, site, "cannot tell that the Blob held in "+term.fid.String()+" under a ref is that ref's whole blob: "+bad)
				} else {
					r.OK(rule, cSize, site, fmt.Sprintf("recorded size is Size() of %s[<the recorded ref>]; every writer of that map (%d) stores blob.FromFetcher(_, key) under key (FromFetcher reads exactly the size the store reports and refuses longer or shorter content)", term.fid, len(ups)))
				}
			}
			// bytes: a copy from a reader of the same Blob into a zip entry named after the same ref, on every path to the receive
			nGood, bad, undec := 0, "", ""
			for _, cp := range copies {
				ex, isEx := cp.src.(*ssa.Extract)
				var rd *ssa.Call
				if isEx && ex.Index == 0 {
					rd, _ = ex.Tuple.(*ssa.Call)
				} else {
					rd, _ = cp.src.(*ssa.Call)
				}
				if rd == nil || !c04IsBlobMethod(rd, "ReadAll") || !c04SameBlob(rd.Call.Args[0], term.blob) {
					if c04Depends(cp.call.Call.Args[1], func(x ssa.Value) bool {
						xc, isC := x.(*ssa.Call)
						return isC && c04IsBlobMethod(xc, "ReadAll") && c04SameBlob(xc.Call.Args[0], term.blob)
					}) {
						undec = fmt.Sprintf("the copy at line %d reads the Blob through a wrapper the rule does not know", c04Line(p, cp.call.Pos()))
					}
					continue
				}
				if len(cp.entries) == 0 || !covers(cp.call, ent.site) {
					continue
				}
				capOK := true
				for _, n := range cp.caps {
					sn := c04StripWiden(p, n)
					sc, isC := sn.(*ssa.Call)
					if !isC || !c04IsBlobMethod(sc, "Size") || !c04SameBlob(sc.Call.Args[0], term.blob) {
						capOK = false
					}
				}
				if !capOK {
					bad = fmt.Sprintf("the copy at line %d is capped at a length that is not the Blob's Size(): only a prefix of the blob may reach the zip while the row/manifest/zip header describe it as the blob", c04Line(p, cp.call.Pos()))
					continue
				}
				for _, zc := range cp.entries {
					refs, e := c04EntryNameRefs(zc)
					switch {
					case e != "":
						undec = e
					case len(refs) != 1:
						undec = fmt.Sprintf("the zip entry the blob is copied into is named with %d blob refs; foreachZipBlob/reindex derive the blob's ref from that name", len(refs))
					case !c04SameRef(refs[0], ent.ref) && c04MaybeSameRef(refs[0], ent.ref):
						undec = "the zip entry is named after a ref that comes from the same collection as the recorded ref but is not the same value"
					case !c04SameRef(refs[0], ent.ref):
						bad = fmt.Sprintf("the blob is copied into a zip entry (line %d) named after a different ref than the one recorded: reindex, which derives ref and size from the entry, maps the bytes to the wrong blob", c04Line(p, zc.Pos()))
					default:
						nGood++
					}
				}
			}
			switch {
			case bad != "":
				r.Violation(rule, cBytes, site, bad)
			case undec != "":
				r.Undecided(rule, cBytes, site, undec)
			case nGood == 0:
				r.Violation(rule, cBytes, site, "no io.Copy from ReadAll of the Blob whose Size() is recorded into a zip entry lies on every path from this description to the receive of the zip into large: the described bytes may not be in the zip")
			default:
				r.OK(rule, cBytes, site, "on every path to the receive of the zip: io.Copy of the uncapped reader of the same Blob into the zip entry named after the recorded ref")
			}
			continue
		}

		// "store" / "map": data chunks. For every source of the ref: a fetch of that ref before the
		// point where it is recorded, the recorded size equal to the fetch's, the fetch's reader copied whole.
		if term.ref == nil || !c04SameRef(term.ref, ent.ref) {
			if term.ref != nil && c04MaybeSameRef(term.ref, ent.ref) {
				r.Undecided(rule, cSize, site, "the size is obtained for a ref that comes from the same collection as the recorded ref but is not the same value: the rule cannot tell that it is the same element")
			} else {
				r.Violation(rule, cSize, site, "packed size may differ from the blob's size: the size is obtained for a different ref than the one it is recorded with")
			}
			continue
		}
		frozen := ""
		if term.kind == "map" {
			ups, assigns := c04FieldWrites([]*ssa.Function{fn}, term.fid)
			if len(ups)+len(assigns) > 0 {
				frozen = fmt.Sprintf("%s is modified inside writeAZip (%d site(s)): a comparison made at one point says nothing about the value read at another", term.fid, len(ups)+len(assigns))
			}
		}
		sizeBad, sizeUndec, sizeGood := "", frozen, ""
		bytesBad, bytesUndec, bytesGood := "", "", ""
		if len(srcs) == 0 {
			sizeUndec = "the recorded ref has no source the rule can find"
		}
		for _, src := range srcs {
			var gate ssa.Instruction = ent.site
			if src.app != nil {
				gate = src.app
			}
			gline := c04Line(p, gate.Pos())
			// the fetches of this ref that precede the gate
			var fetches []*ssa.Call
			if term.kind == "store" && src.app == nil {
				fetches = []*ssa.Call{term.call}
			} else {
				for _, c := range CallsIn(fn, false) {
					call := c.Value()
					if call == nil || !(c04IsFetchCall(call) || c04IsStatCall(call)) {
						continue
					}
					if sameOrigin(c04RefArg(call), src.val) && Precedes(call, gate) {
						fetches = append(fetches, call)
					}
				}
			}
			if len(fetches) == 0 {
				// the ref handed to a helper of the module: the fetch/compare/copy may live there
				helper := ""
				for _, c := range CallsIn(fn, false) {
					f := c.Callee()
					if f == nil || !InModule(f) || f.Blocks == nil || !Precedes(c.Instr, gate) {
						continue
					}
					for _, a := range c.Common().Args {
						if c04IsRef(a.Type()) && sameOrigin(a, src.val) {
							helper = FuncKey(f)
						}
					}
				}
				if helper != "" {
					sizeUndec = fmt.Sprintf("no Fetch/StatBlob of the ref in writeAZip itself precedes the point where it is recorded (line %d), but the ref is handed to %s: the rule does not follow the fetch, the size comparison and the copy into helpers", gline, helper)
					bytesUndec = sizeUndec
					continue
				}
				sizeBad = fmt.Sprintf("packed size may differ from the blob's size: the recorded size (%s) is never related to what the store reports for the blob — no Fetch/StatBlob of the ref precedes the point where the ref is recorded (line %d)", term.desc, gline)
				bytesBad = fmt.Sprintf("no Fetch of the ref precedes the point where it is recorded as written (line %d): nothing shows its bytes were copied into the zip", gline)
				continue
			}
			// (i) size
			okSize, weaker := false, ""
			for _, f := range fetches {
				switch term.kind {
				case "store":
					if src.app == nil {
						okSize = true
					} else {
						// the recorded size is a fetch size obtained in another iteration context: must be this fetch's
						okSize = okSize || term.call == f
					}
				case "map":
					fsz := ssa.Value(nil)
					if c04IsFetchCall(f) {
						fsz = ResultValue(f, 1)
					}
					if fsz == nil {
						continue
					}
					eq, wk := c04ProvenEqual(p, gate.Block(), fsz, func(x ssa.Value) bool {
						fid, k, ok := c04MapLookup(x)
						return ok && fid == term.fid && sameOrigin(k, src.val)
					})
					if eq {
						okSize = true
					} else if wk != "" {
						weaker = wk
					}
				}
			}
			switch {
			case okSize:
				sizeGood = fmt.Sprintf("where the ref is recorded (line %d) the size the store's Fetch reported for it is known == %s, the value recorded in the row/manifest", gline, strings.TrimPrefix(term.desc, "size<-"))
				if term.kind == "store" {
					sizeGood = "the recorded size is the size result of the Fetch/StatBlob of the recorded ref"
				}
			case weaker != "":
				sizeBad = fmt.Sprintf("packed size may differ from the blob's size: where the ref is recorded (line %d) the only dominating fact is fetchedSize %s %s, which does not establish equality — a part that references a prefix (or claims more than) the stored blob is packed with the part's size, the b: row/manifest then describe the blob with that size and its loose copy is removed", gline, weaker, strings.TrimPrefix(term.desc, "size<-"))
			default:
				sizeBad = fmt.Sprintf("packed size may differ from the blob's size: where the ref is recorded (line %d) no dominating == fact relates the size Fetch reported for the blob to %s, the value recorded in the row/manifest", gline, strings.TrimPrefix(term.desc, "size<-"))
			}
			// (ii) bytes
			nGood := 0
			for _, f := range fetches {
				if !c04IsFetchCall(f) {
					continue
				}
				rc := ResultValue(f, 0)
				if rc == nil {
					continue
				}
				for _, cp := range copies {
					derived := cp.src == rc || sameOrigin(cp.src, rc)
					if !derived {
						if c04Depends(cp.call.Call.Args[1], func(x ssa.Value) bool { return x == rc }) {
							bytesUndec = fmt.Sprintf("the copy at line %d reads the fetched blob through a wrapper the rule does not know", c04Line(p, cp.call.Pos()))
						}
						continue
					}
					if len(cp.entries) == 0 || !covers(cp.call, gate) {
						continue
					}
					capOK := true
					for _, n := range cp.caps {
						if !sizeEq(n, f, cp.call.Block()) {
							capOK = false
						}
					}
					if !capOK {
						// a capped copy is still whole when the number of bytes copied is proven equal to the blob's size
						cnt := ResultValue(cp.call, 0)
						if cnt != nil {
							if eq, _ := c04ProvenEqual(p, gate.Block(), cnt, func(x ssa.Value) bool { return sizeEq(x, f, gate.Block()) }); eq {
								capOK = true
							}
						}
					}
					if !capOK {
						bytesBad = fmt.Sprintf("the copy of the fetched blob into the zip (line %d) is capped (CopyN/LimitReader) at a length that is not proven equal to the size the store reported, and the copied count is not proven equal to it either: only a prefix of the blob reaches the zip, while its b: row makes the zip the only copy", c04Line(p, cp.call.Pos()))
						continue
					}
					nGood++
				}
			}
			if nGood > 0 {
				bytesGood = fmt.Sprintf("before the ref is recorded (line %d) the reader of the Fetch of the same ref is copied into a zip entry, uncapped or capped at a length proven equal to the fetched size", gline)
			} else if bytesBad == "" && bytesUndec == "" {
				bytesBad = fmt.Sprintf("no io.Copy of the reader returned by the Fetch of the ref into a zip entry precedes the point where the ref is recorded as written (line %d)", gline)
			}
		}
		switch {
		case sizeBad != "":
			r.Violation(rule, cSize, site, sizeBad)
		case sizeUndec != "":
			r.Undecided(rule, cSize, site, sizeUndec)
		default:
			r.OK(rule, cSize, site, sizeGood)
		}
		switch {
		case bytesBad != "":
			r.Violation(rule, cBytes, site, bytesBad)
		case bytesUndec != "":
			r.Undecided(rule, cBytes, site, bytesUndec)
		default:
			r.OK(rule, cBytes, site, bytesGood)
		}
	}
	r.Floor(rule, 6)
}
