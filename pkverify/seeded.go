package main

import (
	"encoding/json"
	"flag"
	"fmt"
	"os"
	"os/exec"
	"path/filepath"
	"runtime/debug"
	"sort"
	"strings"
)

// seededMain: pkverify seeded [-name substr] [-verif /verif] [-repo /repo]
//
// Runs the registered rules against every seeded breakage under
// <verif>/seeded/<id>/patch.diff WITHOUT touching /repo: the patch is applied
// to copies of the files it names in a temporary directory and the patched
// contents are handed to the loader as an in-memory overlay. Not a registered
// check; it measures what the checks catch (DESIGN.md §9). The official way
// (git -C /repo apply; run the checks; git checkout) gives the same verdicts.
func seededMain(args []string) int {
	fs := flag.NewFlagSet("seeded", flag.ExitOnError)
	name := fs.String("name", "", "only seeded changes whose directory name contains this")
	repo := fs.String("repo", "/repo", "repository")
	verif := fs.String("verif", "/verif", "verif dir")
	one := fs.String("one", "", "internal: run a single seeded dir in this process")
	allProps := fs.Bool("all", false, "run every property, not only the one named in meta.json")
	root := fs.String("root", "seeded", "sub-directory of <verif> holding the patches (seeded: breakages, must fire; benign: behaviour-preserving refactors, must stay silent)")
	fs.Parse(args)
	if *one != "" {
		return seededOne(*one, *repo, *verif, *allProps)
	}
	dirs, _ := filepath.Glob(filepath.Join(*verif, *root, "*", "patch.diff"))
	sort.Strings(dirs)
	caught, missed := 0, 0
	for _, pd := range dirs {
		d := filepath.Dir(pd)
		if *name != "" && !strings.Contains(filepath.Base(d), *name) {
			continue
		}
		a := []string{"seeded", "-one", d, "-repo", *repo, "-verif", *verif}
		if *allProps {
			a = append(a, "-all")
		}
		var out []byte
		for attempt := 0; attempt < 3; attempt++ {
			cmd := exec.Command(os.Args[0], a...)
			out, _ = cmd.CombinedOutput()
			so := string(out)
			if strings.Contains(so, "CAUGHT ") || strings.Contains(so, "MISSED ") || strings.Contains(so, "OTHER  ") || strings.Contains(so, "BROKEN ") {
				break
			}
			// no verdict line: the child died (e.g. killed under memory pressure); run it again
		}
		fmt.Print(string(out))
		if strings.Contains(string(out), "\nCAUGHT ") || strings.HasPrefix(string(out), "CAUGHT ") {
			caught++
		} else {
			missed++
		}
	}
	fmt.Printf("seeded: %d caught, %d not caught\n", caught, missed)
	return 0
}

type seededMeta struct {
	Property string `json:"property"`
	Title    string `json:"title"`
}

// patchOverlay applies patch.diff to copies of the files it touches and
// returns the overlay (absolute /repo path -> patched content).
func patchOverlay(patch, repo string) map[string][]byte {
	b, err := os.ReadFile(patch)
	if err != nil {
		brokenf("%v", err)
	}
	var files []string
	for _, ln := range strings.Split(string(b), "\n") {
		if strings.HasPrefix(ln, "+++ b/") {
			files = append(files, strings.TrimPrefix(ln, "+++ b/"))
		}
	}
	tmp, err := os.MkdirTemp("", "pkverify-seeded-")
	if err != nil {
		brokenf("%v", err)
	}
	defer os.RemoveAll(tmp)
	for _, f := range files {
		src, err := os.ReadFile(filepath.Join(repo, f))
		os.MkdirAll(filepath.Dir(filepath.Join(tmp, f)), 0o755)
		if err == nil {
			os.WriteFile(filepath.Join(tmp, f), src, 0o644)
		}
	}
	cmd := exec.Command("patch", "-p1", "-s", "-d", tmp, "-i", patch)
	if out, err := cmd.CombinedOutput(); err != nil {
		brokenf("patch %s does not apply to %s's working tree: %v\n%s", patch, repo, err, out)
	}
	ov := map[string][]byte{}
	for _, f := range files {
		nb, err := os.ReadFile(filepath.Join(tmp, f))
		if err != nil {
			brokenf("%v", err)
		}
		ov[filepath.Join(repo, f)] = nb
	}
	return ov
}

func seededOne(dir, repo, verif string, allProps bool) (code int) {
	id := filepath.Base(dir)
	defer func() {
		if e := recover(); e != nil {
			fmt.Printf("BROKEN %s: %v\n", id, e)
			code = 2
		}
	}()
	var meta seededMeta
	if b, err := os.ReadFile(filepath.Join(dir, "meta.json")); err == nil {
		json.Unmarshal(b, &meta)
	}
	ov := patchOverlay(filepath.Join(dir, "patch.diff"), repo)
	p := LoadProgram(repo, "quick", nil, ov)
	var ids []string
	for pid := range props {
		if allProps || pid == meta.Property || meta.Property == "" {
			ids = append(ids, pid)
		}
	}
	sort.Strings(ids)
	var fired []string
	hitOwn := false
	for _, pid := range ids {
		r := NewReporter(pid, p)
		func() {
			defer func() {
				if e := recover(); e != nil {
					if be, ok := e.(brokenErr); ok {
						fired = append(fired, fmt.Sprintf("%s: BROKEN(no verdict) %s", pid, be.msg))
						return
					}
					fired = append(fired, fmt.Sprintf("%s: PANIC %v", pid, e))
					_ = debug.Stack
				}
			}()
			props[pid].Run(p, r)
		}()
		known := map[string]bool{}
		for _, f := range loadFindings(filepath.Join(verif, "known_findings.json")) {
			if f.Property == pid && f.Status == "known" {
				known[f.Rule+" "+f.Construct] = true
			}
		}
		for _, o := range r.Obls {
			if o.Status != Discharged && !known[o.Key()] {
				fired = append(fired, fmt.Sprintf("%s: %s %s [%s] %s: %s", pid, o.Status, o.Rule, o.Construct, o.Site, o.Detail))
				if pid == meta.Property {
					hitOwn = true
				}
			}
		}
		for k, fl := range r.floors {
			if r.counts[k] < fl {
				fired = append(fired, fmt.Sprintf("%s: floor %s: %d < %d", pid, k, r.counts[k], fl))
				if pid == meta.Property {
					hitOwn = true
				}
			}
		}
	}
	switch {
	case hitOwn:
		fmt.Printf("CAUGHT %s (property %s)\n", id, meta.Property)
	case len(fired) > 0:
		fmt.Printf("OTHER  %s (property %s): only checks of other properties / no-verdict fired\n", id, meta.Property)
	default:
		fmt.Printf("MISSED %s (property %s)\n", id, meta.Property)
	}
	for _, f := range fired {
		fmt.Printf("    %s\n", f)
	}
	return 0
}
