package main

import (
	"bufio"
	"encoding/json"
	"fmt"
	"os"
	"path/filepath"
	"sort"
)

// notApplicable lists the properties that are deliberately not claimed.
var notApplicable = map[string]string{}

const staticNote = "Trusted base: go/packages+go/types+go/ssa (x/tools v0.50.0, go1.26.8) as a model of the compiled program; no alias analysis beyond receiver/parameter-rooted access paths and single-store locals; intra-procedural path rules with wrapper summaries of bound 1; anchors resolved by role or qualified name (a renamed anchor makes the check exit 2 'no verdict', not report a violation). Only the structural necessary conditions named in the level text are decided; the behavioural statement is not."

// manifestMain regenerates MANIFEST.json from the registered property specs.
func manifestMain(args []string) int {
	verif := "/verif"
	if len(args) > 0 {
		verif = args[0]
	}
	var ids []string
	for id := range props {
		ids = append(ids, id)
	}
	sort.Strings(ids)
	na := map[string]string{}
	for k, v := range notApplicable {
		na[k] = v
	}
	// every property in properties.jsonl must be claimed or listed
	f, err := os.Open(filepath.Join(verif, "properties.jsonl"))
	if err != nil {
		fmt.Fprintln(os.Stderr, err)
		return 2
	}
	sc := bufio.NewScanner(f)
	sc.Buffer(make([]byte, 1<<20), 1<<22)
	for sc.Scan() {
		var rec struct {
			ID string `json:"id"`
		}
		if json.Unmarshal(sc.Bytes(), &rec) == nil && rec.ID != "" {
			if props[rec.ID] == nil && na[rec.ID] == "" {
				na[rec.ID] = "not claimed in this commit: rules are designed in DESIGN.md §4 but the checker for them is not built/armed yet"
			}
		}
	}
	f.Close()
	var checks []map[string]any
	for _, id := range ids {
		ps := props[id]
		if _, isNA := notApplicable[id]; isNA {
			continue
		}
		checks = append(checks, map[string]any{
			"property_id":         id,
			"quick_cmd":           "./bin/run " + id + " quick",
			"thorough_cmd":        "./bin/run " + id + " thorough",
			"evidence_file":       "/verif/evidence/" + id + ".json",
			"replay_cmd_template": "./bin/run " + id + " quick",
			"engine":              "pkverify",
			"level_claimed":       map[string]any{"category": "other", "text": ps.LevelText, "design_ref": ps.DesignRef},
			"level_note":          staticNote,
			"technique":           ps.Technique,
		})
	}
	nas := []map[string]string{}
	var naIDs []string
	for k := range na {
		naIDs = append(naIDs, k)
	}
	sort.Strings(naIDs)
	for _, k := range naIDs {
		nas = append(nas, map[string]string{"property_id": k, "reason": na[k]})
	}
	m := map[string]any{
		"version":   1,
		"setup_cmd": "cd /verif/pkverify && PATH=/opt/veriftools/go1.26.8/bin:$PATH GOTOOLCHAIN=local GOFLAGS=-mod=mod GOPROXY=off GOSUMDB=off GOWORK=off go build -o /verif/bin/pkverify .",
		"hooks": map[string]any{
			"guard":            "verif",
			"enable":           "none needed: static analysis reads /repo's sources; no hooks are compiled in (guard name reserved, unused)",
			"baseline_off_cmd": "cd /repo && GOFLAGS=-mod=mod GOPROXY=off go test -vet=off -count=1 -timeout 25m ./...",
			"source_commits":   []string{},
			"add_only":         true,
		},
		"engines": []map[string]any{{
			"name":              "pkverify",
			"path":              "/verif/pkverify",
			"serves_properties": ids,
			"kind_free_text":    "repository-specific static analyser (go/packages + go/types + go/ssa + call graph): path, dominance, pairing, lockset, who-may-call, table-agreement and value-dependence rules over /repo's current source",
		}},
		"checks":         checks,
		"not_applicable": nas,
		"notes":          "Every check re-loads and re-analyses /repo's working tree on each run (nothing from /repo is executed). exit 0 = all obligations discharged or listed as known findings; exit 1 + VIOLATION line = an obligation violated/undecided or a rule found fewer instances than its floor; exit 2 = tree could not be analysed (type errors, unresolved anchor). Known findings and fixed defects: /verif/known_findings.json. `./bin/pkverify selftest` (not a registered check) runs the checker's own kill/silence mutants through in-memory overlays.",
	}
	b, _ := json.MarshalIndent(m, "", " ")
	if err := os.WriteFile(filepath.Join(verif, "MANIFEST.json"), append(b, '\n'), 0o644); err != nil {
		fmt.Fprintln(os.Stderr, err)
		return 2
	}
	fmt.Printf("wrote MANIFEST.json: %d checks, %d not applicable\n", len(checks), len(nas))
	return 0
}
